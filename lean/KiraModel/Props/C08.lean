/-
  C08 — resource life cycle: exact capacity accounting, prompt removal, no stale ids.

  Statements about the model of backend/resources.rs + atomic-arena + rtrb
  (Model/{Ring,Arena,ResourceStorage}.lean) and about the two-thread protocol
  Model/Conc/ResourceHandshake.lean.  `Reachable ar cap s`: `s` is reachable from the initial state
  of a storage of capacity `cap` under *some* interleaving of gameplay-thread and audio-thread
  atomic actions, of any length; `ar = false` is the granularity of the code (taking a resource
  out of the arena and pushing it onto the unused ring are two actions), `ar = true` merges those
  two into one action.  Core Lean only.
-/
import KiraModel.Proofs.HandLemmas
import KiraModel.Proofs.SelfStoreLemmas

namespace K
open Hand Store

/-- **capacity 0 gives the limit error.**  In every reachable state of a storage with capacity 0
    nothing has ever been created (the store is the empty initial store, the count is 0, no
    creation is in flight), a creation attempt (`try_reserve`) returns the limit error and changes
    nothing, and no step of either thread panics.  (Before kira commit 9d3e102 the first
    `try_reserve` indexed slot 0 of atomic-arena's empty slot vector and panicked; the arena
    controller itself still would: `Controller.tryReserve`.) -/
theorem C08_capacity_zero_limit {ar : Bool} {s : St} (h : Reachable ar 0 s) :
    s.store = Store.new 0 ∧ s.store.len = 0 ∧ s.gpc = .idle
    ∧ step ar s .gReserve = some (.ok s)
    ∧ (∀ l e, step ar s l ≠ some (.error e))
    ∧ (Controller.new 0).tryReserve = .error .indexOOB := by
  have z := zero_reachable h
  refine ⟨z.store, by rw [z.store]; rfl, z.gpc, ?_, zero_no_fault z, rfl⟩
  obtain ⟨store, marked, gpc, apc, nextId, mustGo⟩ := s
  have h1 := z.store; have h2 := z.gpc
  simp only at h1 h2; subst h1 h2
  simp only [step, Store.tryReserve_new_zero]

/-- **exact capacity accounting.**  In every reachable state of a storage of any capacity (0
    included) the reported count (`ResourceController::len`) equals
    reserved-not-yet-pushed + waiting-in-the-new-ring + alive-in-the-arena + marked-not-yet-removed,
    it never exceeds the capacity, and a creation attempt (`try_reserve`) succeeds — raising the
    count by one — exactly when the count is below the capacity; at capacity it returns the limit
    error and changes nothing.  It never panics. -/
theorem C08_capacity_exact {ar : Bool} {cap : Nat} {s : St} (h : Reachable ar cap s) :
    s.store.len = s.held.length + s.store.newRing.items.length + s.alive + s.doomed
    ∧ s.store.len ≤ cap
    ∧ (s.gpc = .idle →
        (s.store.len < cap → ∃ k s', step ar s .gReserve = some (.ok s') ∧ s'.gpc = .reserved k
            ∧ s'.store.len = s.store.len + 1)
        ∧ (s.store.len = cap → step ar s .gReserve = some (.ok s))) := by
  rcases Nat.eq_zero_or_pos cap with rfl | hc
  · obtain ⟨hst, hlen, hg, hres, _, _⟩ := C08_capacity_zero_limit h
    refine ⟨?_, by omega, fun _ => ⟨fun hlt => by omega, fun _ => hres⟩⟩
    simp only [St.held, hg, St.alive, St.doomed, hst]
    rfl
  have inv := inv_reachable hc h
  have wf := inv.wf
  have hoc := wf.ownCount
  have hil := iter_length wf
  have hpart := List.length_eq_countP_add_countP (fun p : Key × Res => s.test p.2) (l := s.store.arena.iter)
  have hcnt : List.countP (fun a : Key × Res => decide ¬s.test a.2 = true) s.store.arena.iter
      = List.countP (fun p : Key × Res => !s.test p.2) s.store.arena.iter := by
    congr 1; funext a; cases s.test a.2 <;> rfl
  refine ⟨?_, len_le wf, ?_⟩
  · simp only [ownIdx, List.length_append, List.length_map] at hoc
    simp only [Store.len, St.alive, St.doomed]; omega
  · intro hg
    have hheld : s.held = [] := by simp [St.held, hg]
    rw [hheld] at wf
    have spec := wf_tryReserve wf
    cases hr : s.store.tryReserve with
    | error e => simp [hr, ReserveSpec] at spec
    | ok p =>
      obtain ⟨ko, st⟩ := p
      cases ko with
      | none =>
        simp only [hr, ReserveSpec] at spec
        obtain ⟨rfl, hfull⟩ := spec
        refine ⟨fun hlt => by simp only [Store.len] at hlt; omega, fun _ => ?_⟩
        obtain ⟨store, marked, gpc, apc, nextId, mustGo⟩ := s
        simp only at hg hr; subst hg
        simp only [step, hr]
      | some k =>
        simp only [hr, ReserveSpec] at spec
        obtain ⟨_, hlt, hlen, _⟩ := spec
        refine ⟨fun _ => ⟨k, { s with store := st, gpc := .reserved k }, by simp only [step, hr]; rw [hg], rfl, by simpa [Store.len] using hlen⟩, fun he => ?_⟩
        simp only [Store.len] at he; omega

/-- **the new-resource ring can never be full, and nothing else panics either** — at the
    granularity of the code.  In every reachable state the only step that can panic is the audio
    thread's push onto the *unused* ring; in particular "new resource producer full", the
    `expect("error inserting resource")` of the insert loop, the arena's "iterator should not
    encounter a free slot" and `try_reserve` are unreachable under every interleaving. -/
theorem C08_queue_bounds_new {ar : Bool} {cap : Nat} {s : St} (h : Reachable ar cap s)
    (l : Label) (e : SFault) (hs : step ar s l = some (.error e)) :
    ar = false ∧ l = .aPushUnused ∧ e = .queueFull := by
  rcases Nat.eq_zero_or_pos cap with rfl | hc
  · exact absurd hs (zero_no_fault (zero_reachable h) l e)
  · exact no_fault (inv_reachable hc h) hs

/-- **the full statement of `C08_queue_bounds` is false of the code (finding).**  At the code's
    granularity there is an interleaving — every label enabled, no step skipped — after which the
    audio thread's `unused_resource_producer.push` finds the ring full
    (`panic!("unused resource producer is full")` on the audio thread). -/
theorem C08_queue_bounds_refuted_fine :
    run false (init 1) overflowWitness = .error .queueFull
    ∧ overflowWitness.length = 21 := by
  constructor
  · rfl
  · rfl

/-- **queue bounds at the granularity of the yield sites (partial).**  If taking a resource out of
    the arena and pushing it onto the unused ring is one atomic action, then under every
    interleaving `unused + new + arena ≤ capacity`, and *no* step panics: neither ring push can
    fail.  (Full statement — the same at the code's granularity — is refuted above; what is missing
    is atomicity of `DrainFilter::next` + `push` with respect to the creator's `try_reserve` +
    drain.) -/
theorem C08_queue_bounds_partial {cap : Nat} (hc : 0 < cap) {s : St} (h : Reachable true cap s) :
    s.store.unused.items.length + s.store.newRing.items.length + s.store.arena.order.length ≤ cap
    ∧ ∀ l e, step true s l ≠ some (.error e) := by
  have inv := inv_reachable hc h
  refine ⟨?_, fun l e hs => by have := no_fault inv hs; simp at this⟩
  have hub := inv.unusedBound rfl
  have hoc := inv.wf.ownCount
  have hheld : s.held.length ≥ s.pending := by
    simp only [St.held, St.pending]; cases s.gpc <;> simp
  simp only [ownIdx, List.length_append, List.length_map] at hoc
  omega

/-- **prompt removal.**  Whenever the audio thread is past the drain loop of a callback (in the
    insert loop, or back to idle), every key that was in the arena with its resource's flag set
    (handle dropped / sound finished) when that callback began no longer resolves, and its slot
    generation has been bumped (the slot went back to the free list at that moment: see
    `C08_slot_freed_on_removal`). -/
theorem C08_prompt_removal {ar : Bool} {cap : Nat} (hc : 0 < cap) {s : St} (h : Reachable ar cap s)
    (hpc : s.apc = .adding ∨ s.apc = .idle) :
    ∀ k ∈ s.mustGo, s.store.arena.get? k = none ∧ k.generation < s.store.ctrl.generation k.index := by
  have inv := inv_reachable hc h
  intro k hk
  have hst : s.stale k := by
    rcases inv.mustGo k hk with h1 | ⟨r, hnd, hap, _⟩
    · exact h1
    · rcases hpc with hp | hp <;> rw [hp] at hap <;> cases hap
  exact ⟨stale_get? inv.wf k hst, hst⟩

/-- what `mustGo` is: exactly the keys whose resource is in the arena and flagged when the callback begins -/
theorem C08_prompt_removal_scope {ar : Bool} {s s' : St} (hs : step ar s .aBegin = some (.ok s')) (k : Key) (x : Res)
    (hk : s.store.arena.get? k = some x) (hord : k.index ∈ s.store.arena.order) (hm : x ∈ s.marked) :
    k ∈ s'.mustGo := by
  simp only [step] at hs
  cases ha : s.apc <;> simp [ha] at hs
  subst hs
  simp only [List.mem_map, List.mem_filter]
  refine ⟨(k, x), ⟨(Arena.mem_iter _ _ _).mpr ⟨hord, ?_⟩, by simp [St.test, hm]⟩, rfl⟩
  simp only [Arena.get?] at hk
  cases hsl : s.store.arena.slots[k.index]? with
  | none => simp [hsl] at hk
  | some sl =>
    simp only [hsl] at hk
    split at hk
    · cases hk
    · rename_i hg; simp at hg; exact ⟨sl, rfl, hk, hg⟩

/-- **… one callback later if the audio thread had not yet picked the resource up**: the insert
    loop of a callback ends only when the new-resource ring is empty, so everything shipped before
    that moment is in the arena when the next callback begins (and is then covered by
    `C08_prompt_removal`). -/
theorem C08_pickup_complete {ar : Bool} {s s' : St} (hs : step ar s .aPopNew = some (.ok s'))
    (hidle : s'.apc = .idle) : s.store.newRing.items = [] ∧ s'.store = s.store := by
  simp only [step] at hs
  cases ha : s.apc <;> simp [ha] at hs
  cases hp : s.store.popNewInsert with
  | error e => simp [hp] at hs
  | ok p =>
    obtain ⟨ko, st⟩ := p
    cases ko with
    | some k => simp [hp] at hs; subst hs; simp at hidle
    | none =>
      simp [hp] at hs; subst hs
      simp only [popNewInsert] at hp
      cases hq : s.store.newRing.pop with
      | none =>
        simp [hq] at hp
        refine ⟨?_, hp.symm⟩
        simp only [Ring.pop] at hq
        cases hit : s.store.newRing.items <;> simp [hit] at hq ⊢
      | some q =>
        obtain ⟨⟨k, x⟩, r⟩ := q
        simp only [hq] at hp
        cases hi : s.store.arena.insertWithKey k x <;> simp [hi] at hp

/-- **the slot is reusable at once**: the step that takes a resource out of the arena lowers the
    reported count by one (so a creation that was refused can succeed immediately afterwards). -/
theorem C08_slot_freed_on_removal {ar : Bool} {cap : Nat} (hc : 0 < cap) {s s' : St} (h : Reachable ar cap s)
    (hs : step ar s .aVisit = some (.ok s')) (hrem : s'.store.arena.order ≠ s.store.arena.order) :
    s'.store.len + 1 = s.store.len := by
  have inv := inv_reachable hc h
  obtain ⟨wf, dr, mg, nh, ub⟩ := inv
  simp only [step] at hs
  cases ha : s.apc with
  | idle => simp [ha] at hs
  | adding => simp [ha] at hs
  | draining r hnd =>
    cases hnd with
    | some y => simp [ha] at hs
    | none =>
    cases r with
    | nil => simp [ha] at hs
    | cons i rest =>
      simp only [ha] at hs
      simp only [DrainInv, ha] at dr
      have hi : i ∈ s.store.arena.order := dr.2 i (by simp)
      have spec := wf_drainVisit s.test wf hi
      cases hv : s.store.drainVisit s.test i with
      | error e => simp [hv, VisitSpec] at spec
      | ok p =>
        obtain ⟨xo, st⟩ := p
        cases xo with
        | none =>
          simp only [hv, VisitSpec] at spec hs
          obtain ⟨rfl, _⟩ := spec
          simp at hs; subst hs; exact absurd rfl hrem
        | some x =>
          simp only [hv, VisitSpec] at spec
          obtain ⟨wf', _, _, _, hlen, _⟩ := spec
          cases ar with
          | false => simp [hv] at hs; subst hs; exact hlen
          | true =>
            simp only [hv, if_true] at hs
            cases hp : st.pushUnused x with
            | error e => simp [hp] at hs
            | ok st2 =>
              simp [hp] at hs; subst hs
              obtain ⟨_, hc2, _⟩ := wf_pushUnused x wf' hp
              simp only [Store.len, hc2]; exact hlen

/-- **no stale ids.**  (1) Slot generations never decrease along any run.  (2) A key that resolved
    and stops resolving in some step is stale from that moment (its generation is below its slot's).
    (3) A stale key never resolves again, in any state any run reaches afterwards — in particular not
    to a newer resource reusing its slot.  (4) A freshly reserved key is never stale. -/
theorem C08_no_stale_ids {ar : Bool} {cap : Nat} (hc : 0 < cap) {s : St} (h : Reachable ar cap s) :
    (∀ s', Steps ar s s' → ∀ j, s.store.ctrl.generation j ≤ s'.store.ctrl.generation j)
    ∧ (∀ s' l, step ar s l = some (.ok s') → ∀ k x, s.store.arena.get? k = some x → s'.store.arena.get? k = none →
        s'.stale k)
    ∧ (∀ k, s.stale k → ∀ s', Steps ar s s' → s'.store.arena.get? k = none ∧ s'.stale k)
    ∧ (∀ s' k, step ar s .gReserve = some (.ok s') → s'.gpc = .reserved k → ¬ s'.stale k) := by
  have hmono : ∀ s', Steps ar s s' → ∀ j, s.store.ctrl.generation j ≤ s'.store.ctrl.generation j := by
    intro s' hs
    induction hs with
    | refl => intro j; exact Nat.le_refl _
    | tail hst hstep ih =>
      intro j
      have := (step_facts (inv_reachable hc (hst.reachable h)) hstep).genMono j
      exact Nat.le_trans (ih j) this
  refine ⟨hmono, ?_, ?_, ?_⟩
  · intro s' l hs k x h1 h2
    exact (step_facts (inv_reachable hc h) hs).lost k x h1 h2
  · intro k hst s' hs
    have hst' : s'.stale k := Nat.lt_of_lt_of_le hst (hmono s' hs k.index)
    exact ⟨stale_get? (inv_reachable hc (hs.reachable h)).wf k hst', hst'⟩
  · intro s' k hs hg
    have inv' := inv_reachable hc (Reachable.step h hs)
    have := inv'.wf.heldGen k (by simp [St.held, hg])
    simp only [St.stale, this]; omega

/-- **destroyed off the audio thread.**  Every audio-thread step leaves the population of resource
    objects unchanged (same number, same members: a resource is only ever *moved* — arena → unused
    ring, new ring → arena) and destroys nothing; over all steps of both threads the only one that
    destroys a resource is the gameplay thread's pop of the unused ring inside a create call, and it
    destroys exactly the popped one.  (What is left in the rings is destroyed when the rings
    themselves are dropped, with the handle / manager — outside this model.) -/
theorem C08_destroyed_off_audio_thread {ar : Bool} {cap : Nat} (hc : 0 < cap) {s s' : St} {l : Label}
    (h : Reachable ar cap s) (hs : step ar s l = some (.ok s')) :
    (l.isAudio = true → s'.objects.length = s.objects.length ∧ (∀ x, x ∈ s'.objects ↔ x ∈ s.objects)
        ∧ s'.store.dropped = s.store.dropped)
    ∧ (s'.store.dropped = s.store.dropped ∨
        (l = .gPopUnused ∧ ∃ x, s'.store.dropped = s.store.dropped ++ [x] ∧ s.store.unused.items = x :: s'.store.unused.items)) := by
  have f := step_facts (inv_reachable hc h) hs
  refine ⟨fun ha => ⟨f.objLen ha, f.objMem ha, ?_⟩, f.dropped⟩
  rcases f.dropped with h1 | ⟨h1, _⟩
  · exact h1
  · subst h1; simp [Label.isAudio] at ha

/-- **the self-referential storage's `keys`.**  For a `SelfReferentialResourceStorage` (clocks,
    modulators, listeners) of capacity `cap > 0`, started empty and used through its operations
    (`SWF` is the invariant they maintain):
    (1) `keys` lists exactly the occupied arena slots, each once;
    (2) the remove half of `remove_and_add` never panics, keeps `keys` a sub-list of what it was (so
        the order of insertion is preserved), removes only flagged resources, leaves a flagged one in
        place only if the unused ring is full, and destroys nothing;
    (3) the add half appends the keys of the new-resource ring in FIFO order — so `keys` is always in
        insertion order;
    (4) `for_each` never panics, visits every resource exactly once in `keys` order (as many visits as
        occupied slots), hands `f` the resource itself while the resource's own id resolves to the
        dummy, and leaves `keys` and the shape of the arena unchanged. -/
theorem C08_selfref_keys {τ : Type} {cap : Nat} (hc : 0 < cap) (dummy : τ) :
    SelfStore.SWF cap [] (SelfStore.new cap dummy)
    ∧ ∀ (held : List Key) (ss : SelfStore τ), SelfStore.SWF cap held ss →
        ((ss.keys.map (·.index)).Nodup ∧ (∀ i, i ∈ ss.keys.map (·.index) ↔ i ∈ ss.base.arena.order))
        ∧ (∀ test : τ → Bool, ∃ ss', ss.drainPhase test = .ok ss' ∧ SelfStore.SWF cap held ss'
              ∧ ss'.keys.Sublist ss.keys ∧ ss'.base.dropped = ss.base.dropped
              ∧ (∀ k ∈ ss.keys, k ∉ ss'.keys → SelfStore.Flagged test ss.base k)
              ∧ (∀ k ∈ ss'.keys, SelfStore.Flagged test ss.base k → ss'.base.unused.isFull = true))
        ∧ (∀ ss', ss.addPhase = .ok ss' → SelfStore.SWF cap held ss'
              ∧ ss'.keys = ss.keys ++ ss.base.newRing.items.map (·.1))
        ∧ (∀ f : τ → Arena τ → τ, ∃ ss' vs, ss.forEach f = .ok (ss', vs) ∧ SelfStore.SWF cap held ss'
              ∧ ss'.keys = ss.keys ∧ vs.length = ss.base.arena.order.length
              ∧ vs.map (·.1) = ss.keys.filterMap (fun k => ss.base.arena.dataAt k.index)
              ∧ (∀ v ∈ vs, v.2 = some ss.dummy)) := by
  refine ⟨SelfStore.swf_new cap hc dummy, fun held ss h => ⟨⟨h.nodup, h.mem⟩, ?_, ?_, ?_⟩⟩
  · intro test
    obtain ⟨ss', h1, h2, h3, _, _, h6, h7, h8⟩ := SelfStore.swf_drainPhase test h
    exact ⟨ss', h1, h2, h3, h6, h7, h8⟩
  · intro ss' hs
    obtain ⟨h1, h2, _⟩ := SelfStore.swf_addPhase h hs
    exact ⟨h1, h2⟩
  · intro f
    obtain ⟨ss', vs, h1, h2, h3, _, h5, h6, h7⟩ := SelfStore.swf_forEach f h
    exact ⟨ss', vs, h1, h2, h3, h5, h6, h7⟩

/-- **a failed play does not consume capacity.**  `play` (main track, sub-track, spatial track) calls
    `SoundData::into_sound()` before it touches the track's sound storage: when that fails the result
    is `IntoSoundError` and the storage — controller (hence the reported count and the free slots),
    arena and both rings — is exactly what it was, so no sequence of failed plays can ever make a
    later play hit the limit; when it succeeds, `play` is `insert` (reserve + drain + push), whose
    accounting is `C08_capacity_exact`. -/
theorem C08_failed_play_no_leak {τ : Type} (s : Store τ) :
    s.play none = .ok (.intoSoundError, s)
    ∧ (∀ n : Nat, s.failedPlays n = .ok s)
    ∧ (∀ x, s.play (some x) = match s.insert x with
        | .error e => .error e
        | .ok (none, s1) => .ok (.limit, s1)
        | .ok (some k, s1) => .ok (.ok k, s1)) := by
  refine ⟨rfl, fun n => ?_, fun _ => rfl⟩
  induction n with
  | zero => rfl
  | succ n ih => simpa [Store.failedPlays, Store.play] using ih

/-! ### non-vacuity -/

/-- a reachable state with a full arena, a dropped handle and a callback in progress: the
    hypotheses of the theorems above are satisfiable in a non-trivial state -/
example : ∃ s, Reachable false 2 s ∧ s.store.len = 1 ∧ s.apc = .draining [] (some 0) ∧ s.mustGo = [⟨0, 0⟩] :=
  ⟨finalOf (run false (init 2) [.gReserve, .gPopUnused, .gPushNew, .gReserve, .gPopUnused, .gPushNew, .aBegin,
       .aEndDrain, .aPopNew, .aPopNew, .aPopNew, .mark 0, .aBegin, .aVisit, .aVisit]),
   run_reachable Reachable.init _ (ok_of_isOk (by rfl)), by rfl, by rfl, by rfl⟩

/-- the limit error really occurs (capacity 1, second creation) and the count really is 1 -/
example : (match run true (init 1) [.gReserve, .gPopUnused, .gPushNew, .gReserve] with
    | .ok s => (s.store.len, s.gpc) | .error _ => (0, .idle)) = (1, .idle) := by rfl

/-- a removed key is stale and its slot is reused by a different key -/
example : (match run true (init 1) [.gReserve, .gPopUnused, .gPushNew, .aBegin, .aEndDrain, .aPopNew, .aPopNew, .mark 0,
      .aBegin, .aVisit, .aEndDrain, .aPopNew, .gReserve] with
    | .ok s => (s.store.arena.get? ⟨0, 0⟩, s.gpc, s.store.dropped) | .error _ => (none, .idle, [])) =
    (none, .reserved ⟨0, 1⟩, []) := by rfl

/-- a self-referential storage with two resources: `keys` is in insertion order, `for_each` visits
    them in that order, each seeing the dummy under its own id, and writes the modified resources back -/
example : (match (Store.new 2 : Store Nat).insert 10 with
    | .ok (_, b1) => match b1.insert 11 with
      | .ok (_, b2) => match (SelfStore.mk b2 [] 99).removeAndAdd (fun _ => false) with
        | .ok ss => match ss.forEach (fun x _ => x + 1) with
          | .ok (ss', vs) => (ss.keys, vs, ss'.base.iter.map (·.2))
          | .error _ => ([], [], [])
        | .error _ => ([], [], [])
      | .error _ => ([], [], [])
    | .error _ => ([], [], [])) = ([⟨0, 0⟩, ⟨1, 0⟩], [(10, some 99), (11, some 99)], [12, 11]) := by rfl

end K
