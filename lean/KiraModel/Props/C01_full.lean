/-
  C01 (whole system) — what the audio device receives from a COMPLETE scene, proved about the whole-system
  model `Model/System.lean`: the mixer / renderer model of C02 instantiated with the real component models
  (static sounds of C04, the eight effects of C13/C14 with nested delay feedback chains, clocks of C05 and the
  modulators of C17 stepped in the renderer's chunk order).  These are the definitions the `syscore` twin runs
  bit-for-bit against kira through the public API.

  * `C01_real_components_length_preserving` — the hypothesis `Comps.LenPres` that every C02 / C11 / C12 theorem
    makes about abstract components holds for the real ones (`StaticSound::process`, each effect's `process`).
  * `C01_system_invariant` — the scratch-buffer invariant of C02 holds in every reachable state of the system
    (every history of manager / handle operations, sample-rate changes and callbacks).
  * `C01_system_output_wellformed` — in every such state, every device callback returns exactly
    `frames · channels` samples, each in [−1, 1], mono = mean of the clamped bus, extra channels exactly 0
    (by composing `C02_renderer_chunks` and `C02_final_stage` with the instantiated model), and leaves the
    invariant in place.
  * `C01_system_each_component_once` — `C02_each_frame_once` for the real components: every live sound and
    effect is asked for every frame exactly once, in slices of at most the internal buffer size.
-/
import KiraModel.Proofs.SystemLemmas
import KiraModel.Props.C02

set_option linter.unusedSectionVars false

namespace K

section generic
variable {α : Type} [Add α] [Sub α] [Mul α] [Div α] [Neg α] [LT α] [LE α]
  [DecidableLT α] [DecidableLE α] [OfScientific α] [KOps α]

/-- **The real components cannot resize the slice they are lent.**  For every number type (so also for the
    Float twin): `StaticSound::process` on `len` frames writes exactly `len` frames; each of the eight
    effects (filter, EQ, distortion, compressor, reverb, volume, panning, and the delay with ANY feedback
    chain of such effects, nested to any depth) returns as many frames as it was given; hence the component
    record of the whole-system model satisfies `Comps.LenPres`, the only hypothesis C02's theorems make. -/
theorem C01_real_components_length_preserving (fuel n : Nat) :
    (sysComps fuel n : Comps α (SysSnd α) (SysFx α n) (SysSpatial α)).LenPres
      ∧ (∀ (s : StaticSound α) (len : Nat) (dt : α) (info : Info α) (r : StaticSound α × List (Frame α)),
            s.process fuel len dt info = .ok r → r.2.length = len)
      ∧ (∀ (e : FxN α n) (xs : List (Frame α)) (dt : α) (info : Info α) (r : FxN α n × List (Frame α)),
            (fxOpsN n).process e xs dt info = .ok r → r.2.length = xs.length) :=
  ⟨sysComps_lenPres fuel n, fun s len dt info r h => StaticSound.process_length fuel s len dt info r h,
   fun e xs dt info r h => fxOpsN_lenOk n e xs dt info r h⟩

/-- the histories of the whole-system model: everything the public API (and the backend) can do to it -/
inductive System.Reach {n : Nat} : System α n → Prop
  /-- `AudioManager::new` (any main-track builder, internal buffer size ≥ 1) -/
  | new (fuel ibs sr : Nat) (hibs : 1 ≤ ibs) (v : Value α α) (fx : List (SysFx α n)) :
      System.Reach (System.new fuel ibs sr v fx)
  /-- a device callback (`on_start_processing` + `process`), whatever the components did in it -/
  | callback (s : System α n) (frames ch : Nat) (hch : 1 ≤ ch) (r' : Renderer α (SysSnd α) (SysFx α n) (SysSpatial α) (SysEnv α))
      (samples : List α) (h : System.Reach s)
      (hp : (s.r.onStart s.C s.V).process s.C s.V frames ch = .ok (r', samples)) :
      System.Reach { s with r := r' }
  /-- the device sample rate changes -/
  | changeRate (s : System α n) (sr : Nat) (h : System.Reach s) : System.Reach (s.changeRate sr)
  | addSubTrack (s : System α n) (parent : Option Nat) (id : Nat) (v : Value α α) (fx : List (SysFx α n))
      (sends : List (Nat × Value α α)) (persist : Bool) (h : System.Reach s) :
      System.Reach (s.addSubTrack parent id v fx sends persist)
  /-- `add_spatial_sub_track` on the manager or on any (spatial or plain) track handle -/
  | addSpatialSubTrack (s : System α n) (parent : Option Nat) (id : Nat) (sp : SysSpatial α) (v : Value α α)
      (fx : List (SysFx α n)) (sends : List (Nat × Value α α)) (persist : Bool) (h : System.Reach s) :
      System.Reach (s.addSpatialSubTrack parent id sp v fx sends persist)
  | addSendTrack (s : System α n) (id : Nat) (v : Value α α) (fx : List (SysFx α n)) (h : System.Reach s) :
      System.Reach (s.addSendTrack id v fx)
  | play (s s' : System α n) (track : Option Nat) (id : Nat) (d : StaticSoundData α) (h : System.Reach s)
      (hp : s.play track id d = .ok s') : System.Reach s'
  /-- any `StaticSoundHandle` method -/
  | soundCommand (s : System α n) (sid : Nat) (c : Command α) (h : System.Reach s) : System.Reach (s.soundCommand sid c)
  /-- any effect handle method -/
  | fxCommand (s : System α n) (eid : Nat) (c : FxCmd α) (h : System.Reach s) : System.Reach (s.fxCommand eid c)
  /-- any `TrackHandle` method that writes a command slot, pushes a sound or marks the track dropped
      (`set_volume`, `set_send`, `pause`, `resume_at`, `Drop`: they edit the track's data, not its scratch) -/
  | trackOp (s : System α n) (id : Nat)
      (g : TrkData α (SysSnd α) (SysFx α n) (SysSpatial α) → TrkData α (SysSnd α) (SysFx α n) (SysSpatial α))
      (hg : ∀ d, (g d).temp = d.temp) (h : System.Reach s) :
      System.Reach (s.withMixer (Mixer.mapTrack id (Trk.mapData g)))
  | setMainVolume (s : System α n) (v : Value α α) (tw : Tween α) (h : System.Reach s) :
      System.Reach (s.withMixer (Mixer.hSetMainVolume v tw))
  /-- any `SendTrackHandle` method (`set_volume`, `Drop`) -/
  | sendOp (s : System α n) (id : Nat) (f : SendTrk α (SysFx α n) → SendTrk α (SysFx α n))
      (hf : ∀ x, (f x).input = x.input) (h : System.Reach s) : System.Reach (s.withMixer (Mixer.mapSend id f))
  /-- anything that happens to clocks, modulators and listeners (`add_clock`, `add_modulator`, `add_listener`,
      every clock / LFO / tweener / listener handle method, handle drops): the mixer's buffers are not involved -/
  | envOp (s : System α n) (f : SysEnv α → SysEnv α) (h : System.Reach s) : System.Reach (s.withEnv f)

/-- the operations of the twin are of the admitted forms (the clock / modulator ones are `withEnv`) -/
theorem System.reach_env_ops {n : Nat} (s : System α n) (h : System.Reach s) :
    (∀ id speed, System.Reach (s.addClock id speed)) ∧ (∀ id c, System.Reach (s.clockCommand id c))
      ∧ (∀ id m, System.Reach (s.addModulator id m)) ∧ (∀ id f, System.Reach (s.modCommand id f)) :=
  ⟨fun _ _ => .envOp s _ h, fun _ _ => .envOp s _ h, fun _ _ => .envOp s _ h, fun _ _ => .envOp s _ h⟩

/-- the listener operations are `withEnv`; the two `SpatialTrackHandle`-only methods are track operations
    that leave the scratch buffer alone -/
theorem System.reach_spatial_ops {n : Nat} (s : System α n) (h : System.Reach s) :
    (∀ id p o, System.Reach (s.addListener id p o)) ∧ (∀ id f, System.Reach (s.listenerCommand id f))
      ∧ (∀ id v tw, System.Reach (s.setSpatialPosition id v tw))
      ∧ (∀ id v tw, System.Reach (s.setSpatialStrength id v tw)) :=
  ⟨fun _ _ _ => .envOp s _ h, fun _ _ => .envOp s _ h,
   fun id _ _ => .trackOp s id _ (fun _ => rfl) h, fun id _ _ => .trackOp s id _ (fun _ => rfl) h⟩

theorem Renderer.specChunks_ibs {S E P X : Type} (C : Comps α S E P) (V : EnvOps α X) (ch : Nat) (ns : List Nat)
    (r : Renderer α S E P X) : (Renderer.specChunks C V ch r ns).1.ibs = r.ibs := by
  induction ns generalizing r with
  | nil => rfl
  | cons m ms ih => simp only [Renderer.specChunks]; rw [ih]; rfl

/-- a device callback on a state satisfying the invariant succeeds as the chunk specification and re-establishes
    the invariant -/
theorem System.callback_spec {n : Nat} (s : System α n) (hs : s.Ok) (frames ch : Nat) (hch : 1 ≤ ch) :
    (s.r.onStart s.C s.V).process s.C s.V frames ch
        = .ok (Renderer.specChunks s.C s.V ch (s.r.onStart s.C s.V) (chunkSizes frames s.r.ibs frames))
      ∧ (s.r.onStart s.C s.V).Clean
      ∧ ({ s with r := (Renderer.specChunks s.C s.V ch (s.r.onStart s.C s.V) (chunkSizes frames s.r.ibs frames)).1 }
            : System α n).Ok := by
  have hclean : (s.r.onStart s.C s.V).Clean := ⟨hs.1.1, Mixer.onStart_clean _ _ _ hs.1.2⟩
  have hibs0 : (s.r.onStart s.C s.V).ibs = s.r.ibs := rfl
  have hne : (s.r.onStart s.C s.V).ibs * ch ≠ 0 := by
    rw [hibs0]; exact Nat.mul_ne_zero (by have := hs.2; omega) (by omega)
  obtain ⟨h1, h2⟩ := (C02_renderer_chunks s.C s.V (sysComps_lenPres s.fuel n) _ hclean frames ch).2 hne
  rw [hibs0] at h1 h2
  refine ⟨h1, hclean, h2, ?_⟩
  show 1 ≤ (Renderer.specChunks s.C s.V ch (s.r.onStart s.C s.V) (chunkSizes frames s.r.ibs frames)).1.ibs
  rw [Renderer.specChunks_ibs, hibs0]; exact hs.2

theorem System.callback_ok {n : Nat} (s : System α n) (hs : s.Ok) (frames ch : Nat) (hch : 1 ≤ ch)
    (r' : Renderer α (SysSnd α) (SysFx α n) (SysSpatial α) (SysEnv α)) (samples : List α)
    (hp : (s.r.onStart s.C s.V).process s.C s.V frames ch = .ok (r', samples)) :
    ({ s with r := r' } : System α n).Ok := by
  obtain ⟨h1, _, h3⟩ := System.callback_spec s hs frames ch hch
  rw [h1] at hp
  simp only [Except.ok.injEq] at hp
  rw [hp] at h3; exact h3

/-- **The scratch-buffer invariant holds in every reachable state of the whole system**: the renderer's bus,
    the mixer's, main track's and every sub-track's `temp_buffer` (rings included) and every send track's
    `input` are `internal_buffer_size` frames of silence between any two operations — for every scene and
    every history of manager / handle operations, sample-rate changes and callbacks. -/
theorem C01_system_invariant {n : Nat} (s : System α n) (h : System.Reach s) : s.Ok := by
  induction h with
  | new fuel ibs sr hibs v fx => exact System.new_ok fuel ibs sr hibs v fx
  | callback s frames ch hch r' samples _ hp ih => exact System.callback_ok s ih frames ch hch r' samples hp
  | changeRate s sr _ ih => exact System.changeRate_ok s sr ih
  | addSubTrack s parent id v fx sends persist _ ih => exact System.addSubTrack_ok s parent id v fx sends persist ih
  | addSpatialSubTrack s parent id sp v fx sends persist _ ih =>
    exact System.addSpatialSubTrack_ok s parent id sp v fx sends persist ih
  | addSendTrack s id v fx _ ih => exact System.addSendTrack_ok s id v fx ih
  | play s s' track id d _ hp ih => exact System.play_ok s track id d s' hp ih
  | soundCommand s sid c _ ih => exact System.soundCommand_ok s sid c ih
  | fxCommand s eid c _ ih => exact System.fxCommand_ok s eid c ih
  | trackOp s id g hg _ ih => exact System.trackOp_ok s id g hg ih
  | setMainVolume s v tw _ ih => exact System.setMainVolume_ok s v tw ih
  | sendOp s id f hf _ ih => exact System.sendOp_ok s id f hf ih
  | envOp s f _ ih => exact System.withEnv_ok s f ih

/-- the device samples of a run of chunks are the frame-wise conversion of a bus of as many frames as the
    chunks add up to -/
theorem Renderer.specChunks_bus {S E P X : Type} (C : Comps α S E P) (V : EnvOps α X) (hC : C.LenPres) (ch : Nat)
    (r : Renderer α S E P X) (hr : r.Clean) (ns : List Nat) (hns : ∀ m ∈ ns, m ≤ r.ibs) :
    ∃ bus : List (Frame α), bus.length = ns.sum
      ∧ (Renderer.specChunks C V ch r ns).2 = (bus.map (frameToChannels ch)).flatten := by
  induction ns generalizing r with
  | nil => exact ⟨[], rfl, rfl⟩
  | cons m ms ih =>
    have hm : m ≤ r.ibs := hns m (by simp)
    obtain ⟨_, hc⟩ := Renderer.processChunk_spec C V hC r hr m ch hm
    have hibs : (r.specChunk C V m ch).1.ibs = r.ibs := rfl
    obtain ⟨bus, hb1, hb2⟩ := ih (r.specChunk C V m ch).1 hc (fun k hk => by rw [hibs]; exact hns k (by simp [hk]))
    have hlen := (Mixer.refines C hC r.ibs r.mixer hr.2 m hm r.dt
      (V.info (V.step r.env (r.dt * (KOps.ofNat m : α))))).2.1
    refine ⟨(Mixer.spec C r.mixer m r.dt (V.info (V.step r.env (r.dt * (KOps.ofNat m : α))))).2 ++ bus, ?_, ?_⟩
    · simp [hlen, hb1]
    · simp only [Renderer.specChunks, hb2, List.map_append, List.flatten_append]
      rfl

/-- **Each frame exactly once, for the real components.**  Give every static sound and every effect of the
    whole-system model a ghost log of the slice lengths it is asked for (`Comps.logged`: written, never read —
    the components evolve exactly as without it).  For any clean renderer state whose sub-tracks are simply
    playing, a device callback of `frames` frames appends to the log of EVERY sound and EVERY effect exactly
    `[ibs, …, ibs, frames % ibs]`: each is asked once per chunk, in order, never for more than the internal
    buffer size, and the lengths add up to `frames`.  (Frozen sub-trees are asked for nothing:
    `C12_pause_freezes_subtree`.) -/
theorem C01_system_each_component_once (fuel n : Nat)
    (r : Renderer α (SysSnd α × List Nat) (SysFx α n × List Nat) (SysSpatial α) (SysEnv α)) (hr : r.Clean)
    (hs : Trk.SteadyList r.mixer.subTracks) (hibs : 0 < r.ibs) (frames ch : Nat) :
    Mixer.logs Prod.snd Prod.snd
        (Renderer.processLoop (sysComps fuel n).logged SysEnv.envOps ch frames r frames).1.mixer
        = (Mixer.logs Prod.snd Prod.snd r.mixer).map (· ++ chunkSizes frames r.ibs frames)
      ∧ chunkSizes frames r.ibs frames
          = List.replicate (frames / r.ibs) r.ibs ++ (if frames % r.ibs = 0 then [] else [frames % r.ibs])
      ∧ (∀ c ∈ chunkSizes frames r.ibs frames, 0 < c ∧ c ≤ r.ibs)
      ∧ (chunkSizes frames r.ibs frames).sum = frames
      ∧ (∀ (s : SysSnd α × List Nat) buf dt info,
            (((sysComps fuel n).logged.sndStep s buf dt info).1.1, ((sysComps fuel n).logged.sndStep s buf dt info).2)
              = (sysComps fuel n).sndStep s.1 buf dt info)
      ∧ (∀ (e : SysFx α n × List Nat) buf dt info,
            (((sysComps fuel n).logged.fxStep e buf dt info).1.1, ((sysComps fuel n).logged.fxStep e buf dt info).2)
              = (sysComps fuel n).fxStep e.1 buf dt info) := by
  obtain ⟨h1, h2, h3, h4⟩ := C02_each_frame_once (sysComps fuel n).logged SysEnv.envOps
    ((sysComps fuel n).logged_lenPres (sysComps_lenPres fuel n)) Prod.snd Prod.snd
    ((sysComps fuel n).logged_logging) r hr hs hibs frames ch
  exact ⟨h1, h2, h3, h4, fun _ _ _ _ => rfl, fun _ _ _ _ => rfl⟩

end generic

/-! ### over the reals: what the device receives -/

theorem flatten_map_singleton {β γ : Type} (g : β → γ) (l : List β) : (l.map (fun b => [g b])).flatten = l.map g := by
  induction l with
  | nil => rfl
  | cons b bs ih => simp [ih]

/-- **Well-formed output of the whole system.**  Take ANY state of the whole-system model that satisfies the
    invariant (every reachable one does: `C01_system_invariant`) — any scene: track trees, sends, static
    sounds in any playback state, any of the eight effects anywhere, clocks, modulators, commands in flight —
    and ANY device callback (`frames` frames, `ch ≥ 1` channels).  `Renderer::on_start_processing` followed by
    `Renderer::process` does not fault, and the device buffer is the frame-by-frame conversion of a bus of
    exactly `frames` frames: it has exactly `frames · ch` samples; every sample lies in [−1, 1]; with one
    channel each sample is the mean of the clamped left and right bus values; with two or more channels each
    frame is `clamp left, clamp right, 0, …, 0`; and the invariant holds again afterwards. -/
theorem C01_system_output_wellformed {n : Nat} (s : System ℝ n) (hs : s.Ok) (frames ch : Nat) (hch : 1 ≤ ch) :
    ∃ (r' : Renderer ℝ (SysSnd ℝ) (SysFx ℝ n) (SysSpatial ℝ) (SysEnv ℝ)) (samples : List ℝ) (bus : List (Frame ℝ)),
      (s.r.onStart s.C s.V).process s.C s.V frames ch = .ok (r', samples)
        ∧ ({ s with r := r' } : System ℝ n).Ok
        ∧ bus.length = frames
        ∧ samples = (bus.map (frameToChannels ch)).flatten
        ∧ samples.length = frames * ch
        ∧ (∀ x ∈ samples, -1 ≤ x ∧ x ≤ 1)
        ∧ (ch = 1 → samples = bus.map (fun f => (max (-1) (min f.left 1) + max (-1) (min f.right 1)) / 2))
        ∧ (2 ≤ ch → samples = (bus.map (fun f =>
              max (-1) (min f.left 1) :: max (-1) (min f.right 1) :: List.replicate (ch - 2) (0 : ℝ))).flatten) := by
  have hC := sysComps_lenPres (α := ℝ) s.fuel n
  obtain ⟨h1, hclean, hok⟩ := System.callback_spec s hs frames ch hch
  have hibs0 : (s.r.onStart s.C s.V).ibs = s.r.ibs := rfl
  have hb := chunkSizes_bound frames s.r.ibs frames
  obtain ⟨bus, hb1, hb2⟩ := Renderer.specChunks_bus s.C s.V hC ch _ hclean (chunkSizes frames s.r.ibs frames)
    (fun m hm => by rw [hibs0]; exact (hb m hm).1)
  rw [chunkSizes_sum frames _ frames (by have := hs.2; omega) (Nat.le_refl _)] at hb1
  have hfs := fun f => C02_final_stage f ch hch
  refine ⟨_, _, bus, h1, hok, hb1, hb2, ?_, ?_, ?_, ?_⟩
  · rw [hb2]
    have : ∀ l : List (Frame ℝ), ((l.map (frameToChannels ch)).flatten).length = l.length * ch := by
      intro l
      induction l with
      | nil => simp
      | cons f fs ih =>
        simp only [List.map_cons, List.flatten_cons, List.length_append, ih, List.length_cons, (hfs f).2.2.1]
        rw [Nat.add_mul, Nat.one_mul, Nat.add_comm]
    rw [this, hb1]
  · intro x hx
    rw [hb2] at hx
    simp only [List.mem_flatten, List.mem_map] at hx
    obtain ⟨l, ⟨f, _, rfl⟩, hxl⟩ := hx
    exact (hfs f).2.2.2 x hxl
  · intro h1c
    rw [hb2, ← flatten_map_singleton (fun f : Frame ℝ => (max (-1) (min f.left 1) + max (-1) (min f.right 1)) / 2)]
    congr 1
    exact List.map_congr_left (fun f _ => (hfs f).1 h1c)
  · intro h2c
    rw [hb2]
    congr 1
    exact List.map_congr_left (fun f _ => (hfs f).2.1 h2c)

/-- the same for every reachable state: all scenes, all histories -/
theorem C01_system_output_wellformed_reachable {n : Nat} (s : System ℝ n) (h : System.Reach s) (frames ch : Nat)
    (hch : 1 ≤ ch) :
    ∃ (r' : Renderer ℝ (SysSnd ℝ) (SysFx ℝ n) (SysSpatial ℝ) (SysEnv ℝ)) (samples : List ℝ),
      (s.r.onStart s.C s.V).process s.C s.V frames ch = .ok (r', samples)
        ∧ System.Reach ({ s with r := r' } : System ℝ n)
        ∧ samples.length = frames * ch ∧ (∀ x ∈ samples, -1 ≤ x ∧ x ≤ 1) := by
  obtain ⟨r', samples, _, hp, _, _, _, hl, hr, _, _⟩ :=
    C01_system_output_wellformed s (C01_system_invariant s h) frames ch hch
  exact ⟨r', samples, hp, .callback s frames ch hch r' samples h hp, hl, hr⟩

/-! ### non-vacuity -/

/-- a low-pass filter, as its builder makes it -/
noncomputable def exFilter : BaseFx ℝ := .filter (Filter.new .lowPass (.fixed 1000) (.fixed 0) (.fixed 1))

/-- a delay whose feedback chain holds a reverb (depth 1) -/
noncomputable def exDelay : FxN ℝ 1 :=
  FxOver.delay (Delay.new 1000000 (.fixed (-6)) (.fixed (1 / 2))
    ([(FxOver.base (.reverb (Reverb.new (.fixed (9 / 10)) (.fixed (1 / 10)) (.fixed 1) (.fixed (1 / 2)))) : FxN ℝ 0)], none))

/-- a scene with a filter on the main track, a sub-track carrying the delay-with-reverb routed to a send track
    with a compressor, a clock and an LFO, after a sample-rate change, is a reachable state (so the invariant
    and the well-formedness theorem apply to it) -/
example : ∃ s : System ℝ 1, System.Reach s ∧ s.Ok ∧ s.r.mixer.pendingSubTracks.length = 1 := by
  let s0 : System ℝ 1 := System.new 1024 4 48000 (.fixed 0) [⟨0, FxOver.base exFilter, none⟩]
  let s1 := s0.addSendTrack 0 (.fixed (-6))
    [⟨1, FxOver.base (.comp (Compressor.new (.fixed (-12)) (.fixed 4) (.fixed 1000000) (.fixed 1000000) (.fixed 0) (.fixed 1))), none⟩]
  let s2 := s1.addSubTrack none 0 (.fixed 0) [⟨2, exDelay, none⟩] [(0, .fixed 0)] false
  let s3 := s2.addClock 0 (.fixed (.ticksPerSecond 2))
  let s4 := s3.addModulator 0 (.lfo (Lfo.new LfoBuilder.default))
  let s5 := s4.changeRate 44100
  have h0 : System.Reach s0 := .new 1024 4 48000 (by norm_num) _ _
  have h5 : System.Reach s5 :=
    .changeRate _ 44100 ((System.reach_env_ops _ ((System.reach_env_ops _ (.addSubTrack _ none 0 _ _ _ false
      (.addSendTrack _ 0 _ _ h0))).1 0 _)).2.2.1 0 _)
  exact ⟨s5, h5, C01_system_invariant s5 h5, rfl⟩

/-- a clean renderer with a simply playing sub-track that carries a real effect (with its ghost log) exists:
    the hypotheses of `C01_system_each_component_once` are satisfiable -/
example : ∃ r : Renderer ℝ (SysSnd ℝ × List Nat) (SysFx ℝ 1 × List Nat) (SysSpatial ℝ) (SysEnv ℝ),
    r.Clean ∧ Trk.SteadyList r.mixer.subTracks ∧ 0 < r.ibs ∧ r.mixer.subTracks.length = 1 :=
  ⟨{ dt := 1
     mixer := { (Mixer.newV (.fixed 0) [] 4) with
                subTracks := [Trk.buildV 0 (.fixed 0) [((⟨0, exDelay, none⟩ : SysFx ℝ 1), [])] [] false 4] }
     env := SysEnv.empty, ibs := 4, temp := zeros 4 },
   ⟨rfl, ⟨rfl, rfl, ⟨Trk.buildV_clean 0 _ _ [] false 4, trivial⟩, trivial, by simp [Mixer.newV], by simp [Mixer.newV]⟩⟩,
   ⟨⟨by simp [Trk.buildV, Psm.new, Parameter.new], trivial⟩, trivial⟩, by norm_num, rfl⟩

end K
