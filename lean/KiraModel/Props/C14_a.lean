/-
  C14 (first half) — each effect realises its documented transfer behaviour: volume_control and
  panning_control apply the decibel and equal-power laws; the SVF of filter.rs / eq_filter.rs has
  the DC and Nyquist responses of the cited state-variable designs (unity pass band, the requested
  gain on the shelf side); the compressor leaves signals below the threshold untouched and above
  it its envelope error contracts by `exp(-dt/τ)` per frame towards (level − threshold), i.e. the
  gain reduction converges to (level − threshold)(1 − 1/ratio) dB (0 dB for a ratio of 0); distortion is
  `clamp(x·d, −1, 1)/d` resp. `x/(1 + |x·d|)` and transparent for small signals.

  Statements are about Model/Effects/*.lean over ℝ, with parameters at rest (see C13_a).
-/
import KiraModel.Props.C13_a
import Mathlib.Analysis.SpecificLimits.Basic

namespace K
open Real Topology

/-! ## volume_control: the decibel law -/

/-- the documented gain of a decibel value: `10^(dB/20)`, and silence at −60 dB and below -/
noncomputable def volGain (db : ℝ) : ℝ := if db ≤ -60 then 0 else (10 : ℝ) ^ (db / 20)

theorem asAmplitude_eq_volGain (db : ℝ) : asAmplitude db = volGain db := by
  unfold volGain
  by_cases h : db ≤ -60
  · simp only [h, if_true]; exact C19_amp_silence db h
  · simp only [h, if_false]; exact C19_amp_formula db (not_le.mp h)

/-- **volume law**: at rest, every output frame is the input frame times `10^(dB/20)` (times 0
    at −60 dB and below), for every slice length, `dt` and `Info`. -/
theorem C14_volume_law (s : VolumeControl ℝ) (h : s.Stagnant) (xs : List (Frame ℝ)) (dt : ℝ)
    (info : Info ℝ) :
    (s.process xs dt info).2 = xs.map (fun f => volGain s.volume.raw • f) := by
  rw [VolumeControl.process_stagnant s h, asAmplitude_eq_volGain]
  simp only
  apply List.map_congr_left
  intro f _; ext <;> simp <;> ring

/-- reference points of the law: 0 dB ↦ 1, +20 dB ↦ 10, −20 dB ↦ 1/10, −60 dB ↦ 0. -/
theorem C14_volume_law_values :
    volGain 0 = 1 ∧ volGain 20 = 10 ∧ volGain (-20) = 1 / 10 ∧ volGain (-60) = 0 := by
  unfold volGain
  refine ⟨?_, ?_, ?_, ?_⟩
  · norm_num
  · norm_num
  · have : (10 : ℝ) ^ (-20 / 20 : ℝ) = 1 / 10 := by
      rw [show (-20 / 20 : ℝ) = -1 by norm_num, Real.rpow_neg_one]; norm_num
    norm_num [this]
  · norm_num

/-! ## panning_control: the equal-power law -/

/-- **pan law**: at rest, the left/right channels are scaled by `panGainL p`, `panGainR p`
    (`√(1−m)·√2`, `√m·√2` with `m = (clamp p + 1)/2`; both 1 at centre). -/
theorem C14_pan_law (s : PanningControl ℝ) (h : s.Stagnant) (xs : List (Frame ℝ)) (dt : ℝ)
    (info : Info ℝ) :
    (s.process xs dt info).2
      = xs.map (fun f => ⟨f.left * panGainL s.panning.raw, f.right * panGainR s.panning.raw⟩) := by
  rw [PanningControl.process_stagnant s h]
  simp only [panned_gains]

/-- **equal power**: `gL² + gR² = 2` at every pan position (so a centred signal keeps its power);
    centre is the identity; hard left / right silence the far channel and give `√2` on the near one. -/
theorem C14_pan_law_equal_power (p : ℝ) :
    panGainL p ^ 2 + panGainR p ^ 2 = 2
      ∧ (p = 0 → panGainL p = 1 ∧ panGainR p = 1)
      ∧ (p ≤ -1 → panGainL p = Real.sqrt 2 ∧ panGainR p = 0)
      ∧ (1 ≤ p → panGainL p = 0 ∧ panGainR p = Real.sqrt 2) := by
  have hc := clamp_mem p (-(1 : ℝ)) (1 : ℝ) (by norm_num)
  have e3 : Real.sqrt 2 ^ 2 = 2 := Real.sq_sqrt (by norm_num)
  refine ⟨?_, ?_, ?_, ?_⟩
  · unfold panGainL panGainR
    by_cases hp : p = 0
    · simp only [hp, if_true]; norm_num
    · simp only [hp, if_false]
      have h1 : (0 : ℝ) ≤ (clamp p (-1) 1 + 1) * (1 / 2) := by linarith [hc.1]
      have h2 : (0 : ℝ) ≤ 1 - (clamp p (-1) 1 + 1) * (1 / 2) := by linarith [hc.2]
      rw [mul_pow, mul_pow, Real.sq_sqrt h1, Real.sq_sqrt h2, e3]; ring
  · intro hp; simp [panGainL, panGainR, hp]
  · intro hp
    have hne : p ≠ 0 := by linarith
    have hcl : clamp p (-1 : ℝ) 1 = -1 := by
      unfold clamp
      by_cases h : p < -1
      · simp [h]
      · have : p = -1 := le_antisymm hp (not_lt.mp h)
        subst this; norm_num
    simp [panGainL, panGainR, hne, hcl]
  · intro hp
    have hne : p ≠ 0 := by linarith
    have hcl : clamp p (-1 : ℝ) 1 = 1 := by
      unfold clamp
      have h1 : ¬ p < -1 := by linarith
      simp only [h1, if_false]
      by_cases h : 1 < p
      · simp [h]
      · have : p = 1 := le_antisymm (not_lt.mp h) hp
        subst this; norm_num
    simp only [panGainL, panGainR, hne, hcl, if_false]
    norm_num

/-! ## filter: DC and Nyquist responses of the state-variable design -/

/-- the documented wet response at DC: low-pass and notch pass, band-pass and high-pass block -/
def Filter.dcResponse : FilterMode → ℝ
  | .lowPass => 1 | .bandPass => 0 | .highPass => 0 | .notch => 1
/-- the documented wet response at the Nyquist frequency: high-pass and notch pass -/
def Filter.nyqResponse : FilterMode → ℝ
  | .lowPass => 0 | .bandPass => 0 | .highPass => 1 | .notch => 1

theorem Filter.tickV_dc (s : Filter ℝ) (dt : ℝ) (x : Frame ℝ) :
    Filter.tickV s dt (0, x) x
      = ((0, x), dryWet (Filter.dcResponse s.mode • x) x (clamp s.mix.raw (0.0 : ℝ) (1.0 : ℝ))) := by
  unfold Filter.tickV Filter.tick
  obtain ⟨h1, h2, h3, h4⟩ := svf_dc
    (Filter.coefs s.cutoff.raw (clamp s.resonance.raw (0.0 : ℝ) (1.0 : ℝ)) dt).a1
    (Filter.coefs s.cutoff.raw (clamp s.resonance.raw (0.0 : ℝ) (1.0 : ℝ)) dt).a2
    (Filter.coefs s.cutoff.raw (clamp s.resonance.raw (0.0 : ℝ) (1.0 : ℝ)) dt).a3 x
  simp only [h1, h2, h3, h4]
  refine Prod.ext rfl ?_
  simp only
  congr 1
  cases s.mode <;> (ext <;> simp [Filter.modeOutput, Filter.dcResponse])

/-- **DC response** (`C14_svf_dc`, filter): at rest, from the DC fixed point `(ic1eq, ic2eq) = (0, x)`
    a constant input `x` is answered, for ever and for every cutoff, resonance and `dt`, by the
    constant `wet·√mix + x·√(1−mix)` with `wet = x` for low-pass and notch and `wet = 0` for
    band-pass and high-pass; the integrators do not move. -/
theorem C14_svf_dc (s : Filter ℝ) (h : s.Stagnant) (x : Frame ℝ) (n : ℕ) (dt : ℝ) (info : Info ℝ) :
    ((s.withState (0, x)).process (List.replicate n x) dt info).2
        = List.replicate n (dryWet (Filter.dcResponse s.mode • x) x (clamp s.mix.raw (0.0 : ℝ) (1.0 : ℝ)))
      ∧ ((s.withState (0, x)).process (List.replicate n x) dt info).1.ic = (0, x) := by
  rw [Filter.process_stagnant _ (Filter.withState_stagnant s _ h), Filter.tickV_withState]
  have := runTick_const (Filter.tickV s dt) ((0 : Frame ℝ), x) x _ (Filter.tickV_dc s dt x) n
  simp only [Filter.withState] at this ⊢
  rw [this]
  exact ⟨rfl, rfl⟩

/-- fully wet, the four DC gains read: low-pass 1, notch 1, band-pass 0, high-pass 0. -/
theorem C14_svf_dc_gains (m : FilterMode) (x : Frame ℝ) :
    dryWet (Filter.dcResponse m • x) x 1 = Filter.dcResponse m • x
      ∧ Filter.dcResponse .lowPass = 1 ∧ Filter.dcResponse .notch = 1
      ∧ Filter.dcResponse .bandPass = 0 ∧ Filter.dcResponse .highPass = 0 :=
  ⟨dryWet_wet _ _, rfl, rfl, rfl, rfl⟩

/-- **the DC fixed point is unique** on the documented ranges (`dt > 0`, relative cutoff below
    Nyquist): an integrator state that a constant input `x` leaves unchanged is `(0, x)` — so a
    settled filter has exactly the DC response above. -/
theorem C14_svf_dc_unique (s : Filter ℝ) (dt : ℝ) (hdt : 0 < dt) (hny : s.cutoff.raw * dt < 1 / 2)
    (v : Frame ℝ × Frame ℝ) (x : Frame ℝ) (hfix : (Filter.tickV s dt v x).1 = v) : v = (0, x) := by
  obtain ⟨hg, _, _, _, ha, _⟩ := C13_filter_defined s.cutoff.raw s.resonance.raw s.mix.raw dt hdt hny
  simp only [Filter.coefs_real] at ha
  simp only [Filter.tickV, Filter.tick, Filter.coefs_real] at hfix
  have h1 := congrArg Prod.fst hfix
  have h2 := congrArg Prod.snd hfix
  simp only at h1 h2
  obtain ⟨a, b⟩ := svf_dc_unique _ (Filter.g s.cutoff.raw dt) hg.ne' ha.ne' v.1 v.2 x h1 h2
  exact Prod.ext a b

theorem Filter.tickV_nyquist (s : Filter ℝ) (dt : ℝ) (x : Frame ℝ) :
    Filter.tickV s dt ((-(Filter.g s.cutoff.raw dt)) • x, 0) x
      = (((Filter.g s.cutoff.raw dt) • x, 0),
         dryWet (Filter.nyqResponse s.mode • x) x (clamp s.mix.raw (0.0 : ℝ) (1.0 : ℝ))) := by
  unfold Filter.tickV Filter.tick
  simp only [Filter.coefs_real]
  obtain ⟨h1, h2, h3, h4⟩ := svf_nyquist
    (1 / (1 + Filter.g s.cutoff.raw dt * (Filter.g s.cutoff.raw dt
      + (2 - 19 / 10 * clamp s.resonance.raw (0.0 : ℝ) (1.0 : ℝ))))) (Filter.g s.cutoff.raw dt) x
  simp only [h1, h2, h3, h4]
  refine Prod.ext rfl ?_
  simp only
  congr 1
  cases s.mode <;> (ext <;> simp [Filter.modeOutput, Filter.nyqResponse])

/-- **Nyquist response** (`C14_svf_nyquist`, filter): at rest, on the period-2 orbit
    `(ic1eq, ic2eq) = (−g·x, 0) ↔ (g·x, 0)` the alternating input `x, −x, x, …` is answered for
    ever by `±(wet·√mix + x·√(1−mix))` with `wet = x` for high-pass and notch and `wet = 0` for
    low-pass and band-pass. -/
theorem C14_svf_nyquist (s : Filter ℝ) (h : s.Stagnant) (x : Frame ℝ) (n : ℕ) (dt : ℝ) (info : Info ℝ) :
    ((s.withState ((-(Filter.g s.cutoff.raw dt)) • x, 0)).process (altSig n x ((-1 : ℝ) • x)) dt info).2
        = altSig n (dryWet (Filter.nyqResponse s.mode • x) x (clamp s.mix.raw (0.0 : ℝ) (1.0 : ℝ)))
            (dryWet (Filter.nyqResponse s.mode • ((-1 : ℝ) • x)) ((-1 : ℝ) • x)
              (clamp s.mix.raw (0.0 : ℝ) (1.0 : ℝ)))
      ∧ ((s.withState ((-(Filter.g s.cutoff.raw dt)) • x, 0)).process (altSig n x ((-1 : ℝ) • x)) dt info).1.ic
        = ((-(Filter.g s.cutoff.raw dt)) • x, 0) := by
  rw [Filter.process_stagnant _ (Filter.withState_stagnant s _ h), Filter.tickV_withState]
  have hback : Filter.tickV s dt ((Filter.g s.cutoff.raw dt) • x, 0) ((-1 : ℝ) • x)
      = (((-(Filter.g s.cutoff.raw dt)) • x, 0),
         dryWet (Filter.nyqResponse s.mode • ((-1 : ℝ) • x)) ((-1 : ℝ) • x)
           (clamp s.mix.raw (0.0 : ℝ) (1.0 : ℝ))) := by
    have := Filter.tickV_nyquist s dt ((-1 : ℝ) • x)
    have e1 : (-(Filter.g s.cutoff.raw dt)) • ((-1 : ℝ) • x) = (Filter.g s.cutoff.raw dt) • x := by
      ext <;> simp
    have e2 : (Filter.g s.cutoff.raw dt) • ((-1 : ℝ) • x) = (-(Filter.g s.cutoff.raw dt)) • x := by
      ext <;> simp
    rw [e1, e2] at this
    exact this
  have := runTick_alt (Filter.tickV s dt) _ _ x ((-1 : ℝ) • x) _ _ (Filter.tickV_nyquist s dt x) hback n
  simp only [Filter.withState] at this ⊢
  rw [this]
  exact ⟨rfl, rfl⟩

/-! ### the corner sits at the requested frequency -/

/-- half the digital corner angle: `φ = π · clamp(cutoff / sample_rate, 0.0001, 0.5)`, `g = tan φ` -/
noncomputable def Filter.phi (cutoff dt : ℝ) : ℝ := Real.pi * clamp (cutoff / (1 / dt)) (1 / 10000) (1 / 2)

/-- the wet response to `cos((i+1)θ)·u` at the corner, as a multiple of `u` -/
noncomputable def Filter.cornerWet (m : FilterMode) (k θ : ℝ) (i : ℕ) : ℝ :=
  match m with
  | .lowPass => Real.sin ((i + 1 : ℕ) * θ) / k
  | .bandPass => Real.cos ((i + 1 : ℕ) * θ) / k
  | .highPass => -(Real.sin ((i + 1 : ℕ) * θ) / k)
  | .notch => 0

theorem Filter.phi_range (cutoff dt : ℝ) (hdt : 0 < dt) (hny : cutoff * dt < 1 / 2) :
    0 < Filter.phi cutoff dt ∧ Filter.phi cutoff dt < Real.pi / 2
      ∧ (1 / 10000 ≤ cutoff * dt → Filter.phi cutoff dt = Real.pi * (cutoff * dt)) := by
  have e : cutoff / (1 / dt) = cutoff * dt := by field_simp
  have hcl := clamp_mem (cutoff * dt) (1 / 10000 : ℝ) (1 / 2) (by norm_num)
  have hlt : clamp (cutoff * dt) (1 / 10000 : ℝ) (1 / 2) < 1 / 2 := by
    unfold clamp
    split
    · norm_num
    · split
      · rename_i h2; linarith
      · exact hny
  unfold Filter.phi
  rw [e]
  refine ⟨?_, ?_, ?_⟩
  · have := Real.pi_pos; nlinarith [hcl.1]
  · have := Real.pi_pos; nlinarith [hlt]
  · intro hlo
    congr 1
    unfold clamp
    have h1 : ¬ cutoff * dt < 1 / 10000 := not_lt.mpr hlo
    have h2 : ¬ 1 / 2 < cutoff * dt := not_lt.mpr hny.le
    rw [if_neg h1, if_neg h2]

/-- **corner response** (`C14_svf_corner`): at rest, with `dt > 0` and the cutoff below Nyquist,
    let `θ = 2φ` be the digital corner angle (`θ = 2π · cutoff · dt` as soon as
    `cutoff · dt ≥ 0.0001`, i.e. the corner is at the requested frequency in hertz at every
    sample rate). On the sinusoidal orbit the input `cos((i+1)θ)·u` is answered, exactly and for
    ever, by `sin((i+1)θ)/k·u` (low-pass), `cos((i+1)θ)/k·u` (band-pass), `−sin((i+1)θ)/k·u`
    (high-pass) and `0` (notch) on the wet side: gain `1/k = 1/(2 − 1.9·resonance)` with the
    phases of the analog prototype `1/(s²+ks+1)` at `s = j`, and a perfect notch. -/
theorem C14_svf_corner (s : Filter ℝ) (h : s.Stagnant) (dt : ℝ) (hdt : 0 < dt)
    (hny : s.cutoff.raw * dt < 1 / 2) (u : Frame ℝ) (n : ℕ) (info : Info ℝ) :
    let φ := Filter.phi s.cutoff.raw dt
    let θ := 2 * φ
    let g := Real.tan φ
    let k := 2 - 19 / 10 * clamp s.resonance.raw (0.0 : ℝ) (1.0 : ℝ)
    let inp := fun i : ℕ => Real.cos ((i + 1 : ℕ) * θ) • u
    ((s.withState ((1 / k) • u, (g / k) • u)).process (sigFrom inp 0 n) dt info).2
        = sigFrom (fun i => dryWet (Filter.cornerWet s.mode k θ i • u) (inp i)
            (clamp s.mix.raw (0.0 : ℝ) (1.0 : ℝ))) 0 n
      ∧ (1 / 10000 ≤ s.cutoff.raw * dt → θ = 2 * Real.pi * s.cutoff.raw * dt)
      ∧ 1 / 10 ≤ k := by
  intro φ θ g k inp
  obtain ⟨hφ0, hφ1, hφe⟩ := Filter.phi_range s.cutoff.raw dt hdt hny
  have hcos : Real.cos φ ≠ 0 := (Real.cos_pos_of_mem_Ioo ⟨by linarith [Real.pi_pos], hφ1⟩).ne'
  have hg : 0 < g := Real.tan_pos_of_pos_of_lt_pi_div_two hφ0 hφ1
  have hr := clamp01_mem s.resonance.raw
  have hk : 1 / 10 ≤ k := by simp only [k]; linarith [hr.2]
  have hk0 : k ≠ 0 := by linarith
  have hden : 1 + g * (g + k) ≠ 0 := by
    have : 0 < g * (g + k) := by positivity
    linarith
  refine ⟨?_, ?_, hk⟩
  · rw [Filter.process_stagnant _ (Filter.withState_stagnant s _ h), Filter.tickV_withState]
    let st : ℕ → Frame ℝ × Frame ℝ := fun i =>
      (((Real.cos (i * θ) - g * Real.sin (i * θ)) / k) • u, ((Real.sin (i * θ) + g * Real.cos (i * θ)) / k) • u)
    have hst0 : st 0 = ((1 / k) • u, (g / k) • u) := by
      simp only [st]
      refine Prod.ext ?_ ?_ <;> (ext <;> simp)
    have horb : ∀ i, Filter.tickV s dt (st i) (inp i)
        = (st (i + 1), dryWet (Filter.cornerWet s.mode k θ i • u) (inp i)
            (clamp s.mix.raw (0.0 : ℝ) (1.0 : ℝ))) := by
      intro i
      obtain ⟨h1, h2, h3, h4⟩ := svf_corner φ k hcos hk0 hden u i
      have eg : Filter.g s.cutoff.raw dt = Real.tan φ := rfl
      simp only [Filter.tickV, Filter.tick, Filter.coefs_real, st, inp, eg, g, θ]
      have hkk : (2 - 19 / 10 * clamp s.resonance.raw (0.0 : ℝ) (1.0 : ℝ)) = k := rfl
      simp only [hkk, h1, h2, h3, h4]
      refine Prod.ext (Prod.ext ?_ ?_) ?_
      · simp
      · simp
      · simp only
        congr 1
        cases s.mode
        · ext <;> simp [Filter.modeOutput, Filter.cornerWet]
        · ext <;> simp [Filter.modeOutput, Filter.cornerWet]
        · ext <;> (simp only [Filter.modeOutput, Filter.cornerWet, Frame.fsub_left, Frame.fsub_right,
            Frame.fscale_left, Frame.fscale_right, Frame.smul_left, Frame.smul_right, r32_real]
                   field_simp; ring)
        · ext <;> (simp only [Filter.modeOutput, Filter.cornerWet, Frame.fsub_left, Frame.fsub_right,
            Frame.fscale_left, Frame.fscale_right, Frame.smul_left, Frame.smul_right, r32_real]
                   field_simp; ring)
    have := runTick_orbit (Filter.tickV s dt) st inp _ horb 0 n
    rw [hst0] at this
    simp only [Filter.withState] at this ⊢
    rw [this]
  · intro hlo
    simp only [θ, φ, hφe hlo]; ring

/-! ## eq_filter: shelf and bell gains at DC and Nyquist -/

/-- `A = 10^(gain/40)`; the requested gain is `A² = 10^(gain/20)` -/
noncomputable def eqA (gain : ℝ) : ℝ := (10 : ℝ) ^ (gain / 40)

theorem eqA_sq (gain : ℝ) : eqA gain * eqA gain = (10 : ℝ) ^ (gain / 20) := by
  unfold eqA
  rw [← Real.rpow_add (by norm_num : (0 : ℝ) < 10)]
  congr 1; ring

/-- the EQ's `g` and `k` for each kind (`T = tan(π · clamp(f·dt, 0.0001, 0.5))`, `Q = max(q, 0.01)`) -/
noncomputable def EqFilter.gk (kind : EqFilterKind) (frequency q gain dt : ℝ) : ℝ × ℝ :=
  let T := Real.tan (Real.pi * clamp (frequency * dt) (1 / 10000) (1 / 2))
  let Q := fmax q (eqMinQ : ℝ)
  match kind with
  | .bell => (T, 1 / (Q * eqA gain))
  | .lowShelf => (T / Real.sqrt (eqA gain), 1 / Q)
  | .highShelf => (T * Real.sqrt (eqA gain), 1 / Q)

/-- the documented response at DC: the low shelf applies the requested gain, bell and high shelf pass -/
noncomputable def EqFilter.dcGain (kind : EqFilterKind) (gain : ℝ) : ℝ :=
  match kind with
  | .bell => 1 | .lowShelf => (10 : ℝ) ^ (gain / 20) | .highShelf => 1
/-- the documented response at Nyquist: the high shelf applies the requested gain -/
noncomputable def EqFilter.nyqGain (kind : EqFilterKind) (gain : ℝ) : ℝ :=
  match kind with
  | .bell => 1 | .lowShelf => 1 | .highShelf => (10 : ℝ) ^ (gain / 20)

/-- the SVF part of the EQ coefficients has the same shape as the filter's -/
theorem EqCoefs.svf_shape (kind : EqFilterKind) (frequency q gain dt : ℝ) :
    let g := (EqFilter.gk kind frequency q gain dt).1
    let k := (EqFilter.gk kind frequency q gain dt).2
    (EqCoefs.calculate kind frequency q gain dt).a1 = 1 / (1 + g * (g + k))
      ∧ (EqCoefs.calculate kind frequency q gain dt).a2 = g * (1 / (1 + g * (g + k)))
      ∧ (EqCoefs.calculate kind frequency q gain dt).a3 = g * (g * (1 / (1 + g * (g + k)))) := by
  cases kind <;>
    simp [EqCoefs.calculate, EqFilter.gk, eqA]

theorem EqCoefs.m_sums (kind : EqFilterKind) (frequency q gain dt : ℝ) :
    (EqCoefs.calculate kind frequency q gain dt).m0 + (EqCoefs.calculate kind frequency q gain dt).m2
        = EqFilter.dcGain kind gain
      ∧ (EqCoefs.calculate kind frequency q gain dt).m0 = EqFilter.nyqGain kind gain := by
  have h := eqA_sq gain
  unfold eqA at h
  cases kind <;>
    simp [EqCoefs.calculate, EqFilter.dcGain, EqFilter.nyqGain, h]

theorem EqFilter.tickV_dc (s : EqFilter ℝ) (dt : ℝ) (x : Frame ℝ) :
    EqFilter.tickV s dt (0, x) x = ((0, x), EqFilter.dcGain s.kind s.gain.raw • x) := by
  unfold EqFilter.tickV EqFilter.tick
  obtain ⟨h1, h2, h3, h4⟩ := svf_dc
    (EqCoefs.calculate s.kind s.frequency.raw s.q.raw s.gain.raw dt).a1
    (EqCoefs.calculate s.kind s.frequency.raw s.q.raw s.gain.raw dt).a2
    (EqCoefs.calculate s.kind s.frequency.raw s.q.raw s.gain.raw dt).a3 x
  simp only [h1, h2, h3, h4]
  refine Prod.ext rfl ?_
  have hm := (EqCoefs.m_sums s.kind s.frequency.raw s.q.raw s.gain.raw dt).1
  ext
  · simp only [r32_real, Frame.fadd_left, Frame.fscale_left, Frame.zero_left, zero_mul, add_zero,
      Frame.smul_left]
    rw [← hm]; ring
  · simp only [r32_real, Frame.fadd_right, Frame.fscale_right, Frame.zero_right, zero_mul, add_zero,
      Frame.smul_right]
    rw [← hm]; ring

/-- **DC response** (`C14_svf_dc`, EQ): at rest, from the DC fixed point a constant input `x` is
    answered for ever by `x` times the requested gain `10^(gain/20)` for the low shelf, and by `x`
    itself for bell and high shelf — for every frequency, Q and `dt`. -/
theorem C14_eq_dc (s : EqFilter ℝ) (h : s.Stagnant) (x : Frame ℝ) (n : ℕ) (dt : ℝ) (info : Info ℝ) :
    ((s.withState (0, x)).process (List.replicate n x) dt info).2
        = List.replicate n (EqFilter.dcGain s.kind s.gain.raw • x)
      ∧ ((s.withState (0, x)).process (List.replicate n x) dt info).1.ic = (0, x) := by
  rw [EqFilter.process_stagnant _ (EqFilter.withState_stagnant s _ h), EqFilter.tickV_withState]
  have := runTick_const (EqFilter.tickV s dt) ((0 : Frame ℝ), x) x _ (EqFilter.tickV_dc s dt x) n
  simp only [EqFilter.withState] at this ⊢
  rw [this]
  exact ⟨rfl, rfl⟩

theorem EqFilter.tickV_nyquist (s : EqFilter ℝ) (dt : ℝ) (x : Frame ℝ) :
    EqFilter.tickV s dt ((-(EqFilter.gk s.kind s.frequency.raw s.q.raw s.gain.raw dt).1) • x, 0) x
      = (((EqFilter.gk s.kind s.frequency.raw s.q.raw s.gain.raw dt).1 • x, 0),
         EqFilter.nyqGain s.kind s.gain.raw • x) := by
  unfold EqFilter.tickV EqFilter.tick
  obtain ⟨e1, e2, e3⟩ := EqCoefs.svf_shape s.kind s.frequency.raw s.q.raw s.gain.raw dt
  simp only [e1, e2, e3]
  obtain ⟨h1, h2, h3, h4⟩ := svf_nyquist
    (1 / (1 + (EqFilter.gk s.kind s.frequency.raw s.q.raw s.gain.raw dt).1
      * ((EqFilter.gk s.kind s.frequency.raw s.q.raw s.gain.raw dt).1
        + (EqFilter.gk s.kind s.frequency.raw s.q.raw s.gain.raw dt).2)))
    (EqFilter.gk s.kind s.frequency.raw s.q.raw s.gain.raw dt).1 x
  simp only [h1, h2, h3, h4]
  refine Prod.ext rfl ?_
  have hm := (EqCoefs.m_sums s.kind s.frequency.raw s.q.raw s.gain.raw dt).2
  ext
  · simp only [r32_real, Frame.fadd_left, Frame.fscale_left, Frame.zero_left, zero_mul, add_zero,
      Frame.smul_left]
    rw [← hm]; ring
  · simp only [r32_real, Frame.fadd_right, Frame.fscale_right, Frame.zero_right, zero_mul, add_zero,
      Frame.smul_right]
    rw [← hm]; ring

/-- **Nyquist response** (EQ): at rest, on the period-2 orbit the alternating input `x, −x, …` is
    answered for ever by `±x` times the requested gain `10^(gain/20)` for the high shelf, and by
    `±x` for bell and low shelf. -/
theorem C14_eq_nyquist (s : EqFilter ℝ) (h : s.Stagnant) (x : Frame ℝ) (n : ℕ) (dt : ℝ) (info : Info ℝ) :
    let g := (EqFilter.gk s.kind s.frequency.raw s.q.raw s.gain.raw dt).1
    ((s.withState ((-g) • x, 0)).process (altSig n x ((-1 : ℝ) • x)) dt info).2
        = altSig n (EqFilter.nyqGain s.kind s.gain.raw • x)
            (EqFilter.nyqGain s.kind s.gain.raw • ((-1 : ℝ) • x))
      ∧ ((s.withState ((-g) • x, 0)).process (altSig n x ((-1 : ℝ) • x)) dt info).1.ic = ((-g) • x, 0) := by
  intro g
  rw [EqFilter.process_stagnant _ (EqFilter.withState_stagnant s _ h), EqFilter.tickV_withState]
  have hback : EqFilter.tickV s dt (g • x, 0) ((-1 : ℝ) • x)
      = (((-g) • x, 0), EqFilter.nyqGain s.kind s.gain.raw • ((-1 : ℝ) • x)) := by
    have := EqFilter.tickV_nyquist s dt ((-1 : ℝ) • x)
    have e1 : (-g) • ((-1 : ℝ) • x) = g • x := by ext <;> simp
    have e2 : g • ((-1 : ℝ) • x) = (-g) • x := by ext <;> simp
    rw [e1, e2] at this
    exact this
  have := runTick_alt (EqFilter.tickV s dt) _ _ x ((-1 : ℝ) • x) _ _ (EqFilter.tickV_nyquist s dt x) hback n
  simp only [EqFilter.withState] at this ⊢
  rw [this]
  exact ⟨rfl, rfl⟩

/-- half the digital centre angle of the EQ: `φ = π · clamp(frequency · dt, 0.0001, 0.5)` -/
noncomputable def EqFilter.phi (frequency dt : ℝ) : ℝ := Real.pi * clamp (frequency * dt) (1 / 10000) (1 / 2)

/-- **the bell applies the requested gain at its centre** (`C14_eq_bell_centre`): at rest, with
    `dt > 0` and the frequency below Nyquist, on the sinusoidal orbit at the digital centre angle
    `θ = 2φ` (`= 2π · frequency · dt` once `frequency · dt ≥ 0.0001`) the input `cos((i+1)θ)·u` is
    answered, exactly and for ever, by `10^(gain/20) · cos((i+1)θ)·u` — for every Q. -/
theorem C14_eq_bell_centre (s : EqFilter ℝ) (h : s.Stagnant) (hkind : s.kind = .bell) (dt : ℝ)
    (_hdt : 0 < dt) (hny : s.frequency.raw * dt < 1 / 2) (u : Frame ℝ) (n : ℕ) (info : Info ℝ) :
    let φ := EqFilter.phi s.frequency.raw dt
    let θ := 2 * φ
    let g := Real.tan φ
    let k := 1 / (fmax s.q.raw (eqMinQ : ℝ) * eqA s.gain.raw)
    let inp := fun i : ℕ => Real.cos ((i + 1 : ℕ) * θ) • u
    ((s.withState ((1 / k) • u, (g / k) • u)).process (sigFrom inp 0 n) dt info).2
        = sigFrom (fun i => ((10 : ℝ) ^ (s.gain.raw / 20) * Real.cos ((i + 1 : ℕ) * θ)) • u) 0 n
      ∧ (1 / 10000 ≤ s.frequency.raw * dt → θ = 2 * Real.pi * s.frequency.raw * dt) := by
  intro φ θ g k inp
  have hcl := clamp_mem (s.frequency.raw * dt) (1 / 10000 : ℝ) (1 / 2) (by norm_num)
  have hlt : clamp (s.frequency.raw * dt) (1 / 10000 : ℝ) (1 / 2) < 1 / 2 := by
    unfold clamp
    split
    · norm_num
    · split
      · rename_i h2; linarith
      · exact hny
  have hφ0 : 0 < φ := by
    simp only [φ, EqFilter.phi]; have := Real.pi_pos; nlinarith [hcl.1]
  have hφ1 : φ < Real.pi / 2 := by
    simp only [φ, EqFilter.phi]; have := Real.pi_pos; nlinarith [hlt]
  have hcos : Real.cos φ ≠ 0 := (Real.cos_pos_of_mem_Ioo ⟨by linarith [Real.pi_pos], hφ1⟩).ne'
  have hg : 0 < g := Real.tan_pos_of_pos_of_lt_pi_div_two hφ0 hφ1
  have hq : 0 < fmax s.q.raw (eqMinQ : ℝ) := by
    rw [fmax_real]; unfold eqMinQ
    exact lt_of_lt_of_le (by norm_num) (le_max_right _ _)
  have hA : 0 < eqA s.gain.raw := Real.rpow_pos_of_pos (by norm_num) _
  have hk : 0 < k := by simp only [k]; positivity
  have hk0 : k ≠ 0 := hk.ne'
  have hden : 1 + g * (g + k) ≠ 0 := by
    have : 0 < g * (g + k) := by positivity
    linarith
  refine ⟨?_, ?_⟩
  · rw [EqFilter.process_stagnant _ (EqFilter.withState_stagnant s _ h), EqFilter.tickV_withState]
    let st : ℕ → Frame ℝ × Frame ℝ := fun i =>
      (((Real.cos (i * θ) - g * Real.sin (i * θ)) / k) • u, ((Real.sin (i * θ) + g * Real.cos (i * θ)) / k) • u)
    have hst0 : st 0 = ((1 / k) • u, (g / k) • u) := by
      simp only [st]
      refine Prod.ext ?_ ?_ <;> (ext <;> simp)
    have hgk : EqFilter.gk .bell s.frequency.raw s.q.raw s.gain.raw dt = (Real.tan φ, k) := rfl
    have hsq := eqA_sq s.gain.raw
    have horb : ∀ i, EqFilter.tickV s dt (st i) (inp i)
        = (st (i + 1), ((10 : ℝ) ^ (s.gain.raw / 20) * Real.cos ((i + 1 : ℕ) * θ)) • u) := by
      intro i
      obtain ⟨h1, h2, h3, h4⟩ := svf_corner φ k hcos hk0 hden u i
      obtain ⟨e1, e2, e3⟩ := EqCoefs.svf_shape .bell s.frequency.raw s.q.raw s.gain.raw dt
      rw [hgk] at e1 e2 e3
      have m0 : (EqCoefs.calculate .bell s.frequency.raw s.q.raw s.gain.raw dt).m0 = 1 := by
        simp [EqCoefs.calculate]
      have m1 : (EqCoefs.calculate .bell s.frequency.raw s.q.raw s.gain.raw dt).m1
          = k * (eqA s.gain.raw * eqA s.gain.raw - 1) := by
        simp [EqCoefs.calculate, k, eqA]
      have m2 : (EqCoefs.calculate .bell s.frequency.raw s.q.raw s.gain.raw dt).m2 = 0 := by
        simp [EqCoefs.calculate]
      simp only [EqFilter.tickV, EqFilter.tick, hkind, st, inp, g, θ, e1, e2, e3, m0, m1, m2]
      simp only [h1, h2, h3, h4]
      refine Prod.ext (Prod.ext ?_ ?_) ?_
      · simp
      · simp
      · rw [← hsq]
        ext <;> (simp only [Frame.fadd_left, Frame.fadd_right, Frame.fscale_left, Frame.fscale_right,
            Frame.smul_left, Frame.smul_right, r32_real]
                 field_simp; ring)
    have := runTick_orbit (EqFilter.tickV s dt) st inp _ horb 0 n
    rw [hst0] at this
    simp only [EqFilter.withState] at this ⊢
    rw [this]
  · intro hlo
    have : clamp (s.frequency.raw * dt) (1 / 10000 : ℝ) (1 / 2) = s.frequency.raw * dt := by
      unfold clamp
      rw [if_neg (not_lt.mpr hlo), if_neg (not_lt.mpr hny.le)]
    simp only [θ, φ, EqFilter.phi, this]; ring

/-! ## compressor -/

/-- a sample that does not exceed the threshold: silent, or `20·log10|x| ≤ threshold` -/
def Compressor.Quiet (thr x : ℝ) : Prop := x = 0 ∨ 20 * Real.logb 10 |x| ≤ thr

theorem Compressor.over_quiet (thr x : ℝ) (h : Compressor.Quiet thr x) : Compressor.overDecibels thr x = 0 := by
  by_cases hx : x = 0
  · subst hx; exact Compressor.overDecibels_zero thr
  · rw [Compressor.overDecibels_real thr x hx]
    rcases h with h | h
    · exact absurd h hx
    · exact max_eq_right (by linarith)

/-- **below the threshold from rest** (`C14_compressor`, part 1): fully wet, with the envelopes
    at 0 and every sample at or below the threshold, the output is *exactly* the input times the
    make-up gain `10^(makeup/20)` — for EVERY ratio (0 included), attack, release, `dt` and slice length —
    and the envelopes stay at 0. -/
theorem C14_compressor_below_threshold (s : Compressor ℝ) (h : s.Stagnant)
    (hm : 1 ≤ s.mix.raw) (h1 : s.envL = 0) (h2 : s.envR = 0) (xs : List (Frame ℝ))
    (hq : ∀ f ∈ xs, Compressor.Quiet s.threshold.raw f.left ∧ Compressor.Quiet s.threshold.raw f.right)
    (dt : ℝ) (info : Info ℝ) :
    (s.process xs dt info).2 = xs.map (fun f => ((10 : ℝ) ^ (s.makeupGain.raw / 20)) • f)
      ∧ (s.process xs dt info).1.env = (0, 0) := by
  rw [Compressor.process_stagnant s h, h1, h2]
  have := runTick_inv (Compressor.tickV s dt) ((0, 0) : ℝ × ℝ)
    (fun f => ((10 : ℝ) ^ (s.makeupGain.raw / 20)) • f) xs ?_
  · rw [this]; exact ⟨rfl, rfl⟩
  · intro f hf
    obtain ⟨ql, qr⟩ := hq f hf
    simp only [Compressor.tickV, Compressor.tick, Compressor.over_quiet _ _ ql, Compressor.over_quiet _ _ qr,
      Compressor.follow_real, clamp01_of_ge_one _ hm, dryWet_wet, Compressor.reductionAmplitude]
    refine Prod.ext (Prod.ext ?_ ?_) ?_
    · simp
    · simp
    · ext <;> simp <;> ring

/-- **the envelope error contracts by the documented per-sample factor** (`C14_compressor`,
    part 2): one frame moves the envelope towards its target `over = max(level − threshold, 0)` by
    the factor `speed = exp(−dt/τ)` of the side it is on (τ = release above the target, attack
    below; factor 0 for τ = 0), and over `n` frames of a constant level the error is the initial
    error times `speedⁿ`, on either side. -/
theorem C14_compressor_envelope_contracts (a r : ℕ) (dt : ℝ) (hdt : 0 < dt) (over env0 : ℝ) (n : ℕ) :
    Compressor.follow a r dt over env0 - over
        = Compressor.speed (if over < env0 then r else a) dt * (env0 - over)
      ∧ (env0 ≤ over → (Compressor.follow a r dt over)^[n] env0 - over
          = Compressor.speed a dt ^ n * (env0 - over))
      ∧ (over < env0 → (Compressor.follow a r dt over)^[n] env0 - over
          = Compressor.speed r dt ^ n * (env0 - over))
      ∧ (0 < a → Compressor.speed a dt = Real.exp (-(dt / ((a : ℝ) / 1000000000))))
      ∧ (0 < r → Compressor.speed r dt = Real.exp (-(dt / ((r : ℝ) / 1000000000))))
      ∧ 0 ≤ Compressor.speed a dt ∧ Compressor.speed a dt < 1
      ∧ 0 ≤ Compressor.speed r dt ∧ Compressor.speed r dt < 1 := by
  refine ⟨Compressor.follow_error a r dt over env0, ?_, ?_, Compressor.speed_eq_exp a dt,
    Compressor.speed_eq_exp r dt, (Compressor.speed_mem a dt hdt).1, (Compressor.speed_mem a dt hdt).2,
    (Compressor.speed_mem r dt hdt).1, (Compressor.speed_mem r dt hdt).2⟩
  · intro h; rw [Compressor.follow_iter_attack a r dt hdt over env0 h n]; ring
  · intro h; rw [Compressor.follow_iter_release a r dt hdt over env0 h n]; ring

theorem Compressor.runTick_env (s : Compressor ℝ) (dt : ℝ) (f : Frame ℝ) (n : ℕ) (a b : ℝ) :
    (runTick (Compressor.tickV s dt) (a, b) (List.replicate n f)).1
      = ((Compressor.follow s.attackDuration.raw s.releaseDuration.raw dt
            (Compressor.overDecibels s.threshold.raw f.left))^[n] a,
         (Compressor.follow s.attackDuration.raw s.releaseDuration.raw dt
            (Compressor.overDecibels s.threshold.raw f.right))^[n] b) := by
  induction n generalizing a b with
  | zero => simp [runTick]
  | succ n ih =>
    simp only [List.replicate_succ, runTick, Function.iterate_succ_apply]
    have : (Compressor.tickV s dt (a, b) f).1
        = (Compressor.follow s.attackDuration.raw s.releaseDuration.raw dt
              (Compressor.overDecibels s.threshold.raw f.left) a,
           Compressor.follow s.attackDuration.raw s.releaseDuration.raw dt
              (Compressor.overDecibels s.threshold.raw f.right) b) := rfl
    rw [this, ih]

/-- **constant level from rest** (`C14_compressor`, part 3): after `n` frames of a constant frame
    the envelopes are `over · (1 − speed(attack)ⁿ)` per channel, whatever the slice lengths. -/
theorem C14_compressor_constant_level (s : Compressor ℝ) (h : s.Stagnant) (f : Frame ℝ) (n : ℕ)
    (dt : ℝ) (hdt : 0 < dt) (info : Info ℝ) :
    ((s.withState (0, 0)).process (List.replicate n f) dt info).1.env
      = (Compressor.overDecibels s.threshold.raw f.left * (1 - Compressor.speed s.attackDuration.raw dt ^ n),
         Compressor.overDecibels s.threshold.raw f.right * (1 - Compressor.speed s.attackDuration.raw dt ^ n)) := by
  rw [Compressor.process_stagnant _ (Compressor.withState_stagnant s _ h), Compressor.tickV_withState]
  show (runTick (Compressor.tickV s dt) (0, 0) (List.replicate n f)).1 = _
  rw [Compressor.runTick_env,
    Compressor.follow_iter_attack _ _ dt hdt _ 0 (Compressor.overDecibels_nonneg _ _) n,
    Compressor.follow_iter_attack _ _ dt hdt _ 0 (Compressor.overDecibels_nonneg _ _) n]
  refine Prod.ext ?_ ?_ <;> (simp only; ring)

/-- **the gain reduction converges** (`C14_compressor`, part 4): for a constant level above the
    threshold (`level = 20·log10|x| ≥ threshold`) the envelope from rest tends to
    `level − threshold` and the applied gain `envelope · slope` dB tends to `(level − threshold) · slope`,
    which is the documented `−(level − threshold)(1 − 1/ratio)` dB for every ratio ≠ 0 and 0 dB (dynamics
    unchanged, like a ratio of 1) for a ratio of 0. -/
theorem C14_compressor_gain_reduction_converges (a r : ℕ) (dt : ℝ) (hdt : 0 < dt) (thr ratio x : ℝ)
    (hx : x ≠ 0) (hlevel : thr ≤ 20 * Real.logb 10 |x|) :
    Compressor.overDecibels thr x = 20 * Real.logb 10 |x| - thr
      ∧ _root_.Filter.Tendsto (fun n : ℕ => (Compressor.follow a r dt (Compressor.overDecibels thr x))^[n] 0) _root_.Filter.atTop
          (𝓝 (20 * Real.logb 10 |x| - thr))
      ∧ _root_.Filter.Tendsto (fun n : ℕ => (Compressor.follow a r dt (Compressor.overDecibels thr x))^[n] 0 * Compressor.slope ratio)
          _root_.Filter.atTop (𝓝 ((20 * Real.logb 10 |x| - thr) * Compressor.slope ratio))
      ∧ (ratio ≠ 0 → (20 * Real.logb 10 |x| - thr) * Compressor.slope ratio
          = -((20 * Real.logb 10 |x| - thr) * (1 - 1 / ratio)))
      ∧ (ratio = 0 → (20 * Real.logb 10 |x| - thr) * Compressor.slope ratio = 0) := by
  have ho : Compressor.overDecibels thr x = 20 * Real.logb 10 |x| - thr := by
    rw [Compressor.overDecibels_real thr x hx]; exact max_eq_left (by linarith)
  have hs := Compressor.speed_mem a dt hdt
  have hpow : _root_.Filter.Tendsto (fun n : ℕ => Compressor.speed a dt ^ n) _root_.Filter.atTop (𝓝 0) :=
    tendsto_pow_atTop_nhds_zero_of_lt_one hs.1 hs.2
  have henv : _root_.Filter.Tendsto (fun n : ℕ => (Compressor.follow a r dt (Compressor.overDecibels thr x))^[n] 0) _root_.Filter.atTop
      (𝓝 (20 * Real.logb 10 |x| - thr)) := by
    have hform : ∀ n : ℕ, (Compressor.follow a r dt (Compressor.overDecibels thr x))^[n] 0
        = (20 * Real.logb 10 |x| - thr) + Compressor.speed a dt ^ n * (0 - (20 * Real.logb 10 |x| - thr)) := by
      intro n
      rw [Compressor.follow_iter_attack a r dt hdt _ 0 (Compressor.overDecibels_nonneg _ _) n, ho]
    simp only [hform]
    have := (hpow.mul_const (0 - (20 * Real.logb 10 |x| - thr))).const_add (20 * Real.logb 10 |x| - thr)
    simpa using this
  refine ⟨ho, henv, henv.mul_const (Compressor.slope ratio), fun hr => ?_, fun hr => ?_⟩
  · rw [Compressor.slope_of_ne_zero ratio hr]; ring
  · rw [hr, Compressor.slope_zero]; ring

/-- **what the envelope does to the signal**: fully wet, each channel is multiplied by
    `10^(envelope' · slope / 20)` (`envelope'` the updated follower; `slope = 1/ratio − 1`, and 0 for a
    ratio of 0: `Compressor.slope_real`) and by the make-up gain — for ANY ratio; a ratio of 0 gives the
    factor `10^0 = 1`: only the make-up gain is applied. -/
theorem C14_compressor_output (s : Compressor ℝ) (dt : ℝ) (hm : 1 ≤ s.mix.raw) (v : ℝ × ℝ) (f : Frame ℝ) :
    (Compressor.tickV s dt v f).2
      = ⟨(10 : ℝ) ^ ((Compressor.tickV s dt v f).1.1 * Compressor.slope s.ratio.raw / 20) * f.left
            * (10 : ℝ) ^ (s.makeupGain.raw / 20),
         (10 : ℝ) ^ ((Compressor.tickV s dt v f).1.2 * Compressor.slope s.ratio.raw / 20) * f.right
            * (10 : ℝ) ^ (s.makeupGain.raw / 20)⟩
      ∧ (s.ratio.raw ≠ 0 → Compressor.slope s.ratio.raw = 1 / s.ratio.raw - 1)
      ∧ (s.ratio.raw = 0 → (Compressor.tickV s dt v f).2 = ((10 : ℝ) ^ (s.makeupGain.raw / 20)) • f) := by
  have hout : (Compressor.tickV s dt v f).2
      = ⟨(10 : ℝ) ^ ((Compressor.tickV s dt v f).1.1 * Compressor.slope s.ratio.raw / 20) * f.left
            * (10 : ℝ) ^ (s.makeupGain.raw / 20),
         (10 : ℝ) ^ ((Compressor.tickV s dt v f).1.2 * Compressor.slope s.ratio.raw / 20) * f.right
            * (10 : ℝ) ^ (s.makeupGain.raw / 20)⟩ := by
    simp only [Compressor.tickV, Compressor.tick, clamp01_of_ge_one _ hm, dryWet_wet,
      Compressor.reductionAmplitude]
    ext <;> simp
  refine ⟨hout, Compressor.slope_of_ne_zero _, fun h0 => ?_⟩
  rw [hout, h0, Compressor.slope_zero]
  ext <;> simp <;> ring

/-! ## distortion -/

/-- **hard clip** as coded: `clamp(x·d, −1, 1) / d` per channel (`d ≠ 0` the linear drive); a silent
    drive (`d = 0`, i.e. −60 dB or less) leaves the signal undistorted. -/
theorem C14_distortion_hard (d : ℝ) (f : Frame ℝ) :
    (d ≠ 0 → Distortion.wet .hardClip d f = ⟨clamp (f.left * d) (-1) 1 / d, clamp (f.right * d) (-1) 1 / d⟩)
      ∧ (∀ k, Distortion.wet k 0 f = f) := by
  constructor
  · intro hd
    simp only [Distortion.wet, Distortion.shape, lit_1, lit_0, feq_real, hd, decide_false, Bool.false_eq_true,
      if_false]
    ext <;> simp
  · intro k; simp [Distortion.wet]

/-- **soft clip** as coded: `(x·d / (1 + |x·d|)) / d`, which is `x / (1 + |x·d|)` for `d ≠ 0`. -/
theorem C14_distortion_soft (d : ℝ) (hd : d ≠ 0) (f : Frame ℝ) :
    Distortion.wet .softClip d f = ⟨f.left / (1 + |f.left * d|), f.right / (1 + |f.right * d|)⟩ := by
  have key : ∀ x : ℝ, x * d / (1 + |x * d|) / d = x / (1 + |x * d|) := by
    intro x
    have : (1 + |x * d|) ≠ 0 := by linarith [abs_nonneg (x * d)]
    field_simp
  simp only [Distortion.wet, Distortion.shape, lit_0, feq_real, hd, decide_false, Bool.false_eq_true, if_false]
  ext
  · simp only [Frame.fdivs_left, Frame.fscale_left, r32_real, abs_real, lit_1]; exact key _
  · simp only [Frame.fdivs_right, Frame.fscale_right, r32_real, abs_real, lit_1]; exact key _

/-- **transparent for small signals**, with explicit bounds (`d > 0`): the hard clip is the
    identity while `|x·d| ≤ 1`; the soft clip deviates from the input by at most `d·x²`. -/
theorem C14_distortion_transparent (d : ℝ) (hd : 0 < d) (f : Frame ℝ) :
    (|f.left * d| ≤ 1 → |f.right * d| ≤ 1 → Distortion.wet .hardClip d f = f)
      ∧ |(Distortion.wet .softClip d f).left - f.left| ≤ d * f.left ^ 2
      ∧ |(Distortion.wet .softClip d f).right - f.right| ≤ d * f.right ^ 2 := by
  have cl : ∀ x : ℝ, |x| ≤ 1 → clamp x (-1 : ℝ) (1 : ℝ) = x := by
    intro x hx
    have := abs_le.mp hx
    unfold clamp
    have h1 : ¬ x < -1 := not_lt.mpr this.1
    have h2 : ¬ 1 < x := not_lt.mpr this.2
    simp [h1, h2]
  have soft : ∀ x : ℝ, |x / (1 + |x * d|) - x| ≤ d * x ^ 2 := by
    intro x
    have hpos : 0 < 1 + |x * d| := by linarith [abs_nonneg (x * d)]
    have e : x / (1 + |x * d|) - x = -(x * |x * d|) / (1 + |x * d|) := by field_simp; ring
    rw [e, abs_div, abs_neg, abs_mul, abs_abs, abs_of_pos hpos, div_le_iff₀ hpos]
    have h1 : |x * d| = |x| * d := by rw [abs_mul, abs_of_pos hd]
    have h2 : |x| * |x| = x ^ 2 := by rw [← abs_mul, ← sq, abs_of_nonneg (sq_nonneg x)]
    rw [h1]
    have : |x| * (|x| * d) = d * x ^ 2 := by rw [← h2]; ring
    rw [this]
    have : 0 ≤ d * x ^ 2 * (|x| * d) := by positivity
    nlinarith
  refine ⟨?_, ?_, ?_⟩
  · intro hl hr
    rw [(C14_distortion_hard d f).1 hd.ne', cl _ hl, cl _ hr]
    ext <;> (simp only; field_simp)
  · rw [C14_distortion_soft d hd.ne']; exact soft f.left
  · rw [C14_distortion_soft d hd.ne']; exact soft f.right

/-- **the curve is what `process` applies**: at rest, fully wet, with the drive above −60 dB
    every output frame is `wet kind (10^(drive/20)) frame`. -/
theorem C14_distortion_process (s : Distortion ℝ) (h : s.Stagnant) (hd : -60 < s.drive.raw)
    (hm : 1 ≤ s.mix.raw) (xs : List (Frame ℝ)) (dt : ℝ) (info : Info ℝ) :
    (s.process xs dt info).2 = xs.map (Distortion.wet s.kind ((10 : ℝ) ^ (s.drive.raw / 20))) := by
  rw [Distortion.process_stagnant s h, C19_amp_formula _ hd]
  simp only [Distortion.tick, clamp01_of_ge_one _ hm, dryWet_wet]

/-! ## the hypotheses are satisfiable -/

example : Compressor.Quiet (-12) 0 := Or.inl rfl
example : Compressor.Quiet 0 1 := Or.inr (by simp)
example (f : Frame ℝ) : |f.left * 0| ≤ 1 := by simp
/-- a level above the threshold: |x| = 1 is 0 dB ≥ −12 dB -/
example : (-12 : ℝ) ≤ 20 * Real.logb 10 |(1 : ℝ)| := by simp

end K
