/-
  C12 — pausing a track freezes its subtree; removal follows handle / persistence rules; the state a
  track handle reports.

  Subject: the model of track/sub.rs (`Track::{process, on_start_processing, should_be_removed,
  read_commands}`), track.rs (`TrackShared`), track/sub/handle.rs and resources/mixer.rs
  (Model/Track.lean, Model/Mixer.lean) — the definitions the `mixtrk` twin runs bit-exactly against kira.
  All statements are for every number type `α`, every tree, every abstract sound / effect.

  "The state reported by a track handle is always one of the five track states and querying it never
  panics" is `C12_state_decodable` (all reachable states; since kira fix "track waiting on a dropped
  clock stays paused": `C12_missing_clock_leaves_paused`).
  "Dropping the handle of a persisting track lets its sounds finish" is `C12_removal_rule` /
  `C12_removed_when_leaf` (pending sounds count since kira fix "persisting track was removed with a
  sound still waiting to be added": `C12_pending_sound_kept`).
  "A track is never removed while a descendant track is alive" is `C12_removal_rule` / `C12_removed_when`
  (sub-tracks still in the new-resource ring count since kira fix "parent track was removed with a
  sub-track still waiting to be added": `C12_pending_child_kept`).
-/
import KiraModel.Proofs.TrackLifeLemmas

set_option linter.unusedSectionVars false

namespace K

variable {α : Type} [Add α] [Sub α] [Mul α] [Div α] [Neg α] [LT α] [LE α]
  [DecidableLT α] [DecidableLE α] [OfScientific α] [KOps α]
variable {S E P : Type} (C : Comps α S E P)

/-- **Pause freezes the subtree.**  When a track turns out not to be advancing in a chunk (its manager
    is Paused / WaitingToResume after the update), `Track::process` returns exact silence, feeds no send
    track, and every sound, effect, spatial datum, sub-track and pending resource below it is *unchanged*
    — positions, start delays, fades of the whole subtree do not move.  (Only the track's own volume /
    route / fade parameters and its playback-state manager are stepped.) -/
theorem C12_pause_freezes_subtree (dt : α) (parentInfo : Info α) (t : Trk α S E P) (out : List (Frame α))
    (sends : List (SendTrk α E)) (h : Trk.advancesIn C dt parentInfo out.length t = false) :
    (Trk.process C dt parentInfo t out sends).2.1 = zeros out.length
      ∧ (Trk.process C dt parentInfo t out sends).2.2 = sends
      ∧ (Trk.process C dt parentInfo t out sends).1.children = t.children
      ∧ (Trk.process C dt parentInfo t out sends).1.pending = t.pending
      ∧ (Trk.process C dt parentInfo t out sends).1.data.sounds = t.data.sounds
      ∧ (Trk.process C dt parentInfo t out sends).1.data.pendingSounds = t.data.pendingSounds
      ∧ (Trk.process C dt parentInfo t out sends).1.data.effects = t.data.effects
      ∧ (Trk.process C dt parentInfo t out sends).1.data.spatial = t.data.spatial :=
  Trk.process_frozen C dt parentInfo t out sends h

/-- any number of chunks (any lengths, infos, lent buffers, send tracks) in each of which the track
    was not advancing -/
inductive Trk.FrozenRun (dt : α) : Trk α S E P → Trk α S E P → Prop where
  | refl (t : Trk α S E P) : Trk.FrozenRun dt t t
  | step (t t' : Trk α S E P) (parentInfo : Info α) (out : List (Frame α)) (sends : List (SendTrk α E)) :
      Trk.advancesIn C dt parentInfo out.length t = false →
      Trk.FrozenRun dt (Trk.process C dt parentInfo t out sends).1 t' → Trk.FrozenRun dt t t'

/-- **Resuming continues from exactly the frame where it froze.**  However long the pause lasted, the
    sounds, effects and sub-tracks the first advancing chunk operates on are *the same values* they were
    when the track stopped advancing: that chunk is computed from the frozen subtree. -/
theorem C12_resume_continues (dt : α) (t t' : Trk α S E P) (h : Trk.FrozenRun C dt t t') :
    t'.children = t.children ∧ t'.pending = t.pending ∧ t'.data.sounds = t.data.sounds
      ∧ t'.data.pendingSounds = t.data.pendingSounds ∧ t'.data.effects = t.data.effects
      ∧ ∀ (parentInfo : Info α) (out : List (Frame α)) (sends : List (SendTrk α E)),
          Trk.process C dt parentInfo t' out sends
            = Trk.process C dt parentInfo
                (.node { t'.data with sounds := t.data.sounds, effects := t.data.effects } t.children t.pending) out sends := by
  induction h with
  | refl t => cases t; simp [Trk.children, Trk.pending, Trk.data]
  | step t t' pinfo out sends hadv _ ih =>
    obtain ⟨_, _, f1, f2, f3, f4, f5, _⟩ := Trk.process_frozen C dt pinfo t out sends hadv
    obtain ⟨i1, i2, i3, i4, i5, i6⟩ := ih
    refine ⟨i1.trans f1, i2.trans f2, i3.trans f3, i4.trans f4, i5.trans f5, ?_⟩
    intro pi o ss
    rw [i6 pi o ss, f1, f2, f3, f5]

/-- the probe sounds of the harness make the frozen position visible: `produced` does not move -/
theorem C12_resume_continues_probe (t t' : Trk α (PSnd α) (PFx α) Unit) (d : α)
    (h : Trk.FrozenRun probeComps d t t') : t'.data.sounds.map (·.produced) = t.data.sounds.map (·.produced) := by
  rw [(C12_resume_continues probeComps d t t' h).2.2.1]

/-- **Removal rule.**  `should_be_removed` holds iff the handle was dropped, and (the track does not
    persist or it has no sound at all: none inserted, none waiting in the new-resource ring), and no
    sub-track is waiting in the new-resource ring, and every inserted sub-track is itself removable.  Hence:
    * a removable track has only removable descendants (inserted or in a ring, at any depth), all of whose
      handles were dropped — **a track is never removed while a descendant track is alive**;
    * a dropped persisting track with a live or pending sound is not removable — it **keeps playing until
      its sounds finish**;
    * a track with a pending sub-track, or with an inserted sub-track that is not removable, is not removable. -/
theorem C12_removal_rule (d : TrkData α S E P) (children pending : List (Trk α S E P)) :
    (Trk.shouldBeRemoved (.node d children pending) = true
        ↔ d.marked = true ∧ (d.persist = true → d.sounds = [] ∧ d.pendingSounds = []) ∧ pending = []
            ∧ ∀ c ∈ children, Trk.shouldBeRemoved c = true)
      ∧ (Trk.shouldBeRemoved (.node d children pending) = true →
          ∀ x ∈ Trk.descendants (.node d children pending), Trk.shouldBeRemoved x = true ∧ x.data.marked = true)
      ∧ ((∃ x ∈ Trk.descendants (.node d children pending), x.data.marked = false) →
          Trk.shouldBeRemoved (.node d children pending) = false)
      ∧ (d.persist = true → (d.sounds ≠ [] ∨ d.pendingSounds ≠ []) →
          Trk.shouldBeRemoved (.node d children pending) = false)
      ∧ ((pending ≠ [] ∨ ∃ c ∈ children, Trk.shouldBeRemoved c = false) →
          Trk.shouldBeRemoved (.node d children pending) = false) := by
  have hiff := Trk.shouldBeRemoved_iff d children pending
  refine ⟨hiff, Trk.removable_descendants _, ?_, ?_, ?_⟩
  · rintro ⟨x, hx, hm⟩
    cases hr : Trk.shouldBeRemoved (.node d children pending) with
    | false => rfl
    | true => rw [(Trk.removable_descendants _ hr x hx).2] at hm; cases hm
  · intro hp hs
    cases hr : Trk.shouldBeRemoved (.node d children pending) with
    | false => rfl
    | true =>
      have := (hiff.mp hr).2.1 hp
      rcases hs with hs | hs
      · exact absurd this.1 hs
      · exact absurd this.2 hs
  · intro hs
    cases hr : Trk.shouldBeRemoved (.node d children pending) with
    | false => rfl
    | true =>
      obtain ⟨_, _, hp, hc⟩ := hiff.mp hr
      rcases hs with hs | ⟨c, hc', hcr⟩
      · exact absurd hp hs
      · rw [hc c hc'] at hcr; cases hcr

/-- **When a track is removed** (what `Mixer::on_start_processing` does to the top-level arena, and what
    `Track::on_start_processing` does to the sub-tracks of every track): every track still in the
    new-resource ring is inserted at the head — even if its handle has already been dropped, so such a track
    is rendered for one callback and removed "the one after" — and exactly the inserted tracks that are
    removable (`C12_removal_rule`) disappear: a track that is not removable — its handle alive, or a
    descendant's, or persisting with a live or pending sound, or with a pending sub-track — is still there
    after the callback (having run its own `on_start_processing`). -/
theorem C12_removed_when (m : Mixer α S E P) (d : TrkData α S E P) (children pending : List (Trk α S E P)) :
    (m.onStart C).subTracks.map (·.data.id)
        = (m.pendingSubTracks.map (·.data.id)).reverse
            ++ (m.subTracks.filter (fun t => !Trk.shouldBeRemoved t)).map (·.data.id)
      ∧ (∀ t ∈ m.subTracks, Trk.shouldBeRemoved t = false → Trk.onStart C t ∈ (m.onStart C).subTracks)
      ∧ (∀ t ∈ m.pendingSubTracks, Trk.onStart C t ∈ (m.onStart C).subTracks)
      ∧ (m.onStart C).pendingSubTracks = []
      ∧ (Trk.onStart C (.node d children pending)).children.map (·.data.id)
          = (pending.map (·.data.id)).reverse ++ (children.filter (fun t => !Trk.shouldBeRemoved t)).map (·.data.id)
      ∧ (∀ t ∈ children, Trk.shouldBeRemoved t = false →
          Trk.onStart C t ∈ (Trk.onStart C (.node d children pending)).children)
      ∧ (∀ t ∈ pending, Trk.onStart C t ∈ (Trk.onStart C (.node d children pending)).children)
      ∧ (Trk.onStart C (.node d children pending)).pending = [] := by
  refine ⟨?_, ?_, ?_, rfl, ?_, ?_, ?_, ?_⟩
  · simp [Mixer.onStart, Trk.onStartList_ids, Trk.onStartKept_ids, List.map_reverse]
  · intro t ht hr
    simp only [Mixer.onStart, List.mem_append]
    exact Or.inr (Trk.onStartKept_mem C _ t ht hr)
  · intro t ht
    simp only [Mixer.onStart, List.mem_append, List.mem_reverse]
    exact Or.inl (Trk.onStartList_mem C _ t ht)
  · rw [Trk.onStart]
    simp [Trk.children, Trk.onStartList_ids, Trk.onStartKept_ids, List.map_reverse]
  · intro t ht hr
    rw [Trk.onStart]
    simp only [Trk.children, List.mem_append]
    exact Or.inr (Trk.onStartKept_mem C _ t ht hr)
  · intro t ht
    rw [Trk.onStart]
    simp only [Trk.children, List.mem_append, List.mem_reverse]
    exact Or.inl (Trk.onStartList_mem C _ t ht)
  · rw [Trk.onStart]; rfl

/-- Corollaries for a track without sub-tracks.  Not persisting: removable iff its handle was dropped (so
    it goes at the next callback).  Persisting: removable iff dropped and no sound is left, inserted or
    pending — and at each `on_start_processing` the sound arena becomes "pending sounds (newest first), then
    the unfinished ones", so it empties exactly when the last sound has finished and the track goes at the
    callback after that: a dropped persisting track keeps playing until its sounds finish. -/
theorem C12_removed_when_leaf (d : TrkData α S E P) (pending : List (Trk α S E P)) :
    (d.persist = false → (Trk.shouldBeRemoved (.node d [] []) = true ↔ d.marked = true))
      ∧ (d.persist = true →
          (Trk.shouldBeRemoved (.node d [] []) = true ↔ d.marked = true ∧ d.sounds = [] ∧ d.pendingSounds = []))
      ∧ (Trk.onStart C (.node d [] pending)).data.sounds.length
          = d.pendingSounds.length + (d.sounds.filter (fun s => !C.sndFinished s)).length := by
  refine ⟨?_, ?_, ?_⟩
  · intro hp; rw [Trk.shouldBeRemoved_iff]; simp [hp]
  · intro hp; rw [Trk.shouldBeRemoved_iff]; simp [hp]
  · have hs : ∀ d : TrkData α S E P, (Trk.readCommands d).sounds = d.sounds ∧ (Trk.readCommands d).pendingSounds = d.pendingSounds := by
      intro d; unfold Trk.readCommands Trk.publish; dsimp only; split <;> split <;> exact ⟨rfl, rfl⟩
    rw [Trk.onStart]; simp [Trk.data, removeAndAdd, (hs d).1, (hs d).2]

/-- **A sound still in the ring keeps a dropped persisting track** (the history of the repaired finding
    (b)): play a sound on a persisting track and drop the handle before the next callback — the track is
    not removable, and `on_start_processing` inserts the sound (so it is rendered from that callback on). -/
theorem C12_pending_sound_kept (s : S) :
    let t : Trk α S E P := Trk.hDrop (Trk.hPlay s (Trk.build 0 (0.0 : α) [] [] true 1))
    t.data.persist = true ∧ t.data.marked = true ∧ t.data.pendingSounds = [s]
      ∧ Trk.shouldBeRemoved t = false ∧ (Trk.onStart C t).data.sounds = [C.sndStart s] := by
  refine ⟨?_, ?_, ?_, ?_, ?_⟩
  · simp [Trk.hDrop, Trk.hPlay, Trk.mapData, Trk.build, Trk.data]
  · simp [Trk.hDrop, Trk.hPlay, Trk.mapData, Trk.build, Trk.data]
  · simp [Trk.hDrop, Trk.hPlay, Trk.mapData, Trk.build, Trk.data]
  · simp [Trk.hDrop, Trk.hPlay, Trk.mapData, Trk.build, Trk.shouldBeRemoved, Trk.anyNotRemovable]
  · simp [Trk.hDrop, Trk.hPlay, Trk.mapData, Trk.build, Trk.onStart, Trk.readCommands, Trk.data, removeAndAdd]

/-- **A sub-track still in the ring keeps its dropped parent** (the history of the repaired finding (c)):
    add a sub-track through a track's handle and drop that handle before the next callback — the parent is
    not removable; `on_start_processing` inserts the child; and at the callback after that the parent is
    still not removable, because the inserted child's handle is alive. -/
theorem C12_pending_child_kept :
    let child : Trk α S E P := Trk.build 1 (0.0 : α) [] [] false 1
    let t : Trk α S E P := Trk.hDrop (Trk.hAddSubTrack child (Trk.build 0 (0.0 : α) [] [] false 1))
    t.data.marked = true ∧ t.pending = [child] ∧ child.data.marked = false
      ∧ Trk.shouldBeRemoved t = false
      ∧ (Trk.onStart C t).children.map (·.data.id) = [1]
      ∧ Trk.shouldBeRemoved (Trk.onStart C t) = false := by
  refine ⟨?_, ?_, ?_, ?_, ?_, ?_⟩
  · simp [Trk.hDrop, Trk.hAddSubTrack, Trk.mapData, Trk.build, Trk.data]
  · simp [Trk.hDrop, Trk.hAddSubTrack, Trk.mapData, Trk.build, Trk.pending]
  · simp [Trk.build, Trk.data]
  · simp [Trk.hDrop, Trk.hAddSubTrack, Trk.mapData, Trk.build, Trk.shouldBeRemoved]
  · simp [Trk.hDrop, Trk.hAddSubTrack, Trk.mapData, Trk.build, Trk.onStart, Trk.onStartList, Trk.onStartKept,
      Trk.readCommands, Trk.children, Trk.data]
  · simp [Trk.hDrop, Trk.hAddSubTrack, Trk.mapData, Trk.build, Trk.onStart, Trk.onStartList, Trk.onStartKept,
      Trk.readCommands, Trk.shouldBeRemoved, Trk.anyNotRemovable]

/-! ### the state a handle reports -/

/-- both arenas of sub-tracks satisfy the invariant "manager live, published byte faithful" -/
def Mixer.Ok (m : Mixer α S E P) : Prop := Trk.OkList m.subTracks ∧ Trk.OkList m.pendingSubTracks

/-- The mixer states reachable by any history of: creating the mixer; callbacks (`on_start_processing`,
    then chunks of any length with any lent buffer and any `Info` — clocks a track is waiting for may
    exist or not); adding sub-tracks to the mixer or to any track; and any handle operation
    that writes a command, plays a sound or drops a handle (`Trk.mapData g` with `g` leaving the manager
    and the published byte alone: `set_volume`, `set_send`, `pause`, `resume_at`, `play`, drop); and any
    operation that does not touch the sub-track arenas (send tracks, main track). -/
inductive Mixer.Reach (ibs : Nat) : Mixer α S E P → Prop where
  | new (v : α) (fx : List E) : Mixer.Reach ibs (Mixer.new v fx ibs)
  | onStart (m : Mixer α S E P) : Mixer.Reach ibs m → Mixer.Reach ibs (m.onStart C)
  | process (m : Mixer α S E P) (out : List (Frame α)) (dt : α) (info : Info α) :
      Mixer.Reach ibs m → Mixer.Reach ibs (m.process C out dt info).1
  | addSubTrack (m : Mixer α S E P) (id : Nat) (v : α) (fx : List E) (sends : List (Nat × α)) (persist : Bool) :
      Mixer.Reach ibs m → Mixer.Reach ibs (m.hAddSubTrack (Trk.build id v fx sends persist ibs))
  | addChild (m : Mixer α S E P) (parent id : Nat) (v : α) (fx : List E) (sends : List (Nat × α)) (persist : Bool) :
      Mixer.Reach ibs m →
      Mixer.Reach ibs (m.mapTrack parent (Trk.hAddSubTrack (Trk.build id v fx sends persist ibs)))
  | handleOp (m : Mixer α S E P) (id : Nat) (g : TrkData α S E P → TrkData α S E P) :
      Mixer.Reach ibs m → (∀ d, (g d).psm = d.psm ∧ (g d).pubState = d.pubState) →
      Mixer.Reach ibs (m.mapTrack id (Trk.mapData g))
  | other (m m' : Mixer α S E P) : Mixer.Reach ibs m → m'.subTracks = m.subTracks →
      m'.pendingSubTracks = m.pendingSubTracks → Mixer.Reach ibs m'

theorem Mixer.reach_ok (ibs : Nat) (m : Mixer α S E P) (h : Mixer.Reach C ibs m) :
    Mixer.Ok m := by
  induction h with
  | new v fx => exact ⟨trivial, trivial⟩
  | onStart m _ ih =>
    refine ⟨?_, trivial⟩
    show Trk.OkList ((Trk.onStartList C m.pendingSubTracks).reverse ++ Trk.onStartKept C m.subTracks)
    rw [Trk.okList_append, Trk.okList_reverse]
    exact ⟨(Trk.onStartLists_ok C _ ih.2).2, (Trk.onStartLists_ok C _ ih.1).1⟩
  | process m out dt info _ ih =>
    exact ⟨Trk.processChildren_ok C m.subTracks dt info out m.temp m.sendTracks ih.1, ih.2⟩
  | addSubTrack m id v fx sends persist _ ih =>
    exact ⟨ih.1, (Trk.okList_append _ _).mpr ⟨ih.2, Trk.build_ok id v fx sends persist ibs, trivial⟩⟩
  | addChild m parent id v fx sends persist _ ih =>
    have hf : ∀ t : Trk α S E P, Trk.Ok t → Trk.Ok (Trk.hAddSubTrack (Trk.build id v fx sends persist ibs) t) := by
      intro t ht
      cases t with
      | node d c p =>
        exact ⟨ht.1, ht.2.1, (Trk.okList_append _ _).mpr ⟨ht.2.2, Trk.build_ok id v fx sends persist ibs, trivial⟩⟩
    exact ⟨Trk.mapAtList_ok parent _ hf _ ih.1, Trk.mapAtList_ok parent _ hf _ ih.2⟩
  | handleOp m id g _ hg ih =>
    exact ⟨Trk.mapAtList_ok id _ (Trk.mapData_ok g hg) _ ih.1, Trk.mapAtList_ok id _ (Trk.mapData_ok g hg) _ ih.2⟩
  | other m m' _ h1 h2 ih => exact ⟨h1 ▸ ih.1, h2 ▸ ih.2⟩

/-- the handle operations of track/sub/handle.rs are of the form allowed in `Mixer.Reach.handleOp` -/
theorem C12_handle_ops_are_commands (tw : Tween α) (st : StartTime α) (v : Value α α) (to : Nat) (s : S) :
    (∃ g : TrkData α S E P → TrkData α S E P, Trk.hPause tw = Trk.mapData g ∧ ∀ d, (g d).psm = d.psm ∧ (g d).pubState = d.pubState)
      ∧ (∃ g : TrkData α S E P → TrkData α S E P, Trk.hResumeAt st tw = Trk.mapData g ∧ ∀ d, (g d).psm = d.psm ∧ (g d).pubState = d.pubState)
      ∧ (∃ g : TrkData α S E P → TrkData α S E P, Trk.hSetVolume v tw = Trk.mapData g ∧ ∀ d, (g d).psm = d.psm ∧ (g d).pubState = d.pubState)
      ∧ (∃ g : TrkData α S E P → TrkData α S E P, Trk.hSetSend to v tw = Trk.mapData g ∧ ∀ d, (g d).psm = d.psm ∧ (g d).pubState = d.pubState)
      ∧ (∃ g : TrkData α S E P → TrkData α S E P, Trk.hPlay s = Trk.mapData g ∧ ∀ d, (g d).psm = d.psm ∧ (g d).pubState = d.pubState)
      ∧ (∃ g : TrkData α S E P → TrkData α S E P, Trk.hDrop = Trk.mapData g ∧ ∀ d, (g d).psm = d.psm ∧ (g d).pubState = d.pubState) :=
  ⟨⟨_, rfl, fun _ => ⟨rfl, rfl⟩⟩, ⟨_, rfl, fun _ => ⟨rfl, rfl⟩⟩, ⟨_, rfl, fun _ => ⟨rfl, rfl⟩⟩,
   ⟨_, rfl, fun _ => ⟨rfl, rfl⟩⟩, ⟨_, rfl, fun _ => ⟨rfl, rfl⟩⟩, ⟨_, rfl, fun _ => ⟨rfl, rfl⟩⟩⟩

/-- **The reported state is always one of the five track states, and querying it cannot panic.**
    In every mixer state reachable by any history (`Mixer.Reach`: any callbacks with any clocks present
    or absent, any handle operations), for every track, wherever it is (inserted or still in a ring, at
    any depth): the playback-state manager is never Stopping / Stopped, the published byte is the
    manager's state, and `TrackHandle::state()` — a total function (`decodeTrackState`), so there is no
    panic to reach — returns exactly the manager's state (never through its fallback arm). -/
theorem C12_state_decodable (ibs : Nat) (m : Mixer α S E P)
    (h : Mixer.Reach C ibs m) (id : Nat) (x : Trk α S E P) (hx : m.findTrack id = some x) :
    x.hState.toPlayback = x.data.psm.playbackState
      ∧ x.data.pubState = x.data.psm.playbackState.toNat
      ∧ x.data.psm.playbackState ≠ .stopping ∧ x.data.psm.playbackState ≠ .stopped := by
  obtain ⟨h1, h2⟩ := Mixer.reach_ok C ibs m h
  have hok : Trk.Ok x := by
    unfold Mixer.findTrack at hx
    split at hx
    · rename_i y hy; cases hx; exact Trk.findList_ok id _ _ hy h1
    · exact Trk.findList_ok id _ _ hx h2
  cases x with
  | node d c p =>
    refine ⟨TrkData.ok_decodable d hok.1, hok.1.2, ?_, ?_⟩ <;>
    · have hl := hok.1.1
      unfold Psm.Live at hl
      simp only [Trk.data, Psm.playbackState]
      cases hs : d.psm.state <;> simp [hs] at hl ⊢

/-- **A track whose awaited clock does not exist stays Paused and can be resumed again** (the history
    of the repaired finding (a)).  A track is paused, `resume_at(ClockTime)` names a clock that does not
    exist (any more) when the next chunk is rendered: the handle reports WaitingToResume, then Paused
    (the manager is Paused, not Stopped); the chunk is silent; and a later `resume` is obeyed — the
    track is Resuming at the next `on_start_processing`. -/
theorem C12_missing_clock_leaves_paused (tw : Tween α) (c : Nat) (ct : ClockTime α) (dt : α) (info : Info α)
    (hclock : info.clock c = none) (out : List (Frame α)) (sends : List (SendTrk α E)) :
    let t0 : Trk α S E P := Trk.build 0 (0.0 : α) [] [] false 1
    let t1 := Trk.onStart C (Trk.hResumeAt (.clockTime c ct) tw (Trk.hPause tw t0))
    let t2 := (Trk.process C dt info t1 out sends).1
    t1.hState = .waitingToResume
      ∧ t2.hState = .paused ∧ t2.data.pubState = 2 ∧ t2.data.psm.state = .paused
      ∧ (Trk.process C dt info t1 out sends).2.1 = zeros out.length
      ∧ (∀ tw', (Trk.onStart C (Trk.hResumeAt .immediate tw' t2)).hState = .resuming) := by
  refine ⟨?_, ?_, ?_, ?_, ?_, ?_⟩
  · simp [Trk.onStart, Trk.readCommands, Trk.hResumeAt, Trk.hPause, Trk.mapData, Trk.build, Trk.publish,
      Trk.hState, Trk.data, Psm.pause, Psm.resume, Psm.isStopped, Psm.new, Psm.playbackState,
      PlaybackState.toNat, decodeTrackState]
  · simp [Trk.onStart, Trk.process, Trk.preUpdate, Trk.pausedIfStopped, Psm.markAsPaused, Trk.advancing,
      Trk.trackInfo, Trk.readCommands, Trk.hResumeAt,
      Trk.hPause, Trk.mapData, Trk.build, Trk.publish, Trk.hState, Trk.data, Psm.pause, Psm.resume, Psm.isStopped,
      Psm.new, Psm.playbackState, Psm.update, StartTime.update, Info.whenToStart, hclock, PlaybackState.toNat,
      PlaybackState.isAdvancing, decodeTrackState]
  · simp [Trk.onStart, Trk.process, Trk.preUpdate, Trk.pausedIfStopped, Psm.markAsPaused, Trk.advancing,
      Trk.trackInfo, Trk.readCommands, Trk.hResumeAt,
      Trk.hPause, Trk.mapData, Trk.build, Trk.publish, Trk.data, Psm.pause, Psm.resume, Psm.isStopped,
      Psm.new, Psm.playbackState, Psm.update, StartTime.update, Info.whenToStart, hclock, PlaybackState.toNat,
      PlaybackState.isAdvancing]
  · simp [Trk.onStart, Trk.process, Trk.preUpdate, Trk.pausedIfStopped, Psm.markAsPaused, Trk.advancing,
      Trk.trackInfo, Trk.readCommands, Trk.hResumeAt,
      Trk.hPause, Trk.mapData, Trk.build, Trk.publish, Trk.data, Psm.pause, Psm.resume, Psm.isStopped,
      Psm.new, Psm.playbackState, Psm.update, StartTime.update, Info.whenToStart, hclock, PlaybackState.toNat,
      PlaybackState.isAdvancing]
  · simp [Trk.onStart, Trk.process, Trk.preUpdate, Trk.pausedIfStopped, Psm.markAsPaused, Trk.advancing,
      Trk.trackInfo, Trk.readCommands, Trk.hResumeAt,
      Trk.hPause, Trk.mapData, Trk.build, Trk.publish, Psm.pause, Psm.resume, Psm.isStopped,
      Psm.new, Psm.playbackState, Psm.update, StartTime.update, Info.whenToStart, hclock, PlaybackState.toNat,
      PlaybackState.isAdvancing, fillZero]
  · intro tw'
    simp [Trk.onStart, Trk.process, Trk.preUpdate, Trk.pausedIfStopped, Psm.markAsPaused, Trk.advancing,
      Trk.trackInfo, Trk.readCommands, Trk.hResumeAt,
      Trk.hPause, Trk.mapData, Trk.build, Trk.publish, Trk.hState, Trk.data, Psm.pause, Psm.resume, Psm.isStopped,
      Psm.new, Psm.playbackState, Psm.update, StartTime.update, Info.whenToStart, hclock, PlaybackState.toNat,
      PlaybackState.isAdvancing, decodeTrackState]

/-! ### non-vacuity -/

/-- `Mixer.Reach` contains the history of the repaired finding: a mixer with one track that was paused
    and told to resume on clock 3, rendered with an `Info` in which no clock exists -/
example (tw : Tween α) (ct : ClockTime α) (ibs : Nat) (out : List (Frame α)) (dt : α) (info : Info α) :
    Mixer.Reach C ibs
      (((((((Mixer.new (0.0 : α) [] ibs : Mixer α S E P).hAddSubTrack (Trk.build 0 (0.0 : α) [] [] false ibs)).onStart C).mapTrack 0
        (Trk.mapData (fun d => { d with cmdPause := some tw }))).mapTrack 0
        (Trk.mapData (fun d => { d with cmdResume := some (.clockTime 3 ct, tw) }))).onStart C).process C out dt
          { info with clock := fun _ => none }).1 :=
  .process _ _ _ _ (.onStart _ (.handleOp _ 0 _ (.handleOp _ 0 _ (.onStart _ (.addSubTrack _ 0 _ [] [] false (.new _ [])))
    (fun _ => ⟨rfl, rfl⟩)) (fun _ => ⟨rfl, rfl⟩)))

end K
