/-
  C11 — rendered audio does not depend on buffer sizes.

  Subject: the imperative model of `Renderer::process` / `Mixer::process` / `Track::process` … (the
  definitions the twin runs), over ℝ.  "All parameters constant and no commands in flight" is
  `Renderer.Quiet`: scratch buffers clean (the invariant of C02) and `Mixer.Settled` — every sub-track
  simply playing with settled volume / fade / route parameters and no spatial data, main and send volumes
  settled — plus a static environment (`EnvOps.Static`: no clock, modulator or listener moves).
  Sounds and effects are arbitrary components that are chunk-homomorphic (`Comps.ChunkHom`: rendering
  `a + b` frames = rendering `a` then `b`, the per-frame state advance every kira sound and effect has) —
  or, in the `_on` forms, chunk-homomorphic relative to state invariants preserved by `process` and for slices
  of at most the internal buffer size (`Comps.ChunkHomOn`), which is what kira's REAL static sound and eight
  effects are proved to satisfy: `Props/C11_real.lean` (imported below) instantiates the `_on` forms with the
  whole-system model `Model/System.lean` (`C11_real_scene_partition_invariant`).
-/
import KiraModel.Proofs.SimLemmas
import KiraModel.Props.C11_real
import KiraModel.Proofs.GenAgreeSound

set_option linter.unusedSectionVars false

namespace K

section
variable {S E P X : Type} (C : Comps ℝ S E P) (V : EnvOps ℝ X)

/-! ### invariant-relative forms

`Comps.ChunkHomOn IS IE B dt` (Proofs/ChunkLemmas.lean): the components are chunk-homomorphic on the sound
states satisfying `IS` and the effect states satisfying `IE`, for slices of at most `B` frames, and `process`
preserves `IS`, `IE` — what kira's real sounds and effects satisfy (Props/C11_real.lean).  `Mixer.CompsOk IS IE m`:
every sound / effect the mixer processes satisfies its invariant.  `Renderer.QuietOn`: quiet + `CompsOk` + an
invariant `IX` of the environment on which it is static (`EnvOps.StaticOn`).  The unconditional theorems below
are the special case `IS = IE = IX = fun _ => True`. -/

/-- **Chunk homomorphism, lifted through the whole mixer (invariant-relative).**  For a clean, settled mixer
    whose components satisfy `IS` / `IE` and are chunk-homomorphic there for slices of at most `B ≥ ibs` frames,
    `Mixer::process` on a chunk of `a + b ≤ ibs` frames yields exactly the frames of a chunk of `a` followed by a
    chunk of `b` frames and the same final mixer, whose components satisfy `IS` / `IE` again. -/
theorem C11_chunk_homomorphism_on {IS : S → Prop} {IE : E → Prop} {B : Nat}
    (hC : C.LenPres) (dt : ℝ) (hH : C.ChunkHomOn IS IE B dt) (info : Info ℝ) (ibs : Nat) (hB : ibs ≤ B)
    (m : Mixer ℝ S E P) (hm : Mixer.Clean ibs m) (hs : Mixer.Settled m) (hc : Mixer.CompsOk IS IE m)
    (a b : Nat) (hab : a + b ≤ ibs) :
    m.process C (zeros (a + b)) dt info
      = (((m.process C (zeros a) dt info).1.process C (zeros b) dt info).1,
         (m.process C (zeros a) dt info).2 ++ ((m.process C (zeros a) dt info).1.process C (zeros b) dt info).2)
      ∧ Mixer.Settled (m.process C (zeros a) dt info).1 ∧ Mixer.CompsOk IS IE (m.process C (zeros a) dt info).1 := by
  obtain ⟨r1, _, _⟩ := Mixer.refines C hC ibs m hm (a + b) hab dt info
  obtain ⟨r2, _, c2⟩ := Mixer.refines C hC ibs m hm a (by omega) dt info
  obtain ⟨r3, _, _⟩ := Mixer.refines C hC ibs (Mixer.spec C m a dt info).1 c2 b (by omega) dt info
  rw [r1, r2, r3]
  exact Mixer.spec_hom_on C hC dt hH info ibs hB m hm hs hc a b hab

/-- **Chunk homomorphism, lifted through the whole mixer.**  For a clean, settled mixer and
    chunk-homomorphic sounds / effects, `Mixer::process` on a chunk of `a + b ≤ ibs` frames yields
    exactly the frames of a chunk of `a` followed by a chunk of `b` frames, and the same final mixer —
    tracks (by induction on the tree), sends (the routed signal is split the same way), main track.
    (The special case of `C11_chunk_homomorphism_on` with trivial invariants.) -/
theorem C11_chunk_homomorphism (hC : C.LenPres) (dt : ℝ) (hH : C.ChunkHom dt) (info : Info ℝ) (ibs : Nat)
    (m : Mixer ℝ S E P) (hm : Mixer.Clean ibs m) (hs : Mixer.Settled m) (a b : Nat) (hab : a + b ≤ ibs) :
    m.process C (zeros (a + b)) dt info
      = (((m.process C (zeros a) dt info).1.process C (zeros b) dt info).1,
         (m.process C (zeros a) dt info).2 ++ ((m.process C (zeros a) dt info).1.process C (zeros b) dt info).2) :=
  (C11_chunk_homomorphism_on C hC dt (Comps.ChunkHom.on C hH ibs) info ibs (Nat.le_refl _) m hm hs
    (Mixer.compsOk_true m) a b hab).1

/-- the same for one sub-track (any depth), invariant-relative: output and final subtree of `a + b` frames =
    `a` then `b`; `FeedRel` says the send tracks are handed the same routed signal, split the same way -/
theorem C11_chunk_homomorphism_track_on {IS : S → Prop} {IE : E → Prop} {B : Nat}
    (hC : C.LenPres) (dt : ℝ) (hH : C.ChunkHomOn IS IE B dt) (ibs : Nat) (hB : ibs ≤ B)
    (t : Trk ℝ S E P) (ht : Trk.Clean ibs t) (hs : Trk.Settled t) (hc : Trk.CompsOk IS IE t)
    (pinfo : Info ℝ) (a b : Nat) (hab : a + b ≤ ibs)
    (sab sa sb : List (SendTrk ℝ E)) (hrel : FeedRel a b sab sa sb) :
    (Trk.process C dt pinfo t (zeros (a + b)) sab).1
        = (Trk.process C dt pinfo (Trk.process C dt pinfo t (zeros a) sa).1 (zeros b) sb).1
      ∧ (Trk.process C dt pinfo t (zeros (a + b)) sab).2.1
        = (Trk.process C dt pinfo t (zeros a) sa).2.1
          ++ (Trk.process C dt pinfo (Trk.process C dt pinfo t (zeros a) sa).1 (zeros b) sb).2.1
      ∧ FeedRel a b (Trk.process C dt pinfo t (zeros (a + b)) sab).2.2 (Trk.process C dt pinfo t (zeros a) sa).2.2
          (Trk.process C dt pinfo (Trk.process C dt pinfo t (zeros a) sa).1 (zeros b) sb).2.2
      ∧ Trk.CompsOk IS IE (Trk.process C dt pinfo t (zeros a) sa).1 := by
  obtain ⟨r1, _, _⟩ := Trk.refines C hC ibs t ht dt pinfo (a + b) hab sab
  obtain ⟨r2, _, c2⟩ := Trk.refines C hC ibs t ht dt pinfo a (by omega) sa
  obtain ⟨r3, _, _⟩ := Trk.refines C hC ibs (Trk.spec C dt pinfo a t sa).1 c2 dt pinfo b (by omega) sb
  rw [r1, r2, r3]
  obtain ⟨h1, h2, h3, _, _, _, h7⟩ := Trk.spec_hom_on C hC dt hH t hs hc pinfo a b (by omega) sab sa sb hrel
  exact ⟨h1, h2, h3, h7⟩

/-- the same for one sub-track (any depth): output and final subtree of `a + b` frames = `a` then `b`;
    `FeedRel` says the send tracks are handed the same routed signal, split the same way -/
theorem C11_chunk_homomorphism_track (hC : C.LenPres) (dt : ℝ) (hH : C.ChunkHom dt) (ibs : Nat)
    (t : Trk ℝ S E P) (ht : Trk.Clean ibs t) (hs : Trk.Settled t) (pinfo : Info ℝ) (a b : Nat) (hab : a + b ≤ ibs)
    (sab sa sb : List (SendTrk ℝ E)) (hrel : FeedRel a b sab sa sb) :
    (Trk.process C dt pinfo t (zeros (a + b)) sab).1
        = (Trk.process C dt pinfo (Trk.process C dt pinfo t (zeros a) sa).1 (zeros b) sb).1
      ∧ (Trk.process C dt pinfo t (zeros (a + b)) sab).2.1
        = (Trk.process C dt pinfo t (zeros a) sa).2.1
          ++ (Trk.process C dt pinfo (Trk.process C dt pinfo t (zeros a) sa).1 (zeros b) sb).2.1
      ∧ FeedRel a b (Trk.process C dt pinfo t (zeros (a + b)) sab).2.2 (Trk.process C dt pinfo t (zeros a) sa).2.2
          (Trk.process C dt pinfo (Trk.process C dt pinfo t (zeros a) sa).1 (zeros b) sb).2.2 := by
  obtain ⟨h1, h2, h3, _⟩ := C11_chunk_homomorphism_track_on C hC dt (Comps.ChunkHom.on C hH ibs) ibs (Nat.le_refl _) t ht hs
    (Trk.compsOk_true t) pinfo a b hab sab sa sb hrel
  exact ⟨h1, h2, h3⟩

/-- **Partition and buffer-size invariance of the rendered audio (invariant-relative).**  Take a renderer `r`
    that is quiet on component invariants `IS`, `IE` (chunk-homomorphic there for slices ≤ `r.ibs`) and an
    environment invariant `IX` (static there).  The same scene built with another internal buffer size `k ≥ 1` is
    `Renderer.resize k (Renderer.mapComps fs fe r)`: scratch buffers of `k` frames, and every component mapped by
    `fs` / `fe` (for kira's effects: the delays' own scratch buffers resized), where the mapped components satisfy
    invariants `IS2`, `IE2` on which they are chunk-homomorphic for slices ≤ `k`, and mapping commutes with
    processing a single frame (`Comps.SimOn … 1`).  Then any two callback sequences `cbs1`, `cbs2` with the same
    total render the identical device sample stream, and the final states correspond (`resize` ∘ `mapComps`). -/
theorem C11_render_partition_invariant_on {IS IS2 : S → Prop} {IE IE2 : E → Prop} {IX : X → Prop}
    (hC : C.LenPres) (hV : V.StaticOn IX)
    (r : Renderer ℝ S E P X) (hibs : 1 ≤ r.ibs) (k : Nat) (hk : 1 ≤ k)
    (hH : C.ChunkHomOn IS IE r.ibs r.dt) (hq : r.QuietOn IS IE IX r.ibs r.dt)
    (fs : S → S) (fe : E → E) (hH2 : C.ChunkHomOn IS2 IE2 k r.dt)
    (hfs : ∀ s, IS s → IS2 (fs s)) (hfe : ∀ e, IE e → IE2 (fe e))
    (hsim : Comps.SimOn C C fs fe IS IE 1 r.dt)
    (ch : Nat) (cbs1 cbs2 : List Nat) (hsum : cbs1.sum = cbs2.sum) :
    (Renderer.runCallbacks C V ch (Renderer.resize k (Renderer.mapComps fs fe r)) cbs2).2
        = (Renderer.runCallbacks C V ch r cbs1).2
      ∧ (Renderer.runCallbacks C V ch (Renderer.resize k (Renderer.mapComps fs fe r)) cbs2).1
          = Renderer.resize k (Renderer.mapComps fs fe (Renderer.runCallbacks C V ch r cbs1).1) :=
  Renderer.runCallbacks_partition_on C V hC hV r hibs k hk hH hq fs fe hH2 hfs hfe hsim ch cbs1 cbs2 hsum

/-- **Partition and buffer-size invariance of the rendered audio.**  Take a quiet renderer `r` (internal
    buffer size `r.ibs ≥ 1`) and the same renderer built with any other internal buffer size `k ≥ 1`
    (`Renderer.resize k r`).  Render any two sequences of device callbacks `cbs1`, `cbs2` (each callback =
    one `Renderer::process` call of that many frames, cut into chunks of at most the respective buffer
    size) with the same total number of frames: the two device sample streams are identical, and the two
    renderers end in the same state (up to the capacity of their scratch buffers).
    (The special case of `C11_render_partition_invariant_on` with trivial invariants and identity maps.) -/
theorem C11_render_partition_invariant (hC : C.LenPres) (hH : ∀ dt, C.ChunkHom dt) (hV : V.Static)
    (r : Renderer ℝ S E P X) (hq : r.Quiet) (hibs : 1 ≤ r.ibs) (k : Nat) (hk : 1 ≤ k) (ch : Nat)
    (cbs1 cbs2 : List Nat) (hsum : cbs1.sum = cbs2.sum) :
    (Renderer.runCallbacks C V ch (Renderer.resize k r) cbs2).2 = (Renderer.runCallbacks C V ch r cbs1).2
      ∧ (Renderer.runCallbacks C V ch (Renderer.resize k r) cbs2).1
          = Renderer.resize k (Renderer.runCallbacks C V ch r cbs1).1 := by
  have h := C11_render_partition_invariant_on C V (IS := fun _ => True) (IS2 := fun _ => True) (IE := fun _ => True)
    (IE2 := fun _ => True) (IX := fun _ => True) hC (EnvOps.Static.on V hV) r hibs k hk
    (Comps.ChunkHom.on C (hH r.dt) r.ibs) (Renderer.Quiet.on r hq) (fun s => s) (fun e => e)
    (Comps.ChunkHom.on C (hH r.dt) k) (fun _ _ => trivial) (fun _ _ => trivial)
    ⟨fun _ _ _ _ _ => rfl, fun _ _ _ _ _ => trivial, fun _ _ _ _ _ => rfl, fun _ _ _ _ _ => trivial, rfl, rfl⟩
    ch cbs1 cbs2 hsum
  simpa only [Renderer.mapComps_id] using h

/-- same internal buffer size, two callback partitions, invariant-relative -/
theorem C11_callback_partition_invariant_on {IS : S → Prop} {IE : E → Prop} {IX : X → Prop}
    (hC : C.LenPres) (hV : V.StaticOn IX)
    (r : Renderer ℝ S E P X) (hibs : 1 ≤ r.ibs)
    (hH : C.ChunkHomOn IS IE r.ibs r.dt) (hq : r.QuietOn IS IE IX r.ibs r.dt)
    (ch : Nat) (cbs1 cbs2 : List Nat) (hsum : cbs1.sum = cbs2.sum) :
    Renderer.runCallbacks C V ch r cbs1 = Renderer.runCallbacks C V ch r cbs2 := by
  rw [(Renderer.runCallbacks_spec_clean C V hC ch cbs1 r hq.quiet.1).1,
    (Renderer.runCallbacks_spec_clean C V hC ch cbs2 r hq.quiet.1).1]
  exact Renderer.specChunks_partition_on C V hC hH hV ch r hq _ _ (callbackChunks_bound r.ibs hibs cbs1)
    (callbackChunks_bound r.ibs hibs cbs2) (by rw [callbackChunks_sum r.ibs hibs, callbackChunks_sum r.ibs hibs, hsum])

/-- same internal buffer size, two callback partitions (the special case `k = r.ibs` without resizing) -/
theorem C11_callback_partition_invariant (hC : C.LenPres) (hH : ∀ dt, C.ChunkHom dt) (hV : V.Static)
    (r : Renderer ℝ S E P X) (hq : r.Quiet) (hibs : 1 ≤ r.ibs) (ch : Nat)
    (cbs1 cbs2 : List Nat) (hsum : cbs1.sum = cbs2.sum) :
    Renderer.runCallbacks C V ch r cbs1 = Renderer.runCallbacks C V ch r cbs2 :=
  C11_callback_partition_invariant_on C V hC (EnvOps.Static.on V hV) r hibs (Comps.ChunkHom.on C (hH r.dt) r.ibs)
    (Renderer.Quiet.on r hq) ch cbs1 cbs2 hsum

/-- **Whole device callbacks** (`on_start_processing` + `process`), no commands in flight, invariant-relative:
    `Mixer.Idle` (nothing pending anywhere), `on_start_processing` neutral on the component invariants and on the
    environment invariant, no sound satisfying `IS` finishes (`Comps.StartNeutralOn`): `on_start_processing`
    changes nothing, so the same invariance holds for whole device callbacks. -/
theorem C11_device_callbacks_partition_invariant_on {IS IS2 : S → Prop} {IE IE2 : E → Prop} {IX : X → Prop}
    (hC : C.LenPres) (hV : V.StaticOn IX) (hVs : ∀ e, IX e → V.start e = e)
    (r : Renderer ℝ S E P X) (hibs : 1 ≤ r.ibs) (k : Nat) (hk : 1 ≤ k)
    (hH : C.ChunkHomOn IS IE r.ibs r.dt) (hq : r.QuietOn IS IE IX r.ibs r.dt) (hi : Mixer.Idle r.mixer)
    (hN : C.StartNeutralOn IS IE)
    (fs : S → S) (fe : E → E) (hH2 : C.ChunkHomOn IS2 IE2 k r.dt) (hN2 : C.StartNeutralOn IS2 IE2)
    (hfs : ∀ s, IS s → IS2 (fs s)) (hfe : ∀ e, IE e → IE2 (fe e))
    (hsim : Comps.SimOn C C fs fe IS IE 1 r.dt)
    (ch : Nat) (cbs1 cbs2 : List Nat) (hsum : cbs1.sum = cbs2.sum) :
    (Renderer.runDeviceCallbacks C V ch (Renderer.resize k (Renderer.mapComps fs fe r)) cbs2).2
      = (Renderer.runDeviceCallbacks C V ch r cbs1).2 := by
  have hq2 : (Renderer.resize k (Renderer.mapComps fs fe r)).QuietOn IS2 IE2 IX k r.dt :=
    ⟨Renderer.resize_quiet k _ (Renderer.mapComps_quiet fs fe r hq.quiet),
      Mixer.resize_compsOk k _ (Mixer.mapComps_compsOk fs fe hfs hfe r.mixer hq.comps), hq.env, Nat.le_refl _, rfl⟩
  rw [Renderer.runDeviceCallbacks_eq_on C V hC hH hV hVs hN ch cbs1 r hq hi,
    Renderer.runDeviceCallbacks_eq_on C V hC hH2 hV hVs hN2 ch cbs2 _ hq2
      (Mixer.resize_idle k _ (Mixer.mapComps_idle fs fe r.mixer hi))]
  exact (C11_render_partition_invariant_on C V hC hV r hibs k hk hH hq fs fe hH2 hfs hfe hsim ch cbs1 cbs2 hsum).1

/-- **Whole device callbacks** (`on_start_processing` + `process`), no commands in flight.  If in addition
    nothing is pending anywhere (`Mixer.Idle`: no command written, no resource in a ring, no handle dropped) and
    the components' `on_start_processing` leaves their audio state alone and no sound finishes
    (`Comps.StartNeutral`), then `on_start_processing` changes nothing, so any two sequences of whole device
    callbacks with the same total length, on renderers built with any two internal buffer sizes, produce the
    identical sample stream.  (Handles dropped before pickup, sounds finishing on persisting tracks, etc. are
    commands in flight: their effect lands at the next callback boundary, which does depend on the partition.) -/
theorem C11_device_callbacks_partition_invariant (hC : C.LenPres) (hH : ∀ dt, C.ChunkHom dt) (hV : V.Static)
    (hVs : ∀ e, V.start e = e) (hN : C.StartNeutral)
    (r : Renderer ℝ S E P X) (hq : r.Quiet) (hi : Mixer.Idle r.mixer) (hibs : 1 ≤ r.ibs) (k : Nat) (hk : 1 ≤ k)
    (ch : Nat) (cbs1 cbs2 : List Nat) (hsum : cbs1.sum = cbs2.sum) :
    (Renderer.runDeviceCallbacks C V ch (Renderer.resize k r) cbs2).2
      = (Renderer.runDeviceCallbacks C V ch r cbs1).2 := by
  rw [Renderer.runDeviceCallbacks_eq C V hC hH hV hVs hN ch cbs1 r hq hi,
    Renderer.runDeviceCallbacks_eq C V hC hH hV hVs hN ch cbs2 _ (Renderer.resize_quiet k r hq)
      (Mixer.resize_idle k r.mixer hi)]
  exact (C11_render_partition_invariant C V hC hH hV r hq hibs k hk ch cbs1 cbs2 hsum).1

end

/-! ### non-vacuity -/

/-- the harness probes without their call logs (the logs record the slice lengths, which of course do
    depend on the partition) -/
noncomputable def quietProbes : Comps ℝ (PSnd ℝ) (PFx ℝ) Unit :=
  { probeComps with
    sndStep := fun s buf dt info => ({ (PSnd.step s buf dt info).1 with slices := [] }, (PSnd.step s buf dt info).2)
    fxStep := fun e buf dt info => ({ (PFx.step e buf dt info).1 with slices := [] }, (PFx.step e buf dt info).2) }

theorem PSnd.fill_add (s : PSnd ℝ) (k a b : Nat) : PSnd.fill s k (a + b) = PSnd.fill s k a ++ PSnd.fill s (k + a) b := by
  induction a generalizing k with
  | zero => simp [PSnd.fill]
  | succ n ih =>
    rw [show n + 1 + b = (n + b) + 1 by omega]
    simp only [PSnd.fill, List.cons_append, ih (k + 1)]
    rw [show k + 1 + n = k + (n + 1) by omega]

theorem PFx.run_append (e : PFx ℝ) (p : Frame ℝ) (xs ys : List (Frame ℝ)) :
    PFx.run e p (xs ++ ys) = ((PFx.run e (PFx.run e p xs).1 ys).1, (PFx.run e p xs).2 ++ (PFx.run e (PFx.run e p xs).1 ys).2) := by
  induction xs generalizing p with
  | nil => simp [PFx.run]
  | cons x xs ih => simp [PFx.run, ih]

/-- index-coded / constant probe sounds and gain-offset-feedback probe effects are chunk-homomorphic
    and length-preserving: the hypotheses of the theorems above are satisfiable -/
theorem quietProbes_ok (dt : ℝ) : quietProbes.LenPres ∧ quietProbes.ChunkHom dt := by
  have hfill : ∀ (s : PSnd ℝ) (k n : Nat), (PSnd.fill s k n).length = n := by
    intro s k n; induction n generalizing k with
    | zero => simp [PSnd.fill]
    | succ n ih => simp [PSnd.fill, ih]
  have hrun : ∀ (e : PFx ℝ) (p : Frame ℝ) (l : List (Frame ℝ)), (PFx.run e p l).2.length = l.length := by
    intro e p l; induction l generalizing p with
    | nil => simp [PFx.run]
    | cons f fs ih => simp [PFx.run, ih]
  refine ⟨⟨?_, ?_, fun _ _ _ _ => rfl⟩, ⟨?_, ?_⟩⟩
  · intro s buf _ _; simp [quietProbes, PSnd.step, hfill]
  · intro e buf _ _; simp [quietProbes, PFx.step, hrun]
  · intro s info a b
    simp only [quietProbes, PSnd.step, length_zeros]
    have hfa : ∀ (s' : PSnd ℝ) k n, s'.signal = s.signal → s'.length = s.length → PSnd.fill s' k n = PSnd.fill s k n := by
      intro s' k n h1 h2
      induction n generalizing k with
      | zero => simp [PSnd.fill]
      | succ n ih => simp [PSnd.fill, ih, PSnd.frameAt, h1, h2]
    rw [PSnd.fill_add]
    simp only [Nat.add_assoc, Prod.mk.injEq, List.append_cancel_left_eq, true_and]
    symm; apply hfa <;> rfl
  · intro e info xs ys
    simp only [quietProbes, PFx.step]
    have hrun' : ∀ (e' : PFx ℝ) p l, e'.gain = e.gain → e'.offset = e.offset → e'.feedback = e.feedback →
        PFx.run e' p l = PFx.run e p l := by
      intro e' p l h1 h2 h3
      induction l generalizing p with
      | nil => simp [PFx.run]
      | cons f fs ih => simp [PFx.run, ih, PFx.chan, h1, h2, h3]
    rw [PFx.run_append]
    have h := hrun' { e with prev := (e.run e.prev xs).1, slices := [] } (e.run e.prev xs).1 ys rfl rfl rfl
    simp only [h]

/-- endless probes whose `on_start_processing` is not counted: they satisfy `StartNeutral` as well -/
noncomputable def stillProbes : Comps ℝ (PSnd ℝ) (PFx ℝ) Unit :=
  { quietProbes with sndStart := id, fxStart := id, sndFinished := fun _ => false }

example : stillProbes.StartNeutral := ⟨fun _ => rfl, fun _ => rfl, fun _ => rfl⟩
example (dt : ℝ) : stillProbes.LenPres ∧ stillProbes.ChunkHom dt :=
  ⟨⟨(quietProbes_ok dt).1.snd, (quietProbes_ok dt).1.fx, (quietProbes_ok dt).1.sp⟩,
   ⟨(quietProbes_ok dt).2.snd, (quietProbes_ok dt).2.fx⟩⟩
/-- a freshly created mixer has nothing in flight -/
example : Mixer.Idle (Mixer.new (S := PSnd ℝ) (E := PFx ℝ) (P := Unit) 0 [] 4) :=
  ⟨trivial, rfl, rfl, by simp [Mixer.new], ⟨rfl, rfl⟩⟩

theorem Trk.build_settled {S E P : Type} (id : Nat) (v : ℝ) (fx : List E) (sends : List (Nat × ℝ)) (persist : Bool)
    (ibs : Nat) : Trk.Settled (Trk.build (S := S) (P := P) id v fx sends persist ibs) := by
  refine ⟨⟨?_, ?_, ?_, rfl⟩, trivial⟩
  · simp [Trk.build, Parameter.Settled, Parameter.new, Value.isFixed]
  · simp [Trk.build, Psm.Settled, Psm.new, Parameter.Settled, Parameter.new, Value.isFixed]
  · intro r hr
    simp only [Trk.build, List.mem_map] at hr
    obtain ⟨_, _, rfl⟩ := hr
    simp [Parameter.Settled, Parameter.new, Value.isFixed]

/-- a quiet renderer exists: a playing track routed to a send track, as the builders make them -/
example : ∃ r : Renderer ℝ (PSnd ℝ) (PFx ℝ) Unit Unit, r.Quiet ∧ 1 ≤ r.ibs := by
  refine ⟨{ dt := 1,
            mixer := { main := (Mixer.new (S := PSnd ℝ) (E := PFx ℝ) (P := Unit) 0 [] 4).main,
                       subTracks := [Trk.build 0 0 [] [(0, 0)] false 4], pendingSubTracks := [],
                       sendTracks := [SendTrk.build 0 0 [] 4], pendingSendTracks := [], temp := zeros 4 },
            env := (), ibs := 4, temp := zeros 4 }, ⟨⟨rfl, ?_⟩, ?_⟩, by norm_num⟩
  · refine ⟨rfl, rfl, ⟨Trk.build_clean 0 0 [] [(0, 0)] false 4, trivial⟩, trivial, ?_, ?_⟩
    · intro s hs; rw [List.mem_singleton.mp hs]; rfl
    · intro s hs; cases hs
  · refine ⟨⟨Trk.build_settled 0 0 [] [(0, 0)] false 4, trivial⟩, ?_, ?_⟩
    · simp [Mixer.new, Parameter.Settled, Parameter.new, Value.isFixed]
    · intro s hs; rw [List.mem_singleton.mp hs]
      simp [SendTrk.build, Parameter.Settled, Parameter.new, Value.isFixed]

end K
