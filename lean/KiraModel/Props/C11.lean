/-
  C11 — rendered audio does not depend on buffer sizes.

  Subject: the imperative model of `Renderer::process` / `Mixer::process` / `Track::process` … (the
  definitions the twin runs), over ℝ.  "All parameters constant and no commands in flight" is
  `Renderer.Quiet`: scratch buffers clean (the invariant of C02) and `Mixer.Settled` — every sub-track
  simply playing with settled volume / fade / route parameters and no spatial data, main and send volumes
  settled — plus a static environment (`EnvOps.Static`: no clock, modulator or listener moves).
  Sounds and effects are arbitrary components that are chunk-homomorphic (`Comps.ChunkHom`: rendering
  `a + b` frames = rendering `a` then `b`, the per-frame state advance every kira sound and effect has).
-/
import KiraModel.Proofs.IdleLemmas

set_option linter.unusedSectionVars false

namespace K

section
variable {S E P X : Type} (C : Comps ℝ S E P) (V : EnvOps ℝ X)

/-- **Chunk homomorphism, lifted through the whole mixer.**  For a clean, settled mixer and
    chunk-homomorphic sounds / effects, `Mixer::process` on a chunk of `a + b ≤ ibs` frames yields
    exactly the frames of a chunk of `a` followed by a chunk of `b` frames, and the same final mixer —
    tracks (by induction on the tree), sends (the routed signal is split the same way), main track. -/
theorem C11_chunk_homomorphism (hC : C.LenPres) (dt : ℝ) (hH : C.ChunkHom dt) (info : Info ℝ) (ibs : Nat)
    (m : Mixer ℝ S E P) (hm : Mixer.Clean ibs m) (hs : Mixer.Settled m) (a b : Nat) (hab : a + b ≤ ibs) :
    m.process C (zeros (a + b)) dt info
      = (((m.process C (zeros a) dt info).1.process C (zeros b) dt info).1,
         (m.process C (zeros a) dt info).2 ++ ((m.process C (zeros a) dt info).1.process C (zeros b) dt info).2) := by
  obtain ⟨r1, _, _⟩ := Mixer.refines C hC ibs m hm (a + b) hab dt info
  obtain ⟨r2, _, c2⟩ := Mixer.refines C hC ibs m hm a (by omega) dt info
  obtain ⟨r3, _, _⟩ := Mixer.refines C hC ibs (Mixer.spec C m a dt info).1 c2 b (by omega) dt info
  rw [r1, r2, r3]
  exact (Mixer.spec_hom C hC dt hH info ibs m hm hs a b hab).1

/-- the same for one sub-track (any depth): output and final subtree of `a + b` frames = `a` then `b`;
    `FeedRel` says the send tracks are handed the same routed signal, split the same way -/
theorem C11_chunk_homomorphism_track (hC : C.LenPres) (dt : ℝ) (hH : C.ChunkHom dt) (ibs : Nat)
    (t : Trk ℝ S E P) (ht : Trk.Clean ibs t) (hs : Trk.Settled t) (pinfo : Info ℝ) (a b : Nat) (hab : a + b ≤ ibs)
    (sab sa sb : List (SendTrk ℝ E)) (hrel : FeedRel a b sab sa sb) :
    (Trk.process C dt pinfo t (zeros (a + b)) sab).1
        = (Trk.process C dt pinfo (Trk.process C dt pinfo t (zeros a) sa).1 (zeros b) sb).1
      ∧ (Trk.process C dt pinfo t (zeros (a + b)) sab).2.1
        = (Trk.process C dt pinfo t (zeros a) sa).2.1
          ++ (Trk.process C dt pinfo (Trk.process C dt pinfo t (zeros a) sa).1 (zeros b) sb).2.1
      ∧ FeedRel a b (Trk.process C dt pinfo t (zeros (a + b)) sab).2.2 (Trk.process C dt pinfo t (zeros a) sa).2.2
          (Trk.process C dt pinfo (Trk.process C dt pinfo t (zeros a) sa).1 (zeros b) sb).2.2 := by
  obtain ⟨r1, _, _⟩ := Trk.refines C hC ibs t ht dt pinfo (a + b) hab sab
  obtain ⟨r2, _, c2⟩ := Trk.refines C hC ibs t ht dt pinfo a (by omega) sa
  obtain ⟨r3, _, _⟩ := Trk.refines C hC ibs (Trk.spec C dt pinfo a t sa).1 c2 dt pinfo b (by omega) sb
  rw [r1, r2, r3]
  obtain ⟨h1, h2, h3, _⟩ := Trk.spec_hom C hC dt hH t hs pinfo a b sab sa sb hrel
  exact ⟨h1, h2, h3⟩

/-- **Partition and buffer-size invariance of the rendered audio.**  Take a quiet renderer `r` (internal
    buffer size `r.ibs ≥ 1`) and the same renderer built with any other internal buffer size `k ≥ 1`
    (`Renderer.resize k r`).  Render any two sequences of device callbacks `cbs1`, `cbs2` (each callback =
    one `Renderer::process` call of that many frames, cut into chunks of at most the respective buffer
    size) with the same total number of frames: the two device sample streams are identical, and the two
    renderers end in the same state (up to the capacity of their scratch buffers). -/
theorem C11_render_partition_invariant (hC : C.LenPres) (hH : ∀ dt, C.ChunkHom dt) (hV : V.Static)
    (r : Renderer ℝ S E P X) (hq : r.Quiet) (hibs : 1 ≤ r.ibs) (k : Nat) (hk : 1 ≤ k) (ch : Nat)
    (cbs1 cbs2 : List Nat) (hsum : cbs1.sum = cbs2.sum) :
    (Renderer.runCallbacks C V ch (Renderer.resize k r) cbs2).2 = (Renderer.runCallbacks C V ch r cbs1).2
      ∧ (Renderer.runCallbacks C V ch (Renderer.resize k r) cbs2).1
          = Renderer.resize k (Renderer.runCallbacks C V ch r cbs1).1 := by
  have hq' := Renderer.resize_quiet k r hq
  have hibs' : (Renderer.resize k r).ibs = k := rfl
  -- both runs are chunk loops; both chunk lists reduce to single-frame chunks
  rw [Renderer.runCallbacks_spec C V hC hH hV ch cbs1 r hq,
    Renderer.runCallbacks_spec C V hC hH hV ch cbs2 _ hq', hibs']
  rw [Renderer.specChunks_ones C V hC hH hV ch _ r hq (callbackChunks_bound r.ibs hibs cbs1),
    Renderer.specChunks_ones C V hC hH hV ch _ _ hq' (by rw [hibs']; exact callbackChunks_bound k hk cbs2),
    callbackChunks_sum r.ibs hibs, callbackChunks_sum k hk, hsum]
  -- the same single-frame chunks on the two capacities
  rw [Renderer.specChunks_resize C V hC k ch _ r hq.1
    (fun n hn => by rw [List.eq_of_mem_replicate hn]; exact ⟨hibs, hk⟩)]
  exact ⟨rfl, rfl⟩

/-- same internal buffer size, two callback partitions (the special case `k = r.ibs` without resizing) -/
theorem C11_callback_partition_invariant (hC : C.LenPres) (hH : ∀ dt, C.ChunkHom dt) (hV : V.Static)
    (r : Renderer ℝ S E P X) (hq : r.Quiet) (hibs : 1 ≤ r.ibs) (ch : Nat)
    (cbs1 cbs2 : List Nat) (hsum : cbs1.sum = cbs2.sum) :
    Renderer.runCallbacks C V ch r cbs1 = Renderer.runCallbacks C V ch r cbs2 := by
  rw [Renderer.runCallbacks_spec C V hC hH hV ch cbs1 r hq, Renderer.runCallbacks_spec C V hC hH hV ch cbs2 r hq]
  exact Renderer.specChunks_partition C V hC hH hV ch r hq _ _ (callbackChunks_bound r.ibs hibs cbs1)
    (callbackChunks_bound r.ibs hibs cbs2) (by rw [callbackChunks_sum r.ibs hibs, callbackChunks_sum r.ibs hibs, hsum])

/-- **Whole device callbacks** (`on_start_processing` + `process`), no commands in flight.  If in addition
    nothing is pending anywhere (`Mixer.Idle`: no command written, no resource in a ring, no handle dropped) and
    the components' `on_start_processing` leaves their audio state alone and no sound finishes
    (`Comps.StartNeutral`), then `on_start_processing` changes nothing, so any two sequences of whole device
    callbacks with the same total length, on renderers built with any two internal buffer sizes, produce the
    identical sample stream.  (Handles dropped before pickup, sounds finishing on persisting tracks, etc. are
    commands in flight: their effect lands at the next callback boundary, which does depend on the partition.) -/
theorem C11_device_callbacks_partition_invariant (hC : C.LenPres) (hH : ∀ dt, C.ChunkHom dt) (hV : V.Static)
    (hVs : ∀ e, V.start e = e) (hN : C.StartNeutral)
    (r : Renderer ℝ S E P X) (hq : r.Quiet) (hi : Mixer.Idle r.mixer) (hibs : 1 ≤ r.ibs) (k : Nat) (hk : 1 ≤ k)
    (ch : Nat) (cbs1 cbs2 : List Nat) (hsum : cbs1.sum = cbs2.sum) :
    (Renderer.runDeviceCallbacks C V ch (Renderer.resize k r) cbs2).2
      = (Renderer.runDeviceCallbacks C V ch r cbs1).2 := by
  rw [Renderer.runDeviceCallbacks_eq C V hC hH hV hVs hN ch cbs1 r hq hi,
    Renderer.runDeviceCallbacks_eq C V hC hH hV hVs hN ch cbs2 _ (Renderer.resize_quiet k r hq)
      (Mixer.resize_idle k r.mixer hi)]
  exact (C11_render_partition_invariant C V hC hH hV r hq hibs k hk ch cbs1 cbs2 hsum).1

end

/-! ### non-vacuity -/

/-- the harness probes without their call logs (the logs record the slice lengths, which of course do
    depend on the partition) -/
noncomputable def quietProbes : Comps ℝ (PSnd ℝ) (PFx ℝ) Unit :=
  { probeComps with
    sndStep := fun s buf dt info => ({ (PSnd.step s buf dt info).1 with slices := [] }, (PSnd.step s buf dt info).2)
    fxStep := fun e buf dt info => ({ (PFx.step e buf dt info).1 with slices := [] }, (PFx.step e buf dt info).2) }

theorem PSnd.fill_add (s : PSnd ℝ) (k a b : Nat) : PSnd.fill s k (a + b) = PSnd.fill s k a ++ PSnd.fill s (k + a) b := by
  induction a generalizing k with
  | zero => simp [PSnd.fill]
  | succ n ih =>
    rw [show n + 1 + b = (n + b) + 1 by omega]
    simp only [PSnd.fill, List.cons_append, ih (k + 1)]
    rw [show k + 1 + n = k + (n + 1) by omega]

theorem PFx.run_append (e : PFx ℝ) (p : Frame ℝ) (xs ys : List (Frame ℝ)) :
    PFx.run e p (xs ++ ys) = ((PFx.run e (PFx.run e p xs).1 ys).1, (PFx.run e p xs).2 ++ (PFx.run e (PFx.run e p xs).1 ys).2) := by
  induction xs generalizing p with
  | nil => simp [PFx.run]
  | cons x xs ih => simp [PFx.run, ih]

/-- index-coded / constant probe sounds and gain-offset-feedback probe effects are chunk-homomorphic
    and length-preserving: the hypotheses of the theorems above are satisfiable -/
theorem quietProbes_ok (dt : ℝ) : quietProbes.LenPres ∧ quietProbes.ChunkHom dt := by
  have hfill : ∀ (s : PSnd ℝ) (k n : Nat), (PSnd.fill s k n).length = n := by
    intro s k n; induction n generalizing k with
    | zero => simp [PSnd.fill]
    | succ n ih => simp [PSnd.fill, ih]
  have hrun : ∀ (e : PFx ℝ) (p : Frame ℝ) (l : List (Frame ℝ)), (PFx.run e p l).2.length = l.length := by
    intro e p l; induction l generalizing p with
    | nil => simp [PFx.run]
    | cons f fs ih => simp [PFx.run, ih]
  refine ⟨⟨?_, ?_, fun _ _ _ _ => rfl⟩, ⟨?_, ?_⟩⟩
  · intro s buf _ _; simp [quietProbes, PSnd.step, hfill]
  · intro e buf _ _; simp [quietProbes, PFx.step, hrun]
  · intro s info a b
    simp only [quietProbes, PSnd.step, length_zeros]
    have hfa : ∀ (s' : PSnd ℝ) k n, s'.signal = s.signal → s'.length = s.length → PSnd.fill s' k n = PSnd.fill s k n := by
      intro s' k n h1 h2
      induction n generalizing k with
      | zero => simp [PSnd.fill]
      | succ n ih => simp [PSnd.fill, ih, PSnd.frameAt, h1, h2]
    rw [PSnd.fill_add]
    simp only [Nat.add_assoc, Prod.mk.injEq, List.append_cancel_left_eq, true_and]
    symm; apply hfa <;> rfl
  · intro e info xs ys
    simp only [quietProbes, PFx.step]
    have hrun' : ∀ (e' : PFx ℝ) p l, e'.gain = e.gain → e'.offset = e.offset → e'.feedback = e.feedback →
        PFx.run e' p l = PFx.run e p l := by
      intro e' p l h1 h2 h3
      induction l generalizing p with
      | nil => simp [PFx.run]
      | cons f fs ih => simp [PFx.run, ih, PFx.chan, h1, h2, h3]
    rw [PFx.run_append]
    have h := hrun' { e with prev := (e.run e.prev xs).1, slices := [] } (e.run e.prev xs).1 ys rfl rfl rfl
    simp only [h]

/-- endless probes whose `on_start_processing` is not counted: they satisfy `StartNeutral` as well -/
noncomputable def stillProbes : Comps ℝ (PSnd ℝ) (PFx ℝ) Unit :=
  { quietProbes with sndStart := id, fxStart := id, sndFinished := fun _ => false }

example : stillProbes.StartNeutral := ⟨fun _ => rfl, fun _ => rfl, fun _ => rfl, fun _ => rfl⟩
example (dt : ℝ) : stillProbes.LenPres ∧ stillProbes.ChunkHom dt :=
  ⟨⟨(quietProbes_ok dt).1.snd, (quietProbes_ok dt).1.fx, (quietProbes_ok dt).1.sp⟩,
   ⟨(quietProbes_ok dt).2.snd, (quietProbes_ok dt).2.fx⟩⟩
/-- a freshly created mixer has nothing in flight -/
example : Mixer.Idle (Mixer.new (S := PSnd ℝ) (E := PFx ℝ) (P := Unit) 0 [] 4) :=
  ⟨trivial, rfl, rfl, by simp [Mixer.new], ⟨rfl, rfl⟩⟩

theorem Trk.build_settled {S E P : Type} (id : Nat) (v : ℝ) (fx : List E) (sends : List (Nat × ℝ)) (persist : Bool)
    (ibs : Nat) : Trk.Settled (Trk.build (S := S) (P := P) id v fx sends persist ibs) := by
  refine ⟨⟨?_, ?_, ?_, rfl⟩, trivial⟩
  · simp [Trk.build, Parameter.Settled, Parameter.new, Value.isFixed]
  · simp [Trk.build, Psm.Settled, Psm.new, Parameter.Settled, Parameter.new, Value.isFixed]
  · intro r hr
    simp only [Trk.build, List.mem_map] at hr
    obtain ⟨_, _, rfl⟩ := hr
    simp [Parameter.Settled, Parameter.new, Value.isFixed]

/-- a quiet renderer exists: a playing track routed to a send track, as the builders make them -/
example : ∃ r : Renderer ℝ (PSnd ℝ) (PFx ℝ) Unit Unit, r.Quiet ∧ 1 ≤ r.ibs := by
  refine ⟨{ dt := 1,
            mixer := { main := (Mixer.new (S := PSnd ℝ) (E := PFx ℝ) (P := Unit) 0 [] 4).main,
                       subTracks := [Trk.build 0 0 [] [(0, 0)] false 4], pendingSubTracks := [],
                       sendTracks := [SendTrk.build 0 0 [] 4], pendingSendTracks := [], temp := zeros 4 },
            env := (), ibs := 4, temp := zeros 4 }, ⟨⟨rfl, ?_⟩, ?_⟩, by norm_num⟩
  · refine ⟨rfl, rfl, ⟨Trk.build_clean 0 0 [] [(0, 0)] false 4, trivial⟩, trivial, ?_, ?_⟩
    · intro s hs; rw [List.mem_singleton.mp hs]; rfl
    · intro s hs; cases hs
  · refine ⟨⟨Trk.build_settled 0 0 [] [(0, 0)] false 4, trivial⟩, ?_, ?_⟩
    · simp [Mixer.new, Parameter.Settled, Parameter.new, Value.isFixed]
    · intro s hs; rw [List.mem_singleton.mp hs]
      simp [SendTrk.build, Parameter.Settled, Parameter.new, Value.isFixed]

end K
