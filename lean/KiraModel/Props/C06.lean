/-
  C06 — tweens start on time, follow their easing, end exactly on target, never jump.
  Statements about the model of `parameter.rs` (Model/Parameter.lean) over ℝ.
  `p.run tw info dts` performs one `update` per element of `dts` (any partition of time).
-/
import KiraModel.Proofs.ParameterLemmas
import KiraModel.Proofs.GenAgree

namespace K
open Parameter

/-- the real duration (seconds) of a tween -/
noncomputable def secs (D : ℕ) : ℝ := durToSecs D

/-- **new tween begins from the current, possibly mid-tween, value.** -/
theorem C06_retarget_from_current (p : Parameter ℝ ℝ) (target : Value ℝ ℝ) (tw : Tween ℝ) :
    (p.set target tw).state = .tweening p.raw target 0 tw ∧ (p.set target tw).raw = p.raw
      ∧ (p.set target tw).stagnant = false := by
  unfold Parameter.set; simp

/-- **follows the easing / partition independent.**  After `set` to a fixed target with an
    immediate start and duration `D > 0`, for *every* list of non-negative update steps whose sum
    `T` is below the duration, the value is `start + (target − start) · ease(T / D)`: it depends
    only on the accumulated time, not on how that time was split into updates. -/
theorem C06_follows_easing (p : Parameter ℝ ℝ) (tgt : ℝ) (D : ℕ) (hD : 0 < D) (e : Easing ℝ)
    (he : e.PosPower) (info : Info ℝ) (dts : List ℝ) (hnn : ∀ dt ∈ dts, 0 ≤ dt)
    (hT : dts.sum < secs D) :
    ((p.set (.fixed tgt) ⟨.immediate, D, e⟩).run tw64 info dts).1.raw
      = p.raw + (tgt - p.raw) * e.apply (dts.sum / secs D) := by
  have hmid : MidTween (p.set (.fixed tgt) ⟨.immediate, D, e⟩) p.raw tgt 0 .immediate D e := by
    unfold MidTween Parameter.set StartedNow; simp
  have hraw : (p.set (.fixed tgt) ⟨.immediate, D, e⟩).raw
      = p.raw + (tgt - p.raw) * e.apply (0 / durToSecs D) := by
    simp [Parameter.set, (Easing.endpoints e he).1]
  have := (run_mid e D hD p.raw tgt .immediate info dts _ 0 hmid (durToSecs_pos D hD) hraw hnn).1
    (by simpa [secs] using hT)
  simpa [secs] using this.2.1

/-- the same for every `f32`-backed unit (decibels, panning, mix, f32): over ℝ their
    interpolation is the same function. -/
theorem C06_follows_easing_f32 (p : Parameter ℝ ℝ) (tgt : ℝ) (D : ℕ) (hD : 0 < D) (e : Easing ℝ)
    (he : e.PosPower) (info : Info ℝ) (dts : List ℝ) (hnn : ∀ dt ∈ dts, 0 ≤ dt)
    (hT : dts.sum < secs D) :
    ((p.set (.fixed tgt) ⟨.immediate, D, e⟩).run tw32 info dts).1.raw
      = p.raw + (tgt - p.raw) * e.apply (dts.sum / secs D) := by
  rw [tw32_eq_tw64]; exact C06_follows_easing p tgt D hD e he info dts hnn hT

/-- **ends exactly on target, for ever, flag raised exactly once.**  As soon as the accumulated
    time reaches the duration the value *is* the target (not merely close), whatever the
    partition; the "just finished" flag was raised in exactly one update. -/
theorem C06_ends_exactly_on_target (p : Parameter ℝ ℝ) (tgt : ℝ) (D : ℕ) (hD : 0 < D) (e : Easing ℝ)
    (he : e.PosPower) (info : Info ℝ) (dts : List ℝ) (hnn : ∀ dt ∈ dts, 0 ≤ dt)
    (hT : secs D ≤ dts.sum) :
    ((p.set (.fixed tgt) ⟨.immediate, D, e⟩).run tw64 info dts).1.raw = tgt
      ∧ ((p.set (.fixed tgt) ⟨.immediate, D, e⟩).run tw64 info dts).2.count true = 1 := by
  have hmid : MidTween (p.set (.fixed tgt) ⟨.immediate, D, e⟩) p.raw tgt 0 .immediate D e := by
    unfold MidTween Parameter.set StartedNow; simp
  have hraw : (p.set (.fixed tgt) ⟨.immediate, D, e⟩).raw
      = p.raw + (tgt - p.raw) * e.apply (0 / durToSecs D) := by
    simp [Parameter.set, (Easing.endpoints e he).1]
  have := (run_mid e D hD p.raw tgt .immediate info dts _ 0 hmid (durToSecs_pos D hD) hraw hnn).2
    (by simpa [secs] using hT)
  exact ⟨this.1.2.2, this.2⟩

/-- **stays on target**: once landed, every further update leaves the value on the target and
    raises no flag. -/
theorem C06_holds_target (p : Parameter ℝ ℝ) (tgt : ℝ) (info : Info ℝ) (hp : Landed p tgt)
    (dts : List ℝ) : (p.run tw64 info dts).1.raw = tgt ∧ ∀ f ∈ (p.run tw64 info dts).2, f = false :=
  ⟨(run_landed p tgt info hp dts).1.2.2, (run_landed p tgt info hp dts).2⟩

/-- **never leaves the interval** between start and target (built-in easings, positive power). -/
theorem C06_within_interval (p : Parameter ℝ ℝ) (tgt : ℝ) (D : ℕ) (hD : 0 < D) (e : Easing ℝ)
    (he : e.PosPower) (info : Info ℝ) (dts : List ℝ) (hnn : ∀ dt ∈ dts, 0 ≤ dt) :
    min p.raw tgt ≤ ((p.set (.fixed tgt) ⟨.immediate, D, e⟩).run tw64 info dts).1.raw
      ∧ ((p.set (.fixed tgt) ⟨.immediate, D, e⟩).run tw64 info dts).1.raw ≤ max p.raw tgt := by
  by_cases hT : dts.sum < secs D
  · rw [C06_follows_easing p tgt D hD e he info dts hnn hT]
    have hpos : 0 < secs D := durToSecs_pos D hD
    have h0 : 0 ≤ dts.sum / secs D := div_nonneg (List.sum_nonneg hnn) hpos.le
    have h1 : dts.sum / secs D ≤ 1 := by rw [div_le_one hpos]; exact hT.le
    obtain ⟨a0, a1⟩ := Easing.range e he _ h0 h1
    set a := e.apply (dts.sum / secs D)
    rcases le_total p.raw tgt with h | h
    · rw [min_eq_left h, max_eq_right h]; constructor <;> nlinarith
    · rw [min_eq_right h, max_eq_left h]; constructor <;> nlinarith
  · rw [(C06_ends_exactly_on_target p tgt D hD e he info dts hnn (not_lt.mp hT)).1]
    exact ⟨min_le_right _ _, le_max_right _ _⟩

/-- **a zero-duration tween takes effect at the next update** (and raises the flag there). -/
theorem C06_zero_duration_next_update (p : Parameter ℝ ℝ) (tgt : ℝ) (e : Easing ℝ) (info : Info ℝ)
    (dt : ℝ) (hdt : 0 ≤ dt) :
    ((p.set (.fixed tgt) ⟨.immediate, 0, e⟩).update tw64 dt info).1.raw = tgt
      ∧ ((p.set (.fixed tgt) ⟨.immediate, 0, e⟩).update tw64 dt info).2 = true := by
  have hmid : MidTween (p.set (.fixed tgt) ⟨.immediate, 0, e⟩) p.raw tgt 0 .immediate 0 e := by
    unfold MidTween Parameter.set StartedNow; simp
  have := update_mid_after _ p.raw tgt 0 .immediate 0 e dt info hmid (by rw [durToSecs_zero]; linarith)
  exact ⟨this.1.2.2, this.2⟩

/-- **continuity across chunks**: the previous value after an update is the value before it, so
    each chunk's interpolation starts where the previous chunk's ended — for every value type. -/
theorem C06_chunk_continuity {τ : Type} (tw : Tweenable ℝ τ) (p : Parameter ℝ τ) (dt : ℝ) (info : Info ℝ) :
    (p.update tw dt info).1.prev = p.raw ∧
      (∀ q : Parameter ℝ ℝ, q.interpolatedValue tw64 0 = q.prev ∧ q.interpolatedValue tw64 1 = q.raw) := by
  refine ⟨update_prev tw p dt info, fun q => ?_⟩
  unfold interpolatedValue tw64 lerp64; constructor <;> ring

/-- **holds the old value until the start time (delay)**: while a delay is pending the value
    stays at the start value, no flag is raised, and the remaining delay shrinks by the update's
    length rounded to nanoseconds; tween time stays 0. -/
theorem C06_holds_until_start_delayed (p : Parameter ℝ ℝ) (tgt : ℝ) (ns D : ℕ) (e : Easing ℝ)
    (he : e.PosPower) (info : Info ℝ) (dt : ℝ) (hns : 0 < ns)
    (hs : p.state = .tweening p.raw (.fixed tgt) 0 ⟨.delayed ns, D, e⟩) (hst : p.stagnant = false) :
    (p.update tw64 dt info).1.raw = p.raw ∧ (p.update tw64 dt info).2 = false
      ∧ (p.update tw64 dt info).1.state
          = .tweening p.raw (.fixed tgt) 0 ⟨.delayed (ns - KOps.durFromSecs dt), D, e⟩ := by
  have hns0 : ns ≠ 0 := Nat.pos_iff_ne_zero.mp hns
  unfold update
  simp only [hst, Bool.false_eq_true, if_false]
  unfold updateTween
  simp only [hs, hns0, if_false, Bool.not_false, if_true, durSubSecs]
  unfold calcRaw
  by_cases hD : D = 0
  · simp [hD]
  · simp only [hD, if_false, Value.rawValue, Option.map_some, Tween.value, tweenValue, tw64, lerp64]
    simp [(Easing.endpoints e he).1]

/-- **… and starts at the first update boundary at or after the delay**: once the remaining
    delay is zero at the start of an update, the tween runs exactly like an immediate one
    (its time zero is that boundary: late by less than one update). -/
theorem C06_delayed_start_bound (p : Parameter ℝ ℝ) (tgt : ℝ) (D : ℕ) (hD : 0 < D) (e : Easing ℝ)
    (he : e.PosPower) (info : Info ℝ)
    (hs : p.state = .tweening p.raw (.fixed tgt) 0 ⟨.delayed 0, D, e⟩) (hst : p.stagnant = false)
    (dts : List ℝ) (hnn : ∀ dt ∈ dts, 0 ≤ dt) (hT : dts.sum < secs D) :
    (p.run tw64 info dts).1.raw = p.raw + (tgt - p.raw) * e.apply (dts.sum / secs D) := by
  have hmid : MidTween p p.raw tgt 0 (.delayed 0) D e := ⟨hs, hst, Or.inr rfl⟩
  have hraw : p.raw = p.raw + (tgt - p.raw) * e.apply (0 / durToSecs D) := by
    simp [(Easing.endpoints e he).1]
  have := (run_mid e D hD p.raw tgt (.delayed 0) info dts p 0 hmid (durToSecs_pos D hD) hraw hnn).1
    (by simpa [secs] using hT)
  simpa [secs] using this.2.1

/-- **clock start**: while the clock has not reached the start time (or is not ticking) the
    value holds; if the clock does not exist the tween never starts (it holds for ever). -/
theorem C06_holds_until_start_clock (p : Parameter ℝ ℝ) (tgt : ℝ) (c : ℕ) (ct : ClockTime ℝ) (D : ℕ)
    (e : Easing ℝ) (he : e.PosPower) (info : Info ℝ) (dt : ℝ)
    (hw : info.whenToStart c ct ≠ .now)
    (hs : p.state = .tweening p.raw (.fixed tgt) 0 ⟨.clockTime c ct, D, e⟩) (hst : p.stagnant = false) :
    (p.update tw64 dt info).1.raw = p.raw ∧ (p.update tw64 dt info).2 = false
      ∧ (p.update tw64 dt info).1.state = p.state := by
  unfold update
  simp only [hst, Bool.false_eq_true, if_false]
  unfold updateTween
  simp only [hs, hw, decide_false, Bool.not_false, if_true]
  unfold calcRaw
  by_cases hD : D = 0
  · simp [hD]
  · simp only [hD, if_false, Value.rawValue, Option.map_some, Tween.value, tweenValue, tw64, lerp64]
    simp [(Easing.endpoints e he).1]

/-- non-vacuity: a concrete mid-tween state satisfies the hypotheses used above. -/
example : MidTween ((Parameter.new (.fixed (1 : ℝ)) 1).set (.fixed 3) ⟨.immediate, 1000000000, .linear⟩)
    1 3 0 .immediate 1000000000 .linear := by
  unfold MidTween Parameter.set Parameter.new StartedNow; simp

end K
