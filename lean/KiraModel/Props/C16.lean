/-
  C16 — seconds and hertz mean the same at every device sample rate and across changes.
  Theorems: the protocol part (below) and, in the second half of the file, the effect part (delay line and
  reverb line sizes follow the rate in force, the delay forwards the rate to the effects nested in its feedback
  loop, the filter's corner is recomputed from each call's dt).  The protocol part:
  * a rate change reaches every track the audio thread owns;
  * the full claim "every effect is processed with the rate in force" is FALSE of the current code: a track built
    before a change and picked up after it keeps the old rate (explicit witness schedule), and
  * it holds in every history in which no track is in flight across a change.
-/
import KiraModel.Model.Conc.SampleRateRace
import KiraModel.Props.C16_time
import KiraModel.Proofs.EffectsRate
import KiraModel.Props.C14_a
import KiraModel.Props.C14_b

namespace K
open SR

/-- a sample-rate change reaches every track in the arenas (and the published rate is the new one). -/
theorem C16_fanout_reaches_arena (s : State) (r : Nat) :
    ∀ s', step s (.aChange r) = some s' → s'.rate = r ∧ AllCurrent s' := by
  intro s' h
  simp only [step, Option.some.injEq] at h
  subst h
  refine ⟨rfl, ?_⟩
  intro t ht hin
  simp only [List.mem_map] at ht
  obtain ⟨u, _, rfl⟩ := ht
  by_cases hu : u.inArena
  · simp [hu]
  · simp [hu] at hin

/-- **negation of the full claim for the current code**: starting at rate 1, the schedule
    build+init, enqueue, change to 2, pickup reaches a state in which the audio thread processes
    an effect that still believes the rate is 1. -/
theorem C16_stale_rate_reachable :
    ∃ s, run (init 1) [.gLoadInit, .gEnqueue, .aChange 2, .aPickup] = some s ∧ ¬ AllCurrent s := by
  refine ⟨⟨2, [⟨1, true⟩], none⟩, by decide, ?_⟩
  intro h
  have := h ⟨1, true⟩ (by simp) rfl
  simp at this

/-- the invariant of the restricted system: everything (owned, pending, or being built) knows the
    rate in force. -/
def C16Inv (s : State) : Prop :=
  (∀ t ∈ s.tracks, t.known = s.rate) ∧ (∀ r, s.building = some r → r = s.rate)

/-- **partial**: if rate changes only happen while no track is in flight (nothing being built, nothing
    waiting in a new-resource ring), then in every reachable state — for every interleaving of the two
    threads of any length — every track's effects know the rate in force. -/
theorem C16_rate_in_force_partial (r0 : Nat) (ls : List Label) :
    ∀ s, (ls.foldlM stepQuiet (init r0)) = some s → C16Inv s ∧ AllCurrent s := by
  have hinit : C16Inv (init r0) := ⟨by simp [init], by simp [init]⟩
  have hstep : ∀ s l s', C16Inv s → stepQuiet s l = some s' → C16Inv s' := by
    intro s l s' ⟨h1, h2⟩ h
    cases l with
    | gLoadInit =>
      simp only [stepQuiet, step] at h
      split at h
      · simp only [Option.some.injEq] at h; subst h
        exact ⟨h1, by intro r hr; simp at hr; exact hr.symm⟩
      · exact absurd h (by simp)
    | gEnqueue =>
      simp only [stepQuiet, step] at h
      cases hb : s.building with
      | none => simp [hb] at h
      | some r =>
        simp only [hb, Option.some.injEq] at h; subst h
        refine ⟨?_, by simp⟩
        intro t ht
        simp only [List.mem_append, List.mem_singleton] at ht
        rcases ht with ht | rfl
        · exact h1 t ht
        · exact h2 r hb
    | aChange r =>
      simp only [stepQuiet] at h
      split at h
      · rename_i hq
        simp only [Bool.and_eq_true, List.all_eq_true] at hq
        simp only [step, Option.some.injEq] at h; subst h
        refine ⟨?_, ?_⟩
        · intro t ht
          simp only [List.mem_map] at ht
          obtain ⟨u, hu, rfl⟩ := ht
          simp [hq.2 u hu]
        · intro r' hr'
          simp only at hr'
          have : s.building = none := by simpa using hq.1
          rw [this] at hr'; exact absurd hr' (by simp)
      · exact absurd h (by simp)
    | aPickup =>
      simp only [stepQuiet, step, Option.some.injEq] at h; subst h
      refine ⟨?_, h2⟩
      intro t ht
      simp only [List.mem_map] at ht
      obtain ⟨u, hu, rfl⟩ := ht
      exact h1 u hu
  have hall : ∀ (ls : List Label) (s0 : State), C16Inv s0 → ∀ s, ls.foldlM stepQuiet s0 = some s → C16Inv s := by
    intro ls
    induction ls with
    | nil => intro s0 h0 s h; simp only [List.foldlM_nil] at h; cases h; exact h0
    | cons l rest ih =>
      intro s0 h0 s h
      simp only [List.foldlM_cons] at h
      cases hl : stepQuiet s0 l with
      | none => simp [hl] at h
      | some s1 =>
        simp only [hl] at h
        exact ih s1 (hstep s0 l s1 h0 hl) s h
  intro s h
  have hi := hall ls (init r0) hinit s h
  exact ⟨hi, fun t ht _ => hi.1 t ht⟩

/-- non-vacuity: the restricted system does make progress through adds, pickups and (quiescent) changes. -/
example : ([Label.gLoadInit, .gEnqueue, .aPickup, .aChange 2, .gLoadInit, .gEnqueue, .aPickup].foldlM stepQuiet (init 1))
    = some ⟨2, [⟨2, true⟩, ⟨2, true⟩], none⟩ := by decide

end K

/-! ## C16, effect level: every effect processes with the sample rate actually in force

The models are the ones the twins of suites `fxa`, `fxb` and `fxrate` run (bit-exact against kira); the
device rate reaches an effect through `init` / `on_change_sample_rate` (delay and reverb size their lines
from it) and through the `dt = 1 / rate` of every process call (filter, EQ, compressor, tweens). -/

namespace K
open LineFx

variable {φ : Type}

/-- **the delay line follows the rate in force, in every history.**  Start from `init sr0` and apply any
    sequence of rate changes, `on_start_processing` calls and (non-faulting) process calls — with any
    inputs, any `dt`s, tweening parameters, any feedback effects that keep the slice length.  Whenever the
    history has arrived at rate `sr`, the line is `max(⌊delay·sr⌋, 1)` frames long (`delay` in seconds =
    `ns / 10⁹`), and the delay time itself is untouched.  When the delay spans at least one frame this is the
    requested time in seconds to within one frame of the rate in force:
    `len / sr ≤ delay < (len + 1) / sr` — an echo comes back after `delay` seconds at every rate.
    (Follows from `C14_delay_line_length` + the invariance of the length under `process`.) -/
theorem C16_delay_line_tracks_rate (C : FxChain ℝ φ)
    (hlen : ∀ dt info s xs, (C.process s xs dt info).2.length = xs.length)
    (d : Delay ℝ φ) (sr0 ibs : ℕ) (evs : List RateEvent) (d' : Delay ℝ φ) (sr : ℕ)
    (h : evs.foldlM (Delay.applyEvent C) (d.init C sr0 ibs, sr0) = some (d', sr)) :
    d'.buffer.length = max ⌊(d.delayNs : ℝ) / 1000000000 * (sr : ℝ)⌋₊ 1
      ∧ d'.delayNs = d.delayNs
      ∧ (0 < sr → 1 ≤ (d.delayNs : ℝ) / 1000000000 * (sr : ℝ) →
          (d'.buffer.length : ℝ) / sr ≤ (d.delayNs : ℝ) / 1000000000
            ∧ (d.delayNs : ℝ) / 1000000000 < ((d'.buffer.length : ℝ) + 1) / sr) := by
  have hinv := Delay.history_inv C (fun _ _ => True) (fun _ _ => trivial) (fun _ _ _ => trivial)
    (fun _ _ _ _ _ _ => trivial) hlen d.delayNs evs (d.init C sr0 ibs, sr0) (d', sr)
    ⟨by simp [Delay.init], rfl, trivial⟩ h
  have hL : d'.buffer.length = max ⌊(d.delayNs : ℝ) / 1000000000 * (sr : ℝ)⌋₊ 1 := by
    rw [hinv.1]; exact Delay.frames_real _ _
  refine ⟨hL, hinv.2.1, ?_⟩
  intro hsr h1
  have hfl : 1 ≤ ⌊(d.delayNs : ℝ) / 1000000000 * (sr : ℝ)⌋₊ := Nat.le_floor (by simpa using h1)
  rw [hL, max_eq_left hfl]
  exact natFloor_frames_seconds _ (by positivity) sr hsr

/-- **the delay forwards the rate to the effects in its feedback loop.**  `init` and
    `on_change_sample_rate` apply the chain's `init` / `changeRate` to the nested effects; consequently, if the
    nested effects remember the rate they are told (`known`, changed by nothing else), then in every history
    of rate changes, `on_start_processing` and process calls they know the rate in force at every moment. -/
theorem C16_delay_forwards_rate (C : FxChain ℝ φ) (d : Delay ℝ φ) (sr0 ibs : ℕ) :
    (d.init C sr0 ibs).fx = C.init d.fx sr0 ibs
      ∧ (∀ sr, (d.changeRate C sr).fx = C.changeRate d.fx sr)
      ∧ ∀ (known : φ → ℕ), C.TracksRate known →
          (∀ dt info s xs, (C.process s xs dt info).2.length = xs.length) →
          ∀ (evs : List RateEvent) (d' : Delay ℝ φ) (sr : ℕ),
            evs.foldlM (Delay.applyEvent C) (d.init C sr0 ibs, sr0) = some (d', sr) → known d'.fx = sr := by
  refine ⟨rfl, fun _ => rfl, ?_⟩
  intro known hK hlen evs d' sr h
  have hinv := Delay.history_inv C (fun s r => known s = r) (fun s r => hK.change s r)
    (fun s r hs => by rw [hK.start]; exact hs) (fun s r xs dt info hs => by rw [hK.proc]; exact hs)
    hlen d.delayNs evs (d.init C sr0 ibs, sr0) (d', sr)
    ⟨by simp [Delay.init], rfl, hK.init _ _ _⟩ h
  exact hinv.2.2

/-- a chain of effects that remember the rate they are told: the hypothesis of `C16_delay_forwards_rate`
    is satisfiable (this is what the probe effects of suite `fxrate` do) -/
example : (⟨fun _ sr _ => sr, fun _ sr => sr, fun s => s, fun s xs _ _ => (s, xs)⟩ : FxChain ℝ ℕ).TracksRate id :=
  ⟨fun _ _ _ => rfl, fun _ _ => rfl, fun _ => rfl, fun _ _ _ _ => rfl⟩

/-- non-vacuity of the histories: init at 48 kHz, change to 96 kHz, start, one process call — a 1 ms
    delay then has 96 frames. -/
example (C : FxChain ℝ φ) (hlen : ∀ dt info s xs, (C.process s xs dt info).2.length = xs.length)
    (d : Delay ℝ φ) (hd : d.delayNs = 1000000) (d' : Delay ℝ φ) (x : Frame ℝ) (info : Info ℝ)
    (h : [RateEvent.rate 96000, .start, .proc [x] (1 / 96000) info].foldlM (Delay.applyEvent C)
        (d.init C 48000 64, 48000) = some (d', 96000)) : d'.buffer.length = 96 := by
  have := (C16_delay_line_tracks_rate C hlen d 48000 64 _ d' 96000 h).1
  rw [this, hd]
  norm_num

/-- **the reverb's line sizes follow the rate in force.**  `init` and `on_change_sample_rate` both rebuild
    the network for the rate they are given, whatever state (and whatever earlier rate) the reverb was in:
    comb / all-pass line `c` of the Freeverb table gets `⌊c·sr/44100⌋` (left) and `⌊(c+23)·sr/44100⌋` (right)
    slots — `c / 44100` seconds to within one frame at every rate `sr > 0`.
    (From `C14_freeverb_topology`; the constants are re-extracted from the Rust source on every run.) -/
theorem C16_reverb_sizes_track_rate (r : Reverb ℝ) (sr0 sr : ℕ) :
    ((r.init sr0).init sr).state = some (ReverbLines.init sr)
      ∧ (ReverbLines.init sr : ReverbLines ℝ).combs
          = freeverbCombTuning.map (fun c => (Comb.new ⌊(c : ℝ) * ((sr : ℝ) / 44100)⌋₊,
                                               Comb.new ⌊(↑(c + 23) : ℝ) * ((sr : ℝ) / 44100)⌋₊))
      ∧ (ReverbLines.init sr : ReverbLines ℝ).allPasses
          = freeverbAllPassTuning.map (fun c => (AllPass.new ⌊(c : ℝ) * ((sr : ℝ) / 44100)⌋₊,
                                                  AllPass.new ⌊(↑(c + 23) : ℝ) * ((sr : ℝ) / 44100)⌋₊))
      ∧ (0 < sr → ∀ c : ℕ,
          (⌊(c : ℝ) * ((sr : ℝ) / 44100)⌋₊ : ℝ) / sr ≤ (c : ℝ) / 44100
            ∧ (c : ℝ) / 44100 < ((⌊(c : ℝ) * ((sr : ℝ) / 44100)⌋₊ : ℝ) + 1) / sr) := by
  obtain ⟨hc, ha, _⟩ := C14_freeverb_topology sr
  refine ⟨rfl, hc, ha, ?_⟩
  intro hsr c
  have e : (c : ℝ) * ((sr : ℝ) / 44100) = (c : ℝ) / 44100 * (sr : ℝ) := by ring
  rw [e]
  exact natFloor_frames_seconds _ (by positivity) sr hsr

/-- **the filter's corner follows the rate in force: nothing is carried over from an earlier rate.**
    A filter at rest (no tween, no modulator) processes `xs` with `dt`, the device rate changes
    (`on_change_sample_rate` — which the filter does not even need), then it processes `ys` with `dt'`.
    The second call is the fold of the per-frame transition `tickV s dt'` — built from
    `Filter.coefs cutoff resonance dt'`, i.e. `g = tan(π · clamp(cutoff · dt', 0.0001, 0.5))` for THAT call's
    `dt'` — over `ys`, started from the integrator pair the first call left; the only things the first call
    changed are the two integrators.  Hence `C14_svf_corner` applies verbatim to the second call: the corner
    angle is `2π · cutoff · dt'` (the requested frequency in hertz at the new rate) as soon as
    `0.0001 ≤ cutoff · dt' < 0.5`. -/
theorem C16_filter_corner_tracks_rate (s : Filter ℝ) (h : s.Stagnant) (xs ys : List (Frame ℝ)) (dt dt' : ℝ)
    (info info' : Info ℝ) (sr' : ℕ) :
    let s1 := ((s.process xs dt info).1).onChangeSampleRate sr'
    s1 = (Filter.settle s).withState (s1.ic1eq, s1.ic2eq)
      ∧ s1.Stagnant
      ∧ s1.process ys dt' info'
          = ((Filter.settle s).withState (runTick (Filter.tickV s dt') (s1.ic1eq, s1.ic2eq) ys).1,
             (runTick (Filter.tickV s dt') (s1.ic1eq, s1.ic2eq) ys).2)
      ∧ (Filter.coefs s.cutoff.raw (clamp s.resonance.raw (0.0 : ℝ) (1.0 : ℝ)) dt').a1
          = 1 / (1 + Filter.g s.cutoff.raw dt' * (Filter.g s.cutoff.raw dt'
              + (2 - 19 / 10 * clamp s.resonance.raw (0.0 : ℝ) (1.0 : ℝ))))
      ∧ Filter.g s.cutoff.raw dt' = Real.tan (Real.pi * clamp (s.cutoff.raw / (1 / dt')) (1 / 10000) (1 / 2))
      ∧ (0 < dt' → 1 / 10000 ≤ s.cutoff.raw * dt' → s.cutoff.raw * dt' < 1 / 2 →
          2 * Filter.phi s1.cutoff.raw dt' = 2 * Real.pi * s.cutoff.raw * dt') := by
  intro s1
  have hs1 : s1 = (Filter.settle s).withState (s1.ic1eq, s1.ic2eq) := by
    simp only [s1, Filter.onChangeSampleRate, Filter.process_stagnant s h xs dt info]
    rfl
  have hst : s1.Stagnant := by
    rw [hs1]; exact Filter.withState_stagnant _ _ (Filter.settle_stagnant s h)
  refine ⟨hs1, hst, ?_, ?_, rfl, ?_⟩
  · rw [Filter.process_stagnant s1 hst ys dt' info']
    have ht : Filter.tickV s1 dt' = Filter.tickV s dt' := by
      rw [hs1, Filter.tickV_withState, Filter.tickV_settle]
    have hse : ∀ v, (Filter.settle s1).withState v = (Filter.settle s).withState v := by
      intro v
      rw [hs1, Filter.settle_withState, Filter.settle_idem]
      rfl
    rw [ht, hse]
  · simp only [Filter.coefs_real]
  · intro hdt hlo hny
    have hc : s1.cutoff.raw = s.cutoff.raw := by rw [hs1]; rfl
    rw [hc, (Filter.phi_range s.cutoff.raw dt' hdt hny).2.2 hlo]
    ring

/-- **the EQ's centre / corner follows the rate in force** in the same way: after any earlier call at another
    `dt` and a rate change, a call with `dt'` is the fold of the transition built from
    `EqCoefs.calculate kind frequency q gain dt'` (relative frequency `clamp(frequency · dt', 0.0001, 0.5)` of
    THAT call) over its input, from the integrator pair left behind; so `C14_eq_bell_centre`, `C14_eq_dc`,
    `C14_eq_nyquist` apply verbatim at the new rate. -/
theorem C16_eq_centre_tracks_rate (s : EqFilter ℝ) (h : s.Stagnant) (xs ys : List (Frame ℝ)) (dt dt' : ℝ)
    (info info' : Info ℝ) (sr' : ℕ) :
    let s1 := ((s.process xs dt info).1).onChangeSampleRate sr'
    s1 = (EqFilter.settle s).withState (s1.ic1eq, s1.ic2eq)
      ∧ s1.Stagnant
      ∧ s1.process ys dt' info'
          = ((EqFilter.settle s).withState (runTick (EqFilter.tickV s dt') (s1.ic1eq, s1.ic2eq) ys).1,
             (runTick (EqFilter.tickV s dt') (s1.ic1eq, s1.ic2eq) ys).2)
      ∧ ∀ v f, EqFilter.tickV s dt' v f
          = (((EqFilter.tick s.kind s.frequency.raw s.q.raw s.gain.raw dt' v.1 v.2 f).1,
              (EqFilter.tick s.kind s.frequency.raw s.q.raw s.gain.raw dt' v.1 v.2 f).2.1),
             (EqFilter.tick s.kind s.frequency.raw s.q.raw s.gain.raw dt' v.1 v.2 f).2.2) := by
  intro s1
  have hs1 : s1 = (EqFilter.settle s).withState (s1.ic1eq, s1.ic2eq) := by
    simp only [s1, EqFilter.onChangeSampleRate, EqFilter.process_stagnant s h xs dt info]
    rfl
  have hst : s1.Stagnant := by
    rw [hs1]; exact EqFilter.withState_stagnant _ _ (EqFilter.settle_stagnant s h)
  refine ⟨hs1, hst, ?_, fun _ _ => rfl⟩
  rw [EqFilter.process_stagnant s1 hst ys dt' info']
  have ht : EqFilter.tickV s1 dt' = EqFilter.tickV s dt' := by
    rw [hs1, EqFilter.tickV_withState, EqFilter.tickV_settle]
  have hse : ∀ v, (EqFilter.settle s1).withState v = (EqFilter.settle s).withState v := by
    intro v
    rw [hs1, EqFilter.settle_withState, EqFilter.settle_idem]
    rfl
  rw [ht, hse]

end K
