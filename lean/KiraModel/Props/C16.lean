/-
  C16 — seconds and hertz mean the same at every device sample rate and across changes.
  Theorems proved so far (the protocol part; the time-scaling closed forms are corollaries of C04/C05/C06
  and of the effect models and are added as those land):
  * a rate change reaches every track the audio thread owns;
  * the full claim "every effect is processed with the rate in force" is FALSE of the current code: a track built
    before a change and picked up after it keeps the old rate (explicit witness schedule), and
  * it holds in every history in which no track is in flight across a change.
-/
import KiraModel.Model.Conc.SampleRateRace
import KiraModel.Props.C16_time

namespace K
open SR

/-- a sample-rate change reaches every track in the arenas (and the published rate is the new one). -/
theorem C16_fanout_reaches_arena (s : State) (r : Nat) :
    ∀ s', step s (.aChange r) = some s' → s'.rate = r ∧ AllCurrent s' := by
  intro s' h
  simp only [step, Option.some.injEq] at h
  subst h
  refine ⟨rfl, ?_⟩
  intro t ht hin
  simp only [List.mem_map] at ht
  obtain ⟨u, _, rfl⟩ := ht
  by_cases hu : u.inArena
  · simp [hu]
  · simp [hu] at hin

/-- **negation of the full claim for the current code**: starting at rate 1, the schedule
    build+init, enqueue, change to 2, pickup reaches a state in which the audio thread processes
    an effect that still believes the rate is 1. -/
theorem C16_stale_rate_reachable :
    ∃ s, run (init 1) [.gLoadInit, .gEnqueue, .aChange 2, .aPickup] = some s ∧ ¬ AllCurrent s := by
  refine ⟨⟨2, [⟨1, true⟩], none⟩, by decide, ?_⟩
  intro h
  have := h ⟨1, true⟩ (by simp) rfl
  simp at this

/-- the invariant of the restricted system: everything (owned, pending, or being built) knows the
    rate in force. -/
def C16Inv (s : State) : Prop :=
  (∀ t ∈ s.tracks, t.known = s.rate) ∧ (∀ r, s.building = some r → r = s.rate)

/-- **partial**: if rate changes only happen while no track is in flight (nothing being built, nothing
    waiting in a new-resource ring), then in every reachable state — for every interleaving of the two
    threads of any length — every track's effects know the rate in force. -/
theorem C16_rate_in_force_partial (r0 : Nat) (ls : List Label) :
    ∀ s, (ls.foldlM stepQuiet (init r0)) = some s → C16Inv s ∧ AllCurrent s := by
  have hinit : C16Inv (init r0) := ⟨by simp [init], by simp [init]⟩
  have hstep : ∀ s l s', C16Inv s → stepQuiet s l = some s' → C16Inv s' := by
    intro s l s' ⟨h1, h2⟩ h
    cases l with
    | gLoadInit =>
      simp only [stepQuiet, step] at h
      split at h
      · simp only [Option.some.injEq] at h; subst h
        exact ⟨h1, by intro r hr; simp at hr; exact hr.symm⟩
      · exact absurd h (by simp)
    | gEnqueue =>
      simp only [stepQuiet, step] at h
      cases hb : s.building with
      | none => simp [hb] at h
      | some r =>
        simp only [hb, Option.some.injEq] at h; subst h
        refine ⟨?_, by simp⟩
        intro t ht
        simp only [List.mem_append, List.mem_singleton] at ht
        rcases ht with ht | rfl
        · exact h1 t ht
        · exact h2 r hb
    | aChange r =>
      simp only [stepQuiet] at h
      split at h
      · rename_i hq
        simp only [Bool.and_eq_true, List.all_eq_true] at hq
        simp only [step, Option.some.injEq] at h; subst h
        refine ⟨?_, ?_⟩
        · intro t ht
          simp only [List.mem_map] at ht
          obtain ⟨u, hu, rfl⟩ := ht
          simp [hq.2 u hu]
        · intro r' hr'
          simp only at hr'
          have : s.building = none := by simpa using hq.1
          rw [this] at hr'; exact absurd hr' (by simp)
      · exact absurd h (by simp)
    | aPickup =>
      simp only [stepQuiet, step, Option.some.injEq] at h; subst h
      refine ⟨?_, h2⟩
      intro t ht
      simp only [List.mem_map] at ht
      obtain ⟨u, hu, rfl⟩ := ht
      exact h1 u hu
  have hall : ∀ (ls : List Label) (s0 : State), C16Inv s0 → ∀ s, ls.foldlM stepQuiet s0 = some s → C16Inv s := by
    intro ls
    induction ls with
    | nil => intro s0 h0 s h; simp only [List.foldlM_nil] at h; cases h; exact h0
    | cons l rest ih =>
      intro s0 h0 s h
      simp only [List.foldlM_cons] at h
      cases hl : stepQuiet s0 l with
      | none => simp [hl] at h
      | some s1 =>
        simp only [hl] at h
        exact ih s1 (hstep s0 l s1 h0 hl) s h
  intro s h
  have hi := hall ls (init r0) hinit s h
  exact ⟨hi, fun t ht _ => hi.1 t ht⟩

/-- non-vacuity: the restricted system does make progress through adds, pickups and (quiescent) changes. -/
example : ([Label.gLoadInit, .gEnqueue, .aPickup, .aChange 2, .gLoadInit, .gEnqueue, .aPickup].foldlM stepQuiet (init 1))
    = some ⟨2, [⟨2, true⟩, ⟨2, true⟩], none⟩ := by decide

end K
