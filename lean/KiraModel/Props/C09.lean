/-
  C09 — a streaming sound behaves exactly like a static sound of the same audio (property theorems).
-/
import KiraModel.Proofs.StreamLemmas

namespace K

end K
