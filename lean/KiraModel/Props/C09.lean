/-
  C09 — a streaming sound behaves exactly like a static sound of the same audio.
  Property theorems only.  They are about `Model/StaticSound.lean` and `Model/StreamingSound.lean` (the
  definitions the twin runs), interpreted over ℝ, for *every* decoder that meets the `Decoder` contract of
  Model/Decoder.lean (C18: `decode` returns the next non-empty packet of any size, `seek i` lands on some
  `j ≤ i` and says so) — so for every packetisation and every seek granularity.

  Vocabulary (Proofs/StreamLemmas.lean):
  * `World` = audio frames + slice + the start transport (start position, loop region); `W.Ok` = slice inside
    the data, loop region valid (C04's in-domain hypotheses; outside them both sounds hang / panic alike);
  * `W.trAt k` = the transport after `k` `increment_position` calls (the *walk*), `W.ringSeq` = the sequence of
    ring entries: the pre-seeded silent "previous" frame, then `(frame under the play head, its index)` for
    step 0, 1, 2, … of the walk; `W.ringSlice a m` = entries `a … m − 1`;
  * `Bisim W pos good st s a m` = the relation: static resampler window = first four ring entries (= entries
    `a … a+3` of the sequence, zeros after the end), same fraction, same parameters, same `SoundCore`;
  * `FrameOk` / `ProcOk` / `Good` = the premise "rates ≥ 0 and the decoder is ahead" for one output frame / one
    `process` call / a whole history, stated on the streaming run alone.
-/
import KiraModel.Proofs.StreamLemmas
import KiraModel.Proofs.StreamSeekLemmas
import KiraModel.Proofs.StreamLoopLemmas
import KiraModel.Proofs.GenAgreeSound
import KiraModel.Proofs.GenAgreeTransport

namespace K
open Streaming StaticSound
open Dec (Decoder)

/-- **The ring is the future.** For every history of handle commands (other than seeks / loop changes),
    `pop_error`s, callbacks and decoder-loop iterations of a freshly split streaming sound — in any order, at any
    pace, the decoder ahead or starving — the frame ring holds exactly the entries `a … m − 1` of the walk's sequence
    (`a` = entries consumed so far, `m` = entries produced so far): its first entry is the "previous" frame, the
    following ones are the frames under the play head of the transport's future steps, in order, each stamped with
    its play-head index; and the decoder's own transport stands at step `m − 1`. -/
theorem C09_ring_is_future {σ : Type} {D : Decoder σ ℝ} {pos : σ → Nat} {good : σ → Prop}
    (d : StaticSoundData ℝ) (sd : StreamingSoundData σ ℝ) (C : Dec.Contract D d.frames.toList pos good)
    (hsame : SameSound d sd) (hW : (worldOf d).Ok)
    (hstart : d.settings.startPosition.intoSamples d.sampleRate ≤ d.frames.size)
    (hsign : signNeg (Parameter.new d.settings.playbackRate (1.0 : ℝ)).value = false)
    (fuel : Nat) (hfuel : d.frames.size < fuel) (ops : List (Streaming.Op ℝ)) (hops : ∀ c, Streaming.Op.command c ∈ ops → AudioCmd c)
    (s0 s : Sys σ ℝ) (outs : List (Frame ℝ)) (h0 : Sys.new D sd = .ok s0) (h : Sys.runOps D fuel s0 ops = .ok (s, outs)) :
    ∃ a m, a ≤ m ∧ 1 ≤ m ∧ s.ring.items = (worldOf d).ringSlice a m ∧ s.transport = (worldOf d).trAt (m - 1) ∧
      (∀ i, s.ring.items[i]? = if a + i < m then some ((worldOf d).ringSeq (a + i)) else none) := by
  obtain ⟨st, s1, _, hs1, B⟩ := new_bisim d sd C hsame hW hstart hsign
  rw [h0] at hs1; injection hs1 with hs1; subst hs1
  have R := B.ringInv
  obtain ⟨a, m, _, _, R'⟩ := ringInv_run hW C fuel hfuel ops s0 s _ _ outs hops R h
  refine ⟨a, m, R'.a_le, R'.tAt.m_pos, R'.tAt.ring, R'.tAt.transport, fun i => ?_⟩
  rw [R'.tAt.ring, World.ringSlice_getElem?]

/-- what an entry of the sequence is: the source frame under the play head after `k` transport steps
    (data frame `slice.start + position` inside the slice, silence outside), stamped with that position -/
theorem C09_ring_entry_is_source_frame (W : World) (k : Nat) :
    W.ringSeq (k + 1) = ⟨W.srcAt (W.trAt k).position, (W.trAt k).position⟩ ∧ W.ringSeq 0 = ⟨Frame.zero, 0⟩ :=
  ⟨rfl, rfl⟩

/-- **One output frame.** If the two sounds are related, the playback rate is not negative and the decoder has
    buffered the four-frame window plus the `k = ⌊frac + step⌋` frames this output frame steps over (or has reached
    the end), then `StaticSound::process` and `StreamingSound::process` write the *same* frame, and the sounds are
    related again `k` steps further along the walk (the static sound pushed `k` frames — `None`s after the end —,
    the streaming sound popped `k` entries; both became Stopped or neither). -/
theorem C09_bisimulation_frame {σ : Type} {W : World} (hW : W.Ok) {pos : σ → Nat} {good : σ → Prop}
    {st : StaticSound ℝ} {s : Sys σ ℝ} {a m : Nat} (B : Bisim W pos good st s a m)
    (t dt : ℝ) (fuel : Nat) (F : FrameOk s t dt fuel) :
    ∃ st' s' out, st.renderFrame fuel t dt = .ok (st', out) ∧ s.renderFrame fuel t dt = .ok (s', out) ∧
      Bisim W pos good st' s' (a + ⌊s.frac + s.fracStep t dt⌋₊) m := by
  obtain ⟨st', s', out, h1, h2, B', _⟩ := frame_bisim hW B t dt fuel F
  exact ⟨st', s', out, h1, h2, B'⟩

/-- **One `process` call**: same output frames (exact zeros included), same number of them, related again. -/
theorem C09_bisimulation_process {σ : Type} {W : World} (hW : W.Ok) {pos : σ → Nat} {good : σ → Prop}
    {st : StaticSound ℝ} {s : Sys σ ℝ} {a m : Nat} (B : Bisim W pos good st s a m) (fuel len : Nat) (dt : ℝ)
    (info : Info ℝ) (hok : ProcOk fuel s len dt info) :
    ∃ st' s' outs a', st.process fuel len dt info = .ok (st', outs) ∧ s.process fuel len dt info = .ok (s', outs) ∧
      Bisim W pos good st' s' a' m ∧ outs.length = len := by
  obtain ⟨st', s', outs, a', h1, h2, B', _, hl⟩ := process_bisim hW B fuel len dt info hok
  exact ⟨st', s', outs, a', h1, h2, B', hl⟩

/-- **Streaming ≡ static, every history.** Take a static sound and a streaming sound built from the same audio,
    slice and settings (forwards), the streaming one over *any* decoder meeting the contract; apply the same history
    of handle commands (volume / playback-rate / panning changes, pause / resume / stop — no seeks, no loop changes)
    and callbacks to both, with decoder-loop iterations and `pop_error` calls of the streaming side interleaved
    anywhere. If along the streaming run the playback rate is never negative and the decoder is ahead at every
    rendered frame (`Good`), then neither sound faults, they write exactly the same output frames, and afterwards —
    hence after every prefix of the history, i.e. at every callback — they report the same playback state and the
    same `finished()`, and are related again. -/
theorem C09_bisimulation {σ : Type} {D : Decoder σ ℝ} {pos : σ → Nat} {good : σ → Prop}
    (d : StaticSoundData ℝ) (sd : StreamingSoundData σ ℝ) (C : Dec.Contract D d.frames.toList pos good)
    (hsame : SameSound d sd) (hW : (worldOf d).Ok)
    (hstart : d.settings.startPosition.intoSamples d.sampleRate ≤ d.frames.size)
    (hsign : signNeg (Parameter.new d.settings.playbackRate (1.0 : ℝ)).value = false)
    (fuel : Nat) (hfuel : d.frames.size < fuel) (ops : List (Streaming.Op ℝ)) :
    ∃ st0 s0, StaticSound.new d = .ok st0 ∧ Sys.new D sd = .ok s0 ∧
      (Good D fuel ops s0 →
        ∃ st s outs a m, StaticSound.run fuel st0 (ops.filterMap staticOp) = .ok (st, outs) ∧
          Sys.runOps D fuel s0 ops = .ok (s, outs) ∧
          st.core.shared = s.handleState ∧ st.finished = s.finished ∧
          Bisim (worldOf d) pos good st s a m) := by
  obtain ⟨st0, s0, h1, h2, B⟩ := new_bisim d sd C hsame hW hstart hsign
  refine ⟨st0, s0, h1, h2, fun hgood => ?_⟩
  obtain ⟨st, s, outs, a, m, h3, h4, B'⟩ := run_bisim hW C fuel hfuel ops st0 s0 0 1 B hgood
  refine ⟨st, s, outs, a, m, h3, h4, ?_, ?_, B'⟩
  · show st.core.shared = s.core.shared; rw [B'.core]
  · show st.core.finished = s.core.finished; rw [B'.core]

/-- … and the same holds after every prefix of the history (every callback): the premise of a history
    restricts to its prefixes, so `C09_bisimulation` applies to each of them. -/
theorem C09_states_equal_at_every_callback {σ : Type} (D : Decoder σ ℝ) (fuel : Nat) (pre post : List (Streaming.Op ℝ))
    (s : Sys σ ℝ) (h : Good D fuel (pre ++ post) s) : Good D fuel pre s :=
  Good.prefix D fuel pre post s h

/-- **Reported positions within one frame.** While the streaming sound still has its current frame buffered
    (two ring entries: the sound has not run out), the position an `on_start_processing` publishes is the static
    sound's position (the index of the frame being heard, over the sample rate) plus the fractional position:
    they differ by less than one frame, the streaming one never behind. -/
theorem C09_positions_within_one_frame {σ : Type} {W : World} {pos : σ → Nat} {good : σ → Prop}
    {st : StaticSound ℝ} {s : Sys σ ℝ} {a m : Nat} (B : Bisim W pos good st s a m) (hbuf : a + 2 ≤ m)
    (hsr : 0 < s.sampleRate) :
    ∃ st', st.onStartProcessing = .ok st' ∧
      st'.sharedPosition = ((W.trAt a).position : ℝ) / (s.sampleRate : ℝ) ∧
      s.onStartProcessing.handlePosition = (((W.trAt a).position : ℝ) + s.frac) / (s.sampleRate : ℝ) ∧
      0 ≤ s.onStartProcessing.handlePosition - st'.sharedPosition ∧
      s.onStartProcessing.handlePosition - st'.sharedPosition < 1 / (s.sampleRate : ℝ) := by
  obtain ⟨st', h1, _, hp⟩ := onStart_bisim B
  have hsr' : (0 : ℝ) < (s.sampleRate : ℝ) := by exact_mod_cast hsr
  have hidx : st.resampler.currentFrameIndex = (W.trAt a).position := by
    rw [B.sAt.resampler]
    have : ¬ a + 3 + 1 < 4 := by omega
    simp [Resampler.currentFrameIndex, World.resAt, World.vIndex, this]
  have hs : st'.sharedPosition = ((W.trAt a).position : ℝ) / (s.sampleRate : ℝ) := by
    rw [hp, hidx, B.sampleRate]; simp
  have ht : s.onStartProcessing.handlePosition = (((W.trAt a).position : ℝ) + s.frac) / (s.sampleRate : ℝ) := by
    rw [onStartProcessing_eq]
    show s.updateCurrentFrame.position = _
    unfold Sys.updateCurrentFrame Sys.position
    rw [B.tAt.ring, World.ringSlice_getElem?]
    have : a + 1 < m := by omega
    simp [this, World.ringSeq]
  refine ⟨st', h1, hs, ht, ?_, ?_⟩
  · rw [hs, ht, ← sub_div]
    apply div_nonneg _ hsr'.le
    have := B.frac_nonneg; linarith
  · rw [hs, ht, ← sub_div]
    apply (div_lt_div_iff_of_pos_right hsr').mpr
    have := B.frac_lt; linarith

/-- **Independent of packetisation and seek granularity.** Two decoders of the same audio that both meet the
    contract — whatever their packet sizes, however far before the requested frame their seeks land, whatever their
    internal state — push the *same* timestamped frame in a `run` iteration and report the same outcome, whenever
    their sounds stand at the same point of the walk. (The pushed frame is the walk's `ringSeq m`, which does not
    mention the decoder at all; the underlying fact is C18's `C18_frame_at_index_correct`.) -/
theorem C09_packetisation_independent {σ₁ σ₂ : Type} {W : World} (hW : W.Ok)
    {D₁ : Decoder σ₁ ℝ} {pos₁ : σ₁ → Nat} {good₁ : σ₁ → Prop} (C₁ : Dec.Contract D₁ W.frames.toList pos₁ good₁)
    {D₂ : Decoder σ₂ ℝ} {pos₂ : σ₂ → Nat} {good₂ : σ₂ → Prop} (C₂ : Dec.Contract D₂ W.frames.toList pos₂ good₂)
    {s₁ : Sys σ₁ ℝ} {s₂ : Sys σ₂ ℝ} {a m : Nat} (R₁ : RingInv W pos₁ good₁ s₁ a m) (R₂ : RingInv W pos₂ good₂ s₂ a m)
    (hroom : m - a < bufferSize) (he₁ : s₁.reachedEnd = false) (he₂ : s₂.reachedEnd = false)
    (fuel₁ fuel₂ : Nat) (hf₁ : W.frames.size < fuel₁) (hf₂ : W.frames.size < fuel₂) :
    (Sys.produce D₁ fuel₁ s₁).1 = (Sys.produce D₂ fuel₂ s₂).1 ∧
    (Sys.produce D₁ fuel₁ s₁).2.ring.items = W.ringSlice a (m + 1) ∧
    (Sys.produce D₂ fuel₂ s₂).2.ring.items = W.ringSlice a (m + 1) ∧
    (Sys.produce D₁ fuel₁ s₁).2.transport = (Sys.produce D₂ fuel₂ s₂).2.transport := by
  obtain ⟨_, _, h1⟩ := produce_at hW C₁ R₁.tIn R₁.tAt R₁.a_le (by rw [R₁.cap]; exact hroom) he₁ fuel₁ hf₁
  obtain ⟨_, _, h2⟩ := produce_at hW C₂ R₂.tIn R₂.tAt R₂.a_le (by rw [R₂.cap]; exact hroom) he₂ fuel₂ hf₂
  rw [h1, h2]
  exact ⟨rfl, rfl, rfl, rfl⟩

/-! ### non-vacuity: the hypotheses are satisfiable -/

/-- decoders meeting the contract exist for every packet size and every seek granularity -/
example (src : List (Frame ℝ)) (c g : Nat) :
    Dec.Contract (chunkDecoder src c g) src (fun p => p) (fun _ => True) := chunkDecoder_contract src c g

/-- a concrete pair of sounds satisfying every hypothesis of `C09_bisimulation` / `C09_ring_is_future`:
    three frames, a loop over the last two, start position 1, packets of 2 frames, seeks landing on multiples of 4 -/
noncomputable def exData : StaticSoundData ℝ :=
  { sampleRate := 4
    frames := #[⟨1, 1⟩, ⟨2, 2⟩, ⟨3, 3⟩]
    slice := none
    settings := { startTime := .immediate, startPosition := .samples 1
                  loopRegion := some ⟨.samples 1, .endOfAudio⟩, reverse := false
                  volume := .fixed 0, playbackRate := .fixed 1, panning := .fixed 0, fadeInTween := none } }

noncomputable def exStream : StreamingSoundData Nat ℝ :=
  { dec := 0, sampleRate := 4, decFrames := 3, slice := none
    settings := { startTime := .immediate, startPosition := .samples 1
                  loopRegion := some ⟨.samples 1, .endOfAudio⟩
                  volume := .fixed 0, playbackRate := .fixed 1, panning := .fixed 0, fadeInTween := none } }

example : ∃ st0 s0, StaticSound.new exData = .ok st0 ∧
    Sys.new (chunkDecoder exData.frames.toList 2 4) exStream = .ok s0 ∧
    Bisim (worldOf exData) (fun p => p) (fun _ => True) st0 s0 0 1 := by
  have hW : (worldOf exData).Ok :=
    { slice_ok := by simp [worldOf, exData]
      valid := by
        simp [worldOf, exData, Transport.ValidLoop, World.n, Region.toSamples, PlaybackPosition.intoSamples]
      playing := rfl }
  have hsame : SameSound exData exStream :=
    { sampleRate := rfl, decFrames := rfl, slice := rfl, startTime := rfl, startPosition := rfl, loopRegion := rfl
      volume := rfl, playbackRate := rfl, panning := rfl, fadeInTween := rfl, forwards := rfl }
  have hsign : signNeg (Parameter.new exData.settings.playbackRate (1.0 : ℝ)).value = false := by
    simp [exData, Parameter.new, Parameter.value, signNeg_real]
  exact new_bisim exData exStream (chunkDecoder_contract _ 2 4) hsame hW
    (by simp [exData, PlaybackPosition.intoSamples]) hsign

/-! ### seeks (`C09_seek_*`; lemmas in Proofs/StreamSeekLemmas.lean)

  What the code (and so the model) does with `handle.seek_to(x)`: the decoder thread finds the command at the start
  of its next `run` iteration, moves its transport with `Transport::seek_to` (the function the static sound calls),
  seeks the decoder, empties the slot — and does NOT flush the frame ring: the frames buffered before the seek are
  still played first.  Vocabulary: `seekIndex sr x` = `(x * sr).round() as usize`; `seekLands t p` = the loop-wrapped
  landing position (the body of C04's `seekLanding`); `W.rebase t` = the same audio with the walk started at `t`;
  `SeekPending W … s a m x` = a sound in the middle of a seek-free history of `W` (ring = entries `a … m − 1`) with
  `seek_to(x)` just written, target inside the audio; `SeekInv W' … s old a m` = ring is `old ++` entries `a … m − 1`
  of the walk of `W'` (no pre-seeded entry: `a ≥ 1`), decoder transport at step `m − 1`, no seek pending. -/

/-- **A seek re-establishes the ring invariant at the landing position.** The decoder iteration that finds the
    pending `seek_to(x)`: the re-based world (walk started at the landing transport: position `seekLands …`, same loop
    region, playing) is in-domain; afterwards the ring is the frames buffered before the seek followed by the first
    entry of the re-based walk — the source frame AT the landing position, stamped with it —, the decoder transport is
    one step into that walk and no seek is pending (`SeekInv`).  If nothing was buffered, that is literally the
    `RingInv` the seek-free theorems (`ringInv_run`, `C09_packetisation_independent`) start from. -/
theorem C09_seek_reestablishes_ring_invariant {σ : Type} {W : World} (hW : W.Ok) {D : Decoder σ ℝ} {pos : σ → Nat}
    {good : σ → Prop} (C : Dec.Contract D W.frames.toList pos good) {s : Sys σ ℝ} {a m : Nat} {x : ℝ}
    (P : SeekPending W pos good s a m x) (fuel : Nat) (hfuel : W.frames.size < fuel)
    (W' : World) (hW' : W' = W.rebase (landT s.transport (seekIndex s.sampleRate x))) :
    W'.Ok ∧ W'.t0.position = seekLands s.transport (seekIndex s.sampleRate x) ∧
    W'.t0.loopRegion = s.transport.loopRegion ∧
    SeekInv W' pos good (Sys.run D fuel s).2 s.ring.items 1 2 ∧
    (Sys.run D fuel s).2.ring.items = s.ring.items ++ [⟨W.srcAt W'.t0.position, W'.t0.position⟩] ∧
    (s.ring.items = [] → RingInv W' pos good (Sys.run D fuel s).2 1 2) := by
  subst hW'
  obtain ⟨h1, h2, h3⟩ := seek_applied hW C P fuel hfuel
  refine ⟨h1, rfl, rfl, h2, h3, fun he => ?_⟩
  rw [he] at h2
  exact h2.ringInv

/-- **… and every later seek-free history keeps it.** From the state a seek left behind (`SeekInv`), through every
    history of non-seek commands, `pop_error`s, callbacks and decoder iterations (any pace): the ring is what is left
    of the pre-seek frames (they only shrink) followed by entries `a' … m' − 1` of the walk re-based at the landing
    transport, the decoder transport at step `m' − 1`; once the pre-seek frames are gone this is `RingInv` of the
    re-based world — the hypothesis of the seek-free ring theorems, which then hold from there on (`ringInv_run`):
    every frame pushed after the seek is the frame a transport sought to the landing position walks over. -/
theorem C09_seek_then_ring_is_future {σ : Type} {W' : World} (hW : W'.Ok) {D : Decoder σ ℝ} {pos : σ → Nat}
    {good : σ → Prop} (C : Dec.Contract D W'.frames.toList pos good) (fuel : Nat) (hfuel : W'.frames.size < fuel)
    (ops : List (Streaming.Op ℝ)) (hops : ∀ c, Streaming.Op.command c ∈ ops → AudioCmd c)
    {s s' : Sys σ ℝ} {old : List (TimestampedFrame ℝ)} {a m : Nat} (S : SeekInv W' pos good s old a m)
    (outs : List (Frame ℝ)) (h : Sys.runOps D fuel s ops = .ok (s', outs)) :
    ∃ old' a' m', old'.length ≤ old.length ∧ a ≤ a' ∧ m ≤ m' ∧
      s'.ring.items = old' ++ W'.ringSlice a' m' ∧ s'.transport = W'.trAt (m' - 1) ∧
      SeekInv W' pos good s' old' a' m' ∧ (old' = [] → RingInv W' pos good s' a' m') := by
  obtain ⟨old', a', m', h1, h2, h3, S'⟩ := seekInv_run hW C fuel hfuel ops s s' old a m outs hops S h
  refine ⟨old', a', m', h1, h2, h3, S'.ring, S'.transport, S', fun he => ?_⟩
  rw [he] at S'
  exact S'.ringInv

/-- **A seek is applied exactly once.** After the iteration that applied it the slot is empty (and no other decoder
    command appeared), so the next iteration of a live decoder with room in the ring is a plain `produce`: it pushes
    the next frame of the re-based walk and does not seek again. -/
theorem C09_seek_applied_once {σ : Type} {W : World} (hW : W.Ok) {D : Decoder σ ℝ} {pos : σ → Nat}
    {good : σ → Prop} (C : Dec.Contract D W.frames.toList pos good) {s : Sys σ ℝ} {a m : Nat} {x : ℝ}
    (P : SeekPending W pos good s a m x) (fuel : Nat) (hfuel : W.frames.size < fuel)
    (halive : (Sys.run D fuel s).2.core.shared ≠ .stopped) (hkept : (Sys.run D fuel s).2.soundDropped = false)
    (hroom : (Sys.run D fuel s).2.ring.isFull = false) :
    (Sys.run D fuel s).2.cmds.seekTo = none ∧ (Sys.run D fuel s).2.cmds.seekBy = none ∧
    Sys.run D fuel (Sys.run D fuel s).2 = Sys.produce D fuel (Sys.run D fuel s).2 := by
  obtain ⟨_, h2, _⟩ := seek_applied hW C P fuel hfuel
  exact ⟨h2.noSeek.2.2, h2.noSeek.2.1,
    run_eq_produce D fuel _ halive hkept hroom h2.noSeek.1 h2.noSeek.2.1 h2.noSeek.2.2⟩

/-- **Order of the two seek commands.** `seek_by` and `seek_to` travel in separate one-element slots, so the order
    of the handle calls is not what decides: when both are pending in one decoder iteration the code applies `seek_by k`
    FIRST — relative to `shared.position()`, the position the audio thread last published, not to a previous seek
    target — and `seek_to x` SECOND, each exactly once (both slots empty afterwards), the ring untouched; the decoder
    transport ends where `Transport::seek_to(round(x·sr))` lands from the intermediate transport.
    (So "seek_to(p) then seek_by(k) lands at p + k" is NOT what the code does within one iteration: it lands on `x`.) -/
theorem C09_seek_by_before_seek_to {σ : Type} {W : World} {D : Decoder σ ℝ} {pos : σ → Nat} {good : σ → Prop}
    (C : Dec.Contract D W.frames.toList pos good) {s : Sys σ ℝ} (hin : StreamIn W pos good s)
    (hv : s.transport.ValidLoop W.n) (h0 : s.core.shared ≠ .stopped) (hd : s.soundDropped = false)
    (hfull : s.ring.isFull = false) (h1 : s.cmds.setLoopRegion = none) (k x : ℝ) (h2 : s.cmds.seekBy = some k)
    (h3 : s.cmds.seekTo = some x) (hk : seekIndex s.sampleRate (s.sharedPosition + k) ≤ W.frames.size)
    (hx : seekIndex s.sampleRate x ≤ W.frames.size) (fuel : Nat) :
    ∃ s2, Sys.run D fuel s = Sys.produce D fuel s2 ∧
      s2.transport = seekT W.n (seekT W.n s.transport (seekIndex s.sampleRate (s.sharedPosition + k)))
        (seekIndex s.sampleRate x) ∧
      s2.cmds.seekBy = none ∧ s2.cmds.seekTo = none ∧ s2.ring = s.ring := by
  obtain ⟨s2, h, ht, ha, hb, _, hr, _⟩ := run_two_seeks C hin hv h0 hd hfull h1 k x h2 h3 hk hx fuel
  exact ⟨s2, h, ht, ha, hb, hr⟩

/-- **`seek_by k` alone** is a `seek_to` of `shared.position() + k` (the position the audio thread last published — up to one
    callback and a ring of frames behind the decoder transport —, not the decoder's own position): applied once, the decoder
    transport lands where `Transport::seek_to(round((shared.position() + k)·sr))` lands, the ring is untouched. -/
theorem C09_seek_by_lands {σ : Type} {W : World} {D : Decoder σ ℝ} {pos : σ → Nat} {good : σ → Prop}
    (C : Dec.Contract D W.frames.toList pos good) {s : Sys σ ℝ} (hin : StreamIn W pos good s)
    (hv : s.transport.ValidLoop W.n) (h0 : s.core.shared ≠ .stopped) (hd : s.soundDropped = false)
    (hfull : s.ring.isFull = false) (h1 : s.cmds.setLoopRegion = none) (k : ℝ) (h2 : s.cmds.seekBy = some k)
    (h3 : s.cmds.seekTo = none) (hk : seekIndex s.sampleRate (s.sharedPosition + k) ≤ W.frames.size) (fuel : Nat) :
    ∃ s1, Sys.run D fuel s = Sys.produce D fuel s1 ∧
      s1.transport = seekT W.n s.transport (seekIndex s.sampleRate (s.sharedPosition + k)) ∧
      s1.cmds.seekBy = none ∧ s1.cmds.seekTo = none ∧ s1.ring = s.ring := by
  have hina : StreamIn W pos good ({ s with cmds := { s.cmds with seekBy := none } } : Sys σ ℝ) :=
    ⟨hin.cfg_slice, hin.cfg_n, hin.inv⟩
  obtain ⟨ds1, _, hs1⟩ := seekToIndex_closed (D := D) C hina hv _ hk
  exact ⟨_, run_seekBy D fuel s h0 hd hfull h1 k h2 _ hs1 h3, rfl, rfl, h3, rfl⟩

/-- **A seek lands where the static sound's transport lands.** `DecodeScheduler::seek_to(x)` (index inside the
    decoder's audio, valid loop region) never fails and leaves the decoder transport exactly at the result of
    `Transport::seek_to(index)` — the call `StaticSound::seek_to_index` makes — in closed form: position `seekLands`
    (the index itself without a loop region or inside it; moved by whole loop lengths into the region otherwise — the
    body of C04's `seekLanding`, whose theorems `C04_seek_lands` … describe it), loop region unchanged, stopped iff the
    landing is at or beyond the end; the ring is not flushed.
    The INDEX differs between the two sounds: streaming rounds (`(x·sr).round()`), static truncates (`(x·sr) as usize`). -/
theorem C09_seek_lands_like_static_transport {σ : Type} {W : World} {D : Decoder σ ℝ} {pos : σ → Nat} {good : σ → Prop}
    (C : Dec.Contract D W.frames.toList pos good) {s : Sys σ ℝ} (hin : StreamIn W pos good s)
    (hv : s.transport.ValidLoop W.n) (x : ℝ) (hx : seekIndex s.sampleRate x ≤ W.frames.size) :
    ∃ s', Sys.seekTo D s x = .ok s' ∧
      s.transport.seekTo (seekIndex s.sampleRate x) W.n = .ok s'.transport ∧
      s'.transport.position = seekLands s.transport (seekIndex s.sampleRate x) ∧
      s'.transport.loopRegion = s.transport.loopRegion ∧
      s'.transport.playing = (if W.n ≤ seekLands s.transport (seekIndex s.sampleRate x) then false
                              else s.transport.playing) ∧
      s'.ring = s.ring ∧ s'.cmds = s.cmds := by
  obtain ⟨ds', _, h⟩ := seekToIndex_closed (D := D) C hin hv _ hx
  exact ⟨_, h, transport_seekTo_closed s.transport _ W.n hv, rfl, rfl, rfl, rfl, rfl⟩

/-! non-vacuity of the seek theorems: a concrete sound (three frames, loop over the last two, play head at 1, the
    pre-seeded entry in the ring, decoder with packets of 2 and seeks on multiples of 4) with `seek_to(0.0)` pending -/

-- (`exSeekWorld`, `exSeekSys`, `exSeek_pending` … are in Proofs/StreamSeekLemmas.lean)

example : ∃ (W : World) (s : Sys Nat ℝ) (a m : Nat) (x : ℝ), W.Ok ∧
    Dec.Contract (chunkDecoder W.frames.toList 2 4) W.frames.toList (fun p => p) (fun _ => True) ∧
    SeekPending W (fun p => p) (fun _ => True) s a m x :=
  ⟨exSeekWorld, _, 0, 1, 0, exSeekWorld_ok, chunkDecoder_contract _ 2 4, exSeek_pending⟩

/-- hypothesis of `C09_seek_then_ring_is_future` (a `SeekInv` state exists: the one the seek above leaves behind) -/
example : ∃ (W' : World) (s : Sys Nat ℝ) (old : List (TimestampedFrame ℝ)) (a m : Nat), W'.Ok ∧
    SeekInv W' (fun p => p) (fun _ => True) s old a m :=
  have h := C09_seek_reestablishes_ring_invariant exSeekWorld_ok (chunkDecoder_contract _ 2 4) exSeek_pending 4
    (by simp [exSeekWorld]) _ rfl
  ⟨_, _, _, 1, 2, h.1, h.2.2.2.1⟩

/-- hypotheses of `C09_seek_by_before_seek_to` and `C09_seek_lands_like_static_transport` -/
example : StreamIn exSeekWorld (fun p => p) (fun _ => True) (exSeekSys { seekBy := some 0, seekTo := some 0 }) ∧
    (exSeekSys { seekBy := some 0, seekTo := some 0 }).transport.ValidLoop exSeekWorld.n ∧
    (exSeekSys { seekBy := some 0, seekTo := some 0 }).core.shared ≠ .stopped ∧
    (exSeekSys { seekBy := some 0, seekTo := some 0 }).ring.isFull = false ∧
    seekIndex 4 ((exSeekSys { seekBy := some 0, seekTo := some 0 }).sharedPosition + 0) ≤ exSeekWorld.frames.size ∧
    seekIndex 4 0 ≤ exSeekWorld.frames.size :=
  ⟨exSeek_in _, exSeekWorld_ok.valid, by simp [exSeekSys, SoundCore.new], exSeek_room _,
    by simp [exSeekSys, seekIndex_zero], by simp [seekIndex_zero]⟩

/-- hypotheses of `C09_seek_by_lands` -/
example : (exSeekSys { seekBy := some 0 }).cmds.seekBy = some 0 ∧ (exSeekSys { seekBy := some 0 }).cmds.seekTo = none ∧
    StreamIn exSeekWorld (fun p => p) (fun _ => True) (exSeekSys { seekBy := some 0 }) ∧
    seekIndex 4 ((exSeekSys { seekBy := some 0 }).sharedPosition + 0) ≤ exSeekWorld.frames.size :=
  ⟨rfl, rfl, exSeek_in _, by simp [exSeekSys, seekIndex_zero]⟩

/-! ### `set_loop_region`, `seek_by` alone, seeks past the end, the drained point (lemmas in Proofs/StreamLoopLemmas.lean)

  `run` reads its three slots in the order `set_loop_region`, `seek_by`, `seek_to`; each moves only the decoder
  transport (and the decoder) and none flushes the ring.  Vocabulary: `loopSamples s r` = the requested region in frames
  (`Region::to_samples` with the scheduler's sample rate and `num_frames`), `loopT s r` = `Transport::set_loop_region` of it
  on the decoder transport; `LoopPending` / `SeekByPending` / `SeekEndPending` = `SeekPending` with `set_loop_region(r)` /
  `seek_by(k)` / a `seek_to(x)` landing at or after the end written instead. -/

/-- **`set_loop_region` re-establishes the ring invariant at the transport with the new region.** The decoder iteration
    that finds the pending `set_loop_region(r)`: the world re-based at the decoder transport with its region replaced
    (same position, still playing; region = what `validLoop` keeps of the request) is in-domain; afterwards the ring is
    the frames buffered before — they were produced under the OLD region and are still played first — followed by the
    first entry of the re-based walk (the source frame at the unchanged position), the decoder transport is one step into
    that walk — a step taken under the NEW region — and no decoder command is pending (`SeekInv`). -/
theorem C09_loop_region_reestablishes_ring_invariant {σ : Type} {W : World} (hW : W.Ok) {D : Decoder σ ℝ}
    {pos : σ → Nat} {good : σ → Prop} (C : Dec.Contract D W.frames.toList pos good) {s : Sys σ ℝ} {a m : Nat}
    {r : Option (Region ℝ)} (P : LoopPending W pos good s a m r) (fuel : Nat) (hfuel : W.frames.size < fuel)
    (W' : World) (hW' : W' = W.rebase (loopT s r)) :
    W'.Ok ∧ W'.t0.position = s.transport.position ∧
    W'.t0.loopRegion = Transport.validLoop (loopSamples s r) ∧
    SeekInv W' pos good (Sys.run D fuel s).2 s.ring.items 1 2 ∧
    (Sys.run D fuel s).2.ring.items = s.ring.items ++ [⟨W.srcAt s.transport.position, s.transport.position⟩] ∧
    (Sys.run D fuel s).2.cmds.setLoopRegion = none ∧
    (s.ring.items = [] → RingInv W' pos good (Sys.run D fuel s).2 1 2) := by
  subst hW'
  obtain ⟨h1, h2, h3⟩ := loop_applied hW C P fuel hfuel
  refine ⟨h1, rfl, rfl, h2, h3, h2.noSeek.1, fun he => ?_⟩
  rw [he] at h2
  exact h2.ringInv

/-- **… and every later history without decoder commands keeps it**: after the iteration that applied
    `set_loop_region(r)`, through non-seek commands, `pop_error`s, callbacks and decoder iterations at any pace, the
    ring is what is left of the frames buffered under the old region followed by entries `a' … m' − 1` of the walk
    under the new region, the decoder transport at step `m' − 1` of it; once the old frames are gone this is `RingInv`
    of the re-based world. -/
theorem C09_loop_region_then_ring_is_future {σ : Type} {W : World} (hW : W.Ok) {D : Decoder σ ℝ}
    {pos : σ → Nat} {good : σ → Prop} (C : Dec.Contract D W.frames.toList pos good) {s : Sys σ ℝ} {a m : Nat}
    {r : Option (Region ℝ)} (P : LoopPending W pos good s a m r) (fuel : Nat) (hfuel : W.frames.size < fuel)
    (ops : List (Streaming.Op ℝ)) (hops : ∀ c, Streaming.Op.command c ∈ ops → AudioCmd c) {s' : Sys σ ℝ}
    (outs : List (Frame ℝ)) (h : Sys.runOps D fuel (Sys.run D fuel s).2 ops = .ok (s', outs)) :
    ∃ old' a' m', old'.length ≤ s.ring.items.length ∧ 1 ≤ a' ∧ 2 ≤ m' ∧
      s'.ring.items = old' ++ (W.rebase (loopT s r)).ringSlice a' m' ∧
      s'.transport = (W.rebase (loopT s r)).trAt (m' - 1) ∧
      (old' = [] → RingInv (W.rebase (loopT s r)) pos good s' a' m') := by
  obtain ⟨h1, h2, _⟩ := loop_applied hW C P fuel hfuel
  obtain ⟨old', a', m', l1, l2, l3, e1, e2, _, e3⟩ :=
    C09_seek_then_ring_is_future h1 (W' := W.rebase (loopT s r)) C fuel hfuel ops hops h2 outs h
  exact ⟨old', a', m', l1, l2, l3, e1, e2, e3⟩

/-- **`set_loop_region` does to the decoder transport what the static sound's handler does to its own.** In closed form:
    position and `playing` untouched, region := what `validLoop` keeps of the request converted with the sound's sample rate
    and frame count (never an empty / inverted one — the fact C04's `C04_transport_loop_never_degenerate` states, from `loopOk_of_validLoop`), slot emptied, ring and decoder
    untouched; and a static sound with the same transport, sample rate and frame count answers the same command
    (`StaticSound.setLoopRegion`, never a fault) with the same transport. -/
theorem C09_loop_region_like_static_transport {σ : Type} (s : Sys σ ℝ) (r : Option (Region ℝ))
    (h : s.cmds.setLoopRegion = some r) (st : StaticSound ℝ) (ht : st.transport = s.transport)
    (hsr : st.sampleRate = s.sampleRate) (hn : numFrames st.frames.size st.slice = .ok s.cfg.numFrames) :
    (Sys.readLoopCmd s).transport =
      { s.transport with loopRegion := Transport.validLoop (loopSamples s r) } ∧
    (∀ ls le, (Sys.readLoopCmd s).transport.loopRegion = some (ls, le) → ls < le) ∧
    (Sys.readLoopCmd s).cmds.setLoopRegion = none ∧ (Sys.readLoopCmd s).ring = s.ring ∧
    (Sys.readLoopCmd s).ds = s.ds ∧
    ∃ st', StaticSound.setLoopRegion r st = .ok st' ∧ st'.transport = (Sys.readLoopCmd s).transport := by
  have e : Sys.readLoopCmd s =
      { s with cmds := { s.cmds with setLoopRegion := none }, transport := loopT s r } := by
    unfold Sys.readLoopCmd; simp only [h]; rfl
  rw [e]
  refine ⟨rfl, fun ls le hl => ?_, rfl, rfl, rfl, static_setLoopRegion_transport s st r ht hsr hn⟩
  have hl' : Transport.validLoop (loopSamples s r) = some (ls, le) := hl
  have := Transport.loopOk_of_validLoop (loopSamples s r) 0 true
  unfold Transport.LoopOk at this
  simp only [hl'] at this
  exact this

/-- **A pending `seek_by` alone re-establishes the ring invariant** exactly as a `seek_to` does
    (`C09_seek_reestablishes_ring_invariant`), the landing computed from `shared.position() + k` (the position the audio
    thread last published); every later history keeps it by `C09_seek_then_ring_is_future`. -/
theorem C09_seek_by_reestablishes_ring_invariant {σ : Type} {W : World} (hW : W.Ok) {D : Decoder σ ℝ} {pos : σ → Nat}
    {good : σ → Prop} (C : Dec.Contract D W.frames.toList pos good) {s : Sys σ ℝ} {a m : Nat} {k : ℝ}
    (P : SeekByPending W pos good s a m k) (fuel : Nat) (hfuel : W.frames.size < fuel)
    (W' : World) (hW' : W' = W.rebase (landT s.transport (seekIndex s.sampleRate (s.sharedPosition + k)))) :
    W'.Ok ∧ W'.t0.position = seekLands s.transport (seekIndex s.sampleRate (s.sharedPosition + k)) ∧
    W'.t0.loopRegion = s.transport.loopRegion ∧
    SeekInv W' pos good (Sys.run D fuel s).2 s.ring.items 1 2 ∧
    (Sys.run D fuel s).2.ring.items = s.ring.items ++ [⟨W.srcAt W'.t0.position, W'.t0.position⟩] ∧
    (Sys.run D fuel s).2.cmds.seekBy = none ∧
    (s.ring.items = [] → RingInv W' pos good (Sys.run D fuel s).2 1 2) := by
  subst hW'
  obtain ⟨h1, h2, h3⟩ := seekBy_applied hW C P fuel hfuel
  refine ⟨h1, rfl, rfl, h2, h3, h2.noSeek.2.1, fun he => ?_⟩
  rw [he] at h2
  exact h2.ringInv

/-- **A seek landing at or after the end: the decoder reaches the end at once.** The iteration that applies such a
    `seek_to(x)` (index inside the decoder's audio, landing ≥ `num_frames` — no loop region, or the target beyond it):
    the transport stops AT the landing position, the decoder still pushes exactly ONE more frame — silence, stamped with
    the landing position — behind the frames buffered before the seek (which are not flushed), sets `reached_end`, and
    the iteration answers `End`: the decoder thread finishes; life-cycle state and error flag untouched, slot emptied. -/
theorem C09_seek_past_end_decoder_ends {σ : Type} {W : World} (hW : W.Ok) {D : Decoder σ ℝ} {pos : σ → Nat}
    {good : σ → Prop} (C : Dec.Contract D W.frames.toList pos good) {s : Sys σ ℝ} {a m : Nat} {x : ℝ}
    (P : SeekEndPending W pos good s a m x) (fuel : Nat) (hfuel : W.frames.size < fuel) :
    (Sys.run D fuel s).1 = .ok .end ∧ (Sys.run D fuel s).2.reachedEnd = true ∧
    (Sys.run D fuel s).2.ring.items =
      s.ring.items ++ [⟨Frame.zero, seekLands s.transport (seekIndex s.sampleRate x)⟩] ∧
    (Sys.run D fuel s).2.ring.items.length = s.ring.items.length + 1 ∧
    (Sys.run D fuel s).2.transport.playing = false ∧
    (Sys.run D fuel s).2.transport.position = seekLands s.transport (seekIndex s.sampleRate x) ∧
    (Sys.run D fuel s).2.cmds.seekTo = none ∧ (Sys.run D fuel s).2.core = s.core ∧
    (Sys.run D fuel s).2.encounteredError = s.encounteredError := by
  obtain ⟨h1, h2, h3, h4, h5, h6, h7, h8⟩ := seek_end_applied hW C P fuel hfuel
  refine ⟨h1, h2, h3, ?_, h4, h5, h6, h7, h8⟩
  rw [h3]; simp

/-- **… the same for a `seek_by` landing at or after the end** (target `shared.position() + k`). -/
theorem C09_seek_by_past_end_decoder_ends {σ : Type} {W : World} (hW : W.Ok) {D : Decoder σ ℝ} {pos : σ → Nat}
    {good : σ → Prop} (C : Dec.Contract D W.frames.toList pos good) {s : Sys σ ℝ} {a m : Nat} {k : ℝ}
    (P : SeekByEndPending W pos good s a m k) (fuel : Nat) (hfuel : W.frames.size < fuel) :
    (Sys.run D fuel s).1 = .ok .end ∧ (Sys.run D fuel s).2.reachedEnd = true ∧
    (Sys.run D fuel s).2.ring.items =
      s.ring.items ++ [⟨Frame.zero, seekLands s.transport (seekIndex s.sampleRate (s.sharedPosition + k))⟩] ∧
    (Sys.run D fuel s).2.transport.playing = false ∧
    (Sys.run D fuel s).2.transport.position = seekLands s.transport (seekIndex s.sampleRate (s.sharedPosition + k)) ∧
    (Sys.run D fuel s).2.cmds.seekBy = none ∧ (Sys.run D fuel s).2.core = s.core ∧
    (Sys.run D fuel s).2.encounteredError = s.encounteredError :=
  seekBy_end_applied hW C P fuel hfuel

/-- **… and the sound stops exactly when the buffered frames are used up** (`_partial`: one output frame at a time).
    With `reached_end` set (nothing is pushed any more: a `decode` step of such a sound changes nothing), an output frame
    whose position step pops `j = ⌊frac + step⌋` ring entries leaves the ring `j` entries shorter, and the sound is marked
    stopped in this very frame iff `j ≥` the entries left — so, counting from the seek, at the first output frame at
    which the position steps add up to (frames buffered before the seek) + 1; until then it keeps playing the pre-seek
    frames.  Full statement not proved as one theorem: `∀` history after `C09_seek_past_end_decoder_ends`, `handle.state()`
    is `Stopped` after exactly the callback in which the `(L+1)`-th pop attempt happens (induction of this theorem over
    `render_loop` / `process`). -/
theorem C09_seek_past_end_sound_stops_partial {σ : Type} (fuel : Nat) (s : Sys σ ℝ) (t dt : ℝ)
    (hre : s.reachedEnd = true) (h0 : 0 ≤ s.frac + s.fracStep t dt) (hf : ⌊s.frac + s.fracStep t dt⌋₊ < fuel)
    (D : Decoder σ ℝ) :
    (∃ s' out, s.renderFrame fuel t dt = .ok (s', out) ∧
      s'.ring.items = s.ring.items.drop ⌊s.frac + s.fracStep t dt⌋₊ ∧
      s'.ring.items.length = s.ring.items.length - ⌊s.frac + s.fracStep t dt⌋₊ ∧ s'.reachedEnd = true ∧
      s'.core = (if s.ring.items.length ≤ ⌊s.frac + s.fracStep t dt⌋₊ then s.core.markStopped else s.core)) ∧
    Sys.step D fuel s .decode = .ok (s, []) := by
  obtain ⟨s', out, h1, h2, h3, h4⟩ := renderFrame_drain fuel s t dt hre h0 hf
  refine ⟨⟨s', out, h1, h2, by rw [h2]; simp, h3, h4⟩, ?_⟩
  simp [Sys.step, hre]

/-- **… over a whole render loop: stopped iff the buffered frames are used up.** For a sound whose decoder has set
    `reached_end` (e.g. by `C09_seek_past_end_decoder_ends`: ring = `L` pre-seek frames + 1), ANY `k ≥ 1` output frames of
    `process`'s render loop that do not fault (no premise on rate or pace): the ring is the old one minus the `j` entries
    popped so far, `reached_end` stays, and the life-cycle core is `mark_as_stopped` of the old one iff the ring is empty
    afterwards — untouched otherwise.  With the per-frame pop count `j = ⌊frac + step⌋` of
    `C09_seek_past_end_sound_stops_partial`: the sound stops in the output frame at which the pops reach `L + 1`. -/
theorem C09_seek_past_end_render_loop_stops {σ : Type} (fuel : Nat) (dt : ℝ) (len k i : Nat) (s s' : Sys σ ℝ)
    (outs : List (Frame ℝ)) (hk : 1 ≤ k) (hre : s.reachedEnd = true)
    (h : Sys.renderLoop fuel dt len k i s = .ok (s', outs)) :
    ∃ j, s'.ring.items = s.ring.items.drop j ∧ s'.reachedEnd = true ∧
      s'.core = (if s'.ring.items = [] then s.core.markStopped else s.core) := by
  obtain ⟨_, j, h1, h2, h3⟩ := renderLoop_drain fuel dt len k i s s' outs hre h
  refine ⟨j, h1, h2, ?_⟩
  rw [h3]
  have : k ≠ 0 := by omega
  simp [this]

/-- **The drained point: from there the bisimulation theorems apply to the re-based world.** Once the frames buffered
    before a seek / loop-region change are used up (`SeekInv … [] a m`) and the audio side is healthy (fraction in
    `[0, 1)`, handle state in sync, no decoder error, "end reached and ring empty ⇒ already stopped"), the streaming
    sound is `Bisim`-related — for the world whose walk starts at the landing transport — to the static sound that
    plays the same audio, stands at step `a + 3` of that walk (window = entries `a … a + 3` of it) and has the same
    fraction, parameters, life-cycle state and commands.  So `C09_bisimulation_frame` / `_process` hold from this state:
    every output frame equals that static sound's (which, `a ≥ 1`, holds source frames from the landing position on only). -/
theorem C09_seek_drained_bisimulation {σ : Type} {W' : World} (hW : W'.Ok) {pos : σ → Nat} {good : σ → Prop}
    {s : Sys σ ℝ} {a m : Nat} (S : SeekInv W' pos good s [] a m) (A : AudioSideOk s a m) :
    ∃ st, StaticAt W' st (a + 3) ∧ Bisim W' pos good st s a m ∧
      ∀ (t dt : ℝ) (fuel : Nat), FrameOk s t dt fuel →
        ∃ st' s' out, st.renderFrame fuel t dt = .ok (st', out) ∧ s.renderFrame fuel t dt = .ok (s', out) ∧
          Bisim W' pos good st' s' (a + ⌊s.frac + s.fracStep t dt⌋₊) m :=
  ⟨staticTwin W' s (a + 3), staticTwin_at W' s (a + 3), S.bisim A,
    fun t dt fuel F => C09_bisimulation_frame hW (S.bisim A) t dt fuel F⟩

/-! non-vacuity of the theorems above (witnesses in Proofs/StreamLoopLemmas.lean) -/

/-- hypotheses of `C09_loop_region_reestablishes_ring_invariant` / `C09_loop_region_then_ring_is_future` -/
example : ∃ (W : World) (s : Sys Nat ℝ) (a m : Nat) (r : Option (Region ℝ)), W.Ok ∧
    Dec.Contract (chunkDecoder W.frames.toList 2 4) W.frames.toList (fun p => p) (fun _ => True) ∧
    LoopPending W (fun p => p) (fun _ => True) s a m r :=
  ⟨exSeekWorld, _, 0, 1, none, exSeekWorld_ok, chunkDecoder_contract _ 2 4, exLoop_pending⟩

/-- hypotheses of `C09_loop_region_like_static_transport` -/
example : ∃ (s : Sys Nat ℝ) (r : Option (Region ℝ)) (st : StaticSound ℝ), s.cmds.setLoopRegion = some r ∧
    st.transport = s.transport ∧ st.sampleRate = s.sampleRate ∧
    numFrames st.frames.size st.slice = .ok s.cfg.numFrames :=
  ⟨exSeekSys { setLoopRegion := some none }, none, staticTwin exSeekWorld (exSeekSys { setLoopRegion := some none }) 0,
    rfl, rfl, rfl, rfl⟩

/-- hypotheses of `C09_seek_by_reestablishes_ring_invariant` -/
example : ∃ (W : World) (s : Sys Nat ℝ) (a m : Nat) (k : ℝ), W.Ok ∧
    Dec.Contract (chunkDecoder W.frames.toList 2 4) W.frames.toList (fun p => p) (fun _ => True) ∧
    SeekByPending W (fun p => p) (fun _ => True) s a m k :=
  ⟨exSeekWorld, _, 0, 1, 0, exSeekWorld_ok, chunkDecoder_contract _ 2 4, exSeekBy_pending⟩

/-- hypotheses of `C09_seek_past_end_decoder_ends` (`seek_to(3.0)` on a 3-frame, 1 Hz sound without a loop), and of
    `C09_seek_past_end_sound_stops_partial` (the state that iteration leaves: `reached_end` set) -/
example : ∃ (W : World) (s : Sys Nat ℝ) (a m : Nat) (x : ℝ), W.Ok ∧
    Dec.Contract (chunkDecoder W.frames.toList 2 4) W.frames.toList (fun p => p) (fun _ => True) ∧
    SeekEndPending W (fun p => p) (fun _ => True) s a m x ∧
    (Sys.run (chunkDecoder W.frames.toList 2 4) 4 s).2.reachedEnd = true :=
  ⟨exEndWorld, _, 0, 1, 3, exEndWorld_ok, chunkDecoder_contract _ 2 4, exSeekEnd_pending,
    (C09_seek_past_end_decoder_ends exEndWorld_ok (chunkDecoder_contract _ 2 4) exSeekEnd_pending 4
      (by simp [exEndWorld])).2.1⟩

/-- hypotheses of `C09_seek_by_past_end_decoder_ends` -/
example : ∃ (W : World) (s : Sys Nat ℝ) (a m : Nat) (k : ℝ), W.Ok ∧
    Dec.Contract (chunkDecoder W.frames.toList 2 4) W.frames.toList (fun p => p) (fun _ => True) ∧
    SeekByEndPending W (fun p => p) (fun _ => True) s a m k :=
  ⟨exEndWorld, _, 0, 1, 3, exEndWorld_ok, chunkDecoder_contract _ 2 4, exSeekByEnd_pending⟩

/-- hypotheses of `C09_seek_past_end_render_loop_stops`: a sound with `reached_end` set whose render loop (one frame,
    `dt = 0`) does not fault -/
example : ∃ (s s' : Sys Nat ℝ) (outs : List (Frame ℝ)), s.reachedEnd = true ∧
    Sys.renderLoop 4 0 1 1 0 s = .ok (s', outs) := by
  let s : Sys Nat ℝ := { exDrySys with reachedEnd := true }
  have hz : s.frac + s.fracStep ((KOps.ofNat (0 + 1) : ℝ) / (KOps.ofNat 1 : ℝ)) 0 = 0 := by
    simp [s, Sys.fracStep, exDrySys, exSeekSys]
  obtain ⟨s', out, h, _⟩ := renderFrame_drain 4 s _ 0 rfl (by rw [hz]) (by rw [hz]; simp)
  refine ⟨s, s', [out], rfl, ?_⟩
  rw [Sys.renderLoop, h]
  simp [Sys.renderLoop]

/-- hypotheses of `C09_seek_drained_bisimulation` -/
example : ∃ (W' : World) (s : Sys Nat ℝ) (a m : Nat), W'.Ok ∧ SeekInv W' (fun p => p) (fun _ => True) s [] a m ∧
    AudioSideOk s a m :=
  ⟨exSeekWorld, exDrySys, 1, 1, exSeekWorld_ok, exDry_seekInv, exDry_audio⟩

end K
