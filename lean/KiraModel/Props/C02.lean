/-
  C02 — mixer output equals the documented signal-flow sum; nothing leaks or is lost.

  The subject is the imperative model of `Renderer::process` → `Mixer::process` → `Track::process` /
  `SendTrack::process` / `MainTrack::process` (Model/Track.lean, Model/Mixer.lean: shared scratch buffers,
  in-place accumulation, early return of a paused track, send input buffers) — the very definitions the
  `mixer` twin runs bit-exactly against kira.  Sounds, effects and the spatialiser are arbitrary
  state-passing components `C : Comps α S E P`; the only thing assumed about them is `C.LenPres`
  (a `&mut [Frame]` cannot be resized by the callee).  Trees, effect chains, route tables, parameter
  states, buffer sizes and callback sizes are arbitrary.  The buffer-handling theorems hold for *every*
  number type `α` (so also for the Float twin); the statements about sums are over ℝ.
-/
import KiraModel.Proofs.FlowLemmas
import KiraModel.Proofs.MixerPausedLemmas
import KiraModel.Proofs.RealOps

set_option linter.unusedSectionVars false

namespace K

section generic
variable {α : Type} [Add α] [Sub α] [Mul α] [Div α] [Neg α] [LT α] [LE α]
  [DecidableLT α] [DecidableLE α] [OfScientific α] [KOps α]
variable {S E P X : Type} (C : Comps α S E P) (V : EnvOps α X)

/-- **The imperative track equals the closed recursive specification** (`Trk.spec`):
    `y_t = if advancing then g_t ⊙ S_t(E_t(Σ_children y_c + Σ_sounds x_s)) else 0`, every child and sound
    rendered from silence, sends fed with the post-fader `y_t` times the route volume — for every tree
    with clean scratch buffers, every chunk length `n ≤ internal_buffer_size`, every state of the send
    tracks.  The result again has `n` frames and clean scratch buffers. -/
theorem C02_track_refines_spec (hC : C.LenPres) (ibs : Nat) (t : Trk α S E P) (ht : Trk.Clean ibs t)
    (dt : α) (parentInfo : Info α) (n : Nat) (hn : n ≤ ibs) (sends : List (SendTrk α E)) :
    Trk.process C dt parentInfo t (zeros n) sends = Trk.spec C dt parentInfo n t sends
      ∧ (Trk.spec C dt parentInfo n t sends).2.1.length = n
      ∧ Trk.Clean ibs (Trk.spec C dt parentInfo n t sends).1 :=
  Trk.refines C hC ibs t ht dt parentInfo n hn sends

/-- **The imperative mixer equals the documented signal flow** (`Mixer.spec`):
    `out = m ⊙ M(Σ_top y_t + Σ_k z_k + Σ_main x_s)` with `z_k = h_k ⊙ F_k(routed_k)` and `routed_k` the
    sum of `r_{t,k} · y_t` over the advancing tracks routed to the live send track `k`. -/
theorem C02_mixer_refines_spec (hC : C.LenPres) (ibs : Nat) (m : Mixer α S E P) (hm : Mixer.Clean ibs m)
    (n : Nat) (hn : n ≤ ibs) (dt : α) (info : Info α) :
    m.process C (zeros n) dt info = Mixer.spec C m n dt info
      ∧ (Mixer.spec C m n dt info).2.length = n :=
  ⟨(Mixer.refines C hC ibs m hm n hn dt info).1, (Mixer.refines C hC ibs m hm n hn dt info).2.1⟩

/-- the routed signal of a send track: its input buffer after the sub-track pass is the fold, over the
    routes in order, of `input += y · amplitude(route volume)` for the routes that name it -/
theorem C02_send_input_closed_form (routes : List (Route α)) (y : List (Frame α)) (sends : List (SendTrk α E))
    (k : Nat) :
    ((feedSends routes y sends).filter (fun s => s.id = k)).map (·.input)
      = (sends.filter (fun s => s.id = k)).map (fun s =>
          routes.foldl (fun inp (r : Route α) =>
            if r.to = k then addInto inp (y.map (fun f => Frame.scale f (asAmplitude r.volume.value))) else inp) s.input) := by
  unfold feedSends
  induction routes generalizing sends with
  | nil => simp
  | cons r rs ih =>
    simp only [List.foldl_cons]
    rw [ih]
    have hcomm : (sendsAddInput sends r.to y r.volume.value).filter (fun s => s.id = k)
        = (sends.filter (fun s => s.id = k)).map
            (fun s => if s.id = r.to then s.addInput y r.volume.value else s) := by
      unfold sendsAddInput
      induction sends with
      | nil => simp
      | cons s ss ihs =>
        simp only [List.map_cons, List.filter_cons]
        have hid : (if s.id = r.to then s.addInput y r.volume.value else s).id = s.id := by
          split <;> simp [SendTrk.addInput]
        rw [hid]
        by_cases hk : s.id = k <;> simp [hk, ihs]
    rw [hcomm, List.map_map]
    apply List.map_congr_left
    intro s hs
    have hk : s.id = k := by simpa using (List.mem_filter.mp hs).2
    simp only [Function.comp]
    by_cases hr : r.to = k
    · have : s.id = r.to := by rw [hk, hr]
      simp [this, hr, SendTrk.addInput]
    · have : ¬ s.id = r.to := fun e => hr (by rw [← e, hk])
      simp [this, hr]

/-- **Scratch buffers are clean whenever they are handed on.**  `Clean` (every `temp_buffer` in the
    tree, the mixer's and the main track's, and every send-track `input`, is all-zero) is an invariant:
    it holds for a new mixer / track / send track, and is preserved by `Mixer::process`,
    `Mixer::on_start_processing` and every handle operation; under it the slice lent to each child,
    sound and send track is `zeros n` (that is what `C02_mixer_refines_spec` says), and the renderer's
    bus is silent again after every chunk. -/
theorem C02_temp_buffers_clean (hC : C.LenPres) (ibs : Nat) (m : Mixer α S E P) (hm : Mixer.Clean ibs m) :
    (∀ (n : Nat), n ≤ ibs → ∀ (dt : α) (info : Info α), Mixer.Clean ibs (m.process C (zeros n) dt info).1)
      ∧ Mixer.Clean ibs (m.onStart C)
      ∧ (∀ (id : Nat) (g : TrkData α S E P → TrkData α S E P), (∀ d, (g d).temp = d.temp) →
            Mixer.Clean ibs (m.mapTrack id (Trk.mapData g)))
      ∧ (∀ (id : Nat) (child : Trk α S E P), Trk.Clean ibs child →
            Mixer.Clean ibs (m.mapTrack id (Trk.hAddSubTrack child)))
      ∧ (∀ t : Trk α S E P, Trk.Clean ibs t → Mixer.Clean ibs (m.hAddSubTrack t))
      ∧ (∀ s : SendTrk α E, s.input = zeros ibs → Mixer.Clean ibs (m.hAddSendTrack s)) := by
  refine ⟨?_, Mixer.onStart_clean C ibs m hm, ?_, ?_, ?_, ?_⟩
  · intro n hn dt info
    rw [(Mixer.refines C hC ibs m hm n hn dt info).1]
    exact (Mixer.refines C hC ibs m hm n hn dt info).2.2
  · intro id g hg
    exact Mixer.mapTrack_clean ibs id _ (fun t ht => Trk.mapData_clean ibs g hg t ht) m hm
  · intro id child hc
    exact Mixer.mapTrack_clean ibs id _ (fun t ht => Trk.hAddSubTrack_clean ibs child t hc ht) m hm
  · intro t ht; exact Mixer.hAddSubTrack_clean ibs t ht m hm
  · intro s hs; exact Mixer.hAddSendTrack_clean ibs s hs m hm

/-- newly built mixers, tracks and send tracks are clean (so every reachable state is) -/
theorem C02_new_is_clean (v : α) (fx : List E) (sends : List (Nat × α)) (persist : Bool) (id ibs : Nat) :
    Mixer.Clean ibs (Mixer.new (S := S) (P := P) v fx ibs)
      ∧ Trk.Clean ibs (Trk.build (S := S) (P := P) id v fx sends persist ibs)
      ∧ (SendTrk.build id v fx ibs).input = zeros ibs :=
  ⟨Mixer.new_clean v fx ibs, Trk.build_clean id v fx sends persist ibs, rfl⟩

/-- **Silent branches (1): a track that is not advancing** (paused, waiting to resume, or — on the
    current code — stopped) **returns exact silence, feeds no send track,** and nothing below it is touched;
    this holds for any buffer contents it is lent. -/
theorem C02_silent_branches (dt : α) (parentInfo : Info α) (t : Trk α S E P) (out : List (Frame α))
    (sends : List (SendTrk α E)) (h : Trk.advancesIn C dt parentInfo out.length t = false) :
    (Trk.process C dt parentInfo t out sends).2.1 = zeros out.length
      ∧ (Trk.process C dt parentInfo t out sends).2.2 = sends :=
  ⟨(Trk.process_frozen C dt parentInfo t out sends h).1, (Trk.process_frozen C dt parentInfo t out sends h).2.1⟩

/-- **Silent branches (2): an unrouted branch.**  A subtree none of whose tracks has a route to send
    track `k` leaves `k`'s input exactly as it was; and a route naming a send track that is not in the
    arena (removed, or not yet picked up) feeds nothing at all. -/
theorem C02_silent_branches_unrouted (k : Nat) (t : Trk α S E P) (dt : α) (parentInfo : Info α)
    (out : List (Frame α)) (sends : List (SendTrk α E)) :
    (Trk.routesTo k t = false →
      (Trk.process C dt parentInfo t out sends).2.2.filter (fun s => s.id = k) = sends.filter (fun s => s.id = k))
      ∧ ((∀ s ∈ sends, s.id ≠ k) → ∀ (buf : List (Frame α)) (v : α), sendsAddInput sends k buf v = sends) :=
  ⟨Trk.process_unrouted C k t dt parentInfo out sends, fun h buf v => sendsAddInput_missing sends k buf v h⟩

/-- **Each frame exactly once, in order, in slices no longer than the internal buffer size.**
    Let `sl` / `fl` observe the slice lengths a sound / effect has been asked for (`C.Logging`: each
    `process` call appends the length of the slice it was given — the harness probes are such components).
    For a clean renderer whose sub-tracks are all simply playing, one device callback of `frames` frames
    appends to the log of *every* sound and *every* effect in the mixer exactly the chunk lengths
    `[ibs, …, ibs, frames % ibs]`: each is asked once per chunk, in order, never for more than `ibs`
    frames, and the lengths add up to `frames`.  (A track that is not advancing is asked for nothing:
    `C12_pause_freezes_subtree`.) -/
theorem C02_each_frame_once (hC : C.LenPres) (sl : S → List Nat) (fl : E → List Nat) (hL : C.Logging sl fl)
    (r : Renderer α S E P X) (hr : r.Clean) (hs : Trk.SteadyList r.mixer.subTracks) (hibs : 0 < r.ibs)
    (frames ch : Nat) :
    Mixer.logs sl fl (Renderer.processLoop C V ch frames r frames).1.mixer
        = (Mixer.logs sl fl r.mixer).map (· ++ chunkSizes frames r.ibs frames)
      ∧ chunkSizes frames r.ibs frames
          = List.replicate (frames / r.ibs) r.ibs ++ (if frames % r.ibs = 0 then [] else [frames % r.ibs])
      ∧ (∀ c ∈ chunkSizes frames r.ibs frames, 0 < c ∧ c ≤ r.ibs)
      ∧ (chunkSizes frames r.ibs frames).sum = frames := by
  have hb := chunkSizes_bound frames r.ibs frames
  refine ⟨?_, chunkSizes_pattern frames r.ibs frames hibs (Nat.le_refl _),
    fun c hc => ⟨chunkSizes_pos frames r.ibs frames hibs c hc, (hb c hc).1⟩,
    chunkSizes_sum frames r.ibs frames hibs (Nat.le_refl _)⟩
  rw [Renderer.processLoop_eq, (Renderer.runChunks_spec C V hC ch r hr _ (fun n hn => (hb n hn).1)).1]
  exact (Renderer.specChunks_logs C sl fl V hC hL ch r _ hs).1

/-- one chunk: in a steady subtree every sound and effect is asked for exactly one slice of `n` frames -/
theorem C02_each_frame_once_chunk (hC : C.LenPres) (sl : S → List Nat) (fl : E → List Nat) (hL : C.Logging sl fl)
    (ibs : Nat) (t : Trk α S E P) (ht : Trk.Clean ibs t) (hs : Trk.Steady t) (dt : α) (parentInfo : Info α)
    (n : Nat) (hn : n ≤ ibs) (sends : List (SendTrk α E)) :
    Trk.logs sl fl (Trk.process C dt parentInfo t (zeros n) sends).1 = (Trk.logs sl fl t).map (· ++ [n]) := by
  rw [(Trk.refines C hC ibs t ht dt parentInfo n hn sends).1]
  exact (Trk.spec_logs C sl fl hC hL t dt parentInfo n sends hs).1

/-- **The device buffer is the concatenation of the chunk conversions.**  `Renderer::process` on a
    clean renderer renders the chunks `[ibs, …, ibs, rest]` one after the other; each chunk steps the
    environment by `dt · n`, renders the mixer's signal flow (`Mixer.spec`) for `n` frames, converts
    every bus frame to `channels` device samples (`frameToChannels`) and leaves the bus silent; internal
    buffer size 0 (or 0 channels) is the `chunks_mut(0)` panic. -/
theorem C02_renderer_chunks (hC : C.LenPres) (r : Renderer α S E P X) (hr : r.Clean) (frames ch : Nat) :
    (r.ibs * ch = 0 → r.process C V frames ch = .error .zeroChunk)
      ∧ (r.ibs * ch ≠ 0 →
          r.process C V frames ch = .ok (Renderer.specChunks C V ch r (chunkSizes frames r.ibs frames))
            ∧ (Renderer.specChunks C V ch r (chunkSizes frames r.ibs frames)).1.Clean) := by
  constructor
  · intro h; simp [Renderer.process, h]
  · intro h
    have hb := chunkSizes_bound frames r.ibs frames
    obtain ⟨h1, h2⟩ := Renderer.runChunks_spec C V hC ch r hr _ (fun n hn => (hb n hn).1)
    refine ⟨?_, h2⟩
    simp only [Renderer.process, h, if_false]
    rw [Renderer.processLoop_eq, h1]

/-- one chunk of `n` frames yields exactly `n · channels` device samples (for `channels ≥ 1`) -/
theorem C02_chunk_sample_count (hC : C.LenPres) (r : Renderer α S E P X) (hr : r.Clean) (n ch : Nat)
    (hn : n ≤ r.ibs) (hch : 1 ≤ ch) : (r.processChunk C V n ch).2.length = n * ch := by
  rw [(Renderer.processChunk_spec C V hC r hr n ch hn).1]
  unfold Renderer.specChunk
  have hlen := (Mixer.refines C hC r.ibs r.mixer hr.2 n hn r.dt
    (V.info (V.step r.env (r.dt * (KOps.ofNat n : α))))).2.1
  have : ∀ l : List (Frame α), ((l.map (frameToChannels ch)).flatten).length = l.length * ch := by
    intro l
    induction l with
    | nil => simp
    | cons f fs ih =>
      simp only [List.map_cons, List.flatten_cons, List.length_append, ih, List.length_cons]
      have : (frameToChannels ch f).length = ch := by
        unfold frameToChannels
        by_cases h1 : ch = 1
        · simp [h1]
        · simp [h1]; omega
      rw [this, Nat.add_mul, Nat.one_mul, Nat.add_comm]
  rw [this, hlen]

end generic

/-! ### over the reals: sums and the final stage -/

theorem Frame.add_zero_real (f : Frame ℝ) : Frame.add f Frame.zero = f := by
  cases f; simp [Frame.add, Frame.zero]

theorem addInto_zeros_real (out : List (Frame ℝ)) (n : Nat) : addInto out (zeros n) = out := by
  induction out generalizing n with
  | nil => simp
  | cons o os ih =>
    cases n with
    | zero => simp [zeros]
    | succ k =>
      have : (zeros (k + 1) : List (Frame ℝ)) = Frame.zero :: zeros k := by simp [zeros, List.replicate_succ]
      rw [this, addInto, Frame.add_zero_real, ih]

/-- **A silent branch contributes exactly nothing**: over ℝ, the bus after mixing in the children is
    the same whether or not a silent child (paused / removed / never there) is among them. -/
theorem C02_silent_child_adds_nothing (bus : List (Frame ℝ)) (n : Nat) (before after : List (List (Frame ℝ))) :
    mixInto bus (before ++ zeros n :: after) = mixInto bus (before ++ after) := by
  simp [mixInto, List.foldl_append, addInto_zeros_real]

theorem getD_addInto_real (o b : List (Frame ℝ)) (h : b.length = o.length) (i : Nat) :
    ((addInto o b).getD i Frame.zero).left = (o.getD i Frame.zero).left + (b.getD i Frame.zero).left
      ∧ ((addInto o b).getD i Frame.zero).right = (o.getD i Frame.zero).right + (b.getD i Frame.zero).right := by
  induction o generalizing b i with
  | nil =>
    cases b with
    | nil => simp [Frame.zero]
    | cons _ _ => simp at h
  | cons x xs ih =>
    cases b with
    | nil => simp at h
    | cons y ys =>
      cases i with
      | zero => simp [addInto, Frame.add]
      | succ j => simpa [addInto] using ih ys (by simpa using h) j

/-- **The mix is the documented sum**: over ℝ, frame `i` of `bus + Σ bufs` is, channel by channel,
    `bus[i] + Σ_b b[i]` — an ordinary (order-independent) sum of the contributions. -/
theorem C02_mix_is_pointwise_sum (bus : List (Frame ℝ)) (bufs : List (List (Frame ℝ)))
    (h : ∀ b ∈ bufs, b.length = bus.length) (i : Nat) :
    ((mixInto bus bufs).getD i Frame.zero).left
        = (bus.getD i Frame.zero).left + (bufs.map (fun b => (b.getD i Frame.zero).left)).sum
      ∧ ((mixInto bus bufs).getD i Frame.zero).right
        = (bus.getD i Frame.zero).right + (bufs.map (fun b => (b.getD i Frame.zero).right)).sum := by
  induction bufs generalizing bus with
  | nil => simp [mixInto]
  | cons b bs ih =>
    have hb : b.length = bus.length := h b (by simp)
    have := ih (addInto bus b) (fun x hx => by rw [length_addInto]; exact h x (by simp [hx]))
    obtain ⟨g1, g2⟩ := getD_addInto_real bus b hb i
    simp only [mixInto, List.foldl_cons, List.map_cons, List.sum_cons] at this ⊢
    constructor
    · rw [this.1, g1]; ring
    · rw [this.2, g2]; ring

/-- **The final stage** (`Renderer::process_chunk`, also used by C01), for any bus frame over ℝ:
    the frame is clamped to `[−1, 1]`; one channel = the mean of the clamped left and right; two or more
    channels = clamped left, clamped right, then exact zeros.  Every device sample lies in `[−1, 1]`. -/
theorem C02_final_stage (f : Frame ℝ) (ch : Nat) (hch : 1 ≤ ch) :
    (ch = 1 → frameToChannels ch f = [(max (-1) (min f.left 1) + max (-1) (min f.right 1)) / 2])
      ∧ (2 ≤ ch → frameToChannels ch f
            = max (-1) (min f.left 1) :: max (-1) (min f.right 1) :: List.replicate (ch - 2) 0)
      ∧ (frameToChannels ch f).length = ch
      ∧ ∀ x ∈ frameToChannels ch f, -1 ≤ x ∧ x ≤ 1 := by
  have hc : ∀ x : ℝ, clampUnit x = max (-1) (min x 1) := by
    intro x; unfold clampUnit; rw [clamp_real _ _ _ (by norm_num)]; simp
  have hr : ∀ x : ℝ, -1 ≤ max (-1) (min x 1) ∧ max (-1) (min x 1) ≤ 1 :=
    fun x => ⟨le_max_left _ _, max_le (by norm_num) (min_le_right _ _)⟩
  refine ⟨?_, ?_, ?_, ?_⟩
  · intro h1; simp [frameToChannels, h1, hc]
  · intro h2
    have : ch ≠ 1 := by omega
    simp [frameToChannels, this, hc]
  · unfold frameToChannels
    by_cases h1 : ch = 1
    · simp [h1]
    · simp [h1]; omega
  · intro x hx
    unfold frameToChannels at hx
    by_cases h1 : ch = 1
    · simp only [h1, if_true, hc, r32_real, lit_2, List.mem_singleton] at hx
      subst hx
      have a := hr f.left; have b := hr f.right
      constructor <;> linarith [a.1, a.2, b.1, b.2]
    · simp only [h1, if_false, hc, List.mem_cons, List.mem_replicate] at hx
      rcases hx with rfl | rfl | ⟨_, rfl⟩
      · exact hr f.left
      · exact hr f.right
      · simp

/-! ### non-vacuity: the harness probes are such components -/

/-- the probe sound / effect of the harness satisfy the hypotheses used above -/
theorem probe_lenPres : (probeComps : Comps ℝ (PSnd ℝ) (PFx ℝ) Unit).LenPres := by
  refine ⟨?_, ?_, fun _ _ _ _ => rfl⟩
  · intro s buf _ _
    simp only [probeComps, PSnd.step]
    generalize s.produced = k
    induction buf.length generalizing k with
    | zero => simp [PSnd.fill]
    | succ n ih => simp [PSnd.fill, ih]
  · intro e buf _ _
    simp only [probeComps, PFx.step]
    generalize e.prev = p
    induction buf generalizing p with
    | nil => simp [PFx.run]
    | cons f fs ih => simp [PFx.run, ih]

theorem probe_logging :
    (probeComps : Comps ℝ (PSnd ℝ) (PFx ℝ) Unit).Logging (fun s => s.slices.reverse) (fun e => e.slices.reverse) :=
  ⟨fun _ _ _ _ => by simp [probeComps, PSnd.step], fun _ _ _ _ => by simp [probeComps, PFx.step]⟩

/-- a clean, steady renderer exists: a fresh mixer with one playing track -/
example : ∃ r : Renderer ℝ (PSnd ℝ) (PFx ℝ) Unit Unit, r.Clean ∧ Trk.SteadyList r.mixer.subTracks ∧ 0 < r.ibs :=
  ⟨{ dt := 1, mixer := { (Mixer.new 0 [] 4) with subTracks := [Trk.build 0 0 [] [] false 4] }, env := (), ibs := 4,
     temp := zeros 4 },
   ⟨rfl, ⟨rfl, rfl, ⟨Trk.build_clean 0 0 [] [] false 4, trivial⟩, trivial, by simp [Mixer.new], by simp [Mixer.new]⟩⟩,
   ⟨⟨by simp [Trk.build, Psm.new, Parameter.new], trivial⟩, trivial⟩, by norm_num⟩

/-! ### each frame exactly once — trees with paused sub-tracks (Proofs/MixerPausedLemmas.lean) -/

section paused
variable {α : Type} [Add α] [Sub α] [Mul α] [Div α] [Neg α] [LT α] [LE α]
  [DecidableLT α] [DecidableLE α] [OfScientific α] [KOps α]
variable {S E P X : Type} (C : Comps α S E P) (V : EnvOps α X)

/-- **One chunk, any tree, any mix of playback states** (Playing, Pausing, Paused, WaitingToResume,
    Resuming, …), about the imperative `Track::process`.  After a chunk of `n` frames the log of every
    sound and effect of the subtree is `Trk.logsAfter`, which is defined by recursion over the nested
    tracks exactly as the ancestor chain dictates: if the track advances in this chunk
    (`Trk.advancesIn`, i.e. `is_advancing()` after the per-chunk state update), each of its own sounds and
    effects gets exactly one request of `n` frames and the same rule applies to every child; if it does
    not, *nothing* in the whole subtree is asked (all logs as before), the track returns exact silence and
    feeds no send track. -/
theorem C02_each_frame_once_any_chunk (hC : C.LenPres) (sl : S → List Nat) (fl : E → List Nat)
    (hL : C.Logging sl fl) (ibs : Nat) (t : Trk α S E P) (ht : Trk.Clean ibs t) (dt : α) (parentInfo : Info α)
    (n : Nat) (hn : n ≤ ibs) (sends : List (SendTrk α E)) :
    Trk.logs sl fl (Trk.process C dt parentInfo t (zeros n) sends).1 = Trk.logsAfter C sl fl dt parentInfo n t
      ∧ (Trk.advancesIn C dt parentInfo n t = true →
          Trk.logsAfter C sl fl dt parentInfo n t
            = (t.data.sounds.map sl ++ t.data.effects.map fl).map (· ++ [n])
              ++ Trk.logsAfterList C sl fl dt (Trk.trackInfo C t.data parentInfo) n t.children)
      ∧ (Trk.advancesIn C dt parentInfo n t = false →
          Trk.logsAfter C sl fl dt parentInfo n t = Trk.logs sl fl t
            ∧ (Trk.process C dt parentInfo t (zeros n) sends).2.1 = zeros n
            ∧ (Trk.process C dt parentInfo t (zeros n) sends).2.2 = sends) := by
  refine ⟨?_, ?_, ?_⟩
  · rw [(Trk.refines C hC ibs t ht dt parentInfo n hn sends).1]
    exact Trk.spec_logs_any C sl fl hC hL t dt parentInfo n sends
  · intro h
    cases t with
    | node d c p =>
      simp only [Trk.advancesIn, Trk.data] at h
      rw [Trk.logsAfter, if_pos h]; rfl
  · intro h
    have hz := C02_silent_branches C dt parentInfo t (zeros n) sends (by simpa using h)
    simp only [length_zeros] at hz
    refine ⟨?_, hz.1, hz.2⟩
    cases t with
    | node d c p =>
      simp only [Trk.advancesIn, Trk.data] at h
      rw [Trk.logsAfter, if_neg (by simp [h])]

/-- **The live mask follows the ancestor chain** (`Trk.mask`, one flag per sound / effect in log order):
    under a track that is not advancing every flag of the whole subtree is `false`; under an advancing
    track the track's own sounds and effects are flagged `true` and the children are judged by the same
    rule.  The mixer's own components (main track, send tracks) have no pausable ancestor: always `true`. -/
theorem C02_live_mask_chain (sl : S → List Nat) (fl : E → List Nat) (d : TrkData α S E P)
    (children pending : List (Trk α S E P)) :
    (Trk.advancing d = false → ∀ b ∈ Trk.mask sl fl (.node d children pending), b = false)
      ∧ (Trk.advancing d = true → Trk.mask sl fl (.node d children pending)
          = List.replicate (d.sounds.length + d.effects.length) true ++ Trk.maskList sl fl children) := by
  constructor
  · intro h b hb
    rw [Trk.mask, if_neg (by simp [h])] at hb
    simp only [List.mem_map] at hb
    obtain ⟨_, _, e⟩ := hb
    exact e.symm
  · intro h
    rw [Trk.mask, if_pos h]
    congr 1
    have hc : ∀ (l : List (List Nat)), l.map (fun _ => true) = List.replicate l.length true := by
      intro l
      induction l with
      | nil => rfl
      | cons x xs ih => rw [List.map_cons, ih, List.length_cons, List.replicate_succ]
    rw [hc, List.length_append, List.length_map, List.length_map]

/-- **A whole callback of a tree with paused sub-tracks: each frame exactly once, or not at all.**
    For a clean renderer whose tracks are each simply Playing or simply Paused (any nesting, any mix), one
    device callback of `frames` frames leaves the log of component number `i` (any sound or effect, in
    `Mixer.logs` order) as: the old log followed by exactly the chunk lengths `[ibs, …, ibs, frames % ibs]`
    if its whole ancestor chain is advancing (`Mixer.live`), and *unchanged* — zero requests — if some
    ancestor is paused.  The tree is settled and clean again afterwards, with the same live mask. -/
theorem C02_each_frame_once_paused_tree (hC : C.LenPres) (sl : S → List Nat) (fl : E → List Nat)
    (hL : C.Logging sl fl) (r : Renderer α S E P X) (hr : r.Clean) (hs : Trk.RestingList r.mixer.subTracks)
    (hibs : 0 < r.ibs) (frames ch : Nat) :
    (∀ i : Nat, (Mixer.logs sl fl (Renderer.processLoop C V ch frames r frames).1.mixer).getD i []
        = if (Mixer.live sl fl r.mixer).getD i false
          then (Mixer.logs sl fl r.mixer).getD i [] ++ chunkSizes frames r.ibs frames
          else (Mixer.logs sl fl r.mixer).getD i [])
      ∧ chunkSizes frames r.ibs frames
          = List.replicate (frames / r.ibs) r.ibs ++ (if frames % r.ibs = 0 then [] else [frames % r.ibs])
      ∧ Trk.RestingList (Renderer.processLoop C V ch frames r frames).1.mixer.subTracks
      ∧ (Renderer.processLoop C V ch frames r frames).1.Clean := by
  obtain ⟨h1, h2, h3⟩ := Renderer.processLoop_logsPlus C sl fl V hC hL ch r hr hs frames
  refine ⟨fun i => ?_, chunkSizes_pattern frames r.ibs frames hibs (Nat.le_refl _), h2, h3⟩
  rw [h1]
  exact Asked.getD _ _ _ _ (Mixer.logsPlus_asked sl fl _ r.mixer) i

/-- **A paused track is asked for nothing and contributes exactly 0**, for any buffer it is lent: its
    output is exact silence, no send track is fed, and the log of every sound and effect anywhere below
    it is unchanged. -/
theorem C02_paused_subtree_asked_nothing (sl : S → List Nat) (fl : E → List Nat) (dt : α) (parentInfo : Info α)
    (t : Trk α S E P) (hp : t.data.psm.state = .paused) (out : List (Frame α)) (sends : List (SendTrk α E)) :
    (Trk.process C dt parentInfo t out sends).2.1 = zeros out.length
      ∧ (Trk.process C dt parentInfo t out sends).2.2 = sends
      ∧ Trk.logs sl fl (Trk.process C dt parentInfo t out sends).1 = Trk.logs sl fl t := by
  have h : Trk.advancesIn C dt parentInfo out.length t = false :=
    (Trk.preUpdate_paused dt (Trk.trackInfo C t.data parentInfo) out.length t.data hp).2
  obtain ⟨h1, h2, h3, _, h5, _, h7, _⟩ := Trk.process_frozen C dt parentInfo t out sends h
  refine ⟨h1, h2, ?_⟩
  generalize Trk.process C dt parentInfo t out sends = res at h3 h5 h7
  obtain ⟨t', _, _⟩ := res
  cases t' with
  | node d' c' p' =>
    cases t with
    | node d c p =>
      simp only [Trk.children, Trk.data] at h3 h5 h7
      simp only [Trk.logs, h3, h5, h7]

/-- **Nothing is lost, nothing is partial.**  Over one callback of `frames` frames (settled tree), the
    total number of frames requested from component `i` grows by exactly `frames` if its ancestor chain is
    advancing and by exactly `0` if it is not — never by a partial count. -/
theorem C02_no_partial_count (hC : C.LenPres) (sl : S → List Nat) (fl : E → List Nat)
    (hL : C.Logging sl fl) (r : Renderer α S E P X) (hr : r.Clean) (hs : Trk.RestingList r.mixer.subTracks)
    (hibs : 0 < r.ibs) (frames ch : Nat) (i : Nat) :
    ((Mixer.logs sl fl (Renderer.processLoop C V ch frames r frames).1.mixer).getD i []).sum
      = ((Mixer.logs sl fl r.mixer).getD i []).sum
        + (if (Mixer.live sl fl r.mixer).getD i false then frames else 0) := by
  have h := Renderer.Session.count C sl fl V hC hL ch r _ _
    (Renderer.Session.callback r _ frames _ hr hs hibs (Renderer.Session.done _)) i
  simpa using h

/-- **Across callbacks with pause / resume commands in between** (`Renderer.Session`: callbacks of any
    sizes, each starting from a clean renderer with a settled tree, interleaved with arbitrary commands
    that do not themselves drive a sound or effect — pause, resume, volume changes …): the number of
    frames component `i` has been asked for in total is the sum of the sizes of exactly those callbacks
    during which its ancestor chain was advancing (`tot i`, accumulated by the session). -/
theorem C02_session_count (hC : C.LenPres) (sl : S → List Nat) (fl : E → List Nat) (hL : C.Logging sl fl)
    (ch : Nat) (r r' : Renderer α S E P X) (tot : Nat → Nat) (h : Renderer.Session C sl fl V ch r r' tot) (i : Nat) :
    ((Mixer.logs sl fl r'.mixer).getD i []).sum = ((Mixer.logs sl fl r.mixer).getD i []).sum + tot i :=
  Renderer.Session.count C sl fl V hC hL ch r r' tot h i

end paused

/-! non-vacuity for the paused-tree theorems: a clean renderer with one playing and one paused sub-track,
    each holding a probe effect -/

/-- probe effect used in the examples -/
def exFx : PFx ℝ := ⟨0, 1, 0, 0, Frame.zero, [], 0⟩
/-- a playing track with one effect, and the same track paused -/
def exPlaying : Trk ℝ (PSnd ℝ) (PFx ℝ) Unit := Trk.build 0 0 [exFx] [] false 4
def exPaused : Trk ℝ (PSnd ℝ) (PFx ℝ) Unit :=
  .node { exPlaying.data with psm := (Psm.new none).markAsPaused } [] []
def exRenderer : Renderer ℝ (PSnd ℝ) (PFx ℝ) Unit Unit :=
  { dt := 1, mixer := { (Mixer.new 0 [] 4) with subTracks := [exPlaying, exPaused] }, env := (), ibs := 4,
    temp := zeros 4 }

theorem exRenderer_ok : exRenderer.Clean ∧ Trk.RestingList exRenderer.mixer.subTracks ∧ 0 < exRenderer.ibs
    ∧ Mixer.live (fun s : PSnd ℝ => s.slices.reverse) (fun e : PFx ℝ => e.slices.reverse) exRenderer.mixer
        = [true, false] := by
  refine ⟨⟨rfl, ⟨rfl, rfl, ⟨Trk.build_clean 0 0 [exFx] [] false 4, ⟨rfl, trivial, trivial⟩, trivial⟩, trivial,
    by simp [exRenderer, Mixer.new], by simp [exRenderer, Mixer.new]⟩⟩, ?_, by simp [exRenderer], ?_⟩
  · exact ⟨⟨Or.inl rfl, trivial⟩, ⟨Or.inr rfl, trivial⟩, trivial⟩
  · have h1 : Trk.advancing exPlaying.data = true := Trk.advancing_playing _ rfl
    have h2 : Trk.advancing { exPlaying.data with psm := (Psm.new none).markAsPaused } = false :=
      Trk.advancing_paused _ rfl
    have m1 : Trk.mask (fun s : PSnd ℝ => s.slices.reverse) (fun e : PFx ℝ => e.slices.reverse) exPlaying = [true] := by
      show Trk.mask _ _ (Trk.node exPlaying.data [] []) = _
      rw [Trk.mask, if_pos h1]; simp [Trk.maskList, exPlaying, Trk.build, Trk.data]
    have m2 : Trk.mask (fun s : PSnd ℝ => s.slices.reverse) (fun e : PFx ℝ => e.slices.reverse) exPaused = [false] := by
      unfold exPaused
      rw [Trk.mask, if_neg (by rw [h2]; simp)]
      simp [Trk.logs, Trk.logsList, exPlaying, Trk.build, Trk.data]
    simp [Mixer.live, Mixer.ownLogs, exRenderer, Trk.maskList, m1, m2, Mixer.new]

/-- `C02_each_frame_once_paused_tree` / `C02_no_partial_count`: hypotheses hold for a tree with a playing
    and a paused sub-track (live mask `[true, false]`) -/
example : ∃ r : Renderer ℝ (PSnd ℝ) (PFx ℝ) Unit Unit, r.Clean ∧ Trk.RestingList r.mixer.subTracks ∧ 0 < r.ibs
    ∧ Mixer.live (fun s : PSnd ℝ => s.slices.reverse) (fun e : PFx ℝ => e.slices.reverse) r.mixer = [true, false] :=
  ⟨exRenderer, exRenderer_ok⟩

/-- `C02_each_frame_once_any_chunk` / `C02_paused_subtree_asked_nothing`: a clean paused track exists -/
example : Trk.Clean 4 exPaused ∧ exPaused.data.psm.state = .paused ∧ Trk.Clean 4 exPlaying
    ∧ exPlaying.data.psm.state = .playing :=
  ⟨⟨rfl, trivial, trivial⟩, rfl, Trk.build_clean 0 0 [exFx] [] false 4, rfl⟩

/-- `C02_session_count`: a session with a callback, a pause-like command (any renderer with the same
    component logs) and another callback exists from the example renderer -/
example (V : EnvOps ℝ Unit) : ∃ r' tot, Renderer.Session (probeComps : Comps ℝ (PSnd ℝ) (PFx ℝ) Unit)
    (fun s => s.slices.reverse) (fun e => e.slices.reverse) V 2 exRenderer r' tot :=
  ⟨_, _, Renderer.Session.callback exRenderer _ 10 _ exRenderer_ok.1 exRenderer_ok.2.1 exRenderer_ok.2.2.1
    (Renderer.Session.command _ _ _ _ rfl (Renderer.Session.done _))⟩

end K
