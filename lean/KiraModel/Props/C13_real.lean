/-
  C13 (real components in the mixer; serves C11) — the chunk-homomorphism hypothesis that C11's theorems make about abstract components
  (`Comps.ChunkHom`: processing `xs ++ ys` = processing `xs`, then `ys`), checked against the REAL effect models
  that the whole-system model (`Model/System.lean`, suite `syscore`) plugs into the mixer.

  PARTIAL.  Proved here: for every effect of the sum type at nesting depth 0 — filter, EQ, distortion, compressor,
  reverb, volume control, panning control, and the delay without feedback effects — with parameters at rest
  (`AtRest0`; for the delay also: non-empty line, sub-chunks fit the scratch buffer), `Effect::process` on
  `xs ++ ys` equals `process` on `xs` followed by `process` on `ys` (same outputs, same final state, same panic
  if any), and the component-record step `sysComps.fxStep` satisfies the very equation of `Comps.ChunkHom.fx`
  whenever no panic occurs.  This is obtained by dispatching to C13's per-effect `C13_*_chunk_free` theorems.

  (The file lives under C13 because C11's lemma files and C13's both define `K.Parameter.Settled` and cannot be
  imported together; the theorems are re-exported under C01 by Props/C01_system.lean.)

  NOT proved (stated precisely in notes/C01.md):
  * `Comps.ChunkHom` quantifies over ALL component states and ALL slice lengths; the real components satisfy the
    equation only relative to an invariant (parameters at rest, slices ≤ internal buffer size, no latched panic),
    so `C11_render_partition_invariant` cannot be instantiated literally — it needs an invariant-relative
    version of Proofs/ChunkLemmas.lean.  The real-code oracle `buffer_size_invariance` of suite `syscore`
    checks the conclusion on kira itself (bit-equal) for scenes of real components.
  * delays with feedback effects: `FxChain.Good` (C13_b) is again unbounded in the slice length, and a nested
    delay panics on a slice longer than its scratch buffer.
  * the static sound is chunk-homomorphic only until it ends (after the resampler has drained a single long call
    keeps adding to `fractional_position`, two calls do not): the per-frame step is C04's.
-/
import KiraModel.Props.C13_a
import KiraModel.Props.C13_b
import KiraModel.Proofs.SystemLemmas

set_option linter.unusedSectionVars false

namespace K

theorem list_empty_nil (l : List Empty) : l = [] := by
  cases l with
  | nil => rfl
  | cons e _ => exact nomatch e

/-- the feedback chain of a delay without feedback effects does nothing -/
theorem chainOf_empty_process (s : ChainSt Empty) (xs : List (Frame ℝ)) (dt : ℝ) (info : Info ℝ) :
    (chainOf (emptyFxOps : FxOps ℝ Empty)).process s xs dt info = (s, xs) := by
  obtain ⟨l, o⟩ := s
  have hl := list_empty_nil l
  subst hl
  cases o with
  | some f => rfl
  | none => rfl

theorem chainOf_empty_good (dt : ℝ) (info : Info ℝ) : (chainOf (emptyFxOps : FxOps ℝ Empty)).Good dt info :=
  ⟨fun s xs => by rw [chainOf_empty_process], fun s xs ys => by simp only [chainOf_empty_process]⟩

/-- a base effect whose parameters are all at rest (no tween in flight, no modulator link) -/
def BaseFx.AtRest : BaseFx ℝ → Prop
  | .filter s => s.Stagnant
  | .eq s => s.Stagnant
  | .dist s => s.Stagnant
  | .comp s => s.Stagnant
  | .reverb s => s.Stagnant
  | .vol s => s.Stagnant
  | .pan s => s.Stagnant

/-- a depth-0 effect at rest; for the delay also: the line is not empty and sub-chunks of a slice of `k`
    frames fit the scratch buffer (true after `init` for slices of at most the internal buffer size) -/
def FxOver.AtRest0 (k : Nat) : FxOver ℝ Empty → Prop
  | .base b => b.AtRest
  | .delay d => d.feedback.stagnant = true ∧ d.mix.stagnant = true ∧ 1 ≤ d.buffer.length
      ∧ min d.buffer.length k ≤ d.tempLen

/-- sequencing two `process` calls, propagating a panic -/
def thenProcess {φ : Type} (p : φ → List (Frame ℝ) → Except FxFault (φ × List (Frame ℝ))) (e : φ)
    (xs ys : List (Frame ℝ)) : Except FxFault (φ × List (Frame ℝ)) :=
  match p e xs with
  | .error f => .error f
  | .ok (e1, o1) =>
    match p e1 ys with
    | .error f => .error f
    | .ok (e2, o2) => .ok (e2, o1 ++ o2)

theorem BaseFx.chunk_free (b : BaseFx ℝ) (h : b.AtRest) (xs ys : List (Frame ℝ)) (dt : ℝ) (info : Info ℝ) :
    b.process (xs ++ ys) dt info = thenProcess (fun e zs => BaseFx.process e zs dt info) b xs ys := by
  cases b with
  | filter s => simp only [BaseFx.process, thenProcess]; rw [C13_filter_chunk_free s h xs ys dt info]
  | eq s => simp only [BaseFx.process, thenProcess]; rw [C13_eq_chunk_free s h xs ys dt info]
  | dist s => simp only [BaseFx.process, thenProcess]; rw [C13_dist_chunk_free s h xs ys dt info]
  | comp s => simp only [BaseFx.process, thenProcess]; rw [C13_comp_chunk_free s h xs ys dt info]
  | vol s => simp only [BaseFx.process, thenProcess]; rw [C13_volume_chunk_free s h xs ys dt info]
  | pan s => simp only [BaseFx.process, thenProcess]; rw [C13_panning_chunk_free s h xs ys dt info]
  | reverb s =>
    simp only [BaseFx.process, thenProcess]
    rw [C13_reverb_chunk_free s h xs ys dt info]
    cases h1 : s.process xs dt info with
    | error f => rfl
    | ok v =>
      obtain ⟨r1, o1⟩ := v
      simp only
      cases h2 : r1.process ys dt info with
      | error f => rfl
      | ok w => rfl

/-- **Chunk-free real effects (depth 0), PARTIAL.**  For each of filter, EQ, distortion, compressor, reverb, volume
    control, panning control and the delay without feedback effects, with parameters at rest: `process` on
    `xs ++ ys` equals `process` on `xs` followed by `process` on `ys` — same outputs, same final state, and the
    same panic if there is one — for every split point, hence for every partition into slices. -/
theorem C13_real_effects_chunk_free_partial (e : FxN ℝ 0) (xs ys : List (Frame ℝ)) (dt : ℝ) (info : Info ℝ)
    (h : FxOver.AtRest0 (xs.length + ys.length) e) :
    (fxOpsN 0).process e (xs ++ ys) dt info
      = thenProcess (fun e zs => (fxOpsN 0).process e zs dt info) e xs ys := by
  show FxOver.process emptyFxOps e (xs ++ ys) dt info
    = thenProcess (fun e zs => FxOver.process emptyFxOps e zs dt info) e xs ys
  cases e with
  | base b =>
    simp only [FxOver.process, thenProcess]
    rw [BaseFx.chunk_free b h xs ys dt info]
    simp only [thenProcess]
    cases h1 : b.process xs dt info with
    | error f => rfl
    | ok v =>
      obtain ⟨b1, o1⟩ := v
      simp only
      cases h2 : b1.process ys dt info with
      | error f => rfl
      | ok w => rfl
  | delay d =>
    obtain ⟨hfb, hmx, hL, ht⟩ := h
    obtain ⟨d1, o1, d2, o2, p1, p2, p12⟩ :=
      C13_delay_chunk_free (chainOf (emptyFxOps : FxOps ℝ Empty)) d xs ys dt info (chainOf_empty_good dt info) hfb hmx hL ht
    -- the (empty) chain state never changes: a latched panic stays, none appears
    have hfx : ∀ (d d' : Delay ℝ (ChainSt Empty)) (zs o : List (Frame ℝ)),
        d.process (chainOf (emptyFxOps : FxOps ℝ Empty)) zs dt info = .ok (d', o) → d'.fx.2 = d.fx.2 := by
      intro d d' zs o hp
      have e1 := list_empty_nil d'.fx.1
      have e2 := list_empty_nil d.fx.1
      unfold Delay.process at hp
      dsimp only at hp
      split at hp
      · cases hp
      · split at hp
        · rename_i st out hch
          simp only [Except.ok.injEq, Prod.mk.injEq] at hp
          obtain ⟨hd, _⟩ := hp
          subst hd
          -- `chunks` threads the chain state through `chunkPure`, which leaves it alone
          have key : ∀ (fuel : Nat) (st0 : List (Frame ℝ) × ChainSt Empty) (zs : List (Frame ℝ))
              (r : (List (Frame ℝ) × ChainSt Empty) × List (Frame ℝ)) (fb mx : Parameter ℝ ℝ) (tl L : Nat),
              Delay.chunks (chainOf (emptyFxOps : FxOps ℝ Empty)) fb mx dt info tl L fuel st0 zs = .ok r →
                r.1.2 = st0.2 := by
            intro fuel
            induction fuel with
            | zero =>
              intro st0 zs r fb mx tl L hc
              cases zs with
              | nil => simp only [Delay.chunks, Except.ok.injEq] at hc; subst hc; rfl
              | cons z zs => simp [Delay.chunks] at hc
            | succ fuel ih =>
              intro st0 zs r fb mx tl L hc
              cases zs with
              | nil => simp only [Delay.chunks, Except.ok.injEq] at hc; subst hc; rfl
              | cons z zs =>
                simp only [Delay.chunks] at hc
                split at hc
                · cases hc
                · split at hc
                  · rename_i st2 o2 hrec
                    simp only [Except.ok.injEq] at hc; subst hc
                    have := ih _ _ _ _ _ _ _ hrec
                    simp only [Delay.chunkPure, chainOf_empty_process] at this
                    exact this
                  · cases hc
          have := key _ _ _ _ _ _ _ _ hch
          simpa using congrArg Prod.snd this
        · cases hp
    have e1 := hfx d d1 xs o1 p1
    have e2 := hfx d1 d2 ys o2 p2
    simp only [FxOver.process, thenProcess, p1, p12]
    cases hl : d.fx.2 with
    | some f => simp [e1, e2, hl]
    | none =>
      have h1n : d1.fx.2 = none := by rw [e1, hl]
      have h2n : d2.fx.2 = none := by rw [e2, h1n]
      simp [h1n, h2n, p2, FxOver.process]

/-- **The `Comps.ChunkHom.fx` equation for the real effect step, PARTIAL** (depth 0, at rest, no panic): the
    component-record step of the whole-system model, `sysComps.fxStep`, maps `xs ++ ys` to the composition of the
    steps on `xs` and on `ys` — exactly the shape C11's theorems assume of an abstract effect — provided the effect
    is at rest, has no latched panic and the call on `xs ++ ys` does not panic. -/
theorem C13_real_components_chunk_free_partial (fuel : Nat) (e : SysFx ℝ 0) (he : e.fault = none)
    (xs ys : List (Frame ℝ)) (dt : ℝ) (info : Info ℝ) (h : FxOver.AtRest0 (xs.length + ys.length) e.fx)
    (hok : ∀ f, (fxOpsN 0).process e.fx (xs ++ ys) dt info ≠ .error f) :
    (sysComps fuel 0).fxStep e (xs ++ ys) dt info
      = (((sysComps fuel 0).fxStep ((sysComps fuel 0).fxStep e xs dt info).1 ys dt info).1,
         ((sysComps fuel 0).fxStep e xs dt info).2
           ++ ((sysComps fuel 0).fxStep ((sysComps fuel 0).fxStep e xs dt info).1 ys dt info).2) := by
  have hc := C13_real_effects_chunk_free_partial e.fx xs ys dt info h
  simp only [sysComps, SysFx.step, he]
  cases h12 : (fxOpsN 0).process e.fx (xs ++ ys) dt info with
  | error f => exact absurd h12 (hok f)
  | ok v12 =>
    rw [h12] at hc
    simp only [thenProcess] at hc
    cases h1 : (fxOpsN 0).process e.fx xs dt info with
    | error f => rw [h1] at hc; cases hc
    | ok v1 =>
      obtain ⟨e1, o1⟩ := v1
      rw [h1] at hc
      simp only at hc
      cases h2 : (fxOpsN 0).process e1 ys dt info with
      | error f => rw [h2] at hc; cases hc
      | ok v2 =>
        obtain ⟨e2, o2⟩ := v2
        rw [h2] at hc
        simp only [Except.ok.injEq] at hc
        subst hc
        simp

/-! ### non-vacuity: builder-made effects are at rest -/

example : FxOver.AtRest0 8 (FxOver.base (.filter (Filter.new .lowPass (.fixed 1000) (.fixed 0) (.fixed 1))) : FxOver ℝ Empty) := by
  simp [FxOver.AtRest0, BaseFx.AtRest, Filter.Stagnant, Parameter.Stagnant, Filter.new, Parameter.new, Value.isFixed]

/-- a delay as `init` leaves it (48 frames of line, scratch of 8 frames) is at rest for slices of ≤ 8 frames -/
example : FxOver.AtRest0 8
    (FxOver.delay { (Delay.new 1000000 (.fixed (-6)) (.fixed (1 / 2)) (([] : List Empty), none) : Delay ℝ (ChainSt Empty)) with
      buffer := List.replicate 48 Frame.zero, tempLen := 8 }) := by
  simp [FxOver.AtRest0, Delay.new, Parameter.new, Value.isFixed]

end K
