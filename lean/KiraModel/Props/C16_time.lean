/-
  C16 (time-scaling part) — behaviour specified in seconds does not depend on the device sample rate.
  The device rate enters the models only through `dt = 1 / rate` and the number of frames per chunk; the
  closed forms of C05 (clocks), C06 (tweens) and C04 (sound position) depend only on the elapsed time
  `Σ frames · dt`.  Hence two devices (or one device before and after a rate change) that have rendered
  the same amount of real time agree — for every pair of rates, every chunking, every number of chunks.
-/
import KiraModel.Props.C04
import KiraModel.Props.C05
import KiraModel.Props.C06

namespace K
open Clock

/-- the durations of a list of chunks (`frames` each) on a device running at `rate` hertz -/
noncomputable def chunkDurations (rate : ℝ) (frames : List ℕ) : List ℝ := frames.map (fun (k : ℕ) => (Nat.cast k : ℝ) * (1 / rate))

theorem chunkDurations_sum (rate : ℝ) (frames : List ℕ) :
    (chunkDurations rate frames).sum = ((frames.sum : ℕ) : ℝ) * (1 / rate) := by
  unfold chunkDurations
  induction frames with
  | nil => simp
  | cons k ks ih =>
    simp only [List.map_cons, List.sum_cons] at ih ⊢
    rw [ih]; push_cast; ring

theorem chunkDurations_nonneg (rate : ℝ) (hr : 0 < rate) (frames : List ℕ) :
    ∀ dt ∈ chunkDurations rate frames, 0 ≤ dt := by
  intro dt h
  unfold chunkDurations at h
  simp only [List.mem_map] at h
  obtain ⟨k, _, rfl⟩ := h
  have : (0 : ℝ) ≤ (Nat.cast k : ℝ) := Nat.cast_nonneg k
  have : (0 : ℝ) < 1 / rate := by positivity
  positivity

/-- **clocks keep their real-time speed at every device rate**: two devices at rates `r₁`, `r₂` that have
    rendered the same real time (`n₁ / r₁ = n₂ / r₂`, any chunkings) show the same clock time. -/
theorem C16_clock_rate_independent (c : Clock ℝ) (info : Info ℝ) (v r₁ r₂ : ℝ)
    (fr₁ fr₂ : List ℕ) (hr₁ : 0 < r₁) (hr₂ : 0 < r₂)
    (htick : c.ticking = true) (hwf : Clock.WF c) (hspeed : SteadySpeed c v)
    (hvalid : c.speed.raw.Valid) (hv : 0 ≤ v)
    (hsame : ((fr₁.sum : ℕ) : ℝ) / r₁ = ((fr₂.sum : ℕ) : ℝ) / r₂) :
    (c.run info (chunkDurations r₁ fr₁)).state.time = (c.run info (chunkDurations r₂ fr₂)).state.time := by
  apply C05_partition_independent c info v _ _ htick hwf hspeed hvalid hv
    (chunkDurations_nonneg r₁ hr₁ fr₁) (chunkDurations_nonneg r₂ hr₂ fr₂)
  rw [chunkDurations_sum, chunkDurations_sum]
  rw [div_eq_mul_one_div, div_eq_mul_one_div ((fr₂.sum : ℕ) : ℝ)] at hsame
  exact hsame

/-- **tweens keep their real-time speed at every device rate**: the value of a running tween after the
    same real time is the same on both devices (any chunkings). -/
theorem C16_tween_rate_independent (p : Parameter ℝ ℝ) (tgt : ℝ) (D : ℕ) (hD : 0 < D) (e : Easing ℝ)
    (he : e.PosPower) (info : Info ℝ) (r₁ r₂ : ℝ) (fr₁ fr₂ : List ℕ) (hr₁ : 0 < r₁) (hr₂ : 0 < r₂)
    (hsame : ((fr₁.sum : ℕ) : ℝ) / r₁ = ((fr₂.sum : ℕ) : ℝ) / r₂)
    (hT : ((fr₁.sum : ℕ) : ℝ) / r₁ < secs D) :
    ((p.set (.fixed tgt) ⟨.immediate, D, e⟩).run tw64 info (chunkDurations r₁ fr₁)).1.raw
      = ((p.set (.fixed tgt) ⟨.immediate, D, e⟩).run tw64 info (chunkDurations r₂ fr₂)).1.raw := by
  have s₁ : (chunkDurations r₁ fr₁).sum = ((fr₁.sum : ℕ) : ℝ) / r₁ := by
    rw [chunkDurations_sum]; ring
  have s₂ : (chunkDurations r₂ fr₂).sum = ((fr₂.sum : ℕ) : ℝ) / r₂ := by
    rw [chunkDurations_sum]; ring
  rw [C06_follows_easing p tgt D hD e he info _ (chunkDurations_nonneg r₁ hr₁ fr₁) (by rw [s₁]; exact hT),
    C06_follows_easing p tgt D hD e he info _ (chunkDurations_nonneg r₂ hr₂ fr₂) (by rw [s₂, ← hsame]; exact hT),
    s₁, s₂, hsame]

/-- **sounds keep their pitch and duration at every device rate**: a static sound at a fixed playback
    rate has taken the same number of source steps, and sits at the same fractional position, after `k₁`
    frames at `dt₁` as after `k₂` frames at `dt₂` whenever `k₁·dt₁ = k₂·dt₂` (same real time). -/
theorem C16_sound_position_rate_independent (fuel : ℕ) (dt₁ dt₂ r : ℝ) (len k₁ k₂ i : ℕ) (s : StaticSound ℝ)
    (hr : s.playbackRate.Rests r) (hd₁ : 0 ≤ dt₁) (hd₂ : 0 ≤ dt₂) (h0 : 0 ≤ s.frac) (h1 : s.frac < 1)
    (hsame : (k₁ : ℝ) * dt₁ = (k₂ : ℝ) * dt₂)
    (hfuel : ⌊s.frac + k₁ * ((s.sampleRate : ℝ) * |r| * dt₁)⌋₊ < fuel) :
    (StaticSound.renderLoop fuel dt₁ len k₁ i s).map Prod.fst
      = (StaticSound.renderLoop fuel dt₂ len k₂ i s).map Prod.fst := by
  have e : (k₁ : ℝ) * ((s.sampleRate : ℝ) * |r| * dt₁) = (k₂ : ℝ) * ((s.sampleRate : ℝ) * |r| * dt₂) := by
    calc (k₁ : ℝ) * ((s.sampleRate : ℝ) * |r| * dt₁) = (s.sampleRate : ℝ) * |r| * ((k₁ : ℝ) * dt₁) := by ring
      _ = (s.sampleRate : ℝ) * |r| * ((k₂ : ℝ) * dt₂) := by rw [hsame]
      _ = (k₂ : ℝ) * ((s.sampleRate : ℝ) * |r| * dt₂) := by ring
  rw [C04_position_accumulates fuel dt₁ r len k₁ i s hr hd₁ h0 h1 hfuel,
    C04_position_accumulates fuel dt₂ r len k₂ i s hr hd₂ h0 h1 (by rw [← e]; exact hfuel), e]

end K
