import KiraModel.Props.C13_a
import KiraModel.Props.C13_b
