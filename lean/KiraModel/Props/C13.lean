import KiraModel.Props.C13_b
