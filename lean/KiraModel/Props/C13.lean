import KiraModel.Props.C13_a
import KiraModel.Props.C13_b
import KiraModel.Props.C13_real
import KiraModel.Proofs.GenAgreeFx
