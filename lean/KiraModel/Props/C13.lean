import KiraModel.Props.C13_a
