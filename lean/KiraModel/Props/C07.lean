/-
  C07 — handle commands reach the audio thread exactly once; last write wins; none torn.

  Statements about the labelled transition system of one command channel
  (Model/Conc/CommandChan.lean: `CommandWriter`/`CommandReader` over `triple_buffer`), about products
  of channels (one per command kind), about the reader lists of kira's components
  (Model/CommandReaders.lean) and, for commands issued before pickup, about the resource storage.
  `Chan.Reachable s`: `s` is reachable under *some* interleaving of writer and reader atomic
  actions (half-writes, publish swap, dirty test, swap, half-reads), of any length.
  Values carry a ghost tag = the number of the publish that produced them.  Core Lean only.
-/
import KiraModel.Proofs.ChanLemmas
import KiraModel.Proofs.StoreLemmas
import KiraModel.Model.CommandReaders
import KiraModel.Model.SoundDelivery

namespace K
open Chan

variable {V : Type}

/-- **the three indices are always a permutation of {0,1,2}**: the writer's input buffer, the back
    buffer and the reader's output buffer are pairwise different in every reachable state — the two
    threads never touch the same buffer (data-race freedom of the `UnsafeCell`s, in the model). -/
theorem C07_indices_permutation {s : St V} (h : Reachable s) :
    s.inp ≠ s.back ∧ s.back ≠ s.out ∧ s.inp ≠ s.out :=
  (inv_reachable h).perm

/-- **no torn read.**  Whatever the interleaving (in particular a writer half-way through storing a
    value while the reader copies its buffer half by half), the two halves a `read` returns agree:
    the audio thread never observes a half-written command.  Moreover every buffer other than the
    writer's own input buffer is consistent at all times. -/
theorem C07_no_torn_read {s s' : St V} {c : Cell V} (h : Reachable s) (hs : step s .rRead2 = some (s', .read c)) :
    c.a = c.b ∧ ∀ i, i ≠ s.inp → (s.buf i).a = (s.buf i).b := by
  have inv := inv_reachable h
  refine ⟨?_, inv.cons⟩
  simp only [step] at hs
  cases hr : s.rpc with
  | half x =>
    simp [hr] at hs
    obtain ⟨_, rfl⟩ := hs
    have := inv.r
    simp only [RInv, hr] at this
    obtain ⟨_, y, _, hb, rfl⟩ := this
    simp [hb, Cell.full]
  | idle => simp [hr] at hs
  | tested => simp [hr] at hs
  | swapped => simp [hr] at hs

/-- **a successful read returns the latest publish that precedes its swap.**  (1) When the reader
    swaps, the value it takes is the one published last so far (its tag is the current number of
    publishes).  (2) What the `read` finally returns is exactly that value — nothing the writer does
    between the swap and the end of the copy changes it — and it is a value that was published. -/
theorem C07_read_is_latest_published {s : St V} (h : Reachable s) :
    (∀ s' r, step s .rSwap = some (s', r) → s'.taken = s.lastPub ∧ ∃ v, s.lastPub = some (s.nPub, v))
    ∧ (∀ s' c, step s .rRead2 = some (s', .read c) → ∃ x, c = .full (some x) ∧ s.taken = some x ∧ x ∈ s.pubs) := by
  have inv := inv_reachable h
  constructor
  · intro s' r hs
    simp only [step] at hs
    cases hr : s.rpc with
    | tested =>
      simp [hr] at hs
      obtain ⟨rfl, _⟩ := hs
      have := inv.r
      simp only [RInv, hr] at this
      exact ⟨rfl, (inv.dirtyBack this.1).2⟩
    | idle => simp [hr] at hs
    | swapped => simp [hr] at hs
    | half x => simp [hr] at hs
  · intro s' c hs
    simp only [step] at hs
    cases hr : s.rpc with
    | half x =>
      simp [hr] at hs
      obtain ⟨_, rfl⟩ := hs
      have := inv.r
      simp only [RInv, hr] at this
      obtain ⟨_, y, hty, hb, rfl⟩ := this
      exact ⟨y, by simp [hb, Cell.full], hty, inv.takenPub y hty⟩
    | idle => simp [hr] at hs
    | tested => simp [hr] at hs
    | swapped => simp [hr] at hs

/-- **at most once.**  The tags of the values delivered by successful reads are strictly increasing
    (so between two successful reads there is a publish, and no published value is ever delivered
    twice), every delivered value was published, and a tag identifies a published value. -/
theorem C07_at_most_once {s : St V} (h : Reachable s) :
    s.delivered.Pairwise (fun x y => x.1 < y.1)
    ∧ (s.delivered.map (·.1)).Nodup
    ∧ (∀ x ∈ s.delivered, x ∈ s.pubs)
    ∧ (∀ x ∈ s.pubs, ∀ y ∈ s.pubs, x.1 = y.1 → x = y) := by
  have inv := inv_reachable h
  refine ⟨inv.delSorted, ?_, inv.delPub, inv.pubUniq⟩
  have := inv.delSorted
  rw [List.Nodup, List.pairwise_map]
  exact this.imp (fun h => Nat.ne_of_lt h)

/-- **last write wins.**  After a burst of writes between two reads, the next read returns the last
    value of the burst, and the read after that (no write in between) returns `None`: the earlier
    values of the burst are never delivered, the last is delivered once. -/
theorem C07_last_write_wins {s : St V} (h : Reachable s) (hq : s.wpc = .idle ∧ s.rpc = .idle)
    (vs : List V) (hne : vs ≠ []) :
    (readOp (vs.foldl writeOp s)).2 = some (vs.getLast hne)
    ∧ (readOp (readOp (vs.foldl writeOp s)).1).2 = none := by
  obtain ⟨h1, w1, r1, d1, t, l1⟩ := burst_spec h hq.1 vs hne
  obtain ⟨x, hx, hv, h2, r2, d2, _⟩ := readOp_dirty h1 (by rw [r1, hq.2]) d1
  rw [l1] at hx; cases hx
  exact ⟨hv, by rw [readOp_clean r2 d2]⟩

/-- **kinds do not interfere.**  The command state of a handle is a product of channels, one per
    command kind; a step on the channel of kind `k` is a step of that channel alone and leaves the
    channel of every other kind (and of every other resource, which has its own product) unchanged. -/
theorem C07_kinds_independent {κ : Type} [DecidableEq κ] (p p' : Chan.Prod κ V) (k : κ) (l : Label V) (r : Ret V)
    (hs : p.step k l = some (p', r)) :
    Chan.step (p k) l = some (p' k, r) ∧ ∀ k', k' ≠ k → p' k' = p k' := by
  simp only [Prod.step] at hs
  cases hc : Chan.step (p k) l with
  | none => simp [hc] at hs
  | some q =>
    obtain ⟨s', r'⟩ := q
    simp [hc] at hs
    obtain ⟨rfl, rfl⟩ := hs
    exact ⟨by simp, fun k' hk => by simp [hk]⟩

/-- **drained once per callback (semantics).**  If a component reads a list of distinct readers once
    each per `on_start_processing` (see `C07_drained_once_per_callback` for which components do),
    then in one callback: every reader is read exactly once, in the listed order; a kind with a pending
    command (written, not yet read) delivers the last value written, a kind without delivers nothing;
    kinds that are not in the list are untouched; and the next callback, with no write in between,
    delivers nothing at all — no command is applied in two callbacks. -/
theorem C07_drain_delivers_once {κ : Type} [DecidableEq κ] (ks : List κ) (hnd : ks.Nodup) (p : Chan.Prod κ V)
    (hr : ∀ k ∈ ks, Reachable (p k) ∧ (p k).rpc = .idle) :
    (p.drain ks).2.map (·.1) = ks
    ∧ (∀ k ∈ ks, (p k).dirty = true → ∃ x, (p k).lastPub = some x ∧ (k, some x.2) ∈ (p.drain ks).2)
    ∧ (∀ k ∈ ks, (p k).dirty = false → (k, none) ∈ (p.drain ks).2)
    ∧ (∀ k, k ∉ ks → (p.drain ks).1 k = p k)
    ∧ (∀ r ∈ ((p.drain ks).1.drain ks).2, r.2 = none) := by
  obtain ⟨h1, h2⟩ := drain_spec ks hnd p
  refine ⟨by rw [h2]; simp [List.map_map, Function.comp_def], ?_, ?_, ?_, ?_⟩
  · intro k hk hd
    obtain ⟨x, hx, hv, _⟩ := readOp_dirty (hr k hk).1 (hr k hk).2 hd
    exact ⟨x, hx, by rw [h2]; exact List.mem_map.mpr ⟨k, hk, by rw [hv]⟩⟩
  · intro k hk hd
    rw [h2]; exact List.mem_map.mpr ⟨k, hk, by rw [readOp_clean (hr k hk).2 hd]⟩
  · intro k hk; rw [h1 k]; simp [hk]
  · obtain ⟨_, h4⟩ := drain_spec ks hnd (p.drain ks).1
    intro r hrm
    rw [h4] at hrm
    obtain ⟨k, hk, rfl⟩ := List.mem_map.mp hrm
    simp only
    rw [h1 k]; simp only [hk, if_true]
    by_cases hd : (p k).dirty = true
    · obtain ⟨x, _, _, _, r2, d2, _⟩ := readOp_dirty (hr k hk).1 (hr k hk).2 hd
      rw [readOp_clean r2 d2]
    · have hd' : (p k).dirty = false := by simpa using hd
      rw [readOp_clean (hr k hk).2 hd', readOp_clean (hr k hk).2 hd']

/-- **drained once per callback (which components).**  For each of the listed components the reader
    list its `on_start_processing` / `read_commands` goes through has no repetition and covers every
    command kind its handle can write: static sound (9 kinds), streaming sound (6 kinds on the audio
    thread + 3 on the decoder thread = all 9), track (3 kinds, 5 for a spatial track), clock (3),
    listener (2), LFO (5), tweener (1), filter (4). -/
theorem C07_drained_once_per_callback :
    (Cmd.staticReaders.Nodup ∧ ∀ k, k ∈ Cmd.staticReaders)
    ∧ ((Cmd.streamSoundReaders ++ Cmd.streamDecoderReaders).Nodup
        ∧ ∀ k, k ∈ Cmd.streamSoundReaders ++ Cmd.streamDecoderReaders)
    ∧ (∀ sp, (Cmd.trackReaders sp).Nodup ∧ ∀ k ∈ Cmd.trackWritable sp, k ∈ Cmd.trackReaders sp)
    ∧ (Cmd.clockReaders.Nodup ∧ ∀ k, k ∈ Cmd.clockReaders)
    ∧ (Cmd.listenerReaders.Nodup ∧ ∀ k, k ∈ Cmd.listenerReaders)
    ∧ (Cmd.lfoReaders.Nodup ∧ ∀ k, k ∈ Cmd.lfoReaders)
    ∧ (Cmd.tweenerReaders.Nodup ∧ ∀ k, k ∈ Cmd.tweenerReaders)
    ∧ (Cmd.filterReaders.Nodup ∧ ∀ k, k ∈ Cmd.filterReaders) := by
  refine ⟨⟨by decide, fun k => by cases k <;> decide⟩, ⟨by decide, fun k => by cases k <;> decide⟩, ?_,
    ⟨by decide, fun k => by cases k <;> decide⟩, ⟨by decide, fun k => by cases k <;> decide⟩,
    ⟨by decide, fun k => by cases k <;> decide⟩, ⟨by decide, fun k => by cases k <;> decide⟩,
    ⟨by decide, fun k => by cases k <;> decide⟩⟩
  intro sp; cases sp <;> exact ⟨by decide, by decide⟩

/-- **the streaming decoder reads its three readers once per step — while it runs (partial).**
    A decoder-thread step that is past the `Stopped` and ring-full checks reads `set_loop_region`,
    `seek_by`, `seek_to` exactly once each, in that order.  (Full statement — "a seek / loop-region
    command takes effect at the decoder's next step" — needs *the decoder thread is still running*;
    see `C07_streaming_command_lost_after_end`.) -/
theorem C07_drained_once_decoder_partial (d : Cmd.Decoder V) (e : Bool) (h1 : d.ended = false)
    (h2 : d.stopped = false) (h3 : d.ringFull = false) :
    (d.step e).2.map (·.1) = [Cmd.StreamKind.setLoopRegion, .seekBy, .seekTo] := by
  simp only [Cmd.Decoder.step, h1, h2, h3]
  have := (drain_spec Cmd.streamDecoderReaders (by decide) d.chans).2
  simp only [Bool.false_eq_true, if_false]
  rw [this]; rfl

/-- **a command to an ended streaming decoder is lost (finding).**  Once the decoder thread has
    returned `NextStep::End` (it reached the end of its data) it has exited: whatever is written to
    `seek_to` / `seek_by` / `set_loop_region` afterwards is never read — after any number of further
    "steps" the channel still holds the unread command and nothing was delivered.  So
    `C07_drained_once_per_callback` for the decoder's three kinds is false without the hypothesis
    `ended = false`. -/
theorem C07_streaming_command_lost_after_end (d : Cmd.Decoder V) (hend : d.ended = true) (es : List Bool) :
    (d.steps es).1.chans = d.chans ∧ (d.steps es).2 = [] := by
  induction es generalizing d with
  | nil => exact ⟨rfl, rfl⟩
  | cons e rest ih =>
    have hs : d.step e = (d, []) := by simp [Cmd.Decoder.step, hend]
    simp only [Cmd.Decoder.steps, hs]
    obtain ⟨h1, h2⟩ := ih d hend
    exact ⟨h1, by simp [h2]⟩

/-- **a command issued before the resource's first callback is not lost.**  A resource is shipped
    through the new-resource ring while its handle already writes commands.  Whatever the storage
    looks like (any well-formed state, any remove test), the callback that picks the resource up
    (`remove_and_add` followed by every resource's `on_start_processing`) leaves it in the arena under
    its key *and* has read its reader: the last command written before pickup has been applied in
    that very callback. -/
theorem C07_not_lost_before_first_callback {cap : Nat} {held : List Key} {s s' : Store (Cmd.Comp V)}
    (wf : Store.WF cap held s) (test : Cmd.Comp V → Bool) (k : Key) (c : Cmd.Comp V)
    (hin : (k, c) ∈ s.newRing.items) (hreach : Reachable c.chan) (hidle : c.chan.rpc = .idle)
    (hdirty : c.chan.dirty = true) (hcb : Cmd.callback test s = .ok s') :
    ∃ x, c.chan.lastPub = some x
      ∧ ∃ c', s'.arena.get? k = some c' ∧ c'.applied = c.applied ++ [x.2] ∧ c'.chan.dirty = false := by
  obtain ⟨x, hx, hv, _, _, hd2, _⟩ := readOp_dirty hreach hidle hdirty
  refine ⟨x, hx, c.onStart, ?_, by simp [Cmd.Comp.onStart, hv], by simpa [Cmd.Comp.onStart] using hd2⟩
  simp only [Cmd.callback, Store.removeAndAdd, Store.drainPhase, Store.addPhase] at hcb
  cases h1 : Store.drainLoop test s.arena.order s with
  | error e => simp [h1] at hcb
  | ok s1 =>
    simp only [h1] at hcb
    obtain ⟨wf1, hn1, _⟩ := Store.wf_drainLoop test s.arena.order s s1 wf (Store.order_nodup' wf) (fun i hi => hi) h1
    cases h2 : Store.addItems s1.newRing.items s1 with
    | error e => simp [h2] at hcb
    | ok q =>
      obtain ⟨s2, ks⟩ := q
      simp [h2] at hcb; subst hcb
      obtain ⟨_, _, _, _, _, _, _, hin2, _⟩ := Store.wf_addItems s1.newRing.items s1 s2 ks wf1 rfl h2
      have := hin2 (k, c) (by rw [hn1]; exact hin)
      simp only [Arena.get?, Arena.mapData, List.getElem?_map, this]
      simp

/-- the same, starting from a fresh channel: any non-empty burst of writes issued before pickup -/
theorem C07_not_lost_before_first_callback_burst {cap : Nat} {held : List Key} {s s' : Store (Cmd.Comp V)}
    (wf : Store.WF cap held s) (test : Cmd.Comp V → Bool) (k : Key) (vs : List V) (hne : vs ≠ [])
    (hin : (k, ⟨vs.foldl writeOp Chan.init, []⟩) ∈ s.newRing.items) (hcb : Cmd.callback test s = .ok s') :
    ∃ c', s'.arena.get? k = some c' ∧ c'.applied = [vs.getLast hne] := by
  obtain ⟨h1, w1, r1, d1, t, l1⟩ := burst_spec (V := V) Reachable.init rfl vs hne
  obtain ⟨x, hx, c', hg, ha, _⟩ := C07_not_lost_before_first_callback wf test k _ hin h1 (by rw [r1]; rfl) d1 hcb
  simp only at hx; rw [l1] at hx; cases hx
  exact ⟨c', hg, by simpa using ha⟩

/-- **pickup and `on_start_processing` happen in the same callback** (any storage, any resource).
    `Cmd.callbackWith test f` is the shape of `Track::on_start_processing` / `MainTrack::on_start_processing`
    for the track's sounds (and of every other storage): `remove_and_add` first, then `f` =
    `on_start_processing` of every resource in the storage.  Whatever the (well-formed) storage looks
    like, a resource waiting in the new-resource ring is, after that callback, in the arena under its
    key with `f` applied to it exactly once — its first `on_start_processing` (where it reads its
    command readers) is not postponed to the next callback. -/
theorem C07_pickup_runs_on_start {τ : Type} {cap : Nat} {held : List Key} {s s' : Store τ}
    (wf : Store.WF cap held s) (test : τ → Bool) (f : τ → τ) (k : Key) (c : τ)
    (hin : (k, c) ∈ s.newRing.items) (hcb : Cmd.callbackWith test f s = .ok s') :
    s'.arena.get? k = some (f c) := by
  simp only [Cmd.callbackWith, Store.removeAndAdd, Store.drainPhase, Store.addPhase] at hcb
  cases h1 : Store.drainLoop test s.arena.order s with
  | error e => simp [h1] at hcb
  | ok s1 =>
    simp only [h1] at hcb
    obtain ⟨wf1, hn1, _⟩ := Store.wf_drainLoop test s.arena.order s s1 wf (Store.order_nodup' wf) (fun i hi => hi) h1
    cases h2 : Store.addItems s1.newRing.items s1 with
    | error e => simp [h2] at hcb
    | ok q =>
      obtain ⟨s2, ks⟩ := q
      simp [h2] at hcb; subst hcb
      obtain ⟨_, _, _, _, _, _, _, hin2, _⟩ := Store.wf_addItems s1.newRing.items s1 s2 ks wf1 rfl h2
      have := hin2 (k, c) (by rw [hn1]; exact hin)
      simp only [Arena.get?, Arena.mapData, List.getElem?_map, this]
      simp

section StaticSoundDelivery
variable {α : Type} [Add α] [Sub α] [Mul α] [Div α] [Neg α] [LT α] [LE α]
  [DecidableLT α] [DecidableLE α] [OfScientific α] [KOps α]

/-- **a static sound applies the pending commands of all nine kinds in the same callback.**
    One `on_start_processing` of a static sound (`Cmd.StaticComp.onStart`: `read_commands` reads the
    readers of `staticReaders` once each — pause, resume and stop are three independent reads, not
    alternatives) hands the sound, for *every* kind with a pending command, the last value written,
    and nothing for the other kinds; the channels it leaves behind are exactly those after these
    reads, and a second `read_commands` with no write in between delivers nothing: several commands
    of different kinds issued in one inter-callback interval all take effect at the next callback,
    none is left for a later one.  And this is also true of a sound's *first* callback on whatever
    track it plays: the callback that picks it up out of the new-resource ring runs this very
    `on_start_processing` (`C07_pickup_runs_on_start` with `Cmd.soundsOnStart`). -/
theorem C07_static_sound_all_kinds_same_callback (c : Cmd.StaticComp α)
    (hr : ∀ k, Reachable (c.chans k) ∧ (c.chans k).rpc = .idle) :
    (∀ k, (c.chans k).dirty = true →
        ∃ x, (c.chans k).lastPub = some x ∧ (k, some x.2) ∈ (c.chans.drain Cmd.staticReaders).2)
    ∧ (∀ k, (c.chans k).dirty = false → (k, none) ∈ (c.chans.drain Cmd.staticReaders).2)
    ∧ (∀ q ∈ ((c.chans.drain Cmd.staticReaders).1.drain Cmd.staticReaders).2, q.2 = none)
    ∧ (c.fault = none → c.onStart.chans = (c.chans.drain Cmd.staticReaders).1)
    ∧ (∀ {cap : Nat} {held : List Key} {s s' : Store (Cmd.StaticComp α)} (k : Key),
        Store.WF cap held s → (k, c) ∈ s.newRing.items → Cmd.soundsOnStart s = .ok s' →
        s'.arena.get? k = some c.onStart) := by
  have hmem : ∀ k : Cmd.StaticKind, k ∈ Cmd.staticReaders := fun k => by cases k <;> decide
  obtain ⟨_, h2, h3, _, h5⟩ := C07_drain_delivers_once Cmd.staticReaders (by decide) c.chans (fun k _ => hr k)
  refine ⟨fun k hd => h2 k (hmem k) hd, fun k hd => h3 k (hmem k) hd, h5, ?_, ?_⟩
  · intro hf
    simp only [Cmd.StaticComp.onStart, hf]
    split <;> rfl
  · intro cap held s s' k wf hin hcb
    exact C07_pickup_runs_on_start wf _ _ k c hin hcb

end StaticSoundDelivery

/-! ### non-vacuity -/

/-- a write racing a read: the reader has tested the dirty bit, the writer is half-way through the
    next value — a reachable state in which every hypothesis above is met -/
example : ∃ s : St Nat, Reachable s ∧ s.wpc = .half (2, 20) ∧ s.rpc = .tested ∧ s.dirty = true :=
  ⟨_, Reachable.step (l := .wHalf1 20) (Reachable.step (l := .rTest) (Reachable.step (l := .wPublish)
    (Reachable.step (l := .wHalf2) (Reachable.step (l := .wHalf1 10) Reachable.init rfl) rfl) rfl) rfl) rfl,
    rfl, rfl, rfl⟩

/-- a burst of three writes then two reads: the first read returns the last value, the second nothing -/
example : ((readOp ([1, 2, 3].foldl writeOp (Chan.init : St Nat))).2,
    (readOp (readOp ([1, 2, 3].foldl writeOp (Chan.init : St Nat))).1).2) = (some 3, none) := by rfl

/-- a write that lands between the reader's swap and its copy is delivered by the *next* read, once -/
example : (Chan.run (Chan.init : St Nat)
    [.wHalf1 1, .wHalf2, .wPublish, .rTest, .rSwap, .wHalf1 2, .rRead1, .wHalf2, .wPublish, .rRead2,
     .rTest, .rSwap, .rRead1, .rRead2, .rTest]).map (fun r => r.2.filterMap (fun x => match x with
        | .read c => some (c.a.map (·.2)) | .none => none)) = some [some 1, some 2, none] := by rfl

/-- a pause, a stop and a seek written in the same interval are all handed over by one
    `read_commands` of a static sound (in its read order), the other six readers return nothing -/
example : (((((Chan.Prod.init : Chan.Prod Cmd.StaticKind Nat).writeOp .seekBy 3).writeOp .pause 1).writeOp .stop 2).drain
    Cmd.staticReaders).2.filter (·.2.isSome) = [(.pause, some 1), (.stop, some 2), (.seekBy, some 3)] := by rfl

end K
