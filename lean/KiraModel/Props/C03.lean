/-
  C03 — sound playback states follow the documented life cycle; Stopped is final.
  Property theorems only.  Statements are about Model/Psm.lean (the state manager), Model/SoundCore.lean
  (the life-cycle part shared by static and streaming sounds: every place where either sound touches
  its state manager or the state shown by the handle is one of the five `SoundCore.Event`s) and
  Model/StaticSound.lean (the complete static sound), interpreted over ℝ.
-/
import KiraModel.Proofs.LifecycleLemmas
import KiraModel.Props.C19
import KiraModel.Props.C06
import KiraModel.Proofs.GenAgreeMod

namespace K
open SoundCore

/-! ### the documented graph -/

/-- what can happen to the life cycle, as the documentation names it -/
inductive EvKind where
  | pause | resumeNow | resumeLater | stop
  /-- one `process` call -/
  | update
  /-- natural end of the sound / decoder error -/
  | naturalEnd
deriving DecidableEq, Repr

def SoundCore.Event.kind : Event ℝ → EvKind
  | .pause _ => .pause
  | .resume st _ => if st.isImmediate then .resumeNow else .resumeLater
  | .stop _ => .stop
  | .gate _ _ => .update
  | .markStopped => .naturalEnd

/-- **the documented life cycle** as a relation "state `a`, event, state `b`":
    pause → Pausing, resume → Resuming, resume_at → WaitingToResume, stop → Stopping — each ignored in
    Stopped; an update moves Pausing→Paused, Resuming→Playing, Stopping→Stopped,
    WaitingToResume→Resuming (start time reached) or →Stopped (its clock no longer exists), or keeps the
    state; a sound whose own start clock no longer exists is Stopped by the update; natural end → Stopped. -/
def Doc (a : PlaybackState) (k : EvKind) (b : PlaybackState) : Prop :=
  match k with
  | .pause => b = if a = .stopped then .stopped else .pausing
  | .resumeNow => b = if a = .stopped then .stopped else .resuming
  | .resumeLater => b = if a = .stopped then .stopped else .waitingToResume
  | .stop => b = if a = .stopped then .stopped else .stopping
  | .update => Psm.UpdateEdge a b ∨ b = .stopped
  | .naturalEnd => b = .stopped

/-- **every command and every update moves the state along an edge of the documented graph** —
    for static and streaming sounds alike (both act on their state manager only through these events). -/
theorem C03_transitions_documented (c : SoundCore ℝ) (e : Event ℝ) :
    Doc c.psm.playbackState e.kind (c.apply e).psm.playbackState := by
  cases e with
  | pause tw => simp [Doc, Event.kind, apply, pause, syncShared, Psm.pause_state]
  | stop tw => simp [Doc, Event.kind, apply, stop, syncShared, Psm.stop_state]
  | markStopped => simp [Doc, Event.kind, apply, markStopped, syncShared, Psm.markAsStopped, Psm.playbackState]
  | resume st tw =>
    by_cases hi : st.isImmediate = true
    · simp [Doc, Event.kind, apply, resume, syncShared, Psm.resume_state, hi]
    · simp [Doc, Event.kind, apply, resume, syncShared, Psm.resume_state, hi]
  | gate dtc info =>
    simp only [Doc, Event.kind, apply, gate, gateStart]
    by_cases h3 : ((c.gatePsm dtc info).startTime.update dtc info).2 = true
    · right; simp [h3, markStopped, syncShared, Psm.markAsStopped, Psm.playbackState]
    · left
      have h3' : ((c.gatePsm dtc info).startTime.update dtc info).2 = false := by simpa using h3
      have := (Psm.update_edge c.psm dtc info).1
      rw [show (if ((c.gatePsm dtc info).startTime.update dtc info).2 = true then _ else _) = (c.gatePsm dtc info).gateStart dtc info from rfl,
        gateStart_psm _ dtc info h3', (gatePsm_psm c dtc info).1]
      exact this

/-- sharper for updates: unless the sound's own start clock has disappeared, an update takes one
    of the five documented update edges or keeps the state. -/
theorem C03_update_edges (c : SoundCore ℝ) (dtc : ℝ) (info : Info ℝ)
    (h : ((c.gatePsm dtc info).startTime.update dtc info).2 = false) :
    Psm.UpdateEdge c.psm.playbackState (c.gate dtc info).1.psm.playbackState := by
  simp only [gate]
  rw [gateStart_psm _ dtc info h, (gatePsm_psm c dtc info).1]
  exact (Psm.update_edge c.psm dtc info).1

/-- **the handle always shows the state manager's state** (the mirror atomic is refreshed at every
    place the state can change), for every history of events. -/
theorem C03_handle_state_in_sync (st : StartTime ℝ) (fadeIn : Option (Tween ℝ)) (evs : List (Event ℝ)) :
    ((SoundCore.new st fadeIn).run evs).shared = ((SoundCore.new st fadeIn).run evs).psm.playbackState :=
  run_inSync evs _ (new_inSync st fadeIn)

/-- a new sound starts in Playing. -/
theorem C03_starts_playing (st : StartTime ℝ) (fadeIn : Option (Tween ℝ)) :
    (SoundCore.new st fadeIn).psm.playbackState = .playing ∧ (SoundCore.new st fadeIn).shared = .playing := by
  simp [SoundCore.new, Psm.new, Psm.playbackState]

/-! ### Stopped is final -/

/-- **Stopped is absorbing, for every later history** of pause / resume / resume_at / stop commands,
    updates (with any clocks) and end events. -/
theorem C03_stopped_absorbing (c : SoundCore ℝ) (h : c.psm.playbackState = .stopped) (evs : List (Event ℝ)) :
    (c.run evs).psm.playbackState = .stopped ∧ (c.run evs).finished = true := by
  have := run_stopped evs c h
  exact ⟨this, by simp [finished, this]⟩

/-- **a stopped static sound ignores everything**: for every history of handle commands (pause,
    resume, resume_at, stop, seek_to, seek_by, set_loop_region, set_volume/rate/panning),
    `on_start_processing` and `process` calls, it stays Stopped, `finished()` stays true and every frame
    it writes is exactly zero. -/
theorem C03_stopped_static_silent (fuel : Nat) : ∀ (ops : List (StaticSound.Op ℝ)) (s s' : StaticSound ℝ)
    (outs : List (Frame ℝ)), s.core.psm.playbackState = .stopped → s.run fuel ops = .ok (s', outs) →
      s'.core.psm.playbackState = .stopped ∧ s'.finished = true ∧ ∀ f ∈ outs, f = Frame.zero := by
  intro ops
  induction ops with
  | nil =>
    intro s s' outs h hr
    simp only [StaticSound.run] at hr
    injection hr with hr; injection hr with h1 h2; subst h1 h2
    exact ⟨h, by simp [StaticSound.finished, finished, h], by simp⟩
  | cons op ops ih =>
    intro s s' outs h hr
    rw [StaticSound.run_cons] at hr
    cases h1 : s.step fuel op with
    | error f => rw [h1] at hr; simp at hr
    | ok r =>
      obtain ⟨s1, o1⟩ := r
      rw [h1] at hr; simp only [] at hr
      cases h2 : StaticSound.run fuel s1 ops with
      | error f => rw [h2] at hr; simp at hr
      | ok r' =>
        obtain ⟨s2, o2⟩ := r'
        rw [h2] at hr; simp only [] at hr
        injection hr with hr; injection hr with h3 h4; subst h3 h4
        have hs1 : s1.core.psm.playbackState = .stopped :=
          reach_stopped (StaticSound.step_evolves fuel s s1 op o1 h1).core h
        obtain ⟨a, b, c⟩ := ih s1 s2 o2 hs1 h2
        refine ⟨a, b, ?_⟩
        intro f hf
        rcases List.mem_append.mp hf with hf | hf
        · -- the step's own output
          cases op with
          | command cmd => simp only [StaticSound.step] at h1; injection h1 with h1; injection h1 with _ h1; subst h1; simp at hf
          | startProcessing =>
            simp only [StaticSound.step] at h1
            cases ho : s.onStartProcessing with
            | error e => rw [ho] at h1; simp at h1
            | ok s3 => rw [ho] at h1; simp only [] at h1; injection h1 with h1; injection h1 with _ h1; subst h1; simp at hf
          | process len dt info =>
            simp only [StaticSound.step] at h1
            have hclosed : (s.core.gate (dt * (len : ℝ)) info).2 = false := by
              rw [gate_open_iff]
              have : (s.core.gate (dt * (len : ℝ)) info).1.psm.playbackState = .stopped :=
                apply_stopped s.core (.gate _ info) h
              simp [this, PlaybackState.isAdvancing]
            obtain ⟨hz, _⟩ := (StaticSound.process_evolves fuel s s1 len dt info o1 h1).2.2 hclosed
            rw [hz] at hf
            exact (List.mem_replicate.mp hf).2
        · exact c f hf

/-! ### fade-driven steps -/

/-- **a fade-driven step happens in exactly the update in which the fade parameter reports
    "finished"**: Pausing→Paused, Resuming→Playing, Stopping→Stopped iff the flag is raised; the fade
    parameter itself is updated in every state. -/
theorem C03_fade_step_completes (m : Psm ℝ) (dt : ℝ) (info : Info ℝ) (h : m.playbackState ≠ .waitingToResume) :
    (m.update dt info).1.fade = (m.fade.update tw32 dt info).1
      ∧ (m.update dt info).1.state
          = (if (m.fade.update tw32 dt info).2 then Psm.fadeDone m.state else m.state) := by
  obtain ⟨hu, _⟩ := Psm.update_notWaiting m dt info h
  rw [hu]; exact ⟨rfl, rfl⟩

/-- the fade parameter right after a pause / stop / immediate resume: a tween from the current
    fade value to the target -/
theorem C03_command_starts_fade (m : Psm ℝ) (tw : Tween ℝ) (h : m.playbackState ≠ .stopped) :
    (m.pause tw).fade = m.fade.set (.fixed (-60)) tw ∧ (m.pause tw).state = .pausing
      ∧ (m.stop tw).fade = m.fade.set (.fixed (-60)) tw ∧ (m.stop tw).state = .stopping
      ∧ (m.resume .immediate tw).fade = m.fade.set (.fixed 0) tw ∧ (m.resume .immediate tw).state = .resuming := by
  have hs : m.isStopped = false := by
    cases hh : m.isStopped with
    | false => rfl
    | true => exact absurd ((Psm.playbackState_stopped_iff m).mpr hh) h
  simp [Psm.pause, Psm.stop, Psm.resume, hs, silenceDb, Psm.identityDb]

/-- **with C06: the step completes when the tween completes, for every partition of time into
    callbacks.**  After a fade command with an immediate tween of duration `D > 0` towards `tgt`
    (−60 dB for pause/stop, 0 dB for resume) from fade value `v₀`: as long as the accumulated time
    `T` is below `D` the state is still the fading state and the fade is `v₀ + (tgt − v₀)·ease(T/D)`;
    as soon as `T ≥ D` the step has been taken and the fade is *exactly* `tgt`. -/
theorem C03_fade_completes_with_tween (p : Parameter ℝ ℝ) (st : PsmState ℝ) (tgt : ℝ) (D : ℕ) (hD : 0 < D)
    (e : Easing ℝ) (he : e.PosPower) (info : Info ℝ) (dts : List ℝ) (hnn : ∀ dt ∈ dts, 0 ≤ dt)
    (hst : (⟨st, p.set (.fixed tgt) ⟨.immediate, D, e⟩⟩ : Psm ℝ).playbackState ≠ .waitingToResume) :
    let m' := (⟨st, p.set (.fixed tgt) ⟨.immediate, D, e⟩⟩ : Psm ℝ).runUpdates info dts
    (dts.sum < secs D → m'.state = st ∧ m'.fade.raw = p.raw + (tgt - p.raw) * e.apply (dts.sum / secs D))
      ∧ (secs D ≤ dts.sum → m'.state = Psm.fadeDone st ∧ m'.fade.raw = tgt) := by
  intro m'
  obtain ⟨h1, h2, h3⟩ := Psm.runUpdates_notWaiting info dts ⟨st, p.set (.fixed tgt) ⟨.immediate, D, e⟩⟩ hst
  have hmid : Parameter.MidTween (p.set (.fixed tgt) ⟨.immediate, D, e⟩) p.raw tgt 0 .immediate D e := by
    unfold Parameter.MidTween Parameter.set Parameter.StartedNow; simp
  have hraw : (p.set (.fixed tgt) ⟨.immediate, D, e⟩).raw = p.raw + (tgt - p.raw) * e.apply (0 / durToSecs D) := by
    simp [Parameter.set, (Easing.endpoints e he).1]
  have hrun := Parameter.run_mid e D hD p.raw tgt .immediate info dts _ 0 hmid (durToSecs_pos D hD) hraw hnn
  simp only [zero_add] at hrun
  rw [← tw32_eq_tw64] at hrun
  constructor
  · intro hT
    obtain ⟨_, b, c⟩ := hrun.1 (by simpa [secs] using hT)
    exact ⟨h2 c, by rw [show m'.fade = _ from h1, b]; rfl⟩
  · intro hT
    obtain ⟨a, b⟩ := hrun.2 (by simpa [secs] using hT)
    have hmem : true ∈ ((p.set (.fixed tgt) ⟨.immediate, D, e⟩).run tw32 info dts).2 :=
      List.count_pos_iff.mp (by rw [b]; norm_num)
    exact ⟨h3 hmem, by rw [show m'.fade = _ from h1]; exact a.2.2⟩

/-- **the fade moves monotonically and ends exactly**: along `v(T) = v₀ + (tgt − v₀)·ease(T/D)` with a
    built-in easing the fade in decibels never moves away from its target, so the applied gain
    `as_amplitude(v)` is monotone too; −60 dB is amplitude exactly 0 and 0 dB is amplitude exactly 1. -/
theorem C03_fade_monotone_exact (v0 tgt : ℝ) (D : ℕ) (hD : 0 < D) (e : Easing ℝ) (he : e.PosPower)
    (T1 T2 : ℝ) (h0 : 0 ≤ T1) (h12 : T1 ≤ T2) (h2 : T2 ≤ secs D) :
    (tgt ≤ v0 → v0 + (tgt - v0) * e.apply (T2 / secs D) ≤ v0 + (tgt - v0) * e.apply (T1 / secs D)
      ∧ asAmplitude (v0 + (tgt - v0) * e.apply (T2 / secs D)) ≤ asAmplitude (v0 + (tgt - v0) * e.apply (T1 / secs D)))
    ∧ (v0 ≤ tgt → v0 + (tgt - v0) * e.apply (T1 / secs D) ≤ v0 + (tgt - v0) * e.apply (T2 / secs D)
      ∧ asAmplitude (v0 + (tgt - v0) * e.apply (T1 / secs D)) ≤ asAmplitude (v0 + (tgt - v0) * e.apply (T2 / secs D)))
    ∧ asAmplitude (-60 : ℝ) = 0 ∧ asAmplitude (0 : ℝ) = 1 := by
  have hpos : 0 < secs D := durToSecs_pos D hD
  have hm := Easing.mono e he (T1 / secs D) (T2 / secs D) (div_nonneg h0 hpos.le)
    (div_le_div_of_nonneg_right h12 hpos.le) (by rw [div_le_one hpos]; exact h2)
  refine ⟨fun h => ?_, fun h => ?_, C19_amp_silence _ le_rfl, C19_amp_zero_db⟩
  · have : v0 + (tgt - v0) * e.apply (T2 / secs D) ≤ v0 + (tgt - v0) * e.apply (T1 / secs D) := by nlinarith
    exact ⟨this, C19_amp_monotone _ _ this⟩
  · have : v0 + (tgt - v0) * e.apply (T1 / secs D) ≤ v0 + (tgt - v0) * e.apply (T2 / secs D) := by nlinarith
    exact ⟨this, C19_amp_monotone _ _ this⟩

/-- inside one buffer the per-frame fade is the interpolation between the previous and the current
    fade value: it runs monotonically from one to the other (so the envelope has no kinks between
    callbacks). -/
theorem C03_fade_within_chunk (m : Psm ℝ) (t1 t2 : ℝ) (h12 : t1 ≤ t2) :
    (m.fade.raw ≤ m.fade.prev → m.interpolatedFadeVolume t2 ≤ m.interpolatedFadeVolume t1)
      ∧ (m.fade.prev ≤ m.fade.raw → m.interpolatedFadeVolume t1 ≤ m.interpolatedFadeVolume t2)
      ∧ m.interpolatedFadeVolume 0 = m.fade.prev ∧ m.interpolatedFadeVolume 1 = m.fade.raw := by
  unfold Psm.interpolatedFadeVolume Parameter.interpolatedValue tw32 lerp32
  simp only [r32_real]
  refine ⟨fun h => by nlinarith, fun h => by nlinarith, by ring, by ring⟩

/-! ### silence and frozen position while not advancing -/

/-- **frozen when not advancing**: whenever, after this call's update, the sound's start time is
    still pending or its state is Paused / WaitingToResume / Stopped, `process` writes exact zeros and
    leaves transport, fractional position and the interpolator's window untouched. -/
theorem C03_frozen_when_not_advancing (fuel : Nat) (s s' : StaticSound ℝ) (len : Nat) (dt : ℝ) (info : Info ℝ)
    (outs : List (Frame ℝ)) (h : s.process fuel len dt info = .ok (s', outs))
    (hgate : (s.core.gate (dt * (len : ℝ)) info).1.startTime.isImmediate = false
      ∨ (s.core.gate (dt * (len : ℝ)) info).1.psm.playbackState.isAdvancing = false) :
    outs = List.replicate len Frame.zero ∧ s'.transport = s.transport ∧ s'.frac = s.frac
      ∧ s'.resampler = s.resampler := by
  have hclosed : (s.core.gate (dt * (len : ℝ)) info).2 = false := by
    rw [gate_open_iff]; rcases hgate with h1 | h1 <;> simp [h1]
  obtain ⟨a, b, c, d, _⟩ := (StaticSound.process_evolves fuel s s' len dt info outs h).2.2 hclosed
  exact ⟨a, b, c, d⟩

/-- in particular a sound that is Paused or Stopped before the call stays so and is silent (no update
    edge leaves these states), and the reported position does not move. -/
theorem C03_paused_is_silent (fuel : Nat) (s s' : StaticSound ℝ) (len : Nat) (dt : ℝ) (info : Info ℝ)
    (outs : List (Frame ℝ)) (h : s.process fuel len dt info = .ok (s', outs))
    (hst : s.core.psm.playbackState = .paused ∨ s.core.psm.playbackState = .stopped) :
    outs = List.replicate len Frame.zero ∧ s'.transport = s.transport ∧ s'.frac = s.frac
      ∧ s'.resampler = s.resampler ∧ s'.sharedPosition = s.sharedPosition := by
  have hadv : (s.core.gate (dt * (len : ℝ)) info).1.psm.playbackState.isAdvancing = false := by
    have hd := C03_transitions_documented s.core (.gate (dt * (len : ℝ)) info)
    simp only [Doc, Event.kind, apply] at hd
    rcases hd with hd | hd
    · have := Psm.updateEdge_settled _ _ hd (by rcases hst with hp | hp <;> simp [hp])
      rw [this]; rcases hst with hp | hp <;> simp [hp, PlaybackState.isAdvancing]
    · simp [hd, PlaybackState.isAdvancing]
  have hclosed : (s.core.gate (dt * (len : ℝ)) info).2 = false := by rw [gate_open_iff]; simp [hadv]
  obtain ⟨a, b, c, d, _, e⟩ := (StaticSound.process_evolves fuel s s' len dt info outs h).2.2 hclosed
  exact ⟨a, b, c, d, e⟩

/-! ### every finite non-looping sound reaches Stopped -/

/-- **forwards**: a playing sound without a loop region, play head at `p`, reaches Stopped after
    exactly `max (n − p) 1 + 4` position steps (the remaining frames, then the 4-frame window drains)
    — and not earlier. -/
theorem C03_finite_sound_stops_forward (s : StaticSound ℝ) (hp : s.transport.playing = true)
    (hl : s.transport.loopRegion = none) (hbw : s.isPlayingBackwards = false) :
    (∃ s', StaticSound.updN (max (s.nFrames - s.transport.position) 1 + 4) s = .ok s' ∧ s'.IsStopped)
      ∧ ∀ j, j < max (s.nFrames - s.transport.position) 1 + 4 →
          ∃ sj, StaticSound.updN j s = .ok sj ∧ sj.core = s.core :=
  StaticSound.forward_ends _ s hp hl hbw rfl

/-- **in reverse** (the 0.9.4 "reverse playback never finishes" shape): play head at `p`, Stopped
    after exactly `p + 1 + 4` position steps. -/
theorem C03_finite_sound_stops_backward (s : StaticSound ℝ) (hp : s.transport.playing = true)
    (hl : s.transport.loopRegion = none) (hbw : s.isPlayingBackwards = true) :
    (∃ s', StaticSound.updN (s.transport.position + 1 + 4) s = .ok s' ∧ s'.IsStopped)
      ∧ ∀ j, j < s.transport.position + 1 + 4 → ∃ sj, StaticSound.updN j s = .ok sj ∧ sj.core = s.core :=
  StaticSound.backward_ends _ s hp hl hbw rfl

/-- **… within an explicit number of output frames**: at a constant non-zero rate `r` every output
    frame advances the position by `c = sr·|r|·dt > 0`, so after any `k` frames of a `process` call with
    `k·c ≥ max (n − p) 1 + 4` the sound is Stopped (forwards; `p + 1 + 4` in reverse, second part). -/
theorem C03_finite_sound_stops_in_frames (fuel : Nat) (dt r : ℝ) (len k i : Nat) (s s' : StaticSound ℝ)
    (outs : List (Frame ℝ)) (hp : s.transport.playing = true) (hl : s.transport.loopRegion = none)
    (hr : s.playbackRate.Rests r) (hdt : 0 ≤ dt) (h0 : 0 ≤ s.frac) (h1 : s.frac < 1)
    (hfuel : ⌊s.frac + k * ((s.sampleRate : ℝ) * |r| * dt)⌋₊ < fuel)
    (h : StaticSound.renderLoop fuel dt len k i s = .ok (s', outs)) :
    (s.isPlayingBackwards = false →
        ((max (s.nFrames - s.transport.position) 1 + 4 : ℕ) : ℝ) ≤ k * ((s.sampleRate : ℝ) * |r| * dt) → s'.IsStopped)
    ∧ (s.isPlayingBackwards = true →
        ((s.transport.position + 1 + 4 : ℕ) : ℝ) ≤ k * ((s.sampleRate : ℝ) * |r| * dt) → s'.IsStopped) := by
  have hc : 0 ≤ (s.sampleRate : ℝ) * |r| * dt := by positivity
  constructor
  · intro hbw hk
    obtain ⟨⟨sN, hN, hst⟩, _⟩ := StaticSound.forward_ends _ s hp hl hbw rfl
    exact StaticSound.renderLoop_reaches_stopped fuel dt len _ hc k i _ s s' sN outs
      (fun t => StaticSound.fracStep_rests s r t dt hr) h0 h1 hfuel hN hst hk h
  · intro hbw hk
    obtain ⟨⟨sN, hN, hst⟩, _⟩ := StaticSound.backward_ends _ s hp hl hbw rfl
    exact StaticSound.renderLoop_reaches_stopped fuel dt len _ hc k i _ s s' sN outs
      (fun t => StaticSound.fracStep_rests s r t dt hr) h0 h1 hfuel hN hst hk h

/-! ### the static sound follows the shared life cycle -/

/-- **every history of a static sound moves its life-cycle core only by the documented events**
    (so all theorems above about events apply to it): for every sequence of handle commands,
    `on_start_processing` and `process` calls that does not fault, the resulting core is reached from
    the initial one by a sequence of pause / resume / stop / update / end events; the handle state
    stays in sync. -/
theorem C03_static_follows_life_cycle (fuel : Nat) (ops : List (StaticSound.Op ℝ)) (s s' : StaticSound ℝ)
    (outs : List (Frame ℝ)) (h : s.run fuel ops = .ok (s', outs)) :
    (∃ evs : List (Event ℝ), s.core.run evs = s'.core)
      ∧ (s.core.shared = s.core.psm.playbackState → s'.core.shared = s'.core.psm.playbackState) := by
  have he := StaticSound.run_evolves fuel ops s s' outs h
  exact ⟨he.core, fun hsync => reach_inSync he.core hsync⟩

/-! ### non-vacuity -/

/-- the hypotheses are satisfiable: a fresh sound is not stopped, `pause` takes it to Pausing and
    `mark_as_stopped` to Stopped. -/
example : ((SoundCore.new (.immediate : StartTime ℝ) none).run [.pause ⟨.immediate, 0, .linear⟩]).psm.playbackState
    = .pausing := by
  simp [SoundCore.run, SoundCore.apply, SoundCore.new, SoundCore.pause, SoundCore.syncShared, Psm.new, Psm.pause,
    Psm.isStopped, Psm.playbackState]

example : ((SoundCore.new (.immediate : StartTime ℝ) none).run [.markStopped]).psm.playbackState = .stopped := by
  simp [SoundCore.run, SoundCore.apply, SoundCore.markStopped, SoundCore.syncShared, Psm.markAsStopped,
    Psm.playbackState]

end K
