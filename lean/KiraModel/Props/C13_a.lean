/-
  C13 (first half) — effect laws for volume_control, panning_control, filter, eq_filter,
  distortion and compressor: dry settings are the identity, silence stays silent, every
  division / square root / logarithm is taken inside its domain on the documented parameter
  ranges, the linear effects are linear in (state, input), and the output does not depend on how
  the input is split into `process` calls.

  All statements are about the models in Model/Effects/*.lean (the definitions the Float twin
  runs) interpreted over ℝ.  "Parameters at rest" (`Stagnant`) means: no parameter is tweening or
  linked to a modulator — the situation in which kira promises slice-independence and in which
  "fixed parameters" makes sense; `process` then only refreshes `previous_value`.
  `sigAdd`/`sigSmul` are the pointwise sum / scalar multiple of signals; `v + w`, `c • v` on
  frames and integrator pairs are componentwise.
-/
import KiraModel.Proofs.EffectsAVolPan
import KiraModel.Proofs.EffectsAFilter
import KiraModel.Proofs.SvfStabilityLemmas
import KiraModel.Proofs.EffectsAEq
import KiraModel.Proofs.EffectsADist
import KiraModel.Proofs.EffectsAComp
import KiraModel.Props.C19

namespace K
open Real

/-- the silent signal of `n` frames -/
noncomputable def silence (n : ℕ) : List (Frame ℝ) := List.replicate n 0

/-! ## volume_control -/

/-- **dry is identity**: a volume control resting at 0 dB returns its input unchanged. -/
theorem C13_volume_dry_is_identity (s : VolumeControl ℝ) (h : s.Stagnant) (h0 : s.volume.raw = 0)
    (xs : List (Frame ℝ)) (dt : ℝ) (info : Info ℝ) : (s.process xs dt info).2 = xs := by
  rw [VolumeControl.process_stagnant s h, h0, C19_amp_zero_db]
  simp only
  conv_rhs => rw [← List.map_id xs]
  apply List.map_congr_left
  intro f _; ext <;> simp

/-- **silence stays silent**, for every state of the volume parameter (tweening, modulated or at rest). -/
theorem C13_volume_silence_to_silence (s : VolumeControl ℝ) (n : ℕ) (dt : ℝ) (info : Info ℝ) :
    (s.process (silence n) dt info).2 = silence n := by
  unfold VolumeControl.process silence
  simp only [List.length_replicate]
  refine (frameLoop_zero VolumeControl.body (fun _ => True) ?_ n 0 n _ trivial).2
  intro t s _
  refine ⟨trivial, ?_⟩
  ext <;> simp [VolumeControl.body]

/-- **defined**: the gain factor is a non-negative real for every decibel value (no division,
    root or logarithm is involved; `10^x` is total). -/
theorem C13_volume_defined (db : ℝ) : 0 ≤ asAmplitude db := (C19_amp_range db).1

/-- **linear**: at rest, the volume control is additive and homogeneous in its input. -/
theorem C13_volume_linear (s : VolumeControl ℝ) (h : s.Stagnant) (xs ys : List (Frame ℝ)) (c : ℝ)
    (dt : ℝ) (info : Info ℝ) :
    (s.process (sigAdd xs ys) dt info).2 = sigAdd (s.process xs dt info).2 (s.process ys dt info).2
      ∧ (s.process (sigSmul c xs) dt info).2 = sigSmul c (s.process xs dt info).2 := by
  simp only [VolumeControl.process_stagnant s h]
  constructor
  · apply sigAdd_map
    intro a b; ext <;> simp <;> ring
  · apply sigSmul_map
    intro a; ext <;> simp <;> ring

/-- **chunk-free**: at rest, processing `xs ++ ys` in one call equals processing `xs` and then
    `ys` (same final state, concatenated output) — hence, by induction, any partition. -/
theorem C13_volume_chunk_free (s : VolumeControl ℝ) (h : s.Stagnant) (xs ys : List (Frame ℝ))
    (dt : ℝ) (info : Info ℝ) :
    s.process (xs ++ ys) dt info
      = (((s.process xs dt info).1.process ys dt info).1,
         (s.process xs dt info).2 ++ ((s.process xs dt info).1.process ys dt info).2) := by
  rw [VolumeControl.process_stagnant s h, VolumeControl.process_stagnant s h]
  simp only
  rw [VolumeControl.process_stagnant _ (VolumeControl.settle_stagnant s h), VolumeControl.settle_idem]
  simp [VolumeControl.settle]

/-! ## panning_control -/

/-- **dry is identity**: a panning control resting at centre returns its input unchanged. -/
theorem C13_panning_dry_is_identity (s : PanningControl ℝ) (h : s.Stagnant) (h0 : s.panning.raw = 0)
    (xs : List (Frame ℝ)) (dt : ℝ) (info : Info ℝ) : (s.process xs dt info).2 = xs := by
  rw [PanningControl.process_stagnant s h, h0]
  simp only
  conv_rhs => rw [← List.map_id xs]
  apply List.map_congr_left
  intro f _; rw [C19_pan_centre]; rfl

/-- **silence stays silent**, for every state of the panning parameter. -/
theorem C13_panning_silence_to_silence (s : PanningControl ℝ) (n : ℕ) (dt : ℝ) (info : Info ℝ) :
    (s.process (silence n) dt info).2 = silence n := by
  unfold PanningControl.process silence
  simp only [List.length_replicate]
  refine (frameLoop_zero PanningControl.body (fun _ => True) ?_ n 0 n _ trivial).2
  intro t s _
  refine ⟨trivial, ?_⟩
  simp only [PanningControl.body, panned_gains]
  ext <;> simp

/-- **defined**: for *every* panning value (the code clamps to [-1, 1]) both square-root
    arguments of `Frame::panned` lie in [0, 1]. -/
theorem C13_panning_defined (p : ℝ) :
    0 ≤ (clamp p (-1) 1 + 1) * (1 / 2) ∧ (clamp p (-1) 1 + 1) * (1 / 2) ≤ 1
      ∧ 0 ≤ 1 - (clamp p (-1) 1 + 1) * (1 / 2) ∧ 1 - (clamp p (-1) 1 + 1) * (1 / 2) ≤ 1 := by
  have hc := clamp_mem p (-(1 : ℝ)) (1 : ℝ) (by norm_num)
  refine ⟨?_, ?_, ?_, ?_⟩ <;> linarith [hc.1, hc.2]

/-- **linear**: at rest, the panning control is additive and homogeneous in its input. -/
theorem C13_panning_linear (s : PanningControl ℝ) (h : s.Stagnant) (xs ys : List (Frame ℝ)) (c : ℝ)
    (dt : ℝ) (info : Info ℝ) :
    (s.process (sigAdd xs ys) dt info).2 = sigAdd (s.process xs dt info).2 (s.process ys dt info).2
      ∧ (s.process (sigSmul c xs) dt info).2 = sigSmul c (s.process xs dt info).2 := by
  simp only [PanningControl.process_stagnant s h]
  constructor
  · apply sigAdd_map
    intro a b; simp only [panned_gains]; ext <;> simp <;> ring
  · apply sigSmul_map
    intro a; simp only [panned_gains]; ext <;> simp <;> ring

/-- **chunk-free**: at rest, one call on `xs ++ ys` equals a call on `xs` followed by one on `ys`. -/
theorem C13_panning_chunk_free (s : PanningControl ℝ) (h : s.Stagnant) (xs ys : List (Frame ℝ))
    (dt : ℝ) (info : Info ℝ) :
    s.process (xs ++ ys) dt info
      = (((s.process xs dt info).1.process ys dt info).1,
         (s.process xs dt info).2 ++ ((s.process xs dt info).1.process ys dt info).2) := by
  rw [PanningControl.process_stagnant s h, PanningControl.process_stagnant s h]
  simp only
  rw [PanningControl.process_stagnant _ (PanningControl.settle_stagnant s h)]
  simp [PanningControl.settle]

/-! ## filter -/

/-- the integrator pair of a filter -/
def Filter.ic (s : Filter ℝ) : Frame ℝ × Frame ℝ := (s.ic1eq, s.ic2eq)

/-- **dry is identity**: with the mix resting at 0 (or below: it is clamped) the filter returns
    its input unchanged, whatever its mode, cutoff, resonance and integrator state. -/
theorem C13_filter_dry_is_identity (s : Filter ℝ) (h : s.Stagnant) (h0 : s.mix.raw ≤ 0)
    (xs : List (Frame ℝ)) (dt : ℝ) (info : Info ℝ) : (s.process xs dt info).2 = xs := by
  rw [Filter.process_stagnant s h]
  apply runTick_out_id
  intro v f
  simp only [Filter.tickV, Filter.tick, clamp01_of_le_zero _ h0, dryWet_dry]

/-- **silence stays silent** from the cleared state (integrators 0), for *every* state of the
    parameters (tweening, modulated or at rest), every mode, `dt` and `Info`; the integrators
    stay cleared. -/
theorem C13_filter_silence_to_silence (s : Filter ℝ) (h1 : s.ic1eq = 0) (h2 : s.ic2eq = 0)
    (n : ℕ) (dt : ℝ) (info : Info ℝ) :
    (s.process (silence n) dt info).2 = silence n
      ∧ (s.process (silence n) dt info).1.ic1eq = 0 ∧ (s.process (silence n) dt info).1.ic2eq = 0 := by
  unfold Filter.process silence
  simp only [List.length_replicate]
  have := frameLoop_zero (Filter.body dt) (fun s => s.ic1eq = 0 ∧ s.ic2eq = 0) ?_ n 0 n
    ({ s with
        cutoff := (s.cutoff.update tw64 (chunkDt dt n) info).1
        resonance := (s.resonance.update tw64 (chunkDt dt n) info).1
        mix := (s.mix.update tw32 (chunkDt dt n) info).1 } : Filter ℝ) ⟨h1, h2⟩
  · exact ⟨this.2, this.1.1, this.1.2⟩
  · intro t s ⟨a, b⟩
    simp only [Filter.body, Filter.tick, svfTick_real, dryWet_real, a, b]
    refine ⟨⟨?_, ?_⟩, ?_⟩
    · ext <;> simp
    · ext <;> simp
    · cases s.mode <;> (ext <;> simp [Filter.modeOutput])

/-- the filter's `g = tan(π · clamp(cutoff / sample_rate, 0.0001, 0.5))` -/
noncomputable def Filter.g (cutoff dt : ℝ) : ℝ :=
  Real.tan (Real.pi * clamp (cutoff / (1 / dt)) (1 / 10000) (1 / 2))

theorem Filter.coefs_real (cutoff resonance dt : ℝ) :
    Filter.coefs cutoff resonance dt =
      { k := 2 - 19 / 10 * resonance
        a1 := 1 / (1 + Filter.g cutoff dt * (Filter.g cutoff dt + (2 - 19 / 10 * resonance)))
        a2 := Filter.g cutoff dt * (1 / (1 + Filter.g cutoff dt * (Filter.g cutoff dt + (2 - 19 / 10 * resonance))))
        a3 := Filter.g cutoff dt * (Filter.g cutoff dt * (1 / (1 + Filter.g cutoff dt * (Filter.g cutoff dt + (2 - 19 / 10 * resonance))))) } := by
  unfold Filter.coefs Filter.g
  simp only [lit_1, lit_2, lit_half, litA_1e_4, litA_1_9, tan_real, pi_real]

/-- **defined**: for every cutoff (any real: it is clamped), every resonance (clamped to [0,1]),
    every mix (clamped) and every positive `dt` with the clamped relative cutoff below Nyquist
    (`cutoff · dt < 1/2`; at the clamp edge `tan(π/2)` is 1.6·10¹⁶ in floating point):
    `g > 0`, the damping `k` lies in [0.1, 2], the only denominator `1 + g(g+k)` is ≥ 1, hence
    `0 < a1 ≤ 1`, and both square-root arguments of the wet/dry blend lie in [0, 1]. -/
theorem C13_filter_defined (cutoff resonance mix dt : ℝ) (hdt : 0 < dt) (hny : cutoff * dt < 1 / 2) :
    let g := Filter.g cutoff dt
    let k := (Filter.coefs cutoff (clamp resonance (0.0 : ℝ) (1.0 : ℝ)) dt).k
    0 < g ∧ 1 / 10 ≤ k ∧ k ≤ 2 ∧ 1 ≤ 1 + g * (g + k)
      ∧ 0 < (Filter.coefs cutoff (clamp resonance (0.0 : ℝ) (1.0 : ℝ)) dt).a1
      ∧ (Filter.coefs cutoff (clamp resonance (0.0 : ℝ) (1.0 : ℝ)) dt).a1 ≤ 1
      ∧ 0 ≤ clamp mix (0.0 : ℝ) (1.0 : ℝ) ∧ clamp mix (0.0 : ℝ) (1.0 : ℝ) ≤ 1
      ∧ 0 ≤ 1 - clamp mix (0.0 : ℝ) (1.0 : ℝ) ∧ 1 - clamp mix (0.0 : ℝ) (1.0 : ℝ) ≤ 1 := by
  intro g k
  have hr := clamp01_mem resonance
  have hk : k = 2 - 19 / 10 * clamp resonance (0.0 : ℝ) (1.0 : ℝ) := by
    simp only [k, Filter.coefs_real]
  have hcl := clamp_mem (cutoff / (1 / dt)) (1 / 10000 : ℝ) (1 / 2) (by norm_num)
  have hlt : clamp (cutoff / (1 / dt)) (1 / 10000 : ℝ) (1 / 2) < 1 / 2 := by
    have e : cutoff / (1 / dt) = cutoff * dt := by field_simp
    rw [e]; unfold clamp
    split
    · norm_num
    · split
      · rename_i h2; linarith
      · exact hny
  have hg : 0 < g := by
    apply Real.tan_pos_of_pos_of_lt_pi_div_two
    · have := Real.pi_pos; nlinarith [hcl.1]
    · have := Real.pi_pos; nlinarith [hlt]
  have hk1 : 1 / 10 ≤ k := by rw [hk]; linarith [hr.2]
  have hk2 : k ≤ 2 := by rw [hk]; linarith [hr.1]
  have hden : 1 ≤ 1 + g * (g + k) := by nlinarith
  have ha1 : (Filter.coefs cutoff (clamp resonance (0.0 : ℝ) (1.0 : ℝ)) dt).a1 = 1 / (1 + g * (g + k)) := by
    simp only [Filter.coefs_real, g, hk]
  refine ⟨hg, hk1, hk2, hden, ?_, ?_, (dryWet_args mix).1, (dryWet_args mix).2.1, (dryWet_args mix).2.2.1,
    (dryWet_args mix).2.2.2⟩
  · rw [ha1]; positivity
  · rw [ha1, div_le_one (by linarith)]; exact hden

/-- **linear**: at rest, `process` is additive and homogeneous in (integrator state, input):
    starting from the sum of two integrator states on the sum of two signals gives the sum of the
    outputs and ends in the sum of the final integrator states; likewise for scalar multiples. -/
theorem C13_filter_linear (s : Filter ℝ) (h : s.Stagnant) (v w : Frame ℝ × Frame ℝ)
    (xs ys : List (Frame ℝ)) (hlen : xs.length = ys.length) (c : ℝ) (dt : ℝ) (info : Info ℝ) :
    ((s.withState (v + w)).process (sigAdd xs ys) dt info).2
        = sigAdd ((s.withState v).process xs dt info).2 ((s.withState w).process ys dt info).2
      ∧ ((s.withState (v + w)).process (sigAdd xs ys) dt info).1.ic
        = ((s.withState v).process xs dt info).1.ic + ((s.withState w).process ys dt info).1.ic
      ∧ ((s.withState (c • v)).process (sigSmul c xs) dt info).2
        = sigSmul c ((s.withState v).process xs dt info).2
      ∧ ((s.withState (c • v)).process (sigSmul c xs) dt info).1.ic
        = c • ((s.withState v).process xs dt info).1.ic := by
  simp only [Filter.process_stagnant _ (Filter.withState_stagnant s _ h), Filter.tickV_withState]
  have ha := runTick_add (Filter.tickV s dt) (Filter.tickV_add s dt) v w xs ys hlen
  have hs := runTick_smul (Filter.tickV s dt) c (Filter.tickV_smul s dt c) v xs
  refine ⟨?_, ?_, ?_, ?_⟩
  · exact congrArg Prod.snd ha
  · exact congrArg Prod.fst ha
  · exact congrArg Prod.snd hs
  · exact congrArg Prod.fst hs

/-- **chunk-free**: at rest, one call on `xs ++ ys` equals a call on `xs` followed by one on `ys`
    (same final state — integrators and parameters — and concatenated output). -/
theorem C13_filter_chunk_free (s : Filter ℝ) (h : s.Stagnant) (xs ys : List (Frame ℝ))
    (dt : ℝ) (info : Info ℝ) :
    s.process (xs ++ ys) dt info
      = (((s.process xs dt info).1.process ys dt info).1,
         (s.process xs dt info).2 ++ ((s.process xs dt info).1.process ys dt info).2) := by
  rw [Filter.process_stagnant s h, Filter.process_stagnant s h]
  simp only
  rw [Filter.process_stagnant _ (Filter.withState_stagnant _ _ (Filter.settle_stagnant s h))]
  rw [runTick_append]
  rfl

/-! ## eq_filter -/

/-- the integrator pair of an EQ filter -/
def EqFilter.ic (s : EqFilter ℝ) : Frame ℝ × Frame ℝ := (s.ic1eq, s.ic2eq)

/-- **dry is identity**: with the gain resting at 0 dB all three kinds (bell, low shelf, high
    shelf) return their input unchanged, for every frequency, Q and integrator state. -/
theorem C13_eq_dry_is_identity (s : EqFilter ℝ) (h : s.Stagnant) (h0 : s.gain.raw = 0)
    (xs : List (Frame ℝ)) (dt : ℝ) (info : Info ℝ) : (s.process xs dt info).2 = xs := by
  rw [EqFilter.process_stagnant s h]
  apply runTick_out_id
  intro v f
  simp only [EqFilter.tickV, EqFilter.tick, h0, svfTick_real]
  cases s.kind <;> (ext <;> simp [EqCoefs.calculate])

/-- **silence stays silent** from the cleared state, for every state of the parameters. -/
theorem C13_eq_silence_to_silence (s : EqFilter ℝ) (h1 : s.ic1eq = 0) (h2 : s.ic2eq = 0)
    (n : ℕ) (dt : ℝ) (info : Info ℝ) :
    (s.process (silence n) dt info).2 = silence n
      ∧ (s.process (silence n) dt info).1.ic1eq = 0 ∧ (s.process (silence n) dt info).1.ic2eq = 0 := by
  unfold EqFilter.process silence
  simp only [List.length_replicate]
  have := frameLoop_zero (EqFilter.body dt) (fun s => s.ic1eq = 0 ∧ s.ic2eq = 0) ?_ n 0 n
    ({ s with
        frequency := (s.frequency.update tw64 (chunkDt dt n) info).1
        gain := (s.gain.update tw32 (chunkDt dt n) info).1
        q := (s.q.update tw64 (chunkDt dt n) info).1 } : EqFilter ℝ) ⟨h1, h2⟩
  · exact ⟨this.2, this.1.1, this.1.2⟩
  · intro t s ⟨a, b⟩
    simp only [EqFilter.body, EqFilter.tick, svfTick_real, a, b]
    refine ⟨⟨?_, ?_⟩, ?_⟩
    · ext <;> simp
    · ext <;> simp
    · ext <;> simp

/-- **linear**: at rest, `process` is additive and homogeneous in (integrator state, input). -/
theorem C13_eq_linear (s : EqFilter ℝ) (h : s.Stagnant) (v w : Frame ℝ × Frame ℝ)
    (xs ys : List (Frame ℝ)) (hlen : xs.length = ys.length) (c : ℝ) (dt : ℝ) (info : Info ℝ) :
    ((s.withState (v + w)).process (sigAdd xs ys) dt info).2
        = sigAdd ((s.withState v).process xs dt info).2 ((s.withState w).process ys dt info).2
      ∧ ((s.withState (v + w)).process (sigAdd xs ys) dt info).1.ic
        = ((s.withState v).process xs dt info).1.ic + ((s.withState w).process ys dt info).1.ic
      ∧ ((s.withState (c • v)).process (sigSmul c xs) dt info).2
        = sigSmul c ((s.withState v).process xs dt info).2
      ∧ ((s.withState (c • v)).process (sigSmul c xs) dt info).1.ic
        = c • ((s.withState v).process xs dt info).1.ic := by
  simp only [EqFilter.process_stagnant _ (EqFilter.withState_stagnant s _ h), EqFilter.tickV_withState]
  have ha := runTick_add (EqFilter.tickV s dt) (EqFilter.tickV_add s dt) v w xs ys hlen
  have hs := runTick_smul (EqFilter.tickV s dt) c (EqFilter.tickV_smul s dt c) v xs
  refine ⟨?_, ?_, ?_, ?_⟩
  · exact congrArg Prod.snd ha
  · exact congrArg Prod.fst ha
  · exact congrArg Prod.snd hs
  · exact congrArg Prod.fst hs

/-- **chunk-free**: at rest, one call on `xs ++ ys` equals a call on `xs` followed by one on `ys`. -/
theorem C13_eq_chunk_free (s : EqFilter ℝ) (h : s.Stagnant) (xs ys : List (Frame ℝ))
    (dt : ℝ) (info : Info ℝ) :
    s.process (xs ++ ys) dt info
      = (((s.process xs dt info).1.process ys dt info).1,
         (s.process xs dt info).2 ++ ((s.process xs dt info).1.process ys dt info).2) := by
  rw [EqFilter.process_stagnant s h, EqFilter.process_stagnant s h]
  simp only
  rw [EqFilter.process_stagnant _ (EqFilter.withState_stagnant _ _ (EqFilter.settle_stagnant s h))]
  rw [runTick_append]
  rfl

/-- **defined** (EQ): for every frequency (clamped), every Q (raised to `MIN_Q = 0.01`), every gain
    and every positive `dt` with `frequency · dt < 1/2`: the effective Q and `A = 10^(gain/40)` are
    positive (so `1/(q·A)`, `1/q`, `√A` and `/√A` are taken at positive arguments), and the SVF
    denominator `1 + g(g+k)` is > 1, i.e. `0 < a1 < 1`, for all three kinds. -/
theorem C13_eq_defined (kind : EqFilterKind) (frequency q gain dt : ℝ) (_hdt : 0 < dt)
    (hny : frequency * dt < 1 / 2) :
    0 < fmax q (eqMinQ : ℝ) ∧ 0 < (10 : ℝ) ^ (gain / 40) ∧ 0 < Real.sqrt ((10 : ℝ) ^ (gain / 40))
      ∧ 0 < fmax q (eqMinQ : ℝ) * (10 : ℝ) ^ (gain / 40)
      ∧ 0 < (EqCoefs.calculate kind frequency q gain dt).a1
      ∧ (EqCoefs.calculate kind frequency q gain dt).a1 < 1 := by
  have hq : 0 < fmax q (eqMinQ : ℝ) := by
    rw [fmax_real]; unfold eqMinQ
    exact lt_of_lt_of_le (by norm_num) (le_max_right _ _)
  have ha : 0 < (10 : ℝ) ^ (gain / 40) := Real.rpow_pos_of_pos (by norm_num) _
  have hsa : 0 < Real.sqrt ((10 : ℝ) ^ (gain / 40)) := Real.sqrt_pos.mpr ha
  have hcl := clamp_mem (frequency * dt) (1 / 10000 : ℝ) (1 / 2) (by norm_num)
  have hlt : clamp (frequency * dt) (1 / 10000 : ℝ) (1 / 2) < 1 / 2 := by
    unfold clamp
    split
    · norm_num
    · split
      · rename_i h2; linarith
      · exact hny
  have ht : 0 < Real.tan (Real.pi * clamp (frequency * dt) (1 / 10000 : ℝ) (1 / 2)) := by
    apply Real.tan_pos_of_pos_of_lt_pi_div_two
    · have := Real.pi_pos; nlinarith [hcl.1]
    · have := Real.pi_pos; nlinarith [hlt]
  have key : ∀ g k : ℝ, 0 < g → 0 < k → 0 < 1 / (1 + g * (g + k)) ∧ 1 / (1 + g * (g + k)) < 1 := by
    intro g k hg hk
    have : 0 < g * (g + k) := by positivity
    constructor
    · positivity
    · rw [div_lt_one (by linarith)]; linarith
  refine ⟨hq, ha, hsa, by positivity, ?_⟩
  set Q := fmax q (eqMinQ : ℝ) with hQ
  set A := (10 : ℝ) ^ (gain / 40) with hA
  set T := Real.tan (Real.pi * clamp (frequency * dt) (1 / 10000 : ℝ) (1 / 2)) with hT
  cases kind
  · have := key T (1 / (Q * A)) ht (by positivity)
    simpa only [EqCoefs.calculate, lit_1, lit_10, litA_40, litA_1e_4, lit_half, pow_real, tan_real, pi_real,
      sqrt_real, ← hQ, ← hA, ← hT] using this
  · have := key (T / Real.sqrt A) (1 / Q) (by positivity) (by positivity)
    simpa only [EqCoefs.calculate, lit_1, lit_10, litA_40, litA_1e_4, lit_half, pow_real, tan_real, pi_real,
      sqrt_real, ← hQ, ← hA, ← hT] using this
  · have := key (T * Real.sqrt A) (1 / Q) (by positivity) (by positivity)
    simpa only [EqCoefs.calculate, lit_1, lit_10, litA_40, litA_1e_4, lit_half, pow_real, tan_real, pi_real,
      sqrt_real, ← hQ, ← hA, ← hT] using this

/-! ## distortion

  The wet path divides by the linear drive `10^(dB/20)`, which `Decibels::as_amplitude` turns into
  exactly 0 at −60 dB and below: there the code computes `0/0` (NaN) and `NaN · √0` poisons even
  the fully dry output (finding `dist_silent_drive`). Over ℝ `0/0 = 0` would hide this, so every
  distortion theorem carries the hypothesis `-60 < drive` explicitly. -/

/-- **dry is identity**: with the mix resting at 0 (or below) the distortion returns its input,
    for both kinds and every drive above −60 dB. -/
theorem C13_dist_dry_is_identity (s : Distortion ℝ) (h : s.Stagnant) (_hd : -60 < s.drive.raw)
    (h0 : s.mix.raw ≤ 0) (xs : List (Frame ℝ)) (dt : ℝ) (info : Info ℝ) :
    (s.process xs dt info).2 = xs := by
  rw [Distortion.process_stagnant s h]
  simp only
  conv_rhs => rw [← List.map_id xs]
  apply List.map_congr_left
  intro f _
  simp only [Distortion.tick, clamp01_of_le_zero _ h0, dryWet_dry, id]

/-- **dry is identity** (hard clip at unity): fully wet hard clipping at 0 dB drive returns every
    signal that stays within full scale (|sample| ≤ 1) unchanged. -/
theorem C13_dist_dry_is_identity_hardclip (s : Distortion ℝ) (h : s.Stagnant) (hk : s.kind = .hardClip)
    (hd : s.drive.raw = 0) (h1 : 1 ≤ s.mix.raw) (xs : List (Frame ℝ))
    (hx : ∀ f ∈ xs, |f.left| ≤ 1 ∧ |f.right| ≤ 1) (dt : ℝ) (info : Info ℝ) :
    (s.process xs dt info).2 = xs := by
  rw [Distortion.process_stagnant s h]
  simp only
  conv_rhs => rw [← List.map_id xs]
  apply List.map_congr_left
  intro f hf
  obtain ⟨hl, hr⟩ := hx f hf
  have cl : ∀ x : ℝ, |x| ≤ 1 → clamp x (-1 : ℝ) (1 : ℝ) = x := by
    intro x hx
    have := abs_le.mp hx
    unfold clamp
    have h1 : ¬ x < -1 := not_lt.mpr this.1
    have h2 : ¬ 1 < x := not_lt.mpr this.2
    simp [h1, h2]
  have h10 : feq (1 : ℝ) (0.0 : ℝ) = false := by simp
  simp only [Distortion.tick, clamp01_of_ge_one _ h1, dryWet_wet, hd, C19_amp_zero_db, hk, Distortion.wet,
    Distortion.shape, id, h10, Bool.false_eq_true, if_false]
  ext
  · simp only [Frame.fdivs_left, Frame.fscale_left, lit_1, mul_one, div_one]; exact cl _ hl
  · simp only [Frame.fdivs_right, Frame.fscale_right, lit_1, mul_one, div_one]; exact cl _ hr

/-- **silence stays silent** (drive above −60 dB, parameters at rest, both kinds, every mix). -/
theorem C13_dist_silence_to_silence (s : Distortion ℝ) (h : s.Stagnant) (_hd : -60 < s.drive.raw)
    (n : ℕ) (dt : ℝ) (info : Info ℝ) : (s.process (silence n) dt info).2 = silence n := by
  rw [Distortion.process_stagnant s h]
  simp only [silence, List.map_replicate]
  congr 1
  simp only [Distortion.tick, Distortion.wet, dryWet_real]
  split
  · ext <;> simp
  · cases s.kind <;> (ext <;> simp [Distortion.shape, clamp] <;> norm_num)

/-- **defined**: above −60 dB the linear drive (the divisor of the wet path) is positive; the
    soft-clip denominator `1 + |x|` is ≥ 1; both square-root arguments of the blend lie in [0, 1]. -/
theorem C13_dist_defined (db x mix : ℝ) (hd : -60 < db) :
    0 < asAmplitude db ∧ 1 ≤ 1 + |x|
      ∧ 0 ≤ clamp mix (0.0 : ℝ) (1.0 : ℝ) ∧ clamp mix (0.0 : ℝ) (1.0 : ℝ) ≤ 1
      ∧ 0 ≤ 1 - clamp mix (0.0 : ℝ) (1.0 : ℝ) ∧ 1 - clamp mix (0.0 : ℝ) (1.0 : ℝ) ≤ 1 := by
  refine ⟨?_, by linarith [abs_nonneg x], dryWet_args mix⟩
  rw [C19_amp_formula db hd]; positivity

/-- the excluded point is real: at −60 dB and below the divisor is exactly 0. -/
theorem C13_dist_divisor_zero_at_silence (db : ℝ) (hd : db ≤ -60) : asAmplitude db = 0 :=
  C19_amp_silence db hd

/-- **chunk-free**: at rest, one call on `xs ++ ys` equals a call on `xs` followed by one on `ys`. -/
theorem C13_dist_chunk_free (s : Distortion ℝ) (h : s.Stagnant) (xs ys : List (Frame ℝ))
    (dt : ℝ) (info : Info ℝ) :
    s.process (xs ++ ys) dt info
      = (((s.process xs dt info).1.process ys dt info).1,
         (s.process xs dt info).2 ++ ((s.process xs dt info).1.process ys dt info).2) := by
  rw [Distortion.process_stagnant s h, Distortion.process_stagnant s h]
  simp only
  rw [Distortion.process_stagnant _ (Distortion.settle_stagnant s h)]
  simp [Distortion.settle]

/-! ## compressor

  `1.0 / ratio` with `ratio = 0` used to be `+inf`, and `0 · inf = NaN` reached the output on the first
  frame (defect `comp-ratio-zero-nan`, repaired: a ratio of exactly 0 now has slope 0, like a ratio of 1 —
  `Compressor.slope`); the theorems hold for EVERY ratio. -/

/-- the envelope pair of a compressor -/
def Compressor.env (s : Compressor ℝ) : ℝ × ℝ := (s.envL, s.envR)

/-- **dry is identity**: with the mix resting at 0 (or below) the compressor returns its input. -/
theorem C13_comp_dry_is_identity (s : Compressor ℝ) (h : s.Stagnant)
    (h0 : s.mix.raw ≤ 0) (xs : List (Frame ℝ)) (dt : ℝ) (info : Info ℝ) :
    (s.process xs dt info).2 = xs := by
  rw [Compressor.process_stagnant s h]
  apply runTick_out_id
  intro v f
  simp only [Compressor.tickV, Compressor.tick, clamp01_of_le_zero _ h0, dryWet_dry]

/-- **silence stays silent** from the cleared state (envelopes 0), and the envelopes stay 0. -/
theorem C13_comp_silence_to_silence (s : Compressor ℝ) (h : s.Stagnant)
    (h1 : s.envL = 0) (h2 : s.envR = 0) (n : ℕ) (dt : ℝ) (info : Info ℝ) :
    (s.process (silence n) dt info).2 = silence n ∧ (s.process (silence n) dt info).1.env = (0, 0) := by
  rw [Compressor.process_stagnant s h, h1, h2]
  have hz : Compressor.tickV s dt (0, 0) 0 = ((0, 0), 0) := by
    simp only [Compressor.tickV, Compressor.tick, Compressor.overDecibels, Compressor.follow, dryWet_real]
    refine Prod.ext (Prod.ext ?_ ?_) ?_
    · simp
    · simp
    · ext <;> simp
  have := runTick_zero (Compressor.tickV s dt) ((0, 0) : ℝ × ℝ) hz n
  unfold silence
  rw [this]
  exact ⟨rfl, rfl⟩

/-- **defined**: for `dt > 0`: a non-zero sample has a positive magnitude (the argument of
    `log10`; a zero sample never reaches it); a positive attack/release time gives a positive
    divisor `duration / dt` and a smoothing factor strictly between 0 and 1, a zero duration gives
    factor 0; both square-root arguments of the blend lie in [0, 1]; and for ANY ratio the gain slope
    is defined: `1/ratio − 1` with a non-zero divisor when `ratio ≠ 0`, and 0 when `ratio = 0` (the
    division is not evaluated). -/
theorem C13_comp_defined (x mix dt : ℝ) (D : ℕ) (hdt : 0 < dt) :
    (x ≠ 0 → 0 < |x|)
      ∧ (0 < D → 0 < (durToSecs D : ℝ) / dt ∧ 0 < Compressor.speed D dt ∧ Compressor.speed D dt < 1)
      ∧ Compressor.speed 0 dt = 0
      ∧ (∀ ratio : ℝ, (ratio ≠ 0 → Compressor.slope ratio = 1 / ratio - 1) ∧ (ratio = 0 → Compressor.slope ratio = 0))
      ∧ 0 ≤ clamp mix (0.0 : ℝ) (1.0 : ℝ) ∧ clamp mix (0.0 : ℝ) (1.0 : ℝ) ≤ 1
      ∧ 0 ≤ 1 - clamp mix (0.0 : ℝ) (1.0 : ℝ) ∧ 1 - clamp mix (0.0 : ℝ) (1.0 : ℝ) ≤ 1 := by
  refine ⟨fun hx => abs_pos.mpr hx, ?_, by simp [Compressor.speed],
    fun ratio => ⟨Compressor.slope_of_ne_zero ratio, fun h => by rw [h, Compressor.slope_zero]⟩, dryWet_args mix⟩
  intro hD
  have hs : 0 < (durToSecs D : ℝ) := durToSecs_pos D hD
  have hq : 0 < (durToSecs D : ℝ) / dt := by positivity
  have hD0 : D ≠ 0 := Nat.pos_iff_ne_zero.mp hD
  refine ⟨hq, ?_, ?_⟩
  · simp only [Compressor.speed, hD0, if_false, exp_real]; exact Real.exp_pos _
  · simp only [Compressor.speed, hD0, if_false, exp_real, lit_1]
    have : 0 < 1 / ((durToSecs D : ℝ) / dt) := by positivity
    have e : -1 / ((durToSecs D : ℝ) / dt) = -(1 / ((durToSecs D : ℝ) / dt)) := by ring
    have hneg : -1 / ((durToSecs D : ℝ) / dt) < 0 := by rw [e]; linarith
    calc Real.exp (-1 / ((durToSecs D : ℝ) / dt)) < Real.exp 0 := Real.exp_lt_exp.mpr hneg
      _ = 1 := Real.exp_zero

/-- **chunk-free**: at rest, one call on `xs ++ ys` equals a call on `xs` followed by one on `ys`
    (same envelopes, same parameters, concatenated output). -/
theorem C13_comp_chunk_free (s : Compressor ℝ) (h : s.Stagnant) (xs ys : List (Frame ℝ))
    (dt : ℝ) (info : Info ℝ) :
    s.process (xs ++ ys) dt info
      = (((s.process xs dt info).1.process ys dt info).1,
         (s.process xs dt info).2 ++ ((s.process xs dt info).1.process ys dt info).2) := by
  rw [Compressor.process_stagnant s h, Compressor.process_stagnant s h]
  simp only
  rw [Compressor.process_stagnant _ (Compressor.withState_stagnant _ _ (Compressor.settle_stagnant s h))]
  rw [runTick_append]
  rfl

/-! ## every partition

  `procChunks proc s [c₁, …, cₙ]` calls `process` once per slice. For parameters at rest the result
  (final state and concatenated output) equals one call on the whole signal — for every number
  and size of slices, empty ones included. -/

/-- **partition-free** (volume_control) -/
theorem C13_volume_partition_free (s : VolumeControl ℝ) (h : s.Stagnant) (c : List (Frame ℝ))
    (cs : List (List (Frame ℝ))) (dt : ℝ) (info : Info ℝ) :
    procChunks (fun s xs => VolumeControl.process s xs dt info) s (c :: cs)
      = s.process (c :: cs).flatten dt info :=
  procChunks_of_pair _ VolumeControl.Stagnant
    (fun s xs hs => by rw [VolumeControl.process_stagnant s hs]; exact hs)
    (fun s xs ys hs => C13_volume_chunk_free s hs xs ys dt info) s h c cs

/-- **partition-free** (panning_control) -/
theorem C13_panning_partition_free (s : PanningControl ℝ) (h : s.Stagnant) (c : List (Frame ℝ))
    (cs : List (List (Frame ℝ))) (dt : ℝ) (info : Info ℝ) :
    procChunks (fun s xs => PanningControl.process s xs dt info) s (c :: cs)
      = s.process (c :: cs).flatten dt info :=
  procChunks_of_pair _ PanningControl.Stagnant
    (fun s xs hs => by rw [PanningControl.process_stagnant s hs]; exact hs)
    (fun s xs ys hs => C13_panning_chunk_free s hs xs ys dt info) s h c cs

/-- **partition-free** (filter) -/
theorem C13_filter_partition_free (s : Filter ℝ) (h : s.Stagnant) (c : List (Frame ℝ))
    (cs : List (List (Frame ℝ))) (dt : ℝ) (info : Info ℝ) :
    procChunks (fun s xs => Filter.process s xs dt info) s (c :: cs)
      = s.process (c :: cs).flatten dt info :=
  procChunks_of_pair _ Filter.Stagnant
    (fun s xs hs => by rw [Filter.process_stagnant s hs]; exact hs)
    (fun s xs ys hs => C13_filter_chunk_free s hs xs ys dt info) s h c cs

/-- **partition-free** (eq_filter) -/
theorem C13_eq_partition_free (s : EqFilter ℝ) (h : s.Stagnant) (c : List (Frame ℝ))
    (cs : List (List (Frame ℝ))) (dt : ℝ) (info : Info ℝ) :
    procChunks (fun s xs => EqFilter.process s xs dt info) s (c :: cs)
      = s.process (c :: cs).flatten dt info :=
  procChunks_of_pair _ EqFilter.Stagnant
    (fun s xs hs => by rw [EqFilter.process_stagnant s hs]; exact hs)
    (fun s xs ys hs => C13_eq_chunk_free s hs xs ys dt info) s h c cs

/-- **partition-free** (distortion) -/
theorem C13_dist_partition_free (s : Distortion ℝ) (h : s.Stagnant) (c : List (Frame ℝ))
    (cs : List (List (Frame ℝ))) (dt : ℝ) (info : Info ℝ) :
    procChunks (fun s xs => Distortion.process s xs dt info) s (c :: cs)
      = s.process (c :: cs).flatten dt info :=
  procChunks_of_pair _ Distortion.Stagnant
    (fun s xs hs => by rw [Distortion.process_stagnant s hs]; exact hs)
    (fun s xs ys hs => C13_dist_chunk_free s hs xs ys dt info) s h c cs

/-- **partition-free** (compressor) -/
theorem C13_comp_partition_free (s : Compressor ℝ) (h : s.Stagnant) (c : List (Frame ℝ))
    (cs : List (List (Frame ℝ))) (dt : ℝ) (info : Info ℝ) :
    procChunks (fun s xs => Compressor.process s xs dt info) s (c :: cs)
      = s.process (c :: cs).flatten dt info :=
  procChunks_of_pair _ Compressor.Stagnant
    (fun s xs hs => by rw [Compressor.process_stagnant s hs]; exact hs)
    (fun s xs ys hs => C13_comp_chunk_free s hs xs ys dt info) s h c cs

/-! ## the hypotheses are satisfiable

  Effects built by their builders with fixed values have all parameters at rest; the domain
  hypotheses hold for the builders' defaults. -/

example (v : ℝ) : (VolumeControl.new (.fixed v) : VolumeControl ℝ).Stagnant := rfl
example (v : ℝ) : (PanningControl.new (.fixed v) : PanningControl ℝ).Stagnant := rfl
example (m : FilterMode) (c r x : ℝ) : (Filter.new m (.fixed c) (.fixed r) (.fixed x) : Filter ℝ).Stagnant :=
  ⟨rfl, rfl, rfl⟩
example (m : FilterMode) (c r x : ℝ) :
    (Filter.new m (.fixed c) (.fixed r) (.fixed x) : Filter ℝ).ic1eq = 0
      ∧ (Filter.new m (.fixed c) (.fixed r) (.fixed x) : Filter ℝ).ic2eq = 0 :=
  ⟨Frame.zero_eq, Frame.zero_eq⟩
example (k : EqFilterKind) (f g q : ℝ) : (EqFilter.new k (.fixed f) (.fixed g) (.fixed q) : EqFilter ℝ).Stagnant :=
  ⟨rfl, rfl, rfl⟩
example (k : DistortionKind) (d x : ℝ) : (Distortion.new k (.fixed d) (.fixed x) : Distortion ℝ).Stagnant :=
  ⟨rfl, rfl⟩
example : (-60 : ℝ) < (Distortion.new .hardClip (.fixed 0) (.fixed 1) : Distortion ℝ).drive.raw := by
  simp [Distortion.new]
example (t r m x : ℝ) (a l : ℕ) :
    (Compressor.new (.fixed t) (.fixed r) (.fixed a) (.fixed l) (.fixed m) (.fixed x) : Compressor ℝ).Stagnant :=
  ⟨rfl, rfl, rfl, rfl, rfl, rfl⟩
/-- the default filter at 48 kHz meets the premises of `C13_filter_defined` -/
example : (0 : ℝ) < 1 / 48000 ∧ (1000 : ℝ) * (1 / 48000) < 1 / 2 := by norm_num
/-- after a tween has landed the parameter is at rest again (C06), so the laws apply from then on -/
example (p : Parameter ℝ ℝ) (tgt : ℝ) (hp : Parameter.Landed p tgt) : p.Stagnant := hp.2.1

end K

namespace K

/-! ## filter: stability of the state-variable core (energy argument, parameters at rest)

`svfEnergy v` is the sum of the squares of the four integrator numbers (ic1eq, ic2eq; left, right),
`frameSq x = x.left² + x.right²`, `svfV1 g k v x` is the band-pass tap `v1` the tick computes.
`Filter.tickV s dt` is the per-frame transition `process` folds over the input
(`Filter.process_stagnant`), i.e. `Filter.tick` with the resting parameter values. -/

/-- the damping `k = 2 − 1.9·clamp(resonance, 0, 1)` of a filter at rest -/
noncomputable def Filter.kRest (s : Filter ℝ) : ℝ :=
  2 - 19 / 10 * clamp s.resonance.raw (0.0 : ℝ) (1.0 : ℝ)

theorem Filter.kRest_pos (s : Filter ℝ) : 0 < s.kRest := by
  have := (clamp01_mem s.resonance.raw).2
  unfold Filter.kRest; linarith

/-- the state part of the model's tick is `svfStep` at the model's own `g` and `k` -/
theorem Filter.tickV_state (s : Filter ℝ) (dt : ℝ) (v : Frame ℝ × Frame ℝ) (f : Frame ℝ) :
    (Filter.tickV s dt v f).1 = svfStep (Filter.g s.cutoff.raw dt) s.kRest v f := by
  simp only [Filter.tickV, Filter.tick, Filter.coefs_real, svfStep, Filter.kRest]

/-- **zero-input energy decay, one tick**: with `g > 0` (true below Nyquist, `C13_filter_defined`;
    `k ≥ 0.1` always) a silent input frame lowers the integrator energy `ic1eq² + ic2eq²` (both
    channels) by exactly `4·g·k·|v1|²`; so it never grows, and it drops strictly unless
    `ic1eq = g·ic2eq` in both channels (the line on which the band-pass tap is 0). -/
theorem C13_svf_zero_input_energy_decay (s : Filter ℝ) (dt : ℝ) (hg : 0 < Filter.g s.cutoff.raw dt)
    (v : Frame ℝ × Frame ℝ) :
    svfEnergy (Filter.tickV s dt v 0).1
        = svfEnergy v - 4 * Filter.g s.cutoff.raw dt * s.kRest
            * frameSq (svfV1 (Filter.g s.cutoff.raw dt) s.kRest v 0)
      ∧ svfEnergy (Filter.tickV s dt v 0).1 ≤ svfEnergy v
      ∧ (¬ (v.1.left = Filter.g s.cutoff.raw dt * v.2.left ∧ v.1.right = Filter.g s.cutoff.raw dt * v.2.right)
          → svfEnergy (Filter.tickV s dt v 0).1 < svfEnergy v) := by
  have hk := s.kRest_pos
  rw [Filter.tickV_state, svfStep_energy_zero _ _ hg hk]
  have hnn := frameSq_nonneg (svfV1 (Filter.g s.cutoff.raw dt) s.kRest v 0)
  have hgk : 0 < 4 * Filter.g s.cutoff.raw dt * s.kRest := by positivity
  refine ⟨rfl, by nlinarith, fun hne => ?_⟩
  have hpos : 0 < frameSq (svfV1 (Filter.g s.cutoff.raw dt) s.kRest v 0) := by
    rcases lt_or_eq_of_le hnn with h | h
    · exact h
    · exact absurd ((svfV1_zero_eq_zero_iff _ _ hg hk v).1 h.symm) hne
  nlinarith

/-- **zero-input boundedness for ever**: from any integrator state, after any number of silent
    frames the integrator energy is at most the initial one — hence each of the four integrator
    numbers stays within `√(initial energy)` for ever (stated with squares). -/
theorem C13_svf_zero_input_bounded (s : Filter ℝ) (dt : ℝ) (hg : 0 < Filter.g s.cutoff.raw dt)
    (v : Frame ℝ × Frame ℝ) (n : ℕ) :
    let w := (runTick (Filter.tickV s dt) v (silence n)).1
    svfEnergy w ≤ svfEnergy v
      ∧ w.1.left ^ 2 ≤ svfEnergy v ∧ w.2.left ^ 2 ≤ svfEnergy v
      ∧ w.1.right ^ 2 ≤ svfEnergy v ∧ w.2.right ^ 2 ≤ svfEnergy v := by
  intro w
  have hE : svfEnergy w ≤ svfEnergy v :=
    runTick_silence_energy_le (Filter.tickV s dt) svfEnergy
      (fun u => (C13_svf_zero_input_energy_decay s dt hg u).2.1) n v
  have hc := svfEnergy_components w
  exact ⟨hE, le_trans hc.1 hE, le_trans hc.2.1 hE, le_trans hc.2.2.1 hE, le_trans hc.2.2.2 hE⟩

/-- the same through `process` itself: a filter at rest fed `n` silent frames (in one call; by
    `C13_filter_chunk_free` in any slicing) ends with integrator energy at most the initial one. -/
theorem C13_svf_zero_input_process_bounded (s : Filter ℝ) (h : s.Stagnant) (dt : ℝ) (info : Info ℝ)
    (hg : 0 < Filter.g s.cutoff.raw dt) (n : ℕ) :
    svfEnergy (Filter.ic (s.process (silence n) dt info).1) ≤ svfEnergy (Filter.ic s) := by
  rw [Filter.process_stagnant s h]
  exact (C13_svf_zero_input_bounded s dt hg (s.ic1eq, s.ic2eq) n).1

/-- **energy gain per tick**: for every input frame `E' ≤ E + (g/k)·|x|²`, and summed over a run
    with `|x|² ≤ B2`: `E ≤ E₀ + (g/k)·n·B2` (sharper than the uniform bound of
    `C13_svf_bounded_input_bounded_state` for short runs). -/
theorem C13_svf_energy_gain_per_tick (s : Filter ℝ) (dt : ℝ) (hg : 0 < Filter.g s.cutoff.raw dt)
    (v : Frame ℝ × Frame ℝ) (xs : List (Frame ℝ)) (B2 : ℝ) (hB : ∀ x ∈ xs, frameSq x ≤ B2) :
    (∀ u x, svfEnergy (Filter.tickV s dt u x).1
        ≤ svfEnergy u + Filter.g s.cutoff.raw dt / s.kRest * frameSq x)
      ∧ svfEnergy (runTick (Filter.tickV s dt) v xs).1
        ≤ svfEnergy v + Filter.g s.cutoff.raw dt / s.kRest * (xs.length * B2) := by
  have hk := s.kRest_pos
  have hstep : ∀ u x, svfEnergy (Filter.tickV s dt u x).1
      ≤ svfEnergy u + Filter.g s.cutoff.raw dt / s.kRest * frameSq x := by
    intro u x
    rw [Filter.tickV_state]
    exact svfStep_energy_le _ _ hg hk u x
  refine ⟨hstep, ?_⟩
  have h1 := runTick_energy_le (Filter.tickV s dt) svfEnergy _ hstep xs v
  have h2 := sum_frameSq_le xs B2 hB
  have hc : 0 ≤ Filter.g s.cutoff.raw dt / s.kRest := by positivity
  nlinarith

theorem Filter.kRest_le_two (s : Filter ℝ) : s.kRest ≤ 2 := by
  have := (clamp01_mem s.resonance.raw).1
  unfold Filter.kRest; linarith

/-- **strict contraction**: the weighted energy `W = Σ_channels ic1eq² + ic2eq² + (k/2)·ic1eq·ic2eq`
    is positive definite (`½E ≤ W ≤ (3/2)E`) and every tick, for every input frame, gives
    `W' ≤ (1 − λ)·W + C·|x|²` with the explicit rate `λ = g·k/(6·K) ∈ (0, 1]`,
    `K = 3(1+gk)² + 3g² + 2`, and gain `C = 3g³k/(4K) + g(16/k + k)`; in particular with zero input
    `W' ≤ (1 − λ)·W`: geometric decay. -/
theorem C13_svf_strict_contraction (s : Filter ℝ) (dt : ℝ) (hg : 0 < Filter.g s.cutoff.raw dt) :
    let g := Filter.g s.cutoff.raw dt
    let k := s.kRest
    0 < svfLam g k ∧ svfLam g k ≤ 1 ∧ 0 ≤ svfC g k
      ∧ (∀ u, 1 / 2 * svfEnergy u ≤ svfW2 k u ∧ svfW2 k u ≤ 3 / 2 * svfEnergy u)
      ∧ (∀ u x, svfW2 k (Filter.tickV s dt u x).1 ≤ (1 - svfLam g k) * svfW2 k u + svfC g k * frameSq x)
      ∧ (∀ u, svfW2 k (Filter.tickV s dt u 0).1 ≤ (1 - svfLam g k) * svfW2 k u) := by
  intro g k
  have hk := s.kRest_pos
  have hk2 := s.kRest_le_two
  have hstep : ∀ u x, svfW2 k (Filter.tickV s dt u x).1 ≤ (1 - svfLam g k) * svfW2 k u + svfC g k * frameSq x := by
    intro u x
    rw [Filter.tickV_state]
    exact svfStep_lyap g k hg hk hk2 u x
  refine ⟨svfLam_pos g k hg hk, svfLam_le_one g k hg hk, svfC_nonneg g k hg hk,
    fun u => svfW2_bounds k u hk hk2, hstep, fun u => ?_⟩
  have h := hstep u 0
  have e : frameSq (0 : Frame ℝ) = 0 := by
    show (0 : ℝ) ^ 2 + (0 : ℝ) ^ 2 = 0
    norm_num
  rw [e, mul_zero, add_zero] at h
  exact h

/-- **bounded input, bounded state (BIBO for the integrators)**: if every input frame has
    `x.left² + x.right² ≤ B2` then for every run, of any length, from any integrator state,
    `E ≤ 3·E₀ + 2·(C/λ)·B2` — a bound independent of the run length (`E` the integrator energy,
    `λ`, `C` the explicit constants of `C13_svf_strict_contraction`). -/
theorem C13_svf_bounded_input_bounded_state (s : Filter ℝ) (dt : ℝ) (hg : 0 < Filter.g s.cutoff.raw dt)
    (v : Frame ℝ × Frame ℝ) (xs : List (Frame ℝ)) (B2 : ℝ) (hB2 : 0 ≤ B2)
    (hB : ∀ x ∈ xs, frameSq x ≤ B2) :
    svfEnergy (runTick (Filter.tickV s dt) v xs).1
      ≤ 3 * svfEnergy v
        + 2 * (svfC (Filter.g s.cutoff.raw dt) s.kRest / svfLam (Filter.g s.cutoff.raw dt) s.kRest) * B2 := by
  obtain ⟨hl0, hl1, hC, hW, hstep, -⟩ := C13_svf_strict_contraction s dt hg
  set lam := svfLam (Filter.g s.cutoff.raw dt) s.kRest with hlam
  set C := svfC (Filter.g s.cutoff.raw dt) s.kRest with hCdef
  have hE0 := svfEnergy_nonneg v
  have hq : 0 ≤ C / lam * B2 := by positivity
  have hmul : lam * (C / lam * B2) = C * B2 := by field_simp
  have hM : C * B2 ≤ lam * (3 / 2 * svfEnergy v + C / lam * B2) := by
    have : 0 ≤ lam * (3 / 2 * svfEnergy v) := by positivity
    nlinarith
  have hfin := runTick_contract (Filter.tickV s dt) (svfW2 s.kRest) lam C B2
    (3 / 2 * svfEnergy v + C / lam * B2) hl1 hC hM hstep xs hB v (by linarith [(hW v).2])
  have hlow := (hW (runTick (Filter.tickV s dt) v xs).1).1
  linarith

/-- the per-mode constant of `C13_svf_output_bounded` -/
def svfModeConst : FilterMode → ℝ
  | .lowPass => 8
  | .bandPass => 3
  | .highPass => 63
  | .notch => 26

/-- **outputs are bounded by state and input**: for every integrator state and input frame the
    output frame of one tick (the mode's tap, blended with the dry input by the clamped mix)
    satisfies `|out|² ≤ c·(E + |x|²) + |x|²` with `c` = 8 (low-pass), 3 (band-pass), 63 (high-pass),
    26 (notch) — squared sizes summed over both channels, `E` the integrator energy.  Together
    with `C13_svf_bounded_input_bounded_state`: bounded input gives bounded output for ever. -/
theorem C13_svf_output_bounded (s : Filter ℝ) (dt : ℝ) (hg : 0 < Filter.g s.cutoff.raw dt)
    (v : Frame ℝ × Frame ℝ) (x : Frame ℝ) :
    frameSq (Filter.tickV s dt v x).2 ≤ svfModeConst s.mode * (svfEnergy v + frameSq x) + frameSq x := by
  have hk := s.kRest_pos
  have hk2 := s.kRest_le_two
  have hD : (1 + Filter.g s.cutoff.raw dt * (Filter.g s.cutoff.raw dt + s.kRest)) ≠ 0 := by positivity
  have ha : 1 / (1 + Filter.g s.cutoff.raw dt * (Filter.g s.cutoff.raw dt + s.kRest))
      * (1 + Filter.g s.cutoff.raw dt * (Filter.g s.cutoff.raw dt + s.kRest)) = 1 := by field_simp
  have hl := svf_taps_sq _ _ _ v.1.left v.2.left x.left ha hg hk hk2
  have hr := svf_taps_sq _ _ _ v.1.right v.2.right x.right ha hg hk hk2
  have hm := clamp01_mem s.mix.raw
  unfold Filter.kRest at hl hr
  unfold Filter.tickV Filter.tick frameSq svfEnergy
  simp only [Filter.coefs_real, svfTick_real, dryWet_real]
  cases s.mode
  all_goals
    simp only [Filter.modeOutput, svfModeConst, Frame.sub, Frame.scale, r32_real]
    refine le_trans (add_le_add (svf_blend_sq _ _ _ hm.1 hm.2) (svf_blend_sq _ _ _ hm.1 hm.2)) ?_
    linarith [hl.1, hl.2.1, hl.2.2.1, hl.2.2.2, hr.1, hr.2.1, hr.2.2.1, hr.2.2.2]

theorem svfModeConst_nonneg (m : FilterMode) : 0 ≤ svfModeConst m := by
  cases m <;> simp [svfModeConst]

/-- **bounded input, bounded output, for ever**: if every input frame has `|x|² ≤ B2` then every
    output frame of the run — of any length, from any integrator state `v` — satisfies
    `|out|² ≤ c·(3·E₀ + 2·(C/λ)·B2 + B2) + B2`, with `c` the mode constant of
    `C13_svf_output_bounded` and `λ`, `C` those of `C13_svf_strict_contraction`. -/
theorem C13_svf_bibo (s : Filter ℝ) (dt : ℝ) (hg : 0 < Filter.g s.cutoff.raw dt)
    (v : Frame ℝ × Frame ℝ) (xs : List (Frame ℝ)) (B2 : ℝ) (hB2 : 0 ≤ B2)
    (hB : ∀ x ∈ xs, frameSq x ≤ B2) :
    ∀ o ∈ (runTick (Filter.tickV s dt) v xs).2,
      frameSq o ≤ svfModeConst s.mode
          * (3 * svfEnergy v
              + 2 * (svfC (Filter.g s.cutoff.raw dt) s.kRest / svfLam (Filter.g s.cutoff.raw dt) s.kRest) * B2
              + B2) + B2 := by
  obtain ⟨hl0, hl1, hC, hW, hstep, -⟩ := C13_svf_strict_contraction s dt hg
  set lam := svfLam (Filter.g s.cutoff.raw dt) s.kRest with hlam
  set C := svfC (Filter.g s.cutoff.raw dt) s.kRest with hCdef
  have hE0 := svfEnergy_nonneg v
  have hmul : lam * (C / lam * B2) = C * B2 := by field_simp
  have hM : C * B2 ≤ lam * (3 / 2 * svfEnergy v + C / lam * B2) := by
    have : 0 ≤ lam * (3 / 2 * svfEnergy v) := by positivity
    nlinarith
  have hq : 0 ≤ C / lam * B2 := by positivity
  have hc := svfModeConst_nonneg s.mode
  refine runTick_out_inv (Filter.tickV s dt)
    (fun u => svfW2 s.kRest u ≤ 3 / 2 * svfEnergy v + C / lam * B2) (fun x => frameSq x ≤ B2) _
    ?_ ?_ xs hB v (by linarith [(hW v).2])
  · intro u f hu hf
    have h1 := hstep u f
    have h3 : (1 - lam) * svfW2 s.kRest u ≤ (1 - lam) * (3 / 2 * svfEnergy v + C / lam * B2) :=
      mul_le_mul_of_nonneg_left hu (by linarith)
    have h4 : C * frameSq f ≤ C * B2 := mul_le_mul_of_nonneg_left hf hC
    linarith
  · intro u f hu hf
    have h1 := C13_svf_output_bounded s dt hg u f
    have h2 := (hW u).1
    have h3 : svfModeConst s.mode * (svfEnergy u + frameSq f)
        ≤ svfModeConst s.mode * (2 * (3 / 2 * svfEnergy v + C / lam * B2) + B2) :=
      mul_le_mul_of_nonneg_left (by linarith) hc
    have e : svfModeConst s.mode * (2 * (3 / 2 * svfEnergy v + C / lam * B2) + B2)
        = svfModeConst s.mode * (3 * svfEnergy v + 2 * (C / lam) * B2 + B2) := by ring
    linarith

/-- the same through `process` itself: a filter at rest (in one call; by `C13_filter_chunk_free` in
    any slicing) turns a bounded input into a bounded output, whatever its integrators held. -/
theorem C13_svf_bibo_process (s : Filter ℝ) (h : s.Stagnant) (dt : ℝ) (info : Info ℝ)
    (hg : 0 < Filter.g s.cutoff.raw dt) (xs : List (Frame ℝ)) (B2 : ℝ) (hB2 : 0 ≤ B2)
    (hB : ∀ x ∈ xs, frameSq x ≤ B2) :
    ∀ o ∈ (s.process xs dt info).2,
      frameSq o ≤ svfModeConst s.mode
          * (3 * svfEnergy (Filter.ic s)
              + 2 * (svfC (Filter.g s.cutoff.raw dt) s.kRest / svfLam (Filter.g s.cutoff.raw dt) s.kRest) * B2
              + B2) + B2 := by
  rw [Filter.process_stagnant s h]
  exact C13_svf_bibo s dt hg (s.ic1eq, s.ic2eq) xs B2 hB2 hB

/-- non-vacuity: a 1 kHz filter at 48 kHz with resonance 0.5 has `g > 0`, is at rest, and the
    bounded-input premise is met by a concrete signal -/
example : 0 < Filter.g (Filter.new .lowPass (.fixed 1000) (.fixed 0.5) (.fixed 1) : Filter ℝ).cutoff.raw (1 / 48000) :=
  (C13_filter_defined 1000 0.5 1 (1 / 48000) (by norm_num) (by norm_num)).1
example : ∀ x ∈ [(⟨1, -1⟩ : Frame ℝ), ⟨0, 1⟩], frameSq x ≤ 2 := by
  intro x hx
  simp only [List.mem_cons, List.not_mem_nil, or_false] at hx
  rcases hx with rfl | rfl <;> (unfold frameSq; norm_num)
/-- the strictness premise of the decay theorem is satisfiable -/
example : ¬ (((⟨1, 0⟩, ⟨0, 0⟩) : Frame ℝ × Frame ℝ).1.left = (1 / 2 : ℝ) * ((⟨1, 0⟩, ⟨0, 0⟩) : Frame ℝ × Frame ℝ).2.left
    ∧ ((⟨1, 0⟩, ⟨0, 0⟩) : Frame ℝ × Frame ℝ).1.right = (1 / 2 : ℝ) * ((⟨1, 0⟩, ⟨0, 0⟩) : Frame ℝ × Frame ℝ).2.right) := by
  norm_num

end K
