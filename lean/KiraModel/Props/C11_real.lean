/-
  C11 for scenes of REAL components — rendered audio does not depend on buffer sizes.

  Subject: the whole-system model `Model/System.lean` (the mixer / renderer model instantiated with the real
  static sound, the eight effects with nested delay chains, clocks and modulators), over ℝ.
  "All parameters constant and no commands in flight" is `System.Still`:
  * scratch buffers clean (the invariant of every reachable state, C01/C02), internal buffer size ≥ 1;
  * every track simply playing with settled volume / fade / route parameters (`Mixer.Settled`);
  * every static sound in an arena satisfies `SysSnd.Inv` (Proofs/RealSndLemmas.lean): no latched panic, volume /
    rate / panning / fade settled, start time immediate, and either paused / stopped, or playing inside its
    documented domain (ANY slice; loop region absent, or non-empty and inside the sound) with enough loop fuel per frame;
  * every effect in an arena (tracks, send tracks, main track) satisfies `SysFx.Inv ibs` (Proofs/RealFxLemmas.lean):
    no latched panic, parameters at rest, reverb initialised with non-empty lines, delay line non-empty, scratch of
    every delay — nested to any depth in feedback chains — at least `ibs` frames, no panic latched in a chain;
  * no modulator, no clock ticking (clock speeds settled), every listener at rest — `SysEnv.Still`;
  * NO SPATIAL TRACK: `Mixer.Settled` demands `spatial = none` of every sub-track at every depth (`Mixer.Settled.noSpatial`).
    The whole-system model does contain listeners and spatial tracks (`SysSpatial`, Props/C15_system.lean); they are
    excluded here on purpose: a spatial track interpolates the listener pose per internal chunk, so with a moving
    listener buffer-size invariance is false bit-wise (notes/C15.md).  Listeners themselves may be present (they
    are inert without a spatial track) as long as they do not move.
  These hold for scenes built by the builders with fixed values (`SysSnd.new_inv`, `SysFx.init_inv`) and are
  preserved by rendering (`SysSnd.step_inv`, `SysFx.step_inv`).

  The "same scene built with internal buffer size `k`" is `System.rebuf k s`: every track / send / mixer / renderer
  scratch buffer has `k` frames and every delay (to any depth) has a scratch buffer of `k` frames — exactly what
  the builders produce with that buffer size (`SysFx.init_setIbs`).

  Two final states are compared after `Renderer.normalize`: the fields of a static sound that can no longer
  influence anything are forgotten — `sharedPosition` (the handle's reported position, rewritten by
  `on_start_processing`), and, once the sound has Stopped, `fractional_position` and the four resampler slots
  (a call during which the sound ends keeps looping over them, a later call is gated): see `SysSnd.norm`.
-/
import KiraModel.Proofs.PruneLemmas
import KiraModel.Proofs.RealSndLemmas
import KiraModel.Proofs.RealFxLemmas

set_option linter.unusedSectionVars false

namespace K

/-! ### the environment: nothing moves -/

/-- no modulator, no clock ticking, every clock speed settled, every listener at rest (position and orientation
    settled: not tweening, not linked to a modulator) -/
def SysEnv.Still (e : SysEnv ℝ) : Prop :=
  e.mods = [] ∧ (∀ p ∈ e.clocks, p.2.ticking = false ∧ Parameter.Settled p.2.speed)
    ∧ ∀ l ∈ e.listeners, Parameter.Settled l.position ∧ Parameter.Settled l.orientation

/-- a listener at rest is not changed by `Listener::update` -/
theorem ListenerSt.updateWith_still (l : ListenerSt ℝ) (hp : Parameter.Settled l.position)
    (ho : Parameter.Settled l.orientation) (dt : ℝ) (info : Info ℝ) : l.updateWith dt info = l := by
  unfold ListenerSt.updateWith
  rw [Parameter.settled_update twVec3 l.position dt info hp, Parameter.settled_update twQuat l.orientation dt info ho]

theorem forEachSelfRef_fix {T : Type} (dummy : T) (f : T → (Nat → Option T) → Option T) (l : List (Nat × T))
    (h : ∀ p ∈ l, ∀ view, f p.2 view = some p.2) : ∀ done, forEachSelfRef dummy f done l = some (done ++ l) := by
  induction l with
  | nil => intro done; simp [forEachSelfRef]
  | cons p l ih =>
    intro done
    obtain ⟨k, x⟩ := p
    rw [forEachSelfRef]
    simp only [h (k, x) (by simp)]
    rw [ih (fun q hq => h q (by simp [hq]))]
    simp

theorem Clock.update_still (c : Clock ℝ) (hc : c.ticking = false) (hs : Parameter.Settled c.speed)
    (dt : ℝ) (info : Info ℝ) : c.update dt info = (c, none) := by
  unfold Clock.update
  simp only [hc, Parameter.settled_update twCs c.speed dt info hs]
  cases c; simp_all

/-- a still environment is not changed by a chunk -/
theorem SysEnv.step_still : (SysEnv.envOps (α := ℝ)).StaticOn SysEnv.Still := by
  intro e x he
  obtain ⟨hm, hc, hl⟩ := he
  show SysEnv.step e x = e
  unfold SysEnv.step
  have hmods : (ModStore.process SysMod.ops e.mods x (SysEnv.infoOf (fun id => e.clocks.lookup id) [])).1 = [] := by
    rw [hm]; rfl
  simp only [hmods]
  have hcl : SysEnv.updateClocks e.clocks [] x = some e.clocks := by
    unfold SysEnv.updateClocks
    rw [forEachSelfRef_fix]
    · simp
    · intro p hp view
      rw [Clock.update_still p.2 (hc p hp).1 (hc p hp).2]
  rw [hcl]
  have hls : ∀ info : Info ℝ, e.listeners.map (fun l => l.updateWith x info) = e.listeners :=
    fun info => map_id_of _ _ (fun l hl' => ListenerSt.updateWith_still l (hl l hl').1 (hl l hl').2 x info)
  simp only [hls]
  cases e; simp_all

/-! ### the normalised components -/

/-- the real components with every sound step followed by the normalisation of dead state -/
noncomputable def sysCompsN (fuel n : Nat) : Comps ℝ (SysSnd ℝ) (SysFx ℝ n) (SysSpatial ℝ) :=
  { sysComps fuel n with sndStep := SysSnd.stepN fuel }

theorem sysCompsN_lenPres (fuel n : Nat) : (sysCompsN fuel n).LenPres :=
  ⟨fun s buf dt info => (sysComps_lenPres (α := ℝ) fuel n).snd s buf dt info,
   (sysComps_lenPres (α := ℝ) fuel n).fx, (sysComps_lenPres (α := ℝ) fuel n).sp⟩

/-- **The real components are chunk-homomorphic relative to their invariants** (sounds: after normalisation
    of dead state), for slices of at most `B` frames. -/
theorem sysCompsN_chunkHomOn (fuel n B : Nat) (dt : ℝ) :
    (sysCompsN fuel n).ChunkHomOn (SysSnd.Inv fuel dt) (SysFx.Inv B) B dt :=
  ⟨fun s info a b hs _ => SysSnd.stepN_chunk fuel dt s hs info a b,
   fun s info k hs _ => SysSnd.stepN_inv fuel dt s hs k info,
   fun e info xs ys he hl => SysFx.step_chunk B n e he xs ys hl dt info,
   fun e info xs he hl => SysFx.step_inv B n e he xs hl dt info⟩

/-- the normalised components simulate the real ones through `SysSnd.norm` -/
theorem sysComps_sim_norm (fuel n B : Nat) (dt : ℝ) :
    Comps.SimOn (sysComps fuel n) (sysCompsN fuel n) SysSnd.norm (fun e => e) (SysSnd.Inv fuel dt) (SysFx.Inv B) B dt :=
  ⟨fun s info k hs _ => SysSnd.stepN_norm fuel dt s hs k info,
   fun s info k hs _ => SysSnd.step_inv fuel dt s hs k info,
   fun _ _ _ _ _ => rfl,
   fun e info xs he hl => SysFx.step_inv B n e he xs hl dt info, rfl, rfl⟩

/-- resizing the scratch buffer of every delay commutes with processing slices that fit both sizes -/
theorem sysCompsN_sim_setIbs (fuel n B k N : Nat) (hB : N ≤ B) (hk : N ≤ k) (dt : ℝ) :
    Comps.SimOn (sysCompsN fuel n) (sysCompsN fuel n) (fun s => s) (SysFx.setIbs k) (SysSnd.Inv fuel dt) (SysFx.Inv B) N dt :=
  ⟨fun _ _ _ _ _ => rfl,
   fun s info j hs _ => SysSnd.stepN_inv fuel dt s hs j info,
   fun e info xs he hl => SysFx.step_setIbs B k n e he xs (by omega) (by omega) dt info,
   fun e info xs he hl => SysFx.step_inv B n e he xs (by omega) dt info, rfl, rfl⟩

/-! ### still scenes -/

namespace System
variable {n : Nat}

/-- **"All parameters constant and no commands in flight"** for a scene of the whole-system model. -/
structure Still (s : System ℝ n) : Prop where
  clean : s.r.Clean
  ibs : 1 ≤ s.r.ibs
  settled : Mixer.Settled s.r.mixer
  comps : Mixer.CompsOk (SysSnd.Inv s.fuel s.r.dt) (SysFx.Inv s.r.ibs) s.r.mixer
  env : SysEnv.Still s.r.env

end System

/-- the same renderer built with internal buffer size `k`: all scratch buffers of the mixer, and of every delay to
    any depth, have `k` frames -/
noncomputable def Renderer.rebuf {n : Nat} (k : Nat) (r : Renderer ℝ (SysSnd ℝ) (SysFx ℝ n) (SysSpatial ℝ) (SysEnv ℝ)) :
    Renderer ℝ (SysSnd ℝ) (SysFx ℝ n) (SysSpatial ℝ) (SysEnv ℝ) :=
  Renderer.resize k (Renderer.mapComps (fun s => s) (SysFx.setIbs k) r)

/-- forget the state of static sounds that can no longer influence anything (`SysSnd.norm`) -/
noncomputable def Renderer.normalize {n : Nat} (r : Renderer ℝ (SysSnd ℝ) (SysFx ℝ n) (SysSpatial ℝ) (SysEnv ℝ)) :
    Renderer ℝ (SysSnd ℝ) (SysFx ℝ n) (SysSpatial ℝ) (SysEnv ℝ) :=
  Renderer.mapComps SysSnd.norm (fun e => e) r

/-- **the same scene built with internal buffer size `k`** -/
noncomputable def System.rebuf {n : Nat} (k : Nat) (s : System ℝ n) : System ℝ n := { s with r := Renderer.rebuf k s.r }

theorem System.rebuf_still {n : Nat} (k : Nat) (hk : 1 ≤ k) (s : System ℝ n) (h : s.Still) : (System.rebuf k s).Still :=
  ⟨⟨rfl, Mixer.resize_clean k _⟩, hk,
   Mixer.resize_settled k _ (Mixer.mapComps_settled _ _ s.r.mixer h.settled),
   Mixer.resize_compsOk k _ (Mixer.mapComps_compsOk (fun s => s) (SysFx.setIbs k) (fun _ hs => hs)
     (fun e he => SysFx.setIbs_inv s.r.ibs k n e he) s.r.mixer h.comps),
   h.env⟩

/-- **C11 for scenes of real components (sequences of `Renderer::process` calls).**  Take any still scene `s` of the
    whole-system model — any track tree, sends, static sounds (playing, looping, reversed, any rate, ended or
    about to end), the eight effects with delay feedback chains nested to any depth — and the same scene built
    with any other internal buffer size `k ≥ 1`.  Render any two sequences of device buffers `cbs1`, `cbs2` with the
    same total number of frames (each `Renderer::process` call is cut into internal chunks of at most the
    respective buffer size): the two device sample streams are identical (over ℝ), and the final states are
    equivalent: equal after forgetting dead sound state, up to the capacity of the scratch buffers. -/
theorem C11_real_scene_render_partition_invariant {n : Nat} (s : System ℝ n) (hs : s.Still) (k : Nat) (hk : 1 ≤ k)
    (ch : Nat) (cbs1 cbs2 : List Nat) (hsum : cbs1.sum = cbs2.sum) :
    (Renderer.runCallbacks s.C s.V ch (System.rebuf k s).r cbs2).2 = (Renderer.runCallbacks s.C s.V ch s.r cbs1).2
      ∧ Renderer.normalize (Renderer.runCallbacks s.C s.V ch (System.rebuf k s).r cbs2).1
          = Renderer.rebuf k (Renderer.normalize (Renderer.runCallbacks s.C s.V ch s.r cbs1).1) := by
  have hs2 := System.rebuf_still k hk s hs
  have hC := sysComps_lenPres (α := ℝ) s.fuel n
  have hC' := sysCompsN_lenPres s.fuel n
  have hV := SysEnv.step_still
  -- the two real runs are the normalised runs on the normalised scenes
  obtain ⟨a1, _⟩ := Renderer.runCallbacks_mapComps (sysComps s.fuel n) (sysCompsN s.fuel n) s.V SysSnd.norm (fun e => e)
    hC hC' ch cbs1 s.r hs.clean (sysComps_sim_norm s.fuel n s.r.ibs s.r.dt) hs.comps
    ⟨hs.clean.1, Mixer.mapComps_clean s.r.ibs _ _ s.r.mixer hs.clean.2⟩
  obtain ⟨a2, _⟩ := Renderer.runCallbacks_mapComps (sysComps s.fuel n) (sysCompsN s.fuel n) s.V SysSnd.norm (fun e => e)
    hC hC' ch cbs2 (System.rebuf k s).r hs2.clean (sysComps_sim_norm s.fuel n k s.r.dt) hs2.comps
    ⟨hs2.clean.1, Mixer.mapComps_clean k _ _ (System.rebuf k s).r.mixer hs2.clean.2⟩
  -- partition / buffer-size invariance of the normalised run
  have hq : (Renderer.mapComps SysSnd.norm (fun e => e) s.r).QuietOn (SysSnd.Inv s.fuel s.r.dt) (SysFx.Inv s.r.ibs) SysEnv.Still s.r.ibs s.r.dt :=
    ⟨Renderer.mapComps_quiet _ _ s.r ⟨hs.clean, hs.settled⟩,
     Mixer.mapComps_compsOk SysSnd.norm (fun e => e) (fun x hx => SysSnd.norm_inv s.fuel s.r.dt x hx) (fun _ he => he)
       s.r.mixer hs.comps, hs.env, Nat.le_refl _, rfl⟩
  obtain ⟨p1, p2⟩ := Renderer.runCallbacks_partition_on (sysCompsN s.fuel n) s.V hC' hV (Renderer.mapComps SysSnd.norm (fun e => e) s.r)
    hs.ibs k hk (sysCompsN_chunkHomOn s.fuel n s.r.ibs s.r.dt) hq (fun x => x) (SysFx.setIbs k)
    (sysCompsN_chunkHomOn s.fuel n k s.r.dt) (fun _ hx => hx) (fun e he => SysFx.setIbs_inv s.r.ibs k n e he)
    (sysCompsN_sim_setIbs s.fuel n s.r.ibs k 1 hs.ibs hk s.r.dt) ch cbs1 cbs2 hsum
  -- the normalised rebuilt scene is the rebuilt normalised scene
  have hcomm : Renderer.mapComps SysSnd.norm (fun e => e) (System.rebuf k s).r
      = Renderer.resize k (Renderer.mapComps (fun x => x) (SysFx.setIbs k)
          (Renderer.mapComps SysSnd.norm (fun e => e) s.r)) := by
    show Renderer.mapComps SysSnd.norm (fun e => e) (Renderer.resize k (Renderer.mapComps (fun x => x) (SysFx.setIbs k) s.r)) = _
    rw [Renderer.mapComps_resize, Renderer.mapComps_mapComps, Renderer.mapComps_mapComps]
  rw [hcomm] at a2
  have e2 := congrArg Prod.snd a2
  have e1 := congrArg Prod.snd a1
  have f2 := congrArg Prod.fst a2
  have f1 := congrArg Prod.fst a1
  simp only at e1 e2 f1 f2
  unfold Renderer.normalize Renderer.rebuf
  constructor
  · rw [← e2, ← e1]; exact p1
  · rw [← f2, p2, f1]

/-! ### whole device callbacks: `on_start_processing` + `process` -/

/-- no clock / modulator / listener is waiting in a ring, no clock or listener handle was dropped,
    `on_start_processing` finds nothing to do in a clock (no command pending, published time up to date) and no
    command is written to a listener's slots -/
def SysEnv.Idle (e : SysEnv ℝ) : Prop :=
  e.newClocks = [] ∧ e.newMods = [] ∧ e.newListeners = []
    ∧ (∀ p ∈ e.clocks, p.2.shared.removed = false ∧ p.2.onStartProcessing = p.2)
    ∧ ∀ l ∈ e.listeners, l.removed = false ∧ l.cmdPos = none ∧ l.cmdOri = none

/-- a listener with empty command slots is not changed by `Listener::on_start_processing` -/
theorem ListenerSt.readCommands_idle (l : ListenerSt ℝ) (h1 : l.cmdPos = none) (h2 : l.cmdOri = none) :
    l.readCommands = l := by
  unfold ListenerSt.readCommands
  rw [h1, h2]
  cases l; simp_all [readCmd]

theorem SysEnv.start_idle (e : SysEnv ℝ) (hs : SysEnv.Still e) (hi : SysEnv.Idle e) : SysEnv.start e = e := by
  obtain ⟨hm, _⟩ := hs
  obtain ⟨h1, h2, h2l, h3, h4⟩ := hi
  unfold SysEnv.start
  have hf : e.clocks.filter (fun p => !p.2.shared.removed) = e.clocks := by
    rw [List.filter_eq_self]; intro p hp; simp [(h3 p hp).1]
  have hmap : e.clocks.map (fun p => (p.1, p.2.onStartProcessing)) = e.clocks :=
    map_id_of _ _ (fun p hp => by rw [(h3 p hp).2])
  have hfl : e.listeners.filter (fun l => !l.removed) = e.listeners := by
    rw [List.filter_eq_self]; intro l hl; simp [(h4 l hl).1]
  have hmapl : e.listeners.map ListenerSt.readCommands = e.listeners :=
    map_id_of _ _ (fun l hl => ListenerSt.readCommands_idle l (h4 l hl).2.1 (h4 l hl).2.2)
  rw [h1, h2, h2l, hm, hf, hfl]
  simp only [List.append_nil, hmap, hmapl, List.filter_nil, List.map_nil]
  cases e; simp_all

/-- the sound invariant plus "no command written to its handle's slots" -/
def SysSnd.InvI (fuel : Nat) (dt : ℝ) (s : SysSnd ℝ) : Prop := SysSnd.Inv fuel dt s ∧ s.snd.cmds = {}
/-- the effect invariant plus "no command written to any of its handles' slots" -/
def SysFx.InvI (B : Nat) {n : Nat} (e : SysFx ℝ n) : Prop := SysFx.Inv B e ∧ SysFx.Idle e

theorem SysSnd.norm_cmds (s : SysSnd ℝ) : (SysSnd.norm s).snd.cmds = s.snd.cmds := by
  unfold SysSnd.norm; split <;> rfl

theorem SysSnd.finished_norm (s : SysSnd ℝ) : SysSnd.finished (SysSnd.norm s) = SysSnd.finished s := by
  unfold SysSnd.finished StaticSound.finished
  rw [SysSnd.norm_state]

theorem sysCompsN_chunkHomOnI (fuel n B : Nat) (dt : ℝ) :
    (sysCompsN fuel n).ChunkHomOn (SysSnd.InvI fuel dt) (SysFx.InvI B) B dt :=
  ⟨fun s info a b hs _ => SysSnd.stepN_chunk fuel dt s hs.1 info a b,
   fun s info k hs _ => ⟨SysSnd.stepN_inv fuel dt s hs.1 k info, by
     show (SysSnd.norm (SysSnd.step fuel s (zeros k) dt info).1).snd.cmds = {}
     rw [SysSnd.norm_cmds, SysSnd.step_cmds]; exact hs.2⟩,
   fun e info xs ys he hl => SysFx.step_chunk B n e he.1 xs ys hl dt info,
   fun e info xs he hl => ⟨SysFx.step_inv B n e he.1 xs hl dt info, SysFx.step_idle n e he.2 xs dt info⟩⟩

theorem sysCompsN_sim_setIbsI (fuel n B k N : Nat) (hB : N ≤ B) (hk : N ≤ k) (dt : ℝ) :
    Comps.SimOn (sysCompsN fuel n) (sysCompsN fuel n) (fun s => s) (SysFx.setIbs k) (SysSnd.InvI fuel dt) (SysFx.InvI B) N dt :=
  ⟨fun _ _ _ _ _ => rfl,
   fun s info j hs hj => (sysCompsN_chunkHomOnI fuel n B dt).sndInv s info j hs (by omega),
   fun e info xs he hl => SysFx.step_setIbs B k n e he.1 xs (by omega) (by omega) dt info,
   fun e info xs he hl => (sysCompsN_chunkHomOnI fuel n B dt).fxInv e info xs he (by omega), rfl, rfl⟩

/-- the real components against the normalised ones: a finished sound renders silence for ever -/
theorem sysComps_pruneOn (fuel n B : Nat) (dt : ℝ) :
    Comps.PruneOn (sysComps fuel n) (sysCompsN fuel n) SysSnd.finished SysSnd.norm (SysSnd.InvI fuel dt) (SysFx.InvI B) B dt :=
  { live := fun s info k hs _ => SysSnd.stepN_norm fuel dt s hs.1 k info
    deadStep := fun s info k hs hd _ => by
      have hst := (SysSnd.finished_iff s).mp hd
      have := SysSnd.step_frozen fuel dt s hs.1 (Or.inr hst) k info
      show (SysSnd.step fuel s (zeros k) dt info).2 = zeros k ∧ SysSnd.finished (SysSnd.step fuel s (zeros k) dt info).1 = true
      rw [this]; exact ⟨rfl, hd⟩
    sndInv := fun s info k hs _ => ⟨SysSnd.step_inv fuel dt s hs.1 k info, by
      show (SysSnd.step fuel s (zeros k) dt info).1.snd.cmds = {}
      rw [SysSnd.step_cmds]; exact hs.2⟩
    fxInv := fun e info xs he hl => ⟨SysFx.step_inv B n e he.1 xs hl dt info, SysFx.step_idle n e he.2 xs dt info⟩
    deadNrm := SysSnd.finished_norm
    nrmIdem := SysSnd.norm_idem
    fx := rfl, spStep := rfl, spInfo := rfl }

theorem sysCompsN_pruneOn (fuel n B : Nat) (dt : ℝ) :
    Comps.PruneOn (sysCompsN fuel n) (sysCompsN fuel n) SysSnd.finished SysSnd.norm (SysSnd.InvI fuel dt) (SysFx.InvI B) B dt :=
  { live := fun s info k hs _ => by
      show SysSnd.stepN fuel (SysSnd.norm s) (zeros k) dt info
        = (SysSnd.norm (SysSnd.stepN fuel s (zeros k) dt info).1, (SysSnd.stepN fuel s (zeros k) dt info).2)
      rw [SysSnd.stepN_norm fuel dt s hs.1 k info]
      unfold SysSnd.stepN
      rw [SysSnd.norm_idem]
    deadStep := fun s info k hs hd _ => by
      have hst := (SysSnd.finished_iff s).mp hd
      have := SysSnd.step_frozen fuel dt s hs.1 (Or.inr hst) k info
      show (SysSnd.stepN fuel s (zeros k) dt info).2 = zeros k ∧ SysSnd.finished (SysSnd.stepN fuel s (zeros k) dt info).1 = true
      unfold SysSnd.stepN
      rw [this, SysSnd.finished_norm]; exact ⟨rfl, hd⟩
    sndInv := fun s info k hs hk => (sysCompsN_chunkHomOnI fuel n B dt).sndInv s info k hs hk
    fxInv := fun e info xs he hl => (sysCompsN_chunkHomOnI fuel n B dt).fxInv e info xs he hl
    deadNrm := SysSnd.finished_norm
    nrmIdem := SysSnd.norm_idem
    fx := rfl, spStep := rfl, spInfo := rfl }

theorem sysComps_startPrune (fuel n B : Nat) (dt : ℝ) :
    Comps.StartPrune (sysComps fuel n) SysSnd.finished SysSnd.norm (SysSnd.InvI fuel dt) (SysFx.InvI (n := n) B) :=
  { fin := fun _ _ => rfl
    startDead := fun s hs => by
      have h := (SysSnd.start_norm fuel dt s hs.1 hs.2).1
      have : (SysSnd.start s).snd.core = s.snd.core := by
        rw [← SysSnd.norm_state (SysSnd.start s), h, SysSnd.norm_state]
      show SysSnd.finished (SysSnd.start s) = SysSnd.finished s
      unfold SysSnd.finished StaticSound.finished
      rw [this]
    startNrm := fun s hs => (SysSnd.start_norm fuel dt s hs.1 hs.2).1
    startInv := fun s hs => ⟨(SysSnd.start_norm fuel dt s hs.1 hs.2).2.1, (SysSnd.start_norm fuel dt s hs.1 hs.2).2.2⟩
    fxStart := fun e he => SysFx.start_idle n e he.2 }

/-- the canonical form of a scene: finished sounds dropped from the arenas (sooner or later `on_start_processing`
    drops them), the other sounds normalised (`SysSnd.norm`) -/
noncomputable def Renderer.canon {n : Nat} (r : Renderer ℝ (SysSnd ℝ) (SysFx ℝ n) (SysSpatial ℝ) (SysEnv ℝ)) :
    Renderer ℝ (SysSnd ℝ) (SysFx ℝ n) (SysSpatial ℝ) (SysEnv ℝ) :=
  Renderer.mapSounds (canonS SysSnd.finished SysSnd.norm) r

theorem Renderer.canon_idem {n : Nat} (r : Renderer ℝ (SysSnd ℝ) (SysFx ℝ n) (SysSpatial ℝ) (SysEnv ℝ)) :
    Renderer.canon (Renderer.canon r) = Renderer.canon r := by
  unfold Renderer.canon Renderer.mapSounds
  dsimp only
  rw [Mixer.mapSounds_mapSounds]
  have : (fun ss => canonS SysSnd.finished SysSnd.norm (canonS SysSnd.finished SysSnd.norm ss))
      = canonS SysSnd.finished SysSnd.norm := by
    funext ss; exact canonS_idem _ _ SysSnd.finished_norm SysSnd.norm_idem ss
  rw [this]

theorem Renderer.canon_rebuf {n : Nat} (k : Nat) (r : Renderer ℝ (SysSnd ℝ) (SysFx ℝ n) (SysSpatial ℝ) (SysEnv ℝ)) :
    Renderer.canon (Renderer.rebuf k r) = Renderer.rebuf k (Renderer.canon r) := by
  unfold Renderer.canon Renderer.rebuf
  rw [Renderer.mapSounds_resize, Renderer.mapSounds_mapFx]

namespace System
variable {n : Nat}

/-- **"All parameters constant and no commands in flight"**, for whole device callbacks: `Still`, and nothing is
    pending anywhere — no command written to any track / send / sound / effect / clock handle slot, no resource in a
    ring, no handle dropped. -/
structure StillIdle (s : System ℝ n) : Prop where
  clean : s.r.Clean
  ibs : 1 ≤ s.r.ibs
  settled : Mixer.Settled s.r.mixer
  idle : Mixer.Idle s.r.mixer
  comps : Mixer.CompsOk (SysSnd.InvI s.fuel s.r.dt) (SysFx.InvI s.r.ibs) s.r.mixer
  env : SysEnv.Still s.r.env
  envIdle : SysEnv.Idle s.r.env

end System

theorem System.rebuf_stillIdle {n : Nat} (k : Nat) (hk : 1 ≤ k) (s : System ℝ n) (h : s.StillIdle) :
    (System.rebuf k s).StillIdle :=
  { clean := ⟨rfl, Mixer.resize_clean k _⟩
    ibs := hk
    settled := Mixer.resize_settled k _ (Mixer.mapComps_settled _ _ s.r.mixer h.settled)
    idle := Mixer.resize_idle k _ (Mixer.mapComps_idle _ _ s.r.mixer h.idle)
    comps := Mixer.resize_compsOk k _ (Mixer.mapComps_compsOk (fun s => s) (SysFx.setIbs k) (fun _ hs => hs)
      (fun e he => ⟨SysFx.setIbs_inv s.r.ibs k n e he.1, SysFx.setIbs_idle k n e he.2⟩) s.r.mixer h.comps)
    env := h.env
    envIdle := h.envIdle }

/-- **C11 for scenes of real components: whole device callbacks.**  Take any scene `s` of the whole-system model with
    all parameters constant and no commands in flight (`System.StillIdle`): any track tree, sends, static sounds
    (playing, looping, reversed, any rate, ended or about to end), the eight effects with delay feedback chains
    nested to any depth, clocks that are not ticking, listeners at rest, no spatial track — and the same scene built
    with any other internal buffer size
    `k ≥ 1`.  Run any two sequences of whole device callbacks (`Renderer::on_start_processing` — which unloads the
    sounds that have finished meanwhile — then `Renderer::process`, cut into internal chunks of at most the
    respective buffer size) with the same total number of frames: the two device sample streams are identical
    (over ℝ), and the final states are equivalent: they have the same canonical form (`Renderer.canon`: finished
    sounds dropped, dead sound state forgotten), up to the capacity of the scratch buffers. -/
theorem C11_real_scene_partition_invariant {n : Nat} (s : System ℝ n) (hs : s.StillIdle) (k : Nat) (hk : 1 ≤ k)
    (ch : Nat) (cbs1 cbs2 : List Nat) (hsum : cbs1.sum = cbs2.sum) :
    (Renderer.runDeviceCallbacks s.C s.V ch (System.rebuf k s).r cbs2).2
        = (Renderer.runDeviceCallbacks s.C s.V ch s.r cbs1).2
      ∧ Renderer.canon (Renderer.runDeviceCallbacks s.C s.V ch (System.rebuf k s).r cbs2).1
          = Renderer.rebuf k (Renderer.canon (Renderer.runDeviceCallbacks s.C s.V ch s.r cbs1).1) := by
  have hs2 := System.rebuf_stillIdle k hk s hs
  have hC := sysComps_lenPres (α := ℝ) s.fuel n
  have hC' := sysCompsN_lenPres s.fuel n
  have hV := SysEnv.step_still
  let IX : SysEnv ℝ → Prop := fun e => SysEnv.Still e ∧ SysEnv.Idle e
  have hVs : ∀ e, IX e → s.V.start e = e := fun e he => SysEnv.start_idle e he.1 he.2
  have hVi : ∀ e x, IX e → IX (s.V.step e x) := fun e x he => by rw [hV e x he.1]; exact he
  have hcanonOk : ∀ (B : Nat) (m : Mixer ℝ (SysSnd ℝ) (SysFx ℝ n) (SysSpatial ℝ)),
      Mixer.CompsOk (SysSnd.InvI s.fuel s.r.dt) (SysFx.InvI B) m →
      Mixer.CompsOk (SysSnd.InvI s.fuel s.r.dt) (SysFx.InvI B) (Mixer.mapSounds (canonS SysSnd.finished SysSnd.norm) m) := by
    intro B m hm
    refine Mixer.mapSounds_compsOk _ ?_ m hm
    intro ss hss x hx
    simp only [canonS, List.mem_map, List.mem_filter] at hx
    obtain ⟨x0, ⟨hx0, _⟩, rfl⟩ := hx
    exact ⟨SysSnd.norm_inv s.fuel s.r.dt x0 (hss x0 hx0).1, by rw [SysSnd.norm_cmds]; exact (hss x0 hx0).2⟩
  -- the two real runs against the normalised runs (process only) on the canonical scenes
  obtain ⟨a1, a2, _⟩ := Renderer.runDeviceCallbacks_prune (sysComps s.fuel n) (sysCompsN s.fuel n) s.V (IX := IX) hC hC' hVs hVi
    (sysComps_startPrune s.fuel n s.r.ibs s.r.dt) ch cbs1 s.r (Renderer.canon s.r)
    (sysComps_pruneOn s.fuel n s.r.ibs s.r.dt) (sysCompsN_pruneOn s.fuel n s.r.ibs s.r.dt)
    hs.clean ⟨hs.clean.1, Mixer.mapSounds_clean _ _ _ hs.clean.2⟩ hs.idle hs.settled.noSpatial ⟨hs.env, hs.envIdle⟩ hs.comps
    (hcanonOk _ _ hs.comps) (Renderer.canon_idem s.r).symm
  obtain ⟨b1, b2, _⟩ := Renderer.runDeviceCallbacks_prune (sysComps s.fuel n) (sysCompsN s.fuel n) s.V (IX := IX) hC hC' hVs hVi
    (sysComps_startPrune s.fuel n k s.r.dt) ch cbs2 (System.rebuf k s).r (Renderer.canon (System.rebuf k s).r)
    (sysComps_pruneOn s.fuel n k s.r.dt) (sysCompsN_pruneOn s.fuel n k s.r.dt)
    hs2.clean ⟨hs2.clean.1, Mixer.mapSounds_clean _ _ _ hs2.clean.2⟩ hs2.idle hs2.settled.noSpatial ⟨hs2.env, hs2.envIdle⟩ hs2.comps
    (hcanonOk _ _ hs2.comps) (Renderer.canon_idem (System.rebuf k s).r).symm
  -- partition / buffer-size invariance of the normalised run
  have hq : (Renderer.canon s.r).QuietOn (SysSnd.InvI s.fuel s.r.dt) (SysFx.InvI s.r.ibs) SysEnv.Still s.r.ibs s.r.dt :=
    ⟨⟨⟨hs.clean.1, Mixer.mapSounds_clean _ _ _ hs.clean.2⟩, (Mixer.mapSounds_settled _ _).mpr hs.settled⟩,
     hcanonOk _ _ hs.comps, hs.env, Nat.le_refl _, rfl⟩
  obtain ⟨p1, p2⟩ := Renderer.runCallbacks_partition_on (sysCompsN s.fuel n) s.V hC' hV (Renderer.canon s.r)
    hs.ibs k hk (sysCompsN_chunkHomOnI s.fuel n s.r.ibs s.r.dt) hq (fun x => x) (SysFx.setIbs k)
    (sysCompsN_chunkHomOnI s.fuel n k s.r.dt) (fun _ hx => hx)
    (fun e he => ⟨SysFx.setIbs_inv s.r.ibs k n e he.1, SysFx.setIbs_idle k n e he.2⟩)
    (sysCompsN_sim_setIbsI s.fuel n s.r.ibs k 1 hs.ibs hk s.r.dt) ch cbs1 cbs2 hsum
  have hcomm : Renderer.canon (System.rebuf k s).r
      = Renderer.resize k (Renderer.mapComps (fun x => x) (SysFx.setIbs k) (Renderer.canon s.r)) :=
    Renderer.canon_rebuf k s.r
  rw [hcomm] at b1 b2
  constructor
  · rw [b1, a1]; exact p1
  · show Renderer.mapSounds _ _ = _
    rw [b2, p2]
    show Renderer.canon (Renderer.rebuf k _) = _
    rw [Renderer.canon_rebuf]
    congr 1
    exact a2.symm

theorem System.StillIdle.still {n : Nat} {s : System ℝ n} (h : s.StillIdle) : s.Still :=
  ⟨h.clean, h.ibs, h.settled, Mixer.compsOk_mono (fun _ hx => hx.1) (fun _ he => he.1) s.r.mixer h.comps, h.env⟩

/-- **the invariant is an invariant**: after any sequence of whole device callbacks a scene with all parameters
    constant and no commands in flight is such a scene again (its sounds may have ended and been unloaded meanwhile) -/
theorem C11_real_still_idle_preserved {n : Nat} (s : System ℝ n) (hs : s.StillIdle) (ch : Nat) (cbs : List Nat) :
    ({ s with r := (Renderer.runDeviceCallbacks s.C s.V ch s.r cbs).1 } : System ℝ n).StillIdle := by
  have hC := sysComps_lenPres (α := ℝ) s.fuel n
  have hC' := sysCompsN_lenPres s.fuel n
  have hV := SysEnv.step_still
  let IX : SysEnv ℝ → Prop := fun e => SysEnv.Still e ∧ SysEnv.Idle e
  have hVs : ∀ e, IX e → s.V.start e = e := fun e he => SysEnv.start_idle e he.1 he.2
  have hVi : ∀ e x, IX e → IX (s.V.step e x) := fun e x he => by rw [hV e x he.1]; exact he
  have hcanonOk : Mixer.CompsOk (SysSnd.InvI s.fuel s.r.dt) (SysFx.InvI s.r.ibs)
      (Mixer.mapSounds (canonS SysSnd.finished SysSnd.norm) s.r.mixer) := by
    refine Mixer.mapSounds_compsOk _ ?_ s.r.mixer hs.comps
    intro ss hss x hx
    simp only [canonS, List.mem_map, List.mem_filter] at hx
    obtain ⟨x0, ⟨hx0, _⟩, rfl⟩ := hx
    exact ⟨SysSnd.norm_inv s.fuel s.r.dt x0 (hss x0 hx0).1, by rw [SysSnd.norm_cmds]; exact (hss x0 hx0).2⟩
  obtain ⟨_, a2, a3, a4, a5, a6, a7, a8⟩ := Renderer.runDeviceCallbacks_prune (sysComps s.fuel n) (sysCompsN s.fuel n) s.V
    (IX := IX) hC hC' hVs hVi (sysComps_startPrune s.fuel n s.r.ibs s.r.dt) ch cbs s.r (Renderer.canon s.r)
    (sysComps_pruneOn s.fuel n s.r.ibs s.r.dt) (sysCompsN_pruneOn s.fuel n s.r.ibs s.r.dt)
    hs.clean ⟨hs.clean.1, Mixer.mapSounds_clean _ _ _ hs.clean.2⟩ hs.idle hs.settled.noSpatial ⟨hs.env, hs.envIdle⟩ hs.comps
    hcanonOk (Renderer.canon_idem s.r).symm
  -- the normalised run stays settled; so does the real one (same canonical form)
  have hq : (Renderer.canon s.r).QuietOn (SysSnd.InvI s.fuel s.r.dt) (SysFx.InvI s.r.ibs) SysEnv.Still s.r.ibs s.r.dt :=
    ⟨⟨⟨hs.clean.1, Mixer.mapSounds_clean _ _ _ hs.clean.2⟩, (Mixer.mapSounds_settled _ _).mpr hs.settled⟩,
     hcanonOk, hs.env, Nat.le_refl _, rfl⟩
  have hsetT : Mixer.Settled (Renderer.runCallbacks (sysCompsN s.fuel n) s.V ch (Renderer.canon s.r) cbs).1.mixer := by
    rw [(Renderer.runCallbacks_spec_clean (sysCompsN s.fuel n) s.V hC' ch cbs _ hq.quiet.1).1]
    refine (Renderer.specChunks_quiet_on (sysCompsN s.fuel n) s.V hC' (sysCompsN_chunkHomOnI s.fuel n s.r.ibs s.r.dt) hV ch _
      (Renderer.canon s.r) hq ?_).quiet.2
    intro m hm
    simp only [callbackChunks, List.mem_flatMap] at hm
    obtain ⟨f, _, hf⟩ := hm
    exact (chunkSizes_bound f _ f m hf).1
  have hset : Mixer.Settled (Renderer.runDeviceCallbacks s.C s.V ch s.r cbs).1.mixer := by
    have e5 := ((Renderer.mapSounds_eq_iff _ _ _).mp a2).2.2.2.2
    rw [← Mixer.mapSounds_settled (canonS SysSnd.finished SysSnd.norm), e5, Mixer.mapSounds_settled]
    exact hsetT
  exact { clean := a3, ibs := by show 1 ≤ (Renderer.runDeviceCallbacks s.C s.V ch s.r cbs).1.ibs; rw [a7]; exact hs.ibs
          settled := hset, idle := a4
          comps := by
            show Mixer.CompsOk (SysSnd.InvI s.fuel (Renderer.runDeviceCallbacks s.C s.V ch s.r cbs).1.dt)
              (SysFx.InvI (Renderer.runDeviceCallbacks s.C s.V ch s.r cbs).1.ibs) _
            rw [a7, a8]; exact a5
          env := a6.1, envIdle := a6.2 }

/-! ### the same through `System.callback` (the function the whole-system twin runs) -/

theorem Trk.comps_of_compsOk {S E P : Type} {IS : S → Prop} {IE : E → Prop} (t : Trk ℝ S E P) :
    Trk.Idle t → Trk.CompsOk IS IE t → (∀ x ∈ (Trk.comps t).1, IS x) ∧ (∀ e ∈ (Trk.comps t).2, IE e) := by
  refine Trk.rec
    (motive_1 := fun t => Trk.Idle t → Trk.CompsOk IS IE t → (∀ x ∈ (Trk.comps t).1, IS x) ∧ (∀ e ∈ (Trk.comps t).2, IE e))
    (motive_2 := fun ts => Trk.IdleList ts → Trk.CompsOkList IS IE ts →
      (∀ x ∈ (Trk.compsList ts).1, IS x) ∧ (∀ e ∈ (Trk.compsList ts).2, IE e)) ?_ ?_ ?_ t
  · intro d c p ihc _ hi hc
    obtain ⟨hd, hp, hcl⟩ := hi
    subst hp
    obtain ⟨i1, i2⟩ := ihc hcl hc.2
    rw [Trk.comps]
    simp only [hd.2.2.2.2.1, Trk.compsList, List.append_nil]
    constructor
    · intro x hx
      rcases List.mem_append.mp hx with hx | hx
      · exact hc.1.1 x hx
      · exact i1 x hx
    · intro e he
      rcases List.mem_append.mp he with he | he
      · exact hc.1.2 e he
      · exact i2 e he
  · intro _ _; simp [Trk.compsList]
  · intro t ts iht ihts hi hc
    obtain ⟨t1, t2⟩ := iht hi.1 hc.1
    obtain ⟨l1, l2⟩ := ihts hi.2 hc.2
    rw [Trk.compsList]
    constructor
    · intro x hx
      rcases List.mem_append.mp hx with hx | hx
      · exact t1 x hx
      · exact l1 x hx
    · intro e he
      rcases List.mem_append.mp he with he | he
      · exact t2 e he
      · exact l2 e he

theorem Trk.compsList_of_compsOk {S E P : Type} {IS : S → Prop} {IE : E → Prop} (ts : List (Trk ℝ S E P))
    (hi : Trk.IdleList ts) (hc : Trk.CompsOkList IS IE ts) :
    (∀ x ∈ (Trk.compsList ts).1, IS x) ∧ (∀ e ∈ (Trk.compsList ts).2, IE e) := by
  induction ts with
  | nil => simp [Trk.compsList]
  | cons t ts ih =>
    obtain ⟨t1, t2⟩ := Trk.comps_of_compsOk t hi.1 hc.1
    obtain ⟨l1, l2⟩ := ih hi.2 hc.2
    rw [Trk.compsList]
    constructor
    · intro x hx
      rcases List.mem_append.mp hx with hx | hx
      · exact t1 x hx
      · exact l1 x hx
    · intro e he
      rcases List.mem_append.mp he with he | he
      · exact t2 e he
      · exact l2 e he

/-- in a scene with nothing moving and nothing in flight no panic is latched anywhere -/
theorem System.StillIdle.fault_none {n : Nat} {s : System ℝ n} (h : s.StillIdle) (hh : s.r.env.hung = false) :
    s.fault = none := by
  obtain ⟨c1, c2⟩ := Trk.compsList_of_compsOk s.r.mixer.subTracks h.idle.subs h.comps.subs
  have hS : ∀ x ∈ (Mixer.comps s.r.mixer).1, x.fault = none := by
    intro x hx
    simp only [Mixer.comps, h.idle.main.2, h.idle.pending, Trk.compsList, List.append_nil] at hx
    rcases List.mem_append.mp hx with hx | hx
    · exact (h.comps.mainS x hx).1.1
    · exact (c1 x hx).1.1
  have hE : ∀ e ∈ (Mixer.comps s.r.mixer).2, e.fault = none := by
    intro e he
    simp only [Mixer.comps, h.idle.pendingSends, h.idle.pending, Trk.compsList, List.append_nil] at he
    rcases List.mem_append.mp he with he | he
    · rcases List.mem_append.mp he with he | he
      · exact (h.comps.mainE e he).1.1
      · obtain ⟨t, ht, het⟩ := List.mem_flatMap.mp he
        exact (h.comps.sends t ht e het).1.1
    · exact (c2 e he).1.1
  unfold System.fault
  have h1 : (Mixer.comps s.r.mixer).1.findSome? (·.fault) = none := by
    rw [List.findSome?_eq_none_iff]; exact hS
  have h2 : (Mixer.comps s.r.mixer).2.findSome? (·.fault) = none := by
    rw [List.findSome?_eq_none_iff]; exact hE
  simp only [h1, h2, hh]
  rfl

/-- a sequence of whole device callbacks through `System.callback` (which also reports latched panics / hangs) -/
noncomputable def System.runDevice {n : Nat} (ch : Nat) : System ℝ n → List Nat → Except SysFault (System ℝ n × List ℝ)
  | s, [] => .ok (s, [])
  | s, f :: fs =>
    match s.callback f ch with
    | .error e => .error e
    | .ok (s1, o1) =>
      match System.runDevice ch s1 fs with
      | .error e => .error e
      | .ok (s2, o2) => .ok (s2, o1 ++ o2)

/-- **No callback of such a scene panics or hangs, and `System.callback` sequences are the renderer's device
    callbacks**: the theorems above are about the very function the whole-system twin runs. -/
theorem C11_real_scene_callbacks_succeed {n : Nat} (ch : Nat) (hch : 1 ≤ ch) (cbs : List Nat) :
    ∀ (s : System ℝ n), s.StillIdle → s.r.env.hung = false →
      System.runDevice ch s cbs
        = .ok ({ s with r := (Renderer.runDeviceCallbacks s.C s.V ch s.r cbs).1 },
               (Renderer.runDeviceCallbacks s.C s.V ch s.r cbs).2) := by
  induction cbs with
  | nil => intro s _ _; rfl
  | cons f fs ih =>
    intro s hs hh
    have h1 := C11_real_still_idle_preserved s hs ch [f]
    have hrun : Renderer.runDeviceCallbacks s.C s.V ch s.r [f]
        = ((Renderer.processLoop s.C s.V ch f (s.r.onStart s.C s.V) f).1,
           (Renderer.processLoop s.C s.V ch f (s.r.onStart s.C s.V) f).2) := by
      simp [Renderer.runDeviceCallbacks]
    rw [hrun] at h1
    have henv : (Renderer.processLoop s.C s.V ch f (s.r.onStart s.C s.V) f).1.env = s.r.env := by
      have hV := SysEnv.step_still
      have hst : (s.r.onStart s.C s.V).env = s.r.env := SysEnv.start_idle _ hs.env hs.envIdle
      have key : ∀ (fuel : Nat) (r : Renderer ℝ (SysSnd ℝ) (SysFx ℝ n) (SysSpatial ℝ) (SysEnv ℝ)) (frames : Nat),
          SysEnv.Still r.env → (Renderer.processLoop s.C s.V ch fuel r frames).1.env = r.env := by
        intro fuel
        induction fuel with
        | zero => intro r frames _; rfl
        | succ m ihm =>
          intro r frames hr
          simp only [Renderer.processLoop]
          split
          · rfl
          · have e1 : (r.processChunk s.C s.V (min r.ibs frames) ch).1.env = r.env := hV r.env _ hr
            rw [ihm _ _ (by rw [e1]; exact hr), e1]
      rw [key f _ f (by rw [hst]; exact hs.env), hst]
    have hh1 : (Renderer.processLoop s.C s.V ch f (s.r.onStart s.C s.V) f).1.env.hung = false := by
      rw [henv]; exact hh
    have hfault := System.StillIdle.fault_none h1 hh1
    have hcb : s.callback f ch = .ok ({ s with r := (Renderer.processLoop s.C s.V ch f (s.r.onStart s.C s.V) f).1 },
        (Renderer.processLoop s.C s.V ch f (s.r.onStart s.C s.V) f).2) := by
      unfold System.callback Renderer.process
      have hne : ¬ (s.r.onStart s.C s.V).ibs * ch = 0 := by
        have : (s.r.onStart s.C s.V).ibs = s.r.ibs := rfl
        rw [this]
        have := hs.ibs
        exact Nat.mul_ne_zero (by omega) (by omega)
      simp only [hne, if_false]
      rw [hfault]
    rw [System.runDevice, hcb]
    dsimp only
    rw [ih _ h1 hh1]
    simp [Renderer.runDeviceCallbacks]

/-! ### non-vacuity: a concrete still scene -/

/-- a low-pass filter as `FilterBuilder` makes it -/
noncomputable def exFilter : SysFx ℝ 1 :=
  ⟨1, (FxOver.base (.filter (Filter.new .lowPass (.fixed 1000) (.fixed 0) (.fixed 1))) : FxOver ℝ (FxOver ℝ Empty)), none⟩
/-- a 250 ms delay with a low-pass filter in its feedback loop (nesting depth 1) -/
noncomputable def exDelay : SysFx ℝ 1 :=
  ⟨2, (FxOver.delay (Delay.new 250000000 (.fixed (-6)) (.fixed (1 / 2))
        ([FxOver.base (.filter (Filter.new .lowPass (.fixed 1000) (.fixed 0) (.fixed 1)))], none))
      : FxOver ℝ (FxOver ℝ Empty)), none⟩
/-- a reverb -/
noncomputable def exReverb : SysFx ℝ 1 :=
  ⟨3, (FxOver.base (.reverb (Reverb.new (.fixed (9 / 10)) (.fixed (1 / 10)) (.fixed 1) (.fixed (1 / 2))))
      : FxOver ℝ (FxOver ℝ Empty)), none⟩

/-- **The example scene**, as the builders make it with internal buffer size `ibs` at 48 kHz, after the audio
    thread has picked everything up: a static sound (`exSnd4`) on a sub-track with a filter and a delay (whose
    feedback loop holds another filter), routed at −6 dB to a send track with a reverb; main track without effects. -/
noncomputable def exScene (ibs : Nat) (snd : StaticSound ℝ) : System ℝ 1 :=
  { r := { dt := 1 / 48000
           mixer := { main := (Mixer.newV (.fixed 0) [] ibs : Mixer ℝ (SysSnd ℝ) (SysFx ℝ 1) (SysSpatial ℝ)).main
                      subTracks := [.node { (Trk.buildV (S := SysSnd ℝ) (P := SysSpatial ℝ) 200 (.fixed 0)
                          ([exFilter, exDelay].map (SysFx.init 48000 ibs)) [(100, .fixed (-6))] false ibs).data with
                            sounds := [⟨0, snd, none⟩] } [] []]
                      pendingSubTracks := []
                      sendTracks := [SendTrk.buildV 100 (.fixed 0) ([exReverb].map (SysFx.init 48000 ibs)) ibs]
                      pendingSendTracks := []
                      temp := zeros ibs }
           env := SysEnv.empty, ibs := ibs, temp := zeros ibs }
    sampleRate := 48000, fuel := 2 }

theorem exFilter_inv (ibs : Nat) : SysFx.Inv ibs (SysFx.init 48000 ibs exFilter) := by
  apply SysFx.init_inv 1 48000 ibs (by norm_num) _ rfl
  exact ⟨rfl, rfl, rfl⟩

theorem exDelay_inv (ibs : Nat) : SysFx.Inv ibs (SysFx.init 48000 ibs exDelay) := by
  apply SysFx.init_inv 1 48000 ibs (by norm_num) _ rfl
  refine ⟨rfl, rfl, rfl, ?_⟩
  intro e he
  rcases List.mem_cons.mp he with rfl | he
  · exact ⟨rfl, rfl, rfl⟩
  · cases he

theorem exReverb_inv (ibs : Nat) : SysFx.Inv ibs (SysFx.init 48000 ibs exReverb) := by
  apply SysFx.init_inv 1 48000 ibs (by norm_num) _ rfl
  exact ⟨rfl, rfl, rfl, rfl⟩

/-- the example scene is still, for every internal buffer size ≥ 1 -/
theorem exScene_still (ibs : Nat) (hibs : 1 ≤ ibs) (snd : StaticSound ℝ) (hnew : StaticSound.new exSnd4 = .ok snd) :
    (exScene ibs snd).Still := by
  have hsnd : SysSnd.Inv 2 (1 / 48000) ⟨0, snd, none⟩ := by
    refine SysSnd.new_inv 2 (1 / 48000) 0 exSnd4 snd hnew ⟨0, rfl⟩ 1 rfl ⟨0, rfl⟩ rfl rfl exSnd4_inDomain (by norm_num) ?_
    simp [exSnd4]
    norm_num
  refine { clean := ?_, ibs := hibs, settled := ?_, comps := ?_, env := ⟨rfl, fun p hp => (by cases hp), fun l hl => (by cases hl)⟩ }
  · refine ⟨rfl, ⟨rfl, rfl, ⟨⟨rfl, trivial, trivial⟩, trivial⟩, trivial, ?_, ?_⟩⟩
    · intro s hs; rw [List.mem_singleton.mp hs]; rfl
    · intro s hs; cases hs
  · refine { subs := ⟨⟨⟨?_, ?_, ?_, rfl⟩, trivial⟩, trivial⟩, main := ?_, sends := ?_ }
    · exact ⟨rfl, rfl⟩
    · exact ⟨rfl, rfl, rfl⟩
    · intro r hr
      simp only [Trk.buildV, Trk.data, List.map_cons, List.map_nil, List.mem_singleton] at hr
      rw [hr]; exact ⟨rfl, rfl⟩
    · exact ⟨rfl, rfl⟩
    · intro s hs; rw [List.mem_singleton.mp hs]; exact ⟨rfl, rfl⟩
  · refine { subs := ⟨⟨⟨?_, ?_⟩, trivial⟩, trivial⟩, mainS := ?_, mainE := ?_, sends := ?_ }
    · intro s hs; rw [List.mem_singleton.mp hs]; exact hsnd
    · intro e he
      simp only [Trk.buildV, Trk.data, List.map_cons, List.map_nil] at he
      rcases List.mem_cons.mp he with rfl | he
      · exact exFilter_inv ibs
      · rw [List.mem_singleton.mp he]; exact exDelay_inv ibs
    · intro s hs; cases hs
    · intro e he; cases he
    · intro s hs e he
      rw [List.mem_singleton.mp hs] at he
      simp only [SendTrk.buildV, List.map_cons, List.map_nil] at he
      rw [List.mem_singleton.mp he]; exact exReverb_inv ibs

theorem StaticSound.new_cmds (d : StaticSoundData ℝ) (snd : StaticSound ℝ) (h : StaticSound.new d = .ok snd) :
    snd.cmds = {} := by
  cases h0 : StaticSound.init d with
  | error f => unfold StaticSound.new at h; simp [h0] at h
  | ok s0 =>
    have hu := StaticSound.new_eq_updN d s0 snd h0 h
    have hc := (StaticSound.updN_sameConfig 3 s0 snd hu).cmds
    rw [hc]
    unfold StaticSound.init at h0
    cases hn : numFrames d.frames.size d.slice with
    | error f => simp [hn] at h0
    | ok nn =>
      simp only [hn] at h0
      cases ht : Transport.new (d.settings.startPosition.intoSamples d.sampleRate)
          (d.settings.loopRegion.map (fun r => r.toSamples d.sampleRate nn)) d.settings.reverse nn with
      | error f => simp [ht] at h0
      | ok t => simp only [ht] at h0; injection h0 with h0; subst h0; rfl

theorem exFilter_idle (ibs : Nat) : SysFx.Idle (SysFx.init 48000 ibs exFilter) := by
  apply SysFx.init_idle; exact ⟨rfl, rfl, rfl, rfl⟩

theorem exDelay_idle (ibs : Nat) : SysFx.Idle (SysFx.init 48000 ibs exDelay) := by
  apply SysFx.init_idle
  refine ⟨rfl, rfl, ?_⟩
  intro e he
  rcases List.mem_cons.mp he with rfl | he
  · exact ⟨rfl, rfl, rfl, rfl⟩
  · cases he

theorem exReverb_idle (ibs : Nat) : SysFx.Idle (SysFx.init 48000 ibs exReverb) := by
  apply SysFx.init_idle; exact ⟨rfl, rfl, rfl, rfl⟩

/-- the example scene has nothing in flight either -/
theorem exScene_stillIdle (ibs : Nat) (hibs : 1 ≤ ibs) (snd : StaticSound ℝ) (hnew : StaticSound.new exSnd4 = .ok snd) :
    (exScene ibs snd).StillIdle := by
  have h := exScene_still ibs hibs snd hnew
  refine { clean := h.clean, ibs := hibs, settled := h.settled, idle := ?_, comps := ?_, env := h.env,
           envIdle := ⟨rfl, rfl, rfl, fun p hp => (by cases hp), fun l hl => (by cases hl)⟩ }
  · refine ⟨⟨⟨⟨rfl, rfl, rfl, ?_, rfl, rfl⟩, rfl, trivial⟩, trivial⟩, rfl, rfl, ?_, ⟨rfl, rfl⟩⟩
    · intro r hr
      simp only [Trk.buildV, Trk.data, List.map_cons, List.map_nil, List.mem_singleton] at hr
      rw [hr]
    · intro x hx; rw [List.mem_singleton.mp hx]; exact ⟨rfl, rfl⟩
  · refine { subs := ⟨⟨⟨?_, ?_⟩, trivial⟩, trivial⟩, mainS := ?_, mainE := ?_, sends := ?_ }
    · intro x hx; rw [List.mem_singleton.mp hx]
      exact ⟨h.comps.subs.1.1.1 _ (by simp), StaticSound.new_cmds exSnd4 snd hnew⟩
    · intro e he
      simp only [Trk.buildV, Trk.data, List.map_cons, List.map_nil] at he
      rcases List.mem_cons.mp he with rfl | he
      · exact ⟨exFilter_inv ibs, exFilter_idle ibs⟩
      · rw [List.mem_singleton.mp he]; exact ⟨exDelay_inv ibs, exDelay_idle ibs⟩
    · intro x hx; cases hx
    · intro e he; cases he
    · intro x hx e he
      rw [List.mem_singleton.mp hx] at he
      simp only [SendTrk.buildV, List.map_cons, List.map_nil] at he
      rw [List.mem_singleton.mp he]; exact ⟨exReverb_inv ibs, exReverb_idle ibs⟩

/-- the environment premises are satisfiable with a listener present: a listener as `add_listener` makes it with
    fixed position / orientation, after pickup, is at rest and has nothing in flight -/
example : SysEnv.Still ({ SysEnv.empty with listeners :=
      [{ id := 7, removed := false, position := Parameter.new (.fixed ⟨1, 2, 3⟩) Vec3.zero,
         orientation := Parameter.new (.fixed Quat.identity) Quat.identity, cmdPos := none, cmdOri := none }] } : SysEnv ℝ)
    ∧ SysEnv.Idle ({ SysEnv.empty with listeners :=
      [{ id := 7, removed := false, position := Parameter.new (.fixed ⟨1, 2, 3⟩) Vec3.zero,
         orientation := Parameter.new (.fixed Quat.identity) Quat.identity, cmdPos := none, cmdOri := none }] } : SysEnv ℝ) := by
  refine ⟨⟨rfl, fun p hp => (by cases hp), fun l hl => ?_⟩, rfl, rfl, rfl, fun p hp => (by cases hp), fun l hl => ?_⟩
  · rw [List.mem_singleton.mp hl]
    exact ⟨Parameter.new_fixed_settled (⟨1, 2, 3⟩ : Vec3 ℝ) Vec3.zero,
      Parameter.new_fixed_settled (Quat.identity : Quat ℝ) Quat.identity⟩
  · rw [List.mem_singleton.mp hl]
    exact ⟨rfl, rfl, rfl⟩

/-- `System.rebuf` is faithful: rebuilding the example scene with internal buffer size `k` is the example scene
    made by the builders with internal buffer size `k` -/
theorem exScene_rebuf (ibs k : Nat) (snd : StaticSound ℝ) : System.rebuf k (exScene ibs snd) = exScene k snd := by
  simp [System.rebuf, Renderer.rebuf, exScene, Renderer.resize, Renderer.mapComps, Mixer.resize, Mixer.mapComps,
    Trk.mapCompsList, Trk.mapComps, Trk.resizeList, Trk.resize, SendTrk.resize, SendTrk.buildV, Trk.buildV, Trk.data,
    Mixer.newV, SysFx.init_setIbs]

/-- the hypotheses of `C11_real_scene_render_partition_invariant` are satisfiable: the example scene (static sound
    through a filter and a delay with a nested filter, on a sub-track routed to a send with a reverb) -/
example : ∃ snd, StaticSound.new exSnd4 = .ok snd ∧ (exScene 8 snd).Still := by
  obtain ⟨_, snd, _, hnew, _, _⟩ := StaticSound.new_total exSnd4
  exact ⟨snd, hnew, exScene_still 8 (by norm_num) snd hnew⟩

/-- … so the scene built with internal buffer size 8 and rendered in callbacks of 5, 3, 7 frames, and the scene
    built with internal buffer size 3 and rendered in callbacks of 1, 14 frames, produce the same 15 frames -/
example (snd : StaticSound ℝ) (hnew : StaticSound.new exSnd4 = .ok snd) (ch : Nat) :
    (Renderer.runCallbacks (exScene 8 snd).C (exScene 8 snd).V ch (exScene 3 snd).r [1, 14]).2
      = (Renderer.runCallbacks (exScene 8 snd).C (exScene 8 snd).V ch (exScene 8 snd).r [5, 3, 7]).2 := by
  have h := (C11_real_scene_render_partition_invariant (exScene 8 snd) (exScene_still 8 (by norm_num) snd hnew) 3
    (by norm_num) ch [5, 3, 7] [1, 14] (by norm_num)).1
  rw [exScene_rebuf] at h
  exact h

/-- the same for whole device callbacks (the 4-frame sound ends and is unloaded during the run, at different callback
    boundaries in the two runs) -/
example (snd : StaticSound ℝ) (hnew : StaticSound.new exSnd4 = .ok snd) (ch : Nat) :
    (Renderer.runDeviceCallbacks (exScene 8 snd).C (exScene 8 snd).V ch (exScene 3 snd).r [1, 14]).2
      = (Renderer.runDeviceCallbacks (exScene 8 snd).C (exScene 8 snd).V ch (exScene 8 snd).r [5, 3, 7]).2 := by
  have h := (C11_real_scene_partition_invariant (exScene 8 snd) (exScene_stillIdle 8 (by norm_num) snd hnew) 3
    (by norm_num) ch [5, 3, 7] [1, 14] (by norm_num)).1
  rw [exScene_rebuf] at h
  exact h

end K
