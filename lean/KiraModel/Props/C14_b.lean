/-
  C14 (second half: delay and reverb) — documented transfer behaviour.
  Statements about the models of effect/delay.rs and effect/reverb.rs (+ comb.rs, all_pass.rs) over ℝ.
  The reverb's constants come from `Gen.lean`, re-extracted from the Rust source on every run, so the
  equalities below are re-checked against the current source.
-/
import KiraModel.Proofs.EffectsBProbe
import KiraModel.Proofs.EffectsBEcho
import KiraModel.Proofs.EffectsBReverb
import KiraModel.Proofs.EffectsBLines

namespace K
open LineFx

variable {φ : Type}

/-! ## Delay: echoes -/

/-- **the line length is max(⌊delay·fs⌋, 1) frames** (delay time in nanoseconds `ns`, sample rate `sr`), for `init`
    and for a sample-rate change, all zeros — and since the repair of `delay-length-float-floor` this is exact in
    the code too: the length is computed in integers, `ns·sr / 10⁹` rounded down, which IS `⌊ns/10⁹ · sr⌋`
    (before, the `f64` product could land just below a whole number of frames and the line was one frame
    short).  In particular a delay of exactly `k` frames (`ns·sr = k·10⁹`, `k ≥ 1`) gives a line of exactly `k`. -/
theorem C14_delay_line_length (C : FxChain ℝ φ) (d : Delay ℝ φ) (sr ibs : ℕ) :
    (d.init C sr ibs).buffer = List.replicate (max ⌊(d.delayNs : ℝ) / 1000000000 * (sr : ℝ)⌋₊ 1) Frame.zero
      ∧ (d.changeRate C sr).buffer
          = List.replicate (max ⌊(d.delayNs : ℝ) / 1000000000 * (sr : ℝ)⌋₊ 1) Frame.zero
      ∧ Delay.frames d.delayNs sr = max (d.delayNs * sr / 1000000000) 1
      ∧ d.delayNs * sr / 1000000000 = ⌊(d.delayNs : ℝ) / 1000000000 * (sr : ℝ)⌋₊
      ∧ ∀ k, 1 ≤ k → d.delayNs * sr = k * 1000000000 → (d.init C sr ibs).buffer.length = k := by
  refine ⟨by simp [Delay.init, Delay.changeRate, Delay.frames_real],
    by simp [Delay.init, Delay.changeRate, Delay.frames_real], rfl, Delay.frames_eq_floor _ _, ?_⟩
  intro k hk h
  simp only [Delay.init, Delay.frames, List.length_replicate, h]
  have : k * 1000000000 / 1000000000 = k := Nat.mul_div_cancel k (by norm_num)
  omega

/-- the line is never empty (at least one frame, whatever the delay time and sample rate): the
    `chunks_mut(0)` panic of a zero-length line is unreachable. -/
theorem C14_delay_line_nonempty (C : FxChain ℝ φ) (d : Delay ℝ φ) (sr ibs : ℕ) :
    1 ≤ (d.init C sr ibs).buffer.length ∧ 1 ≤ (d.changeRate C sr).buffer.length := by
  simp [Delay.init, Delay.changeRate, Delay.frames]

/-- **echoes at exact multiples of the delay time.**  A delay with a fresh line of `L ≥ 1` frames,
    stagnant feedback (amplitude `a = 10^(dB/20)`) and mix, and memoryless feedback effects `g`
    (the chain's output is `g` applied frame by frame, `g 0 = 0`; e.g. gains) is fed an impulse `x0` followed by `n` frames of silence.  Then it never faults,
    and output frame `t` is the wet/dry blend of the input frame with the wet sample
    `delayEcho t` = (`x0` passed `k` times through "`g`, then × `a`") if `t = k·L` with `k ≥ 1`, else zero:
    echo `k` returns at frame `k·L`, attenuated once more by the feedback gain and shaped once more by the
    feedback effects each time; nothing comes back in between. -/
theorem C14_delay_echoes (C : FxChain ℝ φ) (g : Frame ℝ → Frame ℝ) (hg0 : g Frame.zero = Frame.zero)
    (d : Delay ℝ φ) (dt : ℝ) (info : Info ℝ) (hgood : C.Good dt info)
    (hC : ∀ s xs, (C.process s xs dt info).2 = xs.map g)
    (hfb : d.feedback.stagnant = true) (hmx : d.mix.stagnant = true)
    (L : ℕ) (hL : 1 ≤ L) (hbuf : d.buffer = List.replicate L Frame.zero)
    (x0 : Frame ℝ) (n : ℕ) (ht : min L (n + 1) ≤ d.tempLen) :
    ∃ d' out, d.process C (x0 :: List.replicate n Frame.zero) dt info = .ok (d', out)
      ∧ ∀ t, t ≤ n → out[t]? = some
          (blend (Delay.delayEcho (fun f => (g f).scale (asAmplitude d.feedback.raw)) x0 L t)
                 (if t = 0 then x0 else Frame.zero) (clamp d.mix.raw 0 1)) := by
  have hlen : d.buffer.length = L := by rw [hbuf]; simp
  have hp := Delay.process_settled C d (x0 :: List.replicate n Frame.zero) dt info hgood hfb hmx
    (by rw [hlen]; exact hL) (by rw [hlen]; simpa using ht)
  refine ⟨_, _, hp, ?_⟩
  intro t htn
  have hh0 : (fun f => (g f).scale (asAmplitude d.feedback.raw)) (Frame.zero : Frame ℝ) = Frame.zero := by
    simp only [hg0, FrameB.zero_scale]
  obtain ⟨L', rfl⟩ : ∃ L', L = L' + 1 := ⟨L - 1, by omega⟩
  have hw := Delay.lineRun_impulse (fun f => (g f).scale (asAmplitude d.feedback.raw)) hh0 L' n x0 t htn
  simp only [Delay.perFrame, hbuf]
  rw [(Delay.framesC_memoryless C g _ _ dt info hC _ _ d.fx (by simp)).2]
  simp only [List.getElem?_zipWith, hw]
  cases t with
  | zero => simp
  | succ t =>
    have : (List.replicate n (Frame.zero : Frame ℝ))[t]? = some Frame.zero := by
      simp [List.getElem?_replicate]; omega
    simp [this]

/-- **any feedback effects (stateful ones included): the line recirculates.**  Stagnant parameters, a good
    chain, a line holding `W` (`L = |W| ≥ 1` frames), one line length of silence as input.  Then the output is
    the wet/dry blend of `T` with silence and the line afterwards holds exactly `T`, where `T` is `W` passed once
    through the feedback effects (from their current state, which advances accordingly) and once through
    the feedback gain.  Iterating: what was written into the line comes back after exactly `L` frames, shaped
    and attenuated once more on every trip. -/
theorem C14_delay_recirculates (C : FxChain ℝ φ) (d : Delay ℝ φ) (dt : ℝ) (info : Info ℝ) (hC : C.Good dt info)
    (hfb : d.feedback.stagnant = true) (hmx : d.mix.stagnant = true) (hL : 1 ≤ d.buffer.length)
    (ht : d.buffer.length ≤ d.tempLen) :
    ∃ d', d.process C (List.replicate d.buffer.length Frame.zero) dt info
        = .ok (d', ((C.process d.fx d.buffer dt info).2.map (fun f => f.scale (asAmplitude d.feedback.raw))).map
                    (fun t => blend t Frame.zero (clamp d.mix.raw 0 1)))
      ∧ d'.buffer = (C.process d.fx d.buffer dt info).2.map (fun f => f.scale (asAmplitude d.feedback.raw))
      ∧ d'.fx = (C.process d.fx d.buffer dt info).1 := by
  have hp := Delay.process_settled C d (List.replicate d.buffer.length Frame.zero) dt info hC hfb hmx hL
    (by rw [List.length_replicate, Nat.min_self]; exact ht)
  have hne : List.replicate d.buffer.length (Frame.zero : Frame ℝ) ≠ [] := by
    intro h0
    have h1 := congrArg List.length h0
    rw [List.length_replicate, List.length_nil] at h1
    omega
  have hch := Delay.chunkC_eq_framesC C (asAmplitude d.feedback.raw) (clamp d.mix.raw 0 1) dt info hC
    (d.buffer, d.fx) (List.replicate d.buffer.length Frame.zero) (by simp) hne
  have hTlen : ((C.process d.fx d.buffer dt info).2.map (fun f => f.scale (asAmplitude d.feedback.raw))).length
      = d.buffer.length := by simp [hC.len]
  have hadd : ∀ (T : List (Frame ℝ)) (n : ℕ), T.length = n →
      List.zipWith Frame.add (List.replicate n (Frame.zero : Frame ℝ)) T = T := by
    intro T
    induction T with
    | nil => intro n hn; subst hn; rfl
    | cons t T ih => intro n hn; subst hn; simp [List.replicate_succ, FrameB.zero_add, ih T.length rfl]
  have hbl : ∀ (T : List (Frame ℝ)) (n : ℕ) (m : ℝ), T.length = n →
      List.zipWith (fun t x => blend t x m) T (List.replicate n (Frame.zero : Frame ℝ))
        = T.map (fun t => blend t Frame.zero m) := by
    intro T
    induction T with
    | nil => intro n m hn; subst hn; rfl
    | cons t T ih => intro n m hn; subst hn; simp [List.replicate_succ, ih T.length m rfl]
  refine ⟨Delay.after C d (List.replicate d.buffer.length Frame.zero) dt info, ?_, ?_, ?_⟩
  · rw [hp]
    simp only [Delay.perFrame, ← hch, Delay.chunkC, List.length_replicate, List.take_length]
    rw [hbl _ _ _ hTlen]
  · simp only [Delay.after, Delay.perFrame, ← hch, Delay.chunkC, List.length_replicate, List.take_length,
      List.drop_length, List.nil_append]
    exact hadd _ _ hTlen
  · simp only [Delay.after, Delay.perFrame, ← hch, Delay.chunkC, List.length_replicate, List.take_length]

/-- with no feedback effects (or pure gains `G`) echo `k` is the impulse scaled by `(G·a)ᵏ` -/
theorem C14_delay_echo_amplitude (G a : ℝ) (x0 : Frame ℝ) (k : ℕ) :
    (fun f : Frame ℝ => (f.scale G).scale a)^[k] x0 = x0.scale ((G * a) ^ k) := by
  induction k generalizing x0 with
  | zero => simp [FrameB.scale_one]
  | succ k ih =>
    rw [Function.iterate_succ_apply, ih, FrameB.scale_scale, FrameB.scale_scale, pow_succ]
    congr 1; ring

/-- non-vacuity: the suite's gain-only probe effect (offset 0, feedback 0) is such a chain: good, and its
    output is the input scaled by the gain frame by frame -/
example (G : ℝ) (dt : ℝ) (info : Info ℝ) (prev : Frame ℝ) (xs : List (Frame ℝ)) :
    (ProbeFx.chain : FxChain ℝ _).Good dt info
      ∧ ((ProbeFx.chain : FxChain ℝ _).process [⟨G, 0, 0, prev⟩] xs dt info).2 = xs.map (fun f => f.scale G) :=
  ⟨ProbeFx.chain_good dt info, by
    simpa [ProbeFx.chain, ProbeFx.chainProcess] using
      ProbeFx.process_gain_only (⟨G, 0, 0, prev⟩ : ProbeFx ℝ) rfl rfl xs⟩

/-! ## Reverb: the Freeverb network -/

/-- Freeverb's `tuning.h`: `combtuningL1..8` -/
def freeverbCombTuning : List ℕ := [1116, 1188, 1277, 1356, 1422, 1491, 1557, 1617]
/-- Freeverb's `tuning.h`: `allpasstuningL1..4` -/
def freeverbAllPassTuning : List ℕ := [556, 441, 341, 225]

/-- **the model's reverb is the Freeverb network it cites.**  For every sample rate `sr`:
    8 comb lines and 4 all-pass lines per channel; line `c` of the tuning table has `⌊c·sr/44100⌋` slots on
    the left and `⌊(c+23)·sr/44100⌋` on the right (stereo spread 23), all starting at zero; the input gain is
    0.015 (`fixedgain`) and the all-pass feedback 0.5; the combs are summed (parallel), the all-passes
    chained (series).  The left-hand sides are built from the constants extracted from the Rust source. -/
theorem C14_freeverb_topology (sr : ℕ) :
    (ReverbLines.init sr : ReverbLines ℝ).combs
        = freeverbCombTuning.map (fun c => (Comb.new ⌊(c : ℝ) * ((sr : ℝ) / 44100)⌋₊,
                                             Comb.new ⌊(↑(c + 23) : ℝ) * ((sr : ℝ) / 44100)⌋₊))
      ∧ (ReverbLines.init sr : ReverbLines ℝ).allPasses
        = freeverbAllPassTuning.map (fun c => (AllPass.new ⌊(c : ℝ) * ((sr : ℝ) / 44100)⌋₊,
                                                AllPass.new ⌊(↑(c + 23) : ℝ) * ((sr : ℝ) / 44100)⌋₊))
      ∧ Gen.reverbNumCombFilters = 8 ∧ Gen.reverbNumAllPassFilters = 4 ∧ Gen.reverbStereoSpread = 23
      ∧ (Gen.reverbGain : ℝ) = 15 / 1000 ∧ (Gen.allPassFeedback : ℝ) = 1 / 2
      ∧ Gen.reverbCombCombine = .parallelSum ∧ Gen.reverbAllPassCombine = .series := by
  refine ⟨?_, ?_, rfl, rfl, rfl, ?_, ?_, rfl, rfl⟩
  · simp [ReverbLines.init, Gen.reverbCombTuning, Gen.reverbStereoSpread, freeverbCombTuning,
      ReverbLines.adjust_real, Gen.reverbReferenceSampleRate]
    norm_num
  · simp [ReverbLines.init, Gen.reverbAllPassTuning, Gen.reverbStereoSpread, freeverbAllPassTuning,
      ReverbLines.adjust_real, Gen.reverbReferenceSampleRate]
    norm_num
  · norm_num [Gen.reverbGain]
  · norm_num [Gen.allPassFeedback]

/-- **one frame through the network**: the mono sum of the input times 0.015 feeds every comb of both
    channels; the comb outputs are accumulated from zero; the sums run through the all-passes in order. -/
theorem C14_freeverb_network (ls : ReverbLines ℝ) (x : Frame ℝ) (fb dp : ℝ) :
    ls.frame x fb dp
      = match ReverbLines.combBank ((x.left + x.right) * (15 / 1000)) fb dp ls.combs Frame.zero with
        | .error e => .error e
        | .ok (combs', sum) =>
          match ReverbLines.allPassChain ls.allPasses sum with
          | .error e => .error e
          | .ok (aps', out) => .ok (⟨combs', aps'⟩, out) := by
  obtain ⟨combs, aps⟩ := ls
  have hg : (Gen.reverbGain : ℝ) = 15 / 1000 := by norm_num [Gen.reverbGain]
  simp only [ReverbLines.frame, r32_real, hg]
  rcases ReverbLines.combBank ((x.left + x.right) * (15 / 1000)) fb dp combs Frame.zero with e | ⟨a, b⟩
  · rfl
  · simp only
    rcases ReverbLines.allPassChain aps b with e | ⟨c, d⟩ <;> rfl

/-- **the comb line is Freeverb's low-pass-feedback comb**: it outputs the slot under the index (written
    `size` steps ago), low-passes it into `store' = out·(1 − damp) + store·damp`, overwrites the slot with
    `input + store'·feedback` and advances the index cyclically. -/
theorem C14_comb_step (c : Comb ℝ) (h : c.WF) (x fb dp : ℝ) :
    c.process x fb dp
      = .ok (⟨c.buffer[c.idx]'h * (1 - dp) + c.store * dp,
              c.buffer.setIfInBounds c.idx (x + (c.buffer[c.idx]'h * (1 - dp) + c.store * dp) * fb),
              (c.idx + 1) % c.buffer.size⟩, c.buffer[c.idx]'h) :=
  Comb.process_ok c h x fb dp

/-- **the all-pass line is Freeverb's all-pass**: output `−input + slot`, the slot becomes
    `input + slot·0.5`. -/
theorem C14_allpass_step (a : AllPass ℝ) (h : a.WF) (x : ℝ) :
    a.process x
      = .ok (⟨a.buffer.setIfInBounds a.idx (x + a.buffer[a.idx]'h * (1 / 2)), (a.idx + 1) % a.buffer.size⟩,
             -x + a.buffer[a.idx]'h) := by
  have hf : (Gen.allPassFeedback : ℝ) = 1 / 2 := by norm_num [Gen.allPassFeedback]
  rw [AllPass.process_ok a h, hf]

/-! ## Reverb: the comb is a delay line with a low-pass in its feedback path, and it decays -/

/-- **the comb ring buffer is a delay line of `size` frames.**  Read oldest-slot-first (`Comb.fifo`), one
    `process` step pops the oldest slot `y` (that is the output, written `size` steps earlier), updates
    the one-pole low-pass `store' = y·(1 − damp) + store·damp` and pushes `input + store'·feedback`:
    Freeverb's low-pass-feedback comb `y[t] = w[t − N]`, `w[t] = x[t] + feedback·lp(y)[t]`. -/
theorem C14_comb_is_delay_line (c : Comb ℝ) (h : c.WF) (x fb dp : ℝ) :
    ∃ y rest c', c.fifo = y :: rest ∧ c.process x fb dp = .ok (c', y)
      ∧ c'.store = y * (1 - dp) + c.store * dp
      ∧ c'.fifo = rest ++ [x + c'.store * fb] ∧ c'.fifo.length = c.fifo.length := by
  obtain ⟨c', h1, _, h2, h3⟩ := Comb.process_fifo c h x fb dp
  have hne : c.fifo ≠ [] := by
    intro h0
    have := Comb.fifo_length c
    rw [h0] at this
    have hw := h; unfold Comb.WF at hw
    simp at this; omega
  obtain ⟨y, rest, hyr⟩ := List.exists_cons_of_ne_nil hne
  refine ⟨y, rest, c', hyr, ?_, ?_, ?_, ?_⟩
  · rw [h1]; simp [Comb.fifoStep, hyr]
  · have := congrArg (fun p => p.2) h2
    simpa [Comb.fifoStep, hyr] using this
  · have e2 := congrArg (fun p => p.2) h2
    have e1 := congrArg (fun p => p.1) h2
    simp only [Comb.fifoStep, hyr] at e1 e2
    rw [e1, e2]
  · rw [Comb.fifo_length, Comb.fifo_length, h3]

/-- the decay rate per cycle of `N` frames: `q = feedback + damping·(1 − feedback)`; `q < 1` exactly when
    both are below 1 (for `0 ≤ feedback`, `0 ≤ damping`) -/
theorem C14_comb_rate_lt_one (fb dp : ℝ) (hfb : fb < 1) (hdp : dp < 1) : fb + dp * (1 - fb) < 1 := by
  nlinarith

/-- **the comb decays geometrically for feedback < 1.**  A comb line of `N` slots whose slots and store
    are within `M`, fed silence for any number `n` of frames (`Comb.run` iterates the model's
    `CombFilter::process`), with `0 ≤ feedback ≤ 1` and `0 ≤ damping ≤ 1`: output `i` is within `M` during
    the first cycle (`i < N`) and within `feedback · M · q^(i/N − 1)` afterwards, where
    `q = feedback + damping·(1 − feedback)` (`< 1` by `C14_comb_rate_lt_one`): each trip round the line
    multiplies the bound by `q`; with no damping, by the feedback itself. -/
theorem C14_comb_decays (c : Comb ℝ) (hw : c.WF) (fb dp M : ℝ) (hfb0 : 0 ≤ fb) (hfb1 : fb ≤ 1)
    (hdp0 : 0 ≤ dp) (hdp1 : dp ≤ 1) (hs : |c.store| ≤ M) (hbuf : ∀ e ∈ c.buffer.toList, |e| ≤ M) (n : ℕ) :
    ∃ c' ys, Comb.run fb dp c (List.replicate n 0) = .ok (c', ys)
      ∧ ∀ i, i < n → ∃ y, ys[i]? = some y
        ∧ |y| ≤ (if i < c.buffer.size then M
                 else fb * M * (fb + dp * (1 - fb)) ^ ((i - c.buffer.size) / c.buffer.size)) := by
  obtain ⟨c', hrun, _, _⟩ := Comb.run_fifo fb dp (List.replicate n 0) c hw
  refine ⟨c', _, hrun, ?_⟩
  have hM : 0 ≤ M := le_trans (abs_nonneg _) hs
  have hne : c.fifo ≠ [] := by
    intro h0
    have := Comb.fifo_length c
    rw [h0] at this
    have hw' := hw; unfold Comb.WF at hw'
    simp at this; omega
  have hinv : Comb.CycInv fb M M M c.fifo [] c.store :=
    ⟨fun e he => hbuf e ((Comb.mem_fifo c e).mp he), by simp, by simpa using hs⟩
  intro i hi
  have := Comb.fifoRun_decay fb dp hfb0 hfb1 hdp0 hdp1 c.buffer.size n M M M c.fifo [] c.store hM hM (by ring)
    (le_refl _) hne (by simp [Comb.fifo_length]) hinv i hi
  simpa [Comb.fifo_length] using this

/-- **impulse response of a fresh comb** (`CombFilter::new(N)`, `N ≥ 1`): nothing at frame 0, then within
    `|x0|` for one cycle and within `feedback·|x0|·q^k` afterwards — it decays for feedback < 1. -/
theorem C14_comb_impulse_response_decays (N : ℕ) (hN : 1 ≤ N) (fb dp x0 : ℝ) (hfb0 : 0 ≤ fb) (hfb1 : fb ≤ 1)
    (hdp0 : 0 ≤ dp) (hdp1 : dp ≤ 1) (n : ℕ) :
    ∃ c' ys, Comb.run fb dp (Comb.new N) (x0 :: List.replicate n 0) = .ok (c', 0 :: ys)
      ∧ ∀ i, i < n → ∃ y, ys[i]? = some y
        ∧ |y| ≤ (if i < N then |x0| else fb * |x0| * (fb + dp * (1 - fb)) ^ ((i - N) / N)) := by
  have hw := Comb.new_wf N hN
  obtain ⟨c1, h1, w1, e1, hsz⟩ := Comb.process_fifo (Comb.new N) hw x0 fb dp
  have hfifo : (Comb.new N : Comb ℝ).fifo = List.replicate N 0 := by
    simp [Comb.fifo, ringFifo, Comb.new]
  have hstore : (Comb.new N : Comb ℝ).store = 0 := by simp [Comb.new]
  obtain ⟨N', rfl⟩ : ∃ N', N = N' + 1 := ⟨N - 1, by omega⟩
  rw [hfifo, hstore] at h1 e1
  simp only [List.replicate_succ, Comb.fifoStep, zero_mul, add_zero, mul_zero] at h1 e1
  have hs1 : |c1.store| ≤ |x0| := by
    have := congrArg (fun p => p.2) e1
    simp only at this
    rw [this]; simp
  have hb1 : ∀ e ∈ c1.buffer.toList, |e| ≤ |x0| := by
    intro e he
    have hf := congrArg (fun p => p.1) e1
    simp only at hf
    have : e ∈ c1.fifo := (Comb.mem_fifo c1 e).mpr he
    rw [hf] at this
    simp only [List.mem_append, List.mem_replicate, List.mem_singleton] at this
    rcases this with ⟨_, rfl⟩ | rfl <;> simp
  obtain ⟨c', ys, hrun, hys⟩ := C14_comb_decays c1 w1 fb dp |x0| hfb0 hfb1 hdp0 hdp1 hs1 hb1 n
  refine ⟨c', ys, ?_, ?_⟩
  · simp only [Comb.run, h1, hrun]
  · have hsz' : c1.buffer.size = N' + 1 := by rw [hsz]; simp [Comb.new]
    simpa [hsz'] using hys

end K
