/-
  C14 (second half: delay and reverb) — documented transfer behaviour.
  Statements about the models of effect/delay.rs and effect/reverb.rs (+ comb.rs, all_pass.rs) over ℝ.
  The reverb's constants come from `Gen.lean`, re-extracted from the Rust source on every run, so the
  equalities below are re-checked against the current source.
-/
import KiraModel.Proofs.EffectsBProbe
import KiraModel.Proofs.EffectsBEcho
import KiraModel.Proofs.EffectsBReverb

namespace K
open LineFx

variable {φ : Type}

/-! ## Delay: echoes -/

/-- **the line length is ⌊delay·fs⌋ frames** (delay time in nanoseconds `ns`, sample rate `sr`), for `init`
    and for a sample-rate change, all zeros.  (Over ℝ.  In `f64` the product can round below a whole number
    of frames: known finding `delay-length-float-floor`.) -/
theorem C14_delay_line_length (C : FxChain ℝ φ) (d : Delay ℝ φ) (sr ibs : ℕ) :
    (d.init C sr ibs).buffer = List.replicate ⌊(d.delayNs : ℝ) / 1000000000 * (sr : ℝ)⌋₊ Frame.zero
      ∧ (d.changeRate C sr).buffer = List.replicate ⌊(d.delayNs : ℝ) / 1000000000 * (sr : ℝ)⌋₊ Frame.zero := by
  simp [Delay.init, Delay.changeRate, Delay.frames, durToSecs_real]

/-- **echoes at exact multiples of the delay time.**  A delay with a fresh line of `L ≥ 1` frames,
    stagnant feedback (amplitude `a = 10^(dB/20)`) and mix, and memoryless feedback effects `g`
    (the chain's output is `g` applied frame by frame, `g 0 = 0`; e.g. gains) is fed an impulse `x0` followed by `n` frames of silence.  Then it never faults,
    and output frame `t` is the wet/dry blend of the input frame with the wet sample
    `delayEcho t` = (`x0` passed `k` times through "`g`, then × `a`") if `t = k·L` with `k ≥ 1`, else zero:
    echo `k` returns at frame `k·L`, attenuated once more by the feedback gain and shaped once more by the
    feedback effects each time; nothing comes back in between. -/
theorem C14_delay_echoes (C : FxChain ℝ φ) (g : Frame ℝ → Frame ℝ) (hg0 : g Frame.zero = Frame.zero)
    (d : Delay ℝ φ) (dt : ℝ) (info : Info ℝ) (hgood : C.Good dt info)
    (hC : ∀ s xs, (C.process s xs dt info).2 = xs.map g)
    (hfb : d.feedback.stagnant = true) (hmx : d.mix.stagnant = true)
    (L : ℕ) (hL : 1 ≤ L) (hbuf : d.buffer = List.replicate L Frame.zero)
    (x0 : Frame ℝ) (n : ℕ) (ht : min L (n + 1) ≤ d.tempLen) :
    ∃ d' out, d.process C (x0 :: List.replicate n Frame.zero) dt info = .ok (d', out)
      ∧ ∀ t, t ≤ n → out[t]? = some
          (blend (Delay.delayEcho (fun f => (g f).scale (asAmplitude d.feedback.raw)) x0 L t)
                 (if t = 0 then x0 else Frame.zero) (clamp d.mix.raw 0 1)) := by
  have hlen : d.buffer.length = L := by rw [hbuf]; simp
  have hp := Delay.process_settled C d (x0 :: List.replicate n Frame.zero) dt info hgood hfb hmx
    (by rw [hlen]; exact hL) (by rw [hlen]; simpa using ht)
  refine ⟨_, _, hp, ?_⟩
  intro t htn
  have hh0 : (fun f => (g f).scale (asAmplitude d.feedback.raw)) (Frame.zero : Frame ℝ) = Frame.zero := by
    simp only [hg0, Frame.zero_scale]
  obtain ⟨L', rfl⟩ : ∃ L', L = L' + 1 := ⟨L - 1, by omega⟩
  have hw := Delay.lineRun_impulse (fun f => (g f).scale (asAmplitude d.feedback.raw)) hh0 L' n x0 t htn
  simp only [Delay.perFrame, hbuf]
  rw [(Delay.framesC_memoryless C g _ _ dt info hC _ _ d.fx (by simp)).2]
  simp only [List.getElem?_zipWith, hw]
  cases t with
  | zero => simp
  | succ t =>
    have : (List.replicate n (Frame.zero : Frame ℝ))[t]? = some Frame.zero := by
      simp [List.getElem?_replicate]; omega
    simp [this]

/-- with no feedback effects (or pure gains `G`) echo `k` is the impulse scaled by `(G·a)ᵏ` -/
theorem C14_delay_echo_amplitude (G a : ℝ) (x0 : Frame ℝ) (k : ℕ) :
    (fun f : Frame ℝ => (f.scale G).scale a)^[k] x0 = x0.scale ((G * a) ^ k) := by
  induction k generalizing x0 with
  | zero => simp [Frame.scale_one]
  | succ k ih =>
    rw [Function.iterate_succ_apply, ih, Frame.scale_scale, Frame.scale_scale, pow_succ]
    congr 1; ring

/-- non-vacuity: the suite's gain-only probe effect (offset 0, feedback 0) is such a chain: good, and its
    output is the input scaled by the gain frame by frame -/
example (G : ℝ) (dt : ℝ) (info : Info ℝ) (prev : Frame ℝ) (xs : List (Frame ℝ)) :
    (ProbeFx.chain : FxChain ℝ _).Good dt info
      ∧ ((ProbeFx.chain : FxChain ℝ _).process [⟨G, 0, 0, prev⟩] xs dt info).2 = xs.map (fun f => f.scale G) :=
  ⟨ProbeFx.chain_good dt info, by
    simpa [ProbeFx.chain, ProbeFx.chainProcess] using
      ProbeFx.process_gain_only (⟨G, 0, 0, prev⟩ : ProbeFx ℝ) rfl rfl xs⟩

/-! ## Reverb: the Freeverb network -/

/-- Freeverb's `tuning.h`: `combtuningL1..8` -/
def freeverbCombTuning : List ℕ := [1116, 1188, 1277, 1356, 1422, 1491, 1557, 1617]
/-- Freeverb's `tuning.h`: `allpasstuningL1..4` -/
def freeverbAllPassTuning : List ℕ := [556, 441, 341, 225]

/-- **the model's reverb is the Freeverb network it cites.**  For every sample rate `sr`:
    8 comb lines and 4 all-pass lines per channel; line `c` of the tuning table has `⌊c·sr/44100⌋` slots on
    the left and `⌊(c+23)·sr/44100⌋` on the right (stereo spread 23), all starting at zero; the input gain is
    0.015 (`fixedgain`) and the all-pass feedback 0.5; the combs are summed (parallel), the all-passes
    chained (series).  The left-hand sides are built from the constants extracted from the Rust source. -/
theorem C14_freeverb_topology (sr : ℕ) :
    (ReverbLines.init sr : ReverbLines ℝ).combs
        = freeverbCombTuning.map (fun c => (Comb.new ⌊(c : ℝ) * ((sr : ℝ) / 44100)⌋₊,
                                             Comb.new ⌊(↑(c + 23) : ℝ) * ((sr : ℝ) / 44100)⌋₊))
      ∧ (ReverbLines.init sr : ReverbLines ℝ).allPasses
        = freeverbAllPassTuning.map (fun c => (AllPass.new ⌊(c : ℝ) * ((sr : ℝ) / 44100)⌋₊,
                                                AllPass.new ⌊(↑(c + 23) : ℝ) * ((sr : ℝ) / 44100)⌋₊))
      ∧ Gen.reverbNumCombFilters = 8 ∧ Gen.reverbNumAllPassFilters = 4 ∧ Gen.reverbStereoSpread = 23
      ∧ (Gen.reverbGain : ℝ) = 15 / 1000 ∧ (Gen.allPassFeedback : ℝ) = 1 / 2
      ∧ Gen.reverbCombCombine = .parallelSum ∧ Gen.reverbAllPassCombine = .series := by
  refine ⟨?_, ?_, rfl, rfl, rfl, ?_, ?_, rfl, rfl⟩
  · simp [ReverbLines.init, Gen.reverbCombTuning, Gen.reverbStereoSpread, freeverbCombTuning,
      ReverbLines.adjust_real, Gen.reverbReferenceSampleRate]
    norm_num
  · simp [ReverbLines.init, Gen.reverbAllPassTuning, Gen.reverbStereoSpread, freeverbAllPassTuning,
      ReverbLines.adjust_real, Gen.reverbReferenceSampleRate]
    norm_num
  · norm_num [Gen.reverbGain]
  · norm_num [Gen.allPassFeedback]

/-- **one frame through the network**: the mono sum of the input times 0.015 feeds every comb of both
    channels; the comb outputs are accumulated from zero; the sums run through the all-passes in order. -/
theorem C14_freeverb_network (ls : ReverbLines ℝ) (x : Frame ℝ) (fb dp : ℝ) :
    ls.frame x fb dp
      = match ReverbLines.combBank ((x.left + x.right) * (15 / 1000)) fb dp ls.combs Frame.zero with
        | .error e => .error e
        | .ok (combs', sum) =>
          match ReverbLines.allPassChain ls.allPasses sum with
          | .error e => .error e
          | .ok (aps', out) => .ok (⟨combs', aps'⟩, out) := by
  obtain ⟨combs, aps⟩ := ls
  have hg : (Gen.reverbGain : ℝ) = 15 / 1000 := by norm_num [Gen.reverbGain]
  simp only [ReverbLines.frame, r32_real, hg]
  rcases ReverbLines.combBank ((x.left + x.right) * (15 / 1000)) fb dp combs Frame.zero with e | ⟨a, b⟩
  · rfl
  · simp only
    rcases ReverbLines.allPassChain aps b with e | ⟨c, d⟩ <;> rfl

/-- **the comb line is Freeverb's low-pass-feedback comb**: it outputs the slot under the index (written
    `size` steps ago), low-passes it into `store' = out·(1 − damp) + store·damp`, overwrites the slot with
    `input + store'·feedback` and advances the index cyclically. -/
theorem C14_comb_step (c : Comb ℝ) (h : c.WF) (x fb dp : ℝ) :
    c.process x fb dp
      = .ok (⟨c.buffer[c.idx]'h * (1 - dp) + c.store * dp,
              c.buffer.setIfInBounds c.idx (x + (c.buffer[c.idx]'h * (1 - dp) + c.store * dp) * fb),
              (c.idx + 1) % c.buffer.size⟩, c.buffer[c.idx]'h) :=
  Comb.process_ok c h x fb dp

/-- **the all-pass line is Freeverb's all-pass**: output `−input + slot`, the slot becomes
    `input + slot·0.5`. -/
theorem C14_allpass_step (a : AllPass ℝ) (h : a.WF) (x : ℝ) :
    a.process x
      = .ok (⟨a.buffer.setIfInBounds a.idx (x + a.buffer[a.idx]'h * (1 / 2)), (a.idx + 1) % a.buffer.size⟩,
             -x + a.buffer[a.idx]'h) := by
  have hf : (Gen.allPassFeedback : ℝ) = 1 / 2 := by norm_num [Gen.allPassFeedback]
  rw [AllPass.process_ok a h, hf]

end K
