/-
  C14 (second half: delay and reverb) — documented transfer behaviour.
  Statements about the models of effect/delay.rs and effect/reverb.rs (+ comb.rs, all_pass.rs) over ℝ.
  The reverb's constants come from `Gen.lean`, re-extracted from the Rust source on every run, so the
  equalities below are re-checked against the current source.
-/
import KiraModel.Proofs.EffectsBProbe
import KiraModel.Proofs.EffectsBReverb

namespace K
open LineFx

/-! ## Reverb: the Freeverb network -/

/-- Freeverb's `tuning.h`: `combtuningL1..8` -/
def freeverbCombTuning : List ℕ := [1116, 1188, 1277, 1356, 1422, 1491, 1557, 1617]
/-- Freeverb's `tuning.h`: `allpasstuningL1..4` -/
def freeverbAllPassTuning : List ℕ := [556, 441, 341, 225]

/-- **the model's reverb is the Freeverb network it cites.**  For every sample rate `sr`:
    8 comb lines and 4 all-pass lines per channel; line `c` of the tuning table has `⌊c·sr/44100⌋` slots on
    the left and `⌊(c+23)·sr/44100⌋` on the right (stereo spread 23), all starting at zero; the input gain is
    0.015 (`fixedgain`) and the all-pass feedback 0.5; the combs are summed (parallel), the all-passes
    chained (series).  The left-hand sides are built from the constants extracted from the Rust source. -/
theorem C14_freeverb_topology (sr : ℕ) :
    (ReverbLines.init sr : ReverbLines ℝ).combs
        = freeverbCombTuning.map (fun c => (Comb.new ⌊(c : ℝ) * ((sr : ℝ) / 44100)⌋₊,
                                             Comb.new ⌊(↑(c + 23) : ℝ) * ((sr : ℝ) / 44100)⌋₊))
      ∧ (ReverbLines.init sr : ReverbLines ℝ).allPasses
        = freeverbAllPassTuning.map (fun c => (AllPass.new ⌊(c : ℝ) * ((sr : ℝ) / 44100)⌋₊,
                                                AllPass.new ⌊(↑(c + 23) : ℝ) * ((sr : ℝ) / 44100)⌋₊))
      ∧ Gen.reverbNumCombFilters = 8 ∧ Gen.reverbNumAllPassFilters = 4 ∧ Gen.reverbStereoSpread = 23
      ∧ (Gen.reverbGain : ℝ) = 15 / 1000 ∧ (Gen.allPassFeedback : ℝ) = 1 / 2
      ∧ Gen.reverbCombCombine = .parallelSum ∧ Gen.reverbAllPassCombine = .series := by
  refine ⟨?_, ?_, rfl, rfl, rfl, ?_, ?_, rfl, rfl⟩
  · simp [ReverbLines.init, Gen.reverbCombTuning, Gen.reverbStereoSpread, freeverbCombTuning,
      ReverbLines.adjust_real, Gen.reverbReferenceSampleRate]
    norm_num
  · simp [ReverbLines.init, Gen.reverbAllPassTuning, Gen.reverbStereoSpread, freeverbAllPassTuning,
      ReverbLines.adjust_real, Gen.reverbReferenceSampleRate]
    norm_num
  · norm_num [Gen.reverbGain]
  · norm_num [Gen.allPassFeedback]

/-- **one frame through the network**: the mono sum of the input times 0.015 feeds every comb of both
    channels; the comb outputs are accumulated from zero; the sums run through the all-passes in order. -/
theorem C14_freeverb_network (ls : ReverbLines ℝ) (x : Frame ℝ) (fb dp : ℝ) :
    ls.frame x fb dp
      = match ReverbLines.combBank ((x.left + x.right) * (15 / 1000)) fb dp ls.combs Frame.zero with
        | .error e => .error e
        | .ok (combs', sum) =>
          match ReverbLines.allPassChain ls.allPasses sum with
          | .error e => .error e
          | .ok (aps', out) => .ok (⟨combs', aps'⟩, out) := by
  obtain ⟨combs, aps⟩ := ls
  have hg : (Gen.reverbGain : ℝ) = 15 / 1000 := by norm_num [Gen.reverbGain]
  simp only [ReverbLines.frame, r32_real, hg]
  rcases ReverbLines.combBank ((x.left + x.right) * (15 / 1000)) fb dp combs Frame.zero with e | ⟨a, b⟩
  · rfl
  · simp only
    rcases ReverbLines.allPassChain aps b with e | ⟨c, d⟩ <;> rfl

/-- **the comb line is Freeverb's low-pass-feedback comb**: it outputs the slot under the index (written
    `size` steps ago), low-passes it into `store' = out·(1 − damp) + store·damp`, overwrites the slot with
    `input + store'·feedback` and advances the index cyclically. -/
theorem C14_comb_step (c : Comb ℝ) (h : c.WF) (x fb dp : ℝ) :
    c.process x fb dp
      = .ok (⟨c.buffer[c.idx]'h * (1 - dp) + c.store * dp,
              c.buffer.setIfInBounds c.idx (x + (c.buffer[c.idx]'h * (1 - dp) + c.store * dp) * fb),
              (c.idx + 1) % c.buffer.size⟩, c.buffer[c.idx]'h) :=
  Comb.process_ok c h x fb dp

/-- **the all-pass line is Freeverb's all-pass**: output `−input + slot`, the slot becomes
    `input + slot·0.5`. -/
theorem C14_allpass_step (a : AllPass ℝ) (h : a.WF) (x : ℝ) :
    a.process x
      = .ok (⟨a.buffer.setIfInBounds a.idx (x + a.buffer[a.idx]'h * (1 / 2)), (a.idx + 1) % a.buffer.size⟩,
             -x + a.buffer[a.idx]'h) := by
  have hf : (Gen.allPassFeedback : ℝ) = 1 / 2 := by norm_num [Gen.allPassFeedback]
  rw [AllPass.process_ok a h, hf]

end K
