def hello := "world"
