/-
  Meta.lean — `gen_body% t`: elaborate `t` and unfold every GENERATED definition (a plain `def` in namespace
  `K.Gen`, see KiraModel/Gen.lean and KiraModel/GenFn.lean) occurring in it, β-reducing as it goes.

  Used by the hand-written model files to take the body of a definition from the generated layer:
      def asAmplitude (db : α) : α := gen_body% Gen.decibelsAsAmplitude db
  makes the *body* of `asAmplitude` the term the translator produced from the Rust source (so `unfold`,
  `simp [asAmplitude]`, `split`, … see the real body, exactly as if it had been typed in), and a change of the Rust
  item changes the model, the twin and what the theorems are about.

  Not trusted: the result is an ordinary term that the kernel type-checks against the declared type, and
  Proofs/GenAgree.lean re-proves `Gen.x = x` by `rfl` for every definition written this way.
  Imports core Lean only (no Mathlib).
-/
import Lean.Elab.Command
import Lean.Elab.Term
import Lean.Meta.Transform

open Lean Meta Elab Term

namespace K.Meta

/-- a plain definition of the generated layer (not a matcher, not a constructor/recursor) -/
def isGenDef (env : Environment) (n : Name) : Bool :=
  (`K.Gen).isPrefixOf n && !isMatcherCore env n &&
    (match env.find? n with
     | some (.defnInfo _) => true
     | _ => false)

/-- `S.proj_i (S.mk a₀ … aₙ)` ↦ `aᵢ` (left behind when a generated constructor function such as `Frame::new`
    is unfolded under a generated operator) -/
def reduceProjOfCtor (env : Environment) (e : Expr) : Option Expr :=
  match e.getAppFn with
  | .const n _ =>
    match env.getProjectionFnInfo? n with
    | some info =>
      let args := e.getAppArgs
      match args[info.numParams]? with
      | some s =>
        match s.getAppFn with
        | .const c _ =>
          let numFields := match env.find? c with
            | some (.ctorInfo ci) => ci.numFields
            | _ => 0
          if c == info.ctorName && s.getAppNumArgs == info.numParams + numFields && info.i < numFields then
            let field := s.getAppArgs[info.numParams + info.i]!
            some (mkAppN field (args.extract (info.numParams + 1) args.size))
          else none
        | _ => none
      | none => none
    | none => none
  | _ => none

/-- `gen_alias Gen.x => y`: from here on `gen_body%` writes the hand name `y` (applied to the explicit arguments)
    instead of unfolding `Gen.x` — so that a body that calls another translated item mentions the model's
    own name for it (`e.apply …`, `silenceDb`), as the hand-written body did. -/
initialize genAliasExt : SimplePersistentEnvExtension (Name × Name) (NameMap Name) ←
  registerSimplePersistentEnvExtension {
    addEntryFn := fun m (a, b) => m.insert a b
    addImportedFn := fun ess => ess.foldl (fun m es => es.foldl (fun m (a, b) => m.insert a b) m) {}
  }

/-- unfold the generated definitions in `e` (repeatedly), β-reducing the unfolded heads; aliased ones are
    replaced by the hand name -/
partial def unfoldGen (e : Expr) : TermElabM Expr := do
  let env ← getEnv
  let aliases := genAliasExt.getState env
  Meta.transform e (post := fun e => do
      match reduceProjOfCtor env e with
      | some e' => return .visit e'
      | none => return .done e)
    (pre := fun e => do
      match e.getAppFn with
      | .const n us =>
        if isGenDef env n then
          match aliases.find? n with
          | some hand =>
            let args := e.getAppArgs
            let info ← getFunInfoNArgs e.getAppFn args.size
            let mut explicit : Array (TSyntax `term) := #[]
            for h : i in [0:args.size] do
              if (info.paramInfo[i]?.map (·.isExplicit)).getD true then
                explicit := explicit.push (← Lean.Elab.Term.exprToSyntax (← unfoldGen args[i]))
            let stx ← `($(mkIdent hand) $explicit*)
            let ty ← inferType e
            let e' ← Lean.Elab.Term.elabTermEnsuringType stx (some ty)
            Lean.Elab.Term.synthesizeSyntheticMVarsNoPostponing
            return .done (← instantiateMVars e')
          | none =>
            match env.find? n with
            | some ci =>
              if ci.levelParams.length == us.length then
                let body := ci.instantiateValueLevelParams! us
                return .visit (body.beta e.getAppArgs)
              else return .continue
            | none => return .continue
        else return .continue
      | _ => return .continue)

end K.Meta

/-- `gen_body% t` — `t` with every generated (`K.Gen.*`) definition unfolded -/
elab "gen_body% " t:term : term <= expectedType => do
  let e ← Lean.Elab.Term.elabTermEnsuringType t (some expectedType)
  Lean.Elab.Term.synthesizeSyntheticMVarsNoPostponing
  let e ← Lean.instantiateMVars e
  K.Meta.unfoldGen e

/-- `gen_alias Gen.x => y` (see `K.Meta.genAliasExt`) -/
elab "gen_alias " g:ident " => " h:ident : command => do
  let gn ← Lean.Elab.Command.liftCoreM <| Lean.Elab.realizeGlobalConstNoOverloadWithInfo g
  let hn ← Lean.Elab.Command.liftCoreM <| Lean.Elab.realizeGlobalConstNoOverloadWithInfo h
  Lean.modifyEnv fun env => K.Meta.genAliasExt.addEntry env (gn, hn)
