/-
  Num.lean — the numeric interface the whole model is written against.

  The model is generic over a number type `α`.  It is interpreted twice:
  * at `Float` (IEEE binary64, with `r32` rounding to binary32 where kira holds an `f32`)
    it is the executable twin that is compared bit-for-bit with kira;
  * at `ℝ` (in `Proofs/`, `Props/`) it is what the theorems are about.

  Core arithmetic (`+ - * / -x < ≤`, scientific literals) comes from the core type
  classes so that at `ℝ` the model's `a + b` *is* Mathlib's `a + b` (no instance
  diamonds); everything else kira uses (libm, casts, rounding to f32, `Duration`)
  is a field of `KOps`.

  This file imports nothing (core Lean only).
-/

/-- Operations of kira's floating point code that are not core type-class arithmetic. -/
class KOps (α : Type) where
  /-- round to `f32` and widen again (identity over ℝ) -/
  r32 : α → α
  /-- `f64::sqrt` (IEEE exact; `r32 (sqrt x)` is `f32::sqrt` for an `f32` `x`) -/
  sqrt : α → α
  /-- `f64::powf` -/
  pow : α → α → α
  /-- `f32::powf` on values that are already `f32` -/
  pow32 : α → α → α
  /-- `f64::tan` -/
  tan : α → α
  /-- `f64::exp` -/
  exp : α → α
  /-- `f64::sin` -/
  sin : α → α
  /-- `f32::log10` on a value that is already `f32` -/
  log10_32 : α → α
  /-- `f32::exp` on a value that is already `f32` -/
  exp32 : α → α
  floor : α → α
  ceil : α → α
  abs : α → α
  isNaN : α → Bool
  /-- `n as f64` (exact below 2^53) -/
  ofNat : Nat → α
  /-- `x as u64` / `x as usize`: truncate toward zero, saturate, NaN ↦ 0 -/
  toNatSat : α → Nat
  /-- `std::time::Duration::from_secs_f64` in nanoseconds (for non-negative finite input) -/
  durFromSecs : α → Nat
  /-- `std::f64::consts::PI` -/
  pi : α
  /-- `std::f32::consts::SQRT_2` (as an f32 value) -/
  sqrt2_32 : α
  /-- `f32::sin` on a value that is already `f32` (C15: glam `sin_cos`) -/
  sin32 : α → α
  /-- `f32::cos` on a value that is already `f32` (C15: glam `sin_cos`) -/
  cos32 : α → α
  /-- `f32::is_finite` / `f64::is_finite` (always true over ℝ) -/
  isFinite : α → Bool
  /-- clamp of an integer result to the `u64` range, as `u64::saturating_add` does (`min n (2^64 - 1)` in
      the twin; the identity over ℝ, where integers are ideal like `toNatSat`) -/
  satU64 : Nat → Nat := fun n => n

namespace K

variable {α : Type} [Add α] [Sub α] [Mul α] [Div α] [Neg α] [LT α] [LE α]
  [DecidableLT α] [DecidableLE α] [OfScientific α] [KOps α]

/-- IEEE `==` (and equality over ℝ): `x ≤ y ∧ y ≤ x`. -/
@[inline] def feq (x y : α) : Bool := decide (x ≤ y) && decide (y ≤ x)

/-- Rust `f64::max` (a NaN argument is ignored). -/
def fmax (x y : α) : α :=
  if KOps.isNaN x then y else if KOps.isNaN y then x else if x < y then y else x

/-- Rust `f64::min` (a NaN argument is ignored). -/
def fmin (x y : α) : α :=
  if KOps.isNaN x then y else if KOps.isNaN y then x else if y < x then y else x

/-- Rust `f64::clamp lo hi` for `lo ≤ hi` (NaN passes through unchanged). -/
def clamp (x lo hi : α) : α :=
  if x < lo then lo else if hi < x then hi else x

/-- `if x.is_nan() { 0.0 } else { x }` (identity over ℝ) -/
def nanToZero (x : α) : α := if KOps.isNaN x then (0.0 : α) else x

/-- Rust `f64::trunc`. -/
def trunc (x : α) : α := if x < (0.0 : α) then KOps.ceil x else KOps.floor x

/-- Rust `f64::fract` = `x - x.trunc()`. -/
def fract (x : α) : α := x - trunc x

/-- `x % 1.0` for the (non-negative) arguments kira passes. -/
def fmod1 (x : α) : α := x - trunc x

/-- `Duration::as_secs_f64` on nanoseconds: `secs as f64 + nanos as f64 / 1e9`. -/
def durToSecs (ns : Nat) : α :=
  (KOps.ofNat (ns / 1000000000) : α) + (KOps.ofNat (ns % 1000000000) : α) / (1000000000.0 : α)

/-- compiler-rt / compiler-builtins `__powidf2` for a natural exponent: square and multiply. -/
def powiNat : Nat → α → α → Nat → α
  | 0, _, r, _ => r
  | fuel + 1, a, r, b =>
    let r := if b % 2 = 1 then r * a else r
    let b := b / 2
    if b = 0 then r else powiNat fuel (a * a) r b

/-- Rust `f64::powi`. -/
def powi (x : α) (n : Int) : α :=
  let r := powiNat 64 x (1.0 : α) n.natAbs
  if n < 0 then (1.0 : α) / r else r

end K
