/-
  SoundCore.lean — the life-cycle part that `StaticSound` and `StreamingSound` have in common:
  playback state manager + the sound's own start time + the state mirrored to the handle, the three
  command handlers, and the gating prefix of `process`.
  mirrors: sound/static_sound/sound.rs and sound/streaming/sound.rs
           (`pause`, `resume`, `stop`, `update_shared_playback_state`, the part of `process` from
            `playback_state_manager.update` to the `is_advancing` test), sound.rs::Sound::finished
-/
import KiraModel.Model.Psm

namespace K

variable {α : Type} [Add α] [Sub α] [Mul α] [Div α] [Neg α] [LT α] [LE α]
  [DecidableLT α] [DecidableLE α] [OfScientific α] [KOps α]

/-- the fields of `StaticSound` / `StreamingSound` that carry the playback life cycle -/
structure SoundCore (α : Type) where
  psm : Psm α
  /-- `start_time` of the sound itself -/
  startTime : StartTime α
  /-- `Shared::state` — what `handle.state()` returns -/
  shared : PlaybackState

namespace SoundCore

/-- the core of a freshly built sound (`Shared.state` starts as `Playing`) -/
def new (startTime : StartTime α) (fadeIn : Option (Tween α)) : SoundCore α :=
  { psm := Psm.new fadeIn, startTime := startTime, shared := .playing }

/-- mirrors: update_shared_playback_state -/
def syncShared (c : SoundCore α) : SoundCore α := { c with shared := c.psm.playbackState }

/-- mirrors: StaticSound::pause / StreamingSound::pause -/
def pause (c : SoundCore α) (tw : Tween α) : SoundCore α := syncShared { c with psm := c.psm.pause tw }

/-- mirrors: StaticSound::resume / StreamingSound::resume -/
def resume (c : SoundCore α) (st : StartTime α) (tw : Tween α) : SoundCore α :=
  syncShared { c with psm := c.psm.resume st tw }

/-- mirrors: StaticSound::stop / StreamingSound::stop -/
def stop (c : SoundCore α) (tw : Tween α) : SoundCore α := syncShared { c with psm := c.psm.stop tw }

/-- mirrors: `playback_state_manager.mark_as_stopped(); update_shared_playback_state()`
    (natural end, decoder error, start time that can never come) -/
def markStopped (c : SoundCore α) : SoundCore α := syncShared { c with psm := c.psm.markAsStopped }

/-- `process`, step 1: `if playback_state_manager.update(..) { update_shared_playback_state() }` -/
def gatePsm (c : SoundCore α) (dtc : α) (info : Info α) : SoundCore α :=
  let r := c.psm.update dtc info
  let c1 : SoundCore α := { c with psm := r.1 }
  if r.2 then c1.syncShared else c1

/-- `process`, step 2: `if start_time.update(..) { mark_as_stopped(); update_shared_playback_state() }` -/
def gateStart (c : SoundCore α) (dtc : α) (info : Info α) : SoundCore α :=
  let u := c.startTime.update dtc info
  let c1 : SoundCore α := { c with startTime := u.1 }
  if u.2 then c1.markStopped else c1

/-- mirrors: the gating prefix of `process`: update the state manager and the start time; the
    Boolean says whether the sound renders audio in this call (`false` = the buffer is zero-filled
    and nothing else is touched: the start time is still pending, or the state does not advance).
    `dtc = dt * out.len()`. -/
def gate (c : SoundCore α) (dtc : α) (info : Info α) : SoundCore α × Bool :=
  let c' := (c.gatePsm dtc info).gateStart dtc info
  (c', c'.startTime.isImmediate && c'.psm.playbackState.isAdvancing)

/-- mirrors: Sound::finished -/
def finished (c : SoundCore α) : Bool := c.psm.playbackState == .stopped

/-- everything that can happen to the life cycle of a sound -/
inductive Event (α : Type) where
  | pause (tw : Tween α)
  | resume (st : StartTime α) (tw : Tween α)
  | stop (tw : Tween α)
  /-- one `process` call (its gating prefix) -/
  | gate (dtc : α) (info : Info α)
  /-- natural end / decoder error -/
  | markStopped

def apply (c : SoundCore α) : Event α → SoundCore α
  | .pause tw => c.pause tw
  | .resume st tw => c.resume st tw
  | .stop tw => c.stop tw
  | .gate dtc info => (c.gate dtc info).1
  | .markStopped => c.markStopped

def run (c : SoundCore α) : List (Event α) → SoundCore α
  | [] => c
  | e :: es => run (c.apply e) es

end SoundCore
end K
