/-
  Easing.lean — easing curves, tween value, modulator mapping.
  mirrors: tween.rs (Easing::apply, Tween::value), value.rs (Mapping::map)
-/
import KiraModel.Model.Units

namespace K

variable {α : Type} [Add α] [Sub α] [Mul α] [Div α] [Neg α] [LT α] [LE α]
  [DecidableLT α] [DecidableLE α] [OfScientific α] [KOps α]

/-- mirrors: tween.rs::Easing::apply — generated (GenFn.lean) -/
def Easing.apply (e : Easing α) (x : α) : α := gen_body% Gen.easingApply e x
gen_alias Gen.easingApply => Easing.apply

/-- mirrors: tween.rs::Tween::value (`duration` in nanoseconds) — generated (GenFn.lean) -/
def tweenValue (easing : Easing α) (durationNs : Nat) (time : α) : α := gen_body% Gen.tweenValue easing durationNs time
gen_alias Gen.tweenValue => tweenValue

def tw64 : Tweenable α α := ⟨lerp64⟩
def tw32 : Tweenable α α := ⟨lerp32⟩
/-- mirrors: tweenable.rs `impl Tweenable for Duration` (nanoseconds) -/
def twDur : Tweenable α Nat := ⟨fun a b t => gen_body% Gen.durationInterpolate a b t⟩
/-- mirrors: clock_speed.rs `impl Tweenable for ClockSpeed` -/
def twCs : Tweenable α (ClockSpeed α) := ⟨ClockSpeed.lerp⟩

/-- mirrors: value.rs::Mapping::map — the eased amount in [0,1] -/
def Mapping.amount {τ : Type} (m : Mapping α τ) (input : α) : α :=
  let a := (input - m.in0) / (m.in1 - m.in0)
  let a := clamp a (0.0 : α) (1.0 : α)
  m.easing.apply a

/-- mirrors: value.rs::Mapping::map -/
def Mapping.map {τ : Type} (tw : Tweenable α τ) (m : Mapping α τ) (input : α) : τ :=
  tw.lerp m.out0 m.out1 (m.amount input)

/-- `Mapping<f64>::map` -/
def Mapping.map64 (m : Mapping α α) (input : α) : α := m.map tw64 input

/-- `Mapping<T>::map` for `f32`-backed units (Decibels, Panning, Mix, f32) -/
def Mapping.map32 (m : Mapping α α) (input : α) : α := m.map tw32 input

end K
