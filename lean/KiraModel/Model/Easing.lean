/-
  Easing.lean — easing curves, tween value, modulator mapping.
  mirrors: tween.rs (Easing::apply, Tween::value), value.rs (Mapping::map)
-/
import KiraModel.Model.Units

namespace K

variable {α : Type} [Add α] [Sub α] [Mul α] [Div α] [Neg α] [LT α] [LE α]
  [DecidableLT α] [DecidableLE α] [OfScientific α] [KOps α]

/-- mirrors: tween.rs::Easing -/
inductive Easing (α : Type) where
  | linear
  | inPowi (p : Int)
  | outPowi (p : Int)
  | inOutPowi (p : Int)
  | inPowf (p : α)
  | outPowf (p : α)
  | inOutPowf (p : α)
deriving Repr

/-- mirrors: tween.rs::Easing::apply -/
def Easing.apply (e : Easing α) (x : α) : α :=
  match e with
  | .linear => x
  | .inPowi p => powi x p
  | .outPowi p => (1.0 : α) - powi ((1.0 : α) - x) p
  | .inOutPowi p =>
    let x := x * (2.0 : α)
    if x < (1.0 : α) then (0.5 : α) * powi x p
    else
      let x := (2.0 : α) - x
      (0.5 : α) * ((1.0 : α) - powi x p) + (0.5 : α)
  | .inPowf p => KOps.pow x p
  | .outPowf p => (1.0 : α) - KOps.pow ((1.0 : α) - x) p
  | .inOutPowf p =>
    let x := x * (2.0 : α)
    if x < (1.0 : α) then (0.5 : α) * KOps.pow x p
    else
      let x := (2.0 : α) - x
      (0.5 : α) * ((1.0 : α) - KOps.pow x p) + (0.5 : α)

/-- mirrors: tween.rs::Tween::value (`duration` in nanoseconds) -/
def tweenValue (easing : Easing α) (durationNs : Nat) (time : α) : α :=
  easing.apply (time / (durToSecs durationNs : α))

/-- mirrors: value.rs::Mapping (output type f64) -/
structure Mapping (α : Type) where
  in0 : α
  in1 : α
  out0 : α
  out1 : α
  easing : Easing α

/-- mirrors: value.rs::Mapping::map — the eased amount in [0,1] -/
def Mapping.amount (m : Mapping α) (input : α) : α :=
  let a := (input - m.in0) / (m.in1 - m.in0)
  let a := clamp a (0.0 : α) (1.0 : α)
  m.easing.apply a

/-- mirrors: value.rs::Mapping::map for `T = f64` -/
def Mapping.map64 (m : Mapping α) (input : α) : α := lerp64 m.out0 m.out1 (m.amount input)

/-- mirrors: value.rs::Mapping::map for `T = f32`-backed units (Decibels, Panning, Mix, f32) -/
def Mapping.map32 (m : Mapping α) (input : α) : α := lerp32 m.out0 m.out1 (m.amount input)

end K
