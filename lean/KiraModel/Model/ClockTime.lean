/-
  ClockTime.lean — clock-time arithmetic and ordering (one clock).
  mirrors: clock/time.rs
  Non-finite amounts are rejected by a debug assertion in kira; the model is for finite amounts.
  `u64` tick counts are unbounded `Nat` here (overflow of `ticks + n` is outside the model).
-/
import KiraModel.Model.Units

namespace K

variable {α : Type} [Add α] [Sub α] [Mul α] [Div α] [Neg α] [LT α] [LE α]
  [DecidableLT α] [DecidableLE α] [OfScientific α] [KOps α]

-- `structure ClockTime` is declared in Model/UnitTypes.lean (the generated layer uses it)

/-- `f64::is_sign_negative` for finite values: negative, or `-0.0` (one over minus zero is minus infinity). -/
def signNeg (x : α) : Bool :=
  decide (x < (0.0 : α)) || (feq x (0.0 : α) && decide ((1.0 : α) / x < (0.0 : α)))

namespace ClockTime

/-- mirrors: clock/time.rs::ClockTime::from_ticks_f64 — generated (GenFn.lean) -/
def fromTicksF64 (x : α) : ClockTime α := gen_body% Gen.clockTimeFromTicksF64 x
gen_alias Gen.clockTimeFromTicksF64 => fromTicksF64

/-- mirrors: `impl Add<u64> for ClockTime` — generated (GenFn.lean) -/
def addU64 (t : ClockTime α) (n : Nat) : ClockTime α := gen_body% Gen.clockTimeAddU64 t n
gen_alias Gen.clockTimeAddU64 => addU64

/-- mirrors: `impl Sub<u64> for ClockTime` (`none` = u64 underflow: panic in debug builds) -/
def subU64 (t : ClockTime α) (n : Nat) : Option (ClockTime α) :=
  if n ≤ t.ticks then some ⟨t.ticks - n, t.fraction⟩ else none

/-- body of `Add<f64>` for a sign-positive amount -/
def addPos (t : ClockTime α) (x : α) : ClockTime α :=
  ⟨t.ticks + KOps.toNatSat (trunc (t.fraction + x)), fract (t.fraction + x)⟩

/-- body of `Sub<f64>` for a sign-positive amount -/
def subPos (t : ClockTime α) (x : α) : ClockTime α :=
  let fr := fract (t.fraction - x)
  let k := KOps.toNatSat (KOps.ceil (x - t.fraction))
  if fr < (0.0 : α) then
    let fr1 := fr + (1.0 : α)
    -- adding 1.0 can round a tiny negative fraction up to a whole tick: give that tick back
    if (1.0 : α) ≤ fr1 then ⟨t.ticks - (k - 1), (0.0 : α)⟩ else ⟨t.ticks - k, fr1⟩
  else ⟨t.ticks - k, fr⟩

/-- mirrors: `impl Add<f64> for ClockTime` -/
def addF64 (t : ClockTime α) (x : α) : ClockTime α :=
  if signNeg x then subPos t (-x) else addPos t x

/-- mirrors: `impl Sub<f64> for ClockTime` -/
def subF64 (t : ClockTime α) (x : α) : ClockTime α :=
  if signNeg x then addPos t (-x) else subPos t x

/-- mirrors: `impl PartialOrd for ClockTime` (same clock). 0 = Less, 1 = Equal, 2 = Greater, 3 = None -/
def cmp (a b : ClockTime α) : Nat :=
  if a.ticks < b.ticks then 0
  else if b.ticks < a.ticks then 2
  else if a.fraction < b.fraction then 0
  else if b.fraction < a.fraction then 2
  else if feq a.fraction b.fraction then 1
  else 3

/-- `a >= b` as Rust derives it from `partial_cmp` -/
def ge (a b : ClockTime α) : Bool := cmp a b == 1 || cmp a b == 2

/-- mirrors: clock/time.rs (`ClockTime::from_ticks_u64`: whole ticks, fraction 0) -/
def fromTicksU64 (n : Nat) : ClockTime α := ⟨n, (0.0 : α)⟩

/-- mirrors: clock/time.rs (`impl AddAssign<u64> for ClockTime`: `self.ticks += ticks`) -/
def addAssignU64 (t : ClockTime α) (n : Nat) : ClockTime α := { t with ticks := t.ticks + n }

/-- mirrors: clock/time.rs (`impl SubAssign<u64> for ClockTime`: `self.ticks -= ticks`; `none` = u64 underflow) -/
def subAssignU64 (t : ClockTime α) (n : Nat) : Option (ClockTime α) :=
  if n ≤ t.ticks then some { t with ticks := t.ticks - n } else none

/-- mirrors: clock/time.rs (`impl AddAssign<f64> for ClockTime`: `*self = *self + ticks`) -/
def addAssignF64 (t : ClockTime α) (x : α) : ClockTime α := addF64 t x

/-- mirrors: clock/time.rs (`impl SubAssign<f64> for ClockTime`: `*self = *self - ticks`) -/
def subAssignF64 (t : ClockTime α) (x : α) : ClockTime α := subF64 t x

/-- `a < b`, `a <= b`, `a > b`, `a >= b` as Rust derives them from `partial_cmp`, and the derived `==` (same clock) -/
def lt (a b : ClockTime α) : Bool := cmp a b == 0
def le (a b : ClockTime α) : Bool := cmp a b == 0 || cmp a b == 1
def gt (a b : ClockTime α) : Bool := cmp a b == 2
def eqv (a b : ClockTime α) : Bool := a.ticks == b.ticks && feq a.fraction b.fraction

end ClockTime
end K
