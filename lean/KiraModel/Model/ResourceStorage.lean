/-
  ResourceStorage.lean — backend/resources.rs: `ResourceStorage<T>` / `SelfReferentialResourceStorage<T>`
  (audio side) together with their `ResourceController<T>` (gameplay side).

  One `Store` record holds everything the two ends share or own: the arena controller (shared
  atomics), the arena (audio side), the new-resource ring (gameplay → audio) and the
  unused-resource ring (audio → gameplay).  The primitive steps below are the atomic actions of
  `Conc/ResourceHandshake.lean`; the whole operations (`insertWithKey`, `removeAndAdd`, …) are those
  steps run to completion and are what the twin executes.  Core Lean only.
-/
import KiraModel.Model.Arena

namespace K

/-- mirrors: backend/resources.rs::{ResourceStorage, ResourceController} (both ends) -/
structure Store (τ : Type) where
  /-- `ResourceController::arena_controller` = `Arena::controller` (one shared `Arc`) -/
  ctrl : Controller
  /-- `ResourceStorage::resources` -/
  arena : Arena τ
  /-- `new_resource_producer` / `new_resource_consumer` -/
  newRing : Ring (Key × τ)
  /-- `unused_resource_producer` / `unused_resource_consumer` -/
  unused : Ring τ
  /-- ghost: resources destroyed so far by the controller side, oldest first -/
  dropped : List τ
deriving DecidableEq, Repr

namespace Store
variable {τ : Type}

/-- mirrors: resources.rs::ResourceStorage::new -/
def new (cap : Nat) : Store τ :=
  { ctrl := Controller.new cap, arena := Arena.new cap, newRing := Ring.new cap, unused := Ring.new cap,
    dropped := [] }

/-- mirrors: resources.rs::ResourceController::capacity -/
def capacity (s : Store τ) : Nat := s.ctrl.capacity

/-- mirrors: resources.rs::ResourceController::len -/
def len (s : Store τ) : Nat := s.ctrl.len

/-! #### gameplay side (ResourceController) -/

/-- mirrors: resources.rs::ResourceController::try_reserve (`ok none` = `Err(ResourceLimitReached)`).
    A capacity of 0 is answered with the limit error *before* the arena controller is asked
    (atomic-arena's `try_reserve` would index slot 0 of an empty slot vector). -/
def tryReserve (s : Store τ) : Except SFault (Option Key × Store τ) :=
  if s.ctrl.capacity = 0 then .ok (none, s) else
  match s.ctrl.tryReserve with
  | .error e => .error e
  | .ok (k, c) => .ok (k, { s with ctrl := c })

/-- one iteration of `while unused_resource_consumer.pop().is_ok() {}`: `none` = the loop ends -/
def popUnused (s : Store τ) : Option (Store τ) :=
  match s.unused.pop with
  | none => none
  | some (x, r) => some { s with unused := r, dropped := s.dropped ++ [x] }

/-- mirrors: resources.rs::ResourceController::remove_unused (the popped resources are dropped here,
    on the caller's thread) -/
def drainUnused (s : Store τ) : Store τ :=
  { s with unused := { s.unused with items := [] }, dropped := s.dropped ++ s.unused.items }

/-- the push in `insert_with_key`; panics "new resource producer full" -/
def pushNew (s : Store τ) (k : Key) (x : τ) : Except SFault (Store τ) :=
  match s.newRing.push (k, x) with
  | none => .error .queueFull
  | some r => .ok { s with newRing := r }

/-- mirrors: resources.rs::ResourceController::insert_with_key -/
def insertWithKey (s : Store τ) (k : Key) (x : τ) : Except SFault (Store τ) :=
  s.drainUnused.pushNew k x

/-- mirrors: resources.rs::ResourceController::insert.  On `Err(ResourceLimitReached)` the resource
    is dropped by the caller (it never entered the store). -/
def insert (s : Store τ) (x : τ) : Except SFault (Option Key × Store τ) :=
  match s.tryReserve with
  | .error e => .error e
  | .ok (none, s1) => .ok (none, s1)
  | .ok (some k, s1) =>
    match s1.insertWithKey k x with
    | .error e => .error e
    | .ok s2 => .ok (some k, s2)

/-- mirrors: error.rs::PlaySoundError / the `Ok` of `play` -/
inductive PlayResult where
  /-- `Err(PlaySoundError::IntoSoundError(_))` -/
  | intoSoundError
  /-- `Err(PlaySoundError::SoundLimitReached)` -/
  | limit
  /-- `Ok(handle)`; the sound travels under this key -/
  | ok (k : Key)
deriving DecidableEq, Repr

/-- mirrors: track/main/handle.rs::MainTrackHandle::play, track/sub/handle.rs::TrackHandle::play,
    mirrors: track/sub/spatial_handle.rs::SpatialTrackHandle::play (and manager.rs::AudioManager::play, which
    forwards to the main track): `sound_data.into_sound()` comes *first* — when it fails
    (`sound = none`) `play` returns before the sound storage is touched, nothing is reserved — and
    only then `sound_controller.insert(sound)`. -/
def play (s : Store τ) (sound : Option τ) : Except SFault (PlayResult × Store τ) :=
  match sound with
  | none => .ok (.intoSoundError, s)
  | some x =>
    match s.insert x with
    | .error e => .error e
    | .ok (none, s1) => .ok (.limit, s1)
    | .ok (some k, s1) => .ok (.ok k, s1)

/-- `n` plays in a row whose `into_sound()` fails -/
def failedPlays : Nat → Store τ → Except SFault (Store τ)
  | 0, s => .ok s
  | n + 1, s =>
    match s.play none with
    | .error e => .error e
    | .ok (_, s1) => failedPlays n s1

/-! #### audio side (ResourceStorage) -/

/-- the push in `remove_and_add`; panics "unused resource producer is full" -/
def pushUnused (s : Store τ) (x : τ) : Except SFault (Store τ) :=
  match s.unused.push x with
  | none => .error .queueFull
  | some r => .ok { s with unused := r }

/-- one `DrainFilter::next` visit of slot `i`: if the slot's resource passes the test it is taken
    out of the arena (and its slot freed in the controller) and returned.
    mirrors: atomic-arena iter.rs::DrainFilter::next (one loop iteration) -/
def drainVisit (test : τ → Bool) (s : Store τ) (i : Nat) : Except SFault (Option τ × Store τ) :=
  match s.arena.slots[i]? with
  | none => .error .indexOOB
  | some sl =>
    match sl.data with
    | none => .error .expectFailed      -- "the iterator should not encounter a free slot"
    | some d =>
      if test d then
        match s.arena.removeFromSlot s.ctrl i with
        | .error e => .error e
        | .ok (x, a, c) => .ok (x, { s with arena := a, ctrl := c })
      else .ok (none, s)

/-- `for (_, resource) in self.resources.drain_filter(remove_test) { push unused }` over the
    iteration order captured when the loop starts -/
def drainLoop (test : τ → Bool) : List Nat → Store τ → Except SFault (Store τ)
  | [], s => .ok s
  | i :: rest, s =>
    match s.drainVisit test i with
    | .error e => .error e
    | .ok (none, s1) => drainLoop test rest s1
    | .ok (some x, s1) =>
      match s1.pushUnused x with
      | .error e => .error e
      | .ok s2 => drainLoop test rest s2

/-- first half of `ResourceStorage::remove_and_add` (up to the yield site
    `resources.remove_and_add.between`) -/
def drainPhase (test : τ → Bool) (s : Store τ) : Except SFault (Store τ) :=
  drainLoop test s.arena.order s

/-- one iteration of `while let Ok((key, resource)) = new_resource_consumer.pop() { insert_with_key(..).expect(..) }`;
    `ok none` = the loop ends -/
def popNewInsert (s : Store τ) : Except SFault (Option Key × Store τ) :=
  match s.newRing.pop with
  | none => .ok (none, s)
  | some ((k, x), r) =>
    match s.arena.insertWithKey k x with
    | .error _ => .error .expectFailed      -- "error inserting resource"
    | .ok a => .ok (some k, { s with newRing := r, arena := a })

/-- the insert loop over the items that are in the ring -/
def addItems : List (Key × τ) → Store τ → Except SFault (Store τ × List Key)
  | [], s => .ok (s, [])
  | _ :: rest, s =>
    match s.popNewInsert with
    | .error e => .error e
    | .ok (none, s1) => .ok (s1, [])
    | .ok (some k, s1) =>
      match addItems rest s1 with
      | .error e => .error e
      | .ok (s2, ks) => .ok (s2, k :: ks)

/-- second half of `remove_and_add`; also returns the keys inserted, in order -/
def addPhase (s : Store τ) : Except SFault (Store τ × List Key) := addItems s.newRing.items s

/-- mirrors: resources.rs::ResourceStorage::remove_and_add -/
def removeAndAdd (test : τ → Bool) (s : Store τ) : Except SFault (Store τ) :=
  match s.drainPhase test with
  | .error e => .error e
  | .ok s1 =>
    match s1.addPhase with
    | .error e => .error e
    | .ok (s2, _) => .ok s2

/-- mirrors: resources.rs::ResourceStorage::iter / iter_mut (newest first) -/
def iter (s : Store τ) : List (Key × τ) := s.arena.iter

/-- mirrors: resources.rs::ResourceStorage::get_mut -/
def get (s : Store τ) (k : Key) : Except SFault (Option τ) := s.arena.get k

/-- every resource object the store currently holds, wherever it is -/
def objects (s : Store τ) : List τ :=
  s.arena.iter.map (·.2) ++ s.newRing.items.map (·.2) ++ s.unused.items

end Store

/-- mirrors: backend/resources.rs::SelfReferentialResourceStorage (+ its controller) -/
structure SelfStore (τ : Type) where
  base : Store τ
  /-- `keys: Vec<Key>` — insertion order -/
  keys : List Key
  /-- `dummy: T` -/
  dummy : τ
deriving DecidableEq, Repr

namespace SelfStore
variable {τ : Type}

/-- mirrors: resources.rs::SelfReferentialResourceStorage::new -/
def new (cap : Nat) (dummy : τ) : SelfStore τ := { base := Store.new cap, keys := [], dummy := dummy }

/-- mirrors: resources.rs::SelfReferentialResourceStorage::remove_unused — walks `keys` in order,
    stops as soon as the unused ring is full -/
def removeUnused (test : τ → Bool) : List Key → Store τ → Except SFault (List Key × Store τ)
  | [], s => .ok ([], s)
  | k :: rest, s =>
    if s.unused.isFull then .ok (k :: rest, s)
    else
      match s.arena.get k with
      | .error e => .error e
      | .ok none => .error .expectFailed           -- `self.resources[key]`: "No item associated with this key"
      | .ok (some d) =>
        if test d then
          match s.arena.remove s.ctrl k with
          | .error e => .error e
          | .ok (none, _, _) => .error .expectFailed   -- `.unwrap()`
          | .ok (some x, a, c) =>
            match ({ s with arena := a, ctrl := c } : Store τ).pushUnused x with
            | .error e => .error e
            | .ok s1 => removeUnused test rest s1
        else
          match removeUnused test rest s with
          | .error e => .error e
          | .ok (ks, s1) => .ok (k :: ks, s1)

/-- first half of `remove_and_add` (up to `resources.selfref.remove_and_add.between`) -/
def drainPhase (test : τ → Bool) (ss : SelfStore τ) : Except SFault (SelfStore τ) :=
  match removeUnused test ss.keys ss.base with
  | .error e => .error e
  | .ok (ks, s) => .ok { ss with base := s, keys := ks }

/-- second half: pop, insert, `keys.push(key)` -/
def addPhase (ss : SelfStore τ) : Except SFault (SelfStore τ) :=
  match ss.base.addPhase with
  | .error e => .error e
  | .ok (s, ks) => .ok { ss with base := s, keys := ss.keys ++ ks }

/-- mirrors: resources.rs::SelfReferentialResourceStorage::remove_and_add -/
def removeAndAdd (test : τ → Bool) (ss : SelfStore τ) : Except SFault (SelfStore τ) :=
  match ss.drainPhase test with
  | .error e => .error e
  | .ok s1 => s1.addPhase

/-- one visit of `for_each`: swap the slot with the dummy, call `f` on the resource with the rest of
    the arena (where the visited key now resolves to the dummy), swap back.
    Returns the arena after the visit, and what `f` saw: (the resource, what its own key resolved to). -/
def visit (f : τ → Arena τ → τ) (dummy : τ) (a : Arena τ) (k : Key) : Except SFault (Arena τ × (τ × Option τ)) :=
  match a.get k with
  | .error e => .error e
  | .ok none => .error .expectFailed            -- `self.resources[*key]`
  | .ok (some d) =>
    let a1 := a.setData k.index dummy
    let d' := f d a1
    .ok (a1.setData k.index d', (d, a1.get? k))

def forEachLoop (f : τ → Arena τ → τ) (dummy : τ) : List Key → Arena τ → Except SFault (Arena τ × List (τ × Option τ))
  | [], a => .ok (a, [])
  | k :: rest, a =>
    match visit f dummy a k with
    | .error e => .error e
    | .ok (a1, v) =>
      match forEachLoop f dummy rest a1 with
      | .error e => .error e
      | .ok (a2, vs) => .ok (a2, v :: vs)

/-- mirrors: resources.rs::SelfReferentialResourceStorage::for_each (visits `keys` in insertion order) -/
def forEach (f : τ → Arena τ → τ) (ss : SelfStore τ) : Except SFault (SelfStore τ × List (τ × Option τ)) :=
  match forEachLoop f ss.dummy ss.keys ss.base.arena with
  | .error e => .error e
  | .ok (a, vs) => .ok ({ ss with base := { ss.base with arena := a } }, vs)

end SelfStore
end K
