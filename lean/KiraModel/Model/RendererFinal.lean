/-
  RendererFinal.lean — the last stage of `Renderer::process_chunk`: conversion of the bus frames to
  the device's interleaved samples.
  mirrors: backend/renderer.rs::Renderer::process_chunk (the "convert from frames to requested number
           of channels" loop), Renderer::process (chunking by internal_buffer_size)
-/
import KiraModel.Model.Units

namespace K

variable {α : Type} [Add α] [Sub α] [Mul α] [Div α] [Neg α] [LT α] [LE α]
  [DecidableLT α] [DecidableLE α] [OfScientific α] [KOps α]

/-- one bus frame → `numChannels` interleaved samples (numChannels ≥ 1) -/
def convertFrame (numChannels : Nat) (f : Frame α) : List α :=
  -- NaN is replaced by silence before the clamp (`f32::clamp` lets NaN through)
  let l := clamp (nanToZero f.left) (-(1.0 : α)) (1.0 : α)
  let r := clamp (nanToZero f.right) (-(1.0 : α)) (1.0 : α)
  if numChannels = 1 then [KOps.r32 (KOps.r32 (l + r) / (2.0 : α))]
  else l :: r :: List.replicate (numChannels - 2) (0.0 : α)

/-- a chunk of bus frames → interleaved samples -/
def convertChunk (numChannels : Nat) (bus : List (Frame α)) : List α :=
  bus.flatMap (convertFrame numChannels)

/-- sizes of the chunks `Renderer::process` cuts a callback of `frames` frames into -/
def finalChunkSizes (ibs : Nat) : Nat → Nat → List Nat
  | 0, _ => []
  | fuel + 1, frames =>
    if frames = 0 then [] else
    let n := if ibs ≤ frames then ibs else frames
    n :: finalChunkSizes ibs fuel (frames - n)

end K
