/-
  Units.lean — decibels, panning, semitones, clock speed, mix, frames.
  mirrors: decibels.rs, panning.rs, frame.rs (`panned`, `as_mono`), semitones.rs,
           playback_rate.rs, clock/clock_speed.rs, tween/tweenable.rs (f32/f64 interpolate)
-/
import KiraModel.Num

namespace K

variable {α : Type} [Add α] [Sub α] [Mul α] [Div α] [Neg α] [LT α] [LE α]
  [DecidableLT α] [DecidableLE α] [OfScientific α] [KOps α]

/-- `Decibels::SILENCE` -/
def silenceDb : α := -(60.0 : α)

/-- mirrors: decibels.rs::Decibels::as_amplitude (argument is an `f32` value) -/
def asAmplitude (db : α) : α :=
  if feq db (0.0 : α) then (1.0 : α)
  else if db ≤ (silenceDb : α) then (0.0 : α)
  else KOps.pow32 (10.0 : α) (KOps.r32 (db / (20.0 : α)))

/-- mirrors: tweenable.rs `impl Tweenable for f64` -/
def lerp64 (a b amount : α) : α := a + (b - a) * amount

/-- mirrors: tweenable.rs `impl Tweenable for f32` (`a + (b - a) * amount as f32`) -/
def lerp32 (a b amount : α) : α :=
  KOps.r32 (a + KOps.r32 (KOps.r32 (b - a) * KOps.r32 amount))

/-- A stereo frame (`f32` components). mirrors: frame.rs::Frame -/
structure Frame (α : Type) where
  left : α
  right : α
deriving Repr

namespace Frame
def zero : Frame α := ⟨(0.0 : α), (0.0 : α)⟩
/-- mirrors: frame.rs `impl Add for Frame` -/
def add (a b : Frame α) : Frame α := ⟨KOps.r32 (a.left + b.left), KOps.r32 (a.right + b.right)⟩
def sub (a b : Frame α) : Frame α := ⟨KOps.r32 (a.left - b.left), KOps.r32 (a.right - b.right)⟩
/-- mirrors: frame.rs `impl Mul<f32> for Frame` -/
def scale (a : Frame α) (k : α) : Frame α := ⟨KOps.r32 (a.left * k), KOps.r32 (a.right * k)⟩
def divs (a : Frame α) (k : α) : Frame α := ⟨KOps.r32 (a.left / k), KOps.r32 (a.right / k)⟩
def neg (a : Frame α) : Frame α := ⟨-a.left, -a.right⟩
/-- mirrors: frame.rs::Frame::as_mono -/
def asMono (a : Frame α) : Frame α :=
  let m := KOps.r32 (KOps.r32 (a.left + a.right) / (2.0 : α)); ⟨m, m⟩
/-- mirrors: frame.rs::Frame::panned -/
def panned (f : Frame α) (panning : α) : Frame α :=
  if feq panning (0.0 : α) then f
  else
    let p := clamp panning (-(1.0 : α)) (1.0 : α)
    let m := KOps.r32 (KOps.r32 (p + (1.0 : α)) * (0.5 : α))
    let l := KOps.r32 (f.left * KOps.r32 (KOps.sqrt (KOps.r32 ((1.0 : α) - m))))
    let r := KOps.r32 (f.right * KOps.r32 (KOps.sqrt m))
    ⟨KOps.r32 (l * KOps.sqrt2_32), KOps.r32 (r * KOps.sqrt2_32)⟩
/-- mirrors: tweenable.rs-style interpolation used on frames (`a + (b - a) * t`) -/
def lerp (a b : Frame α) (t : α) : Frame α := add a (scale (sub b a) t)
end Frame

/-- mirrors: semitones.rs `impl From<Semitones> for PlaybackRate` -/
def semitonesToRate (s : α) : α := KOps.pow (2.0 : α) (s / (12.0 : α))

/-- mirrors: clock/clock_speed.rs::ClockSpeed -/
inductive ClockSpeed (α : Type) where
  | secondsPerTick (v : α)
  | ticksPerSecond (v : α)
  | ticksPerMinute (v : α)
deriving Repr

namespace ClockSpeed
def asSecondsPerTick : ClockSpeed α → α
  | secondsPerTick v => v
  | ticksPerSecond v => (1.0 : α) / v
  | ticksPerMinute v => (60.0 : α) / v
def asTicksPerSecond : ClockSpeed α → α
  | secondsPerTick v => (1.0 : α) / v
  | ticksPerSecond v => v
  | ticksPerMinute v => v / (60.0 : α)
def asTicksPerMinute : ClockSpeed α → α
  | secondsPerTick v => (60.0 : α) / v
  | ticksPerSecond v => v * (60.0 : α)
  | ticksPerMinute v => v
/-- the number a speed holds, in its own unit -/
def raw : ClockSpeed α → α
  | secondsPerTick v => v
  | ticksPerSecond v => v
  | ticksPerMinute v => v
/-- the interpolation in the unit of the target speed (all of `impl Tweenable for ClockSpeed` until the
    repair; over ℝ it still is: `lerp_real`) -/
def lerpInTargetUnit (a b : ClockSpeed α) (t : α) : ClockSpeed α :=
  match b with
  | secondsPerTick bv => secondsPerTick (lerp64 a.asSecondsPerTick bv t)
  | ticksPerSecond bv => ticksPerSecond (lerp64 a.asTicksPerSecond bv t)
  | ticksPerMinute bv => ticksPerMinute (lerp64 a.asTicksPerMinute bv t)
/-- the interpolation in the unit of the starting speed (the second `match` of `impl Tweenable for ClockSpeed`) -/
def lerpInStartUnit (a b : ClockSpeed α) (t : α) : ClockSpeed α :=
  match a with
  | secondsPerTick av => secondsPerTick (lerp64 av b.asSecondsPerTick t)
  | ticksPerSecond av => ticksPerSecond (lerp64 av b.asTicksPerSecond t)
  | ticksPerMinute av => ticksPerMinute (lerp64 av b.asTicksPerMinute t)
/-- mirrors: clock_speed.rs `impl Tweenable for ClockSpeed`: in the unit of the target speed; when that
    value is not finite (the starting speed is infinite in the target's unit — 0 ticks per second is
    infinitely many seconds per tick —, `inf + (b − inf)·t` is NaN) in the unit of the starting speed; and
    the starting speed itself if that is NaN (an infinite difference times an amount of 0) -/
def lerp (a b : ClockSpeed α) (t : α) : ClockSpeed α :=
  let inTargetUnit := lerpInTargetUnit a b t
  if KOps.isFinite inTargetUnit.raw then inTargetUnit
  else
    let inStartUnit := lerpInStartUnit a b t
    if KOps.isNaN inStartUnit.raw then a else inStartUnit
end ClockSpeed

end K
