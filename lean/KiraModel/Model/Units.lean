/-
  Units.lean — decibels, panning, semitones, clock speed, mix, frames.
  mirrors: decibels.rs, panning.rs, frame.rs (`panned`, `as_mono`), semitones.rs,
           playback_rate.rs, clock/clock_speed.rs, tween/tweenable.rs (f32/f64 interpolate)
-/
import KiraModel.Num
import KiraModel.GenFn
import KiraModel.Meta

namespace K

variable {α : Type} [Add α] [Sub α] [Mul α] [Div α] [Neg α] [LT α] [LE α]
  [DecidableLT α] [DecidableLE α] [OfScientific α] [KOps α]

/-- `Decibels::SILENCE` — generated from decibels.rs (GenFn.lean) -/
def silenceDb : α := gen_body% Gen.decibelsSilence
gen_alias Gen.decibelsSilence => silenceDb

/-- mirrors: decibels.rs::Decibels::as_amplitude (argument is an `f32` value) — generated (GenFn.lean) -/
def asAmplitude (db : α) : α := gen_body% Gen.decibelsAsAmplitude db
gen_alias Gen.decibelsAsAmplitude => asAmplitude

/-- mirrors: tweenable.rs `impl Tweenable for f64` — generated (GenFn.lean) -/
def lerp64 (a b amount : α) : α := gen_body% Gen.f64Interpolate a b amount
gen_alias Gen.f64Interpolate => lerp64

/-- mirrors: tweenable.rs `impl Tweenable for f32` (`a + (b - a) * amount as f32`) — generated (GenFn.lean) -/
def lerp32 (a b amount : α) : α := gen_body% Gen.f32Interpolate a b amount
gen_alias Gen.f32Interpolate => lerp32

namespace Frame
def zero : Frame α := ⟨(0.0 : α), (0.0 : α)⟩
/-- mirrors: frame.rs `impl Add for Frame` — generated (GenFn.lean) -/
def add (a b : Frame α) : Frame α := gen_body% Gen.frameAdd a b
/-- mirrors: frame.rs `impl Sub for Frame` — generated (GenFn.lean) -/
def sub (a b : Frame α) : Frame α := gen_body% Gen.frameSub a b
/-- mirrors: frame.rs `impl Mul<f32> for Frame` — generated (GenFn.lean) -/
def scale (a : Frame α) (k : α) : Frame α := gen_body% Gen.frameMulF32 a k
/-- mirrors: frame.rs `impl Div<f32> for Frame` — generated (GenFn.lean) -/
def divs (a : Frame α) (k : α) : Frame α := gen_body% Gen.frameDivF32 a k
/-- mirrors: frame.rs `impl Neg for Frame` — generated (GenFn.lean) -/
def neg (a : Frame α) : Frame α := gen_body% Gen.frameNeg a
/-- mirrors: frame.rs::Frame::as_mono — generated (GenFn.lean) -/
def asMono (a : Frame α) : Frame α := gen_body% Gen.frameAsMono a
/-- mirrors: frame.rs::Frame::panned — generated (GenFn.lean) -/
def panned (f : Frame α) (panning : α) : Frame α := gen_body% Gen.framePanned f panning
gen_alias Gen.frameAdd => add
gen_alias Gen.frameSub => sub
gen_alias Gen.frameMulF32 => scale
gen_alias Gen.frameDivF32 => divs
gen_alias Gen.frameNeg => neg
gen_alias Gen.frameAsMono => asMono
gen_alias Gen.framePanned => panned
/-- mirrors: tweenable.rs-style interpolation used on frames (`a + (b - a) * t`) -/
def lerp (a b : Frame α) (t : α) : Frame α := add a (scale (sub b a) t)
end Frame

/-- mirrors: semitones.rs `impl From<Semitones> for PlaybackRate` — generated (GenFn.lean) -/
def semitonesToRate (s : α) : α := gen_body% Gen.semitonesToPlaybackRate s
gen_alias Gen.semitonesToPlaybackRate => semitonesToRate

namespace ClockSpeed
/-- mirrors: clock_speed.rs::ClockSpeed::as_seconds_per_tick — generated (GenFn.lean) -/
def asSecondsPerTick (s : ClockSpeed α) : α := gen_body% Gen.clockSpeedAsSecondsPerTick s
gen_alias Gen.clockSpeedAsSecondsPerTick => asSecondsPerTick
/-- mirrors: clock_speed.rs::ClockSpeed::as_ticks_per_second — generated (GenFn.lean) -/
def asTicksPerSecond (s : ClockSpeed α) : α := gen_body% Gen.clockSpeedAsTicksPerSecond s
gen_alias Gen.clockSpeedAsTicksPerSecond => asTicksPerSecond
/-- mirrors: clock_speed.rs::ClockSpeed::as_ticks_per_minute — generated (GenFn.lean) -/
def asTicksPerMinute (s : ClockSpeed α) : α := gen_body% Gen.clockSpeedAsTicksPerMinute s
gen_alias Gen.clockSpeedAsTicksPerMinute => asTicksPerMinute
/-- the number a speed holds, in its own unit -/
def raw : ClockSpeed α → α
  | secondsPerTick v => v
  | ticksPerSecond v => v
  | ticksPerMinute v => v
/-- the interpolation in the unit of the target speed (all of `impl Tweenable for ClockSpeed` until the repair
    724c1bb; over ℝ it still is: `C05_speed_interpolation`) — hand-written, the reference the repaired
    function is compared with -/
def lerpInTargetUnit (a b : ClockSpeed α) (t : α) : ClockSpeed α :=
  match b with
  | secondsPerTick bv => secondsPerTick (lerp64 a.asSecondsPerTick bv t)
  | ticksPerSecond bv => ticksPerSecond (lerp64 a.asTicksPerSecond bv t)
  | ticksPerMinute bv => ticksPerMinute (lerp64 a.asTicksPerMinute bv t)
/-- mirrors: clock_speed.rs::ClockSpeed::interpolate_in_unit_of_start (the interpolation in the unit of the
    STARTING speed; the starting speed itself when that is NaN) — generated (GenFn.lean) -/
def lerpInUnitOfStart (a b : ClockSpeed α) (t : α) : ClockSpeed α :=
  gen_body% Gen.clockSpeedInterpolateInUnitOfStart a b t
gen_alias Gen.clockSpeedInterpolateInUnitOfStart => lerpInUnitOfStart
/-- mirrors: clock_speed.rs `impl Tweenable for ClockSpeed`: in the unit of the target speed; when that value
    is not finite (the starting speed is infinite in the target's unit — 0 ticks per second is infinitely many
    seconds per tick —, `inf + (b − inf)·t` is NaN) `interpolate_in_unit_of_start` — generated (GenFn.lean) -/
def lerp (a b : ClockSpeed α) (t : α) : ClockSpeed α := gen_body% Gen.clockSpeedInterpolate a b t
gen_alias Gen.clockSpeedInterpolate => lerp
end ClockSpeed

end K
