/-
  SoundDelivery.lean — a static sound together with the two ends of its nine command channels
  (`StaticSoundHandle`'s `CommandWriters`, `StaticSound`'s `CommandReaders`): what a handle method
  writes, what `on_start_processing` reads and applies, what the handle observes afterwards
  (`state()`, `position()`).  Composition of Model/Conc/CommandChan.lean (the channels),
  Model/CommandReaders.lean (the read order) and Model/StaticSound.lean (the sound).
  mirrors: sound/static_sound/handle.rs::StaticSoundHandle, sound/static_sound/sound.rs::StaticSound::read_commands,
           sound/static_sound.rs (`command_writers_and_readers!`)
-/
import KiraModel.Model.CommandReaders
import KiraModel.Model.StaticSound

namespace K

variable {α : Type} [Add α] [Sub α] [Mul α] [Div α] [Neg α] [LT α] [LE α]
  [DecidableLT α] [DecidableLE α] [OfScientific α] [KOps α]

/-- mirrors: sound/static_sound/handle.rs::StaticSoundHandle — the command writer each method uses -/
def Command.kind : Command α → Cmd.StaticKind
  | .setVolume _ _ => .setVolume
  | .setPlaybackRate _ _ => .setPlaybackRate
  | .setPanning _ _ => .setPanning
  | .setLoopRegion _ => .setLoopRegion
  | .pause _ => .pause
  | .resume _ _ => .resume
  | .stop _ => .stop
  | .seekBy _ => .seekBy
  | .seekTo _ => .seekTo

namespace Cmd

/-- mirrors: sound/static_sound/sound.rs::StaticSound (with its `CommandReaders`) + the `CommandWriters`
    kept by its sound/static_sound/handle.rs::StaticSoundHandle: the sound travels through the new-resource ring into the track's
    arena while the handle already writes. -/
structure StaticComp (α : Type) where
  /-- which handle of the test this is -/
  id : Nat
  chans : Chan.Prod StaticKind (Command α)
  snd : StaticSound α
  /-- the last frame the sound wrote in its latest `process` call -/
  lastOut : Frame α
  /-- a fault of the sound model (a panic / hang of the sound); the sound is frozen afterwards -/
  fault : Option Fault

namespace StaticComp

/-- a freshly built sound with fresh channels (`StaticSoundData::into_sound` → `split`) -/
def new (id : Nat) (snd : StaticSound α) : StaticComp α :=
  { id := id, chans := Chan.Prod.init, snd := snd, lastOut := Frame.zero, fault := none }

/-- mirrors: sound/static_sound/handle.rs::StaticSoundHandle (`set_volume` … `seek_to`: `command_writers.<kind>.write(..)`) -/
def write (c : StaticComp α) (cmd : Command α) : StaticComp α :=
  { c with chans := c.chans.writeOp cmd.kind cmd }

/-- what the reads of one `read_commands` returned, as the pending-command slots of the sound model -/
def load (rs : List (StaticKind × Option (Command α))) (slots : Commands α) : Commands α :=
  rs.foldl (fun acc r => match r.2 with
    | some cmd => acc.write cmd
    | none => acc) slots

/-- mirrors: sound/static_sound/sound.rs::StaticSound::on_start_processing, sound/static_sound/sound.rs::StaticSound::read_commands:
    publish the position, then `read_commands`: every reader of `staticReaders` is read once, in that order, and what it returns
    is applied (pause, resume and stop are three *independent* reads) -/
def onStart (c : StaticComp α) : StaticComp α :=
  match c.fault with
  | some _ => c
  | none =>
    let r := c.chans.drain staticReaders
    match ({ c.snd with cmds := load r.2 c.snd.cmds } : StaticSound α).onStartProcessing with
    | .ok s => { c with chans := r.1, snd := s }
    | .error f => { c with chans := r.1, fault := some f }

/-- mirrors: sound/static_sound/sound.rs::StaticSound::process on a buffer of `len` frames -/
def process (fuel : Nat) (c : StaticComp α) (len : Nat) (dt : α) (info : Info α) : StaticComp α :=
  match c.fault with
  | some _ => c
  | none =>
    match c.snd.process fuel len dt info with
    | .ok (s, out) => { c with snd := s, lastOut := out.getLast?.getD Frame.zero }
    | .error f => { c with fault := some f }

/-- mirrors: sound/static_sound/sound.rs::StaticSound::finished (the remove test of a track's sound storage) -/
def finished (c : StaticComp α) : Bool := c.snd.finished

/-- `StaticSoundHandle::state()` as `u8` -/
def handleState (c : StaticComp α) : Nat := c.snd.core.shared.toNat

/-- `StaticSoundHandle::position()` -/
def handlePosition (c : StaticComp α) : α := c.snd.sharedPosition

end StaticComp

/-- mirrors: track/sub.rs::Track::on_start_processing, track/main.rs::MainTrack::on_start_processing, the sounds part: `sounds.remove_and_add(finished)`,
    then every sound's `on_start_processing` -/
def soundsOnStart (s : Store (StaticComp α)) : Except SFault (Store (StaticComp α)) :=
  callbackWith StaticComp.finished StaticComp.onStart s

end Cmd

/-- apply `f` to the resources satisfying `p`, wherever they are (arena, new-resource ring): what a
    handle does to the shared part of its resource -/
def Store.mapWhere {τ : Type} (p : τ → Bool) (f : τ → τ) (s : Store τ) : Store τ :=
  let g := fun x => if p x then f x else x
  { s with arena := s.arena.mapData g,
           newRing := { s.newRing with items := s.newRing.items.map (fun q => (q.1, g q.2)) } }

end K
