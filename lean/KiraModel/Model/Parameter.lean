/-
  Parameter.lean — start times, the `Info` oracle, values and tweened parameters.
  mirrors: start_time.rs, info.rs (`clock_info`, `when_to_start`, `modulator_value`,
           `listener_distance`), value.rs (`Value::raw_value`), tween.rs (`Tween`), parameter.rs
  Ids (clock, modulator) are natural numbers; `Info` is a record of lookup functions, which is
  what both `InfoKind::Real` and `InfoKind::Mock` amount to.
-/
import KiraModel.Model.Easing
import KiraModel.Model.ClockTime
import KiraModel.Model.Geom

namespace K

variable {α : Type} [Add α] [Sub α] [Mul α] [Div α] [Neg α] [LT α] [LE α]
  [DecidableLT α] [DecidableLE α] [OfScientific α] [KOps α]

/-- mirrors: start_time.rs::StartTime (`Duration` in nanoseconds) -/
inductive StartTime (α : Type) where
  | immediate
  | delayed (ns : Nat)
  | clockTime (clock : Nat) (t : ClockTime α)

/-- mirrors: info.rs::ClockInfo -/
structure ClockInfo (α : Type) where
  ticking : Bool
  time : ClockTime α

/-- mirrors: info.rs::Info (what a resource can observe about the rest of the system) -/
structure Info (α : Type) where
  clock : Nat → Option (ClockInfo α)
  modulator : Nat → Option α
  /-- `Info::listener_distance` (an `f32` value) -/
  listenerDistance : Option α
  /-- the listener arena behind `Info::listener_info` (`listeners.get(id)` as a `ListenerInfo`); which
      listener is "the" listener of the current spatial track is decided by the track (Model/System.lean) -/
  listener : Nat → Option (ListenerInfo α) := fun _ => none

def Info.empty : Info α := ⟨fun _ => none, fun _ => none, none, fun _ => none⟩

/-- mirrors: info.rs::WhenToStart -/
inductive WhenToStart where
  | now | later | never
deriving DecidableEq, Repr

/-- mirrors: info.rs::Info::when_to_start -/
def Info.whenToStart (info : Info α) (clock : Nat) (t : ClockTime α) : WhenToStart :=
  match info.clock clock with
  | some ci => if ci.ticking && ClockTime.ge ci.time t then .now else .later
  | none => .never

/-- `Duration::saturating_sub(Duration::from_secs_f64(dt))` on nanoseconds -/
def durSubSecs (ns : Nat) (dt : α) : Nat := ns - KOps.durFromSecs dt

/-- mirrors: start_time.rs::StartTime::update — returns (new start time, will_never_start) -/
def StartTime.update (s : StartTime α) (dt : α) (info : Info α) : StartTime α × Bool :=
  match s with
  | .immediate => (.immediate, false)
  | .delayed ns =>
    let ns' := durSubSecs ns dt
    if ns' = 0 then (.immediate, false) else (.delayed ns', false)
  | .clockTime c t =>
    match info.whenToStart c t with
    | .now => (.immediate, false)
    | .later => (.clockTime c t, false)
    | .never => (.clockTime c t, true)

def StartTime.isImmediate : StartTime α → Bool
  | .immediate => true
  | _ => false

/-- mirrors: value.rs::Value<T> -/
inductive Value (α τ : Type) where
  | fixed (v : τ)
  | fromModulator (id : Nat) (m : Mapping α τ)
  | fromListenerDistance (m : Mapping α τ)

def Value.isFixed {τ : Type} : Value α τ → Bool
  | .fixed _ => true
  | _ => false

/-- mirrors: value.rs::Value::raw_value -/
def Value.rawValue {τ : Type} (tw : Tweenable α τ) (v : Value α τ) (info : Info α) : Option τ :=
  match v with
  | .fixed x => some x
  | .fromModulator id m => (info.modulator id).map (fun x => m.map tw x)
  | .fromListenerDistance m => info.listenerDistance.map (fun x => m.map tw x)

/-- mirrors: tween.rs::Tween -/
structure Tween (α : Type) where
  startTime : StartTime α
  durationNs : Nat
  easing : Easing α

/-- mirrors: tween.rs::Tween::value -/
def Tween.value (t : Tween α) (time : α) : α := tweenValue t.easing t.durationNs time

/-- a pending `ValueChangeCommand<T>` read from a `CommandReader` (`None` = nothing new) -/
abbrev Cmd (α τ : Type) := Option (Value α τ × Tween α)

/-- mirrors: parameter.rs::State -/
inductive PState (α τ : Type) where
  | idle (value : Value α τ)
  | tweening (start : τ) (target : Value α τ) (time : α) (tween : Tween α)

/-- mirrors: parameter.rs::Parameter<T> -/
structure Parameter (α τ : Type) where
  state : PState α τ
  raw : τ
  prev : τ
  stagnant : Bool

namespace Parameter
variable {τ : Type}

/-- mirrors: parameter.rs::Parameter::new -/
def new (initial : Value α τ) (default : τ) : Parameter α τ :=
  let raw := match initial with
    | .fixed v => v
    | _ => default
  { state := .idle initial, raw := raw, prev := raw, stagnant := initial.isFixed }

/-- mirrors: Parameter::value -/
def value (p : Parameter α τ) : τ := p.raw
/-- mirrors: Parameter::previous_value -/
def previousValue (p : Parameter α τ) : τ := p.prev
/-- mirrors: Parameter::interpolated_value -/
def interpolatedValue (tw : Tweenable α τ) (p : Parameter α τ) (amount : α) : τ :=
  tw.lerp p.prev p.raw amount

/-- mirrors: Parameter::set -/
def set (p : Parameter α τ) (target : Value α τ) (tween : Tween α) : Parameter α τ :=
  { p with stagnant := false, state := .tweening p.raw target (0.0 : α) tween }

/-- mirrors: Parameter::update_tween — returns (new state, stagnant', just_finished) -/
def updateTween (p : Parameter α τ) (dt : α) (info : Info α) : PState α τ × Bool × Bool :=
  match p.state with
  | .idle v => (.idle v, p.stagnant, false)
  | .tweening start target time tween =>
    -- `started` and the updated start time
    let (st', started) : StartTime α × Bool :=
      match tween.startTime with
      | .immediate => (.immediate, true)
      | .delayed ns =>
        if ns = 0 then (.delayed ns, true) else (.delayed (durSubSecs ns dt), false)
      | .clockTime c t => (.clockTime c t, decide (info.whenToStart c t = .now))
    let tween' : Tween α := { tween with startTime := st' }
    if !started then (.tweening start target time tween', p.stagnant, false)
    else
      let time' := time + dt
      if (durToSecs tween.durationNs : α) ≤ time' then
        (.idle target, (if target.isFixed then true else p.stagnant), true)
      else (.tweening start target time' tween', p.stagnant, false)

/-- mirrors: Parameter::calculate_new_raw_value -/
def calcRaw (tw : Tweenable α τ) (state : PState α τ) (info : Info α) : Option τ :=
  match state with
  | .idle v => v.rawValue tw info
  | .tweening start target time tween =>
    if tween.durationNs = 0 then none
    else (target.rawValue tw info).map (fun tgt => tw.lerp start tgt (tween.value time))

/-- mirrors: Parameter::update — returns (new parameter, just_finished_tween) -/
def update (tw : Tweenable α τ) (p : Parameter α τ) (dt : α) (info : Info α) : Parameter α τ × Bool :=
  let p1 := { p with prev := p.raw }
  if p.stagnant then (p1, false)
  else
    let (st, stag, fin) := updateTween p1 dt info
    let p2 := { p1 with state := st, stagnant := stag }
    match calcRaw tw st info with
    | some r => ({ p2 with raw := r }, fin)
    | none => (p2, fin)

/-- a run of updates with a constant `Info`: final parameter and the just-finished flags -/
def run (tw : Tweenable α τ) (p : Parameter α τ) (info : Info α) : List α → Parameter α τ × List Bool
  | [] => (p, [])
  | dt :: rest =>
    let r := p.update tw dt info
    let r' := run tw r.1 info rest
    (r'.1, r.2 :: r'.2)

end Parameter
end K
