/-
  Ring.lean — `rtrb::RingBuffer<T>` (0.3.5) as an abstract bounded FIFO.
  rtrb is a linearizable wait-free SPSC queue: `push` fails when `capacity` items are queued,
  `pop` fails when empty, items come out in the order they went in.  Core Lean only.
-/

namespace K

/-- faults of the resource plumbing (the Rust side reports them as `fault <name>`) -/
inductive SFault where
  /-- slice index out of bounds -/
  | indexOOB
  /-- `… producer (is) full` panics of backend/resources.rs -/
  | queueFull
  /-- `.expect(..)` / `.unwrap()` / `Index` panics -/
  | expectFailed
deriving DecidableEq, Repr

/-- the name `harness/src/runner.rs::classify` gives the corresponding panic -/
def SFault.name : SFault → String
  | .indexOOB => "indexOOB"
  | .queueFull => "queueFull"
  | .expectFailed => "panic"

/-- mirrors: rtrb-0.3.5/src/lib.rs::RingBuffer (Producer + Consumer ends), abstractly -/
structure Ring (τ : Type) where
  cap : Nat
  /-- queued items, oldest first -/
  items : List τ
deriving DecidableEq, Repr

namespace Ring
variable {τ : Type}

/-- mirrors: rtrb::RingBuffer::new -/
def new (cap : Nat) : Ring τ := ⟨cap, []⟩

def len (r : Ring τ) : Nat := r.items.length

/-- mirrors: rtrb::Producer::is_full -/
def isFull (r : Ring τ) : Bool := decide (r.cap ≤ r.items.length)

/-- mirrors: rtrb::Producer::push (`none` = `Err(PushError::Full)`) -/
def push (r : Ring τ) (x : τ) : Option (Ring τ) :=
  if r.items.length < r.cap then some { r with items := r.items ++ [x] } else none

/-- mirrors: rtrb::Consumer::pop (`none` = `Err(PopError::Empty)`) -/
def pop (r : Ring τ) : Option (τ × Ring τ) :=
  match r.items with
  | [] => none
  | x :: xs => some (x, { r with items := xs })

end Ring
end K
