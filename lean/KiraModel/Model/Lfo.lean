/-
  Lfo.lean — the LFO modulator.
  mirrors: modulator/lfo.rs (`Lfo`, `Waveform`), modulator/lfo/builder.rs (`LfoBuilder` → `Lfo::new`),
           modulator/lfo/handle.rs (the five commands an `LfoHandle` can write)
  The three tweenable settings are `Parameter<f64>`s (Model/Parameter.lean, reused as is).
-/
import KiraModel.Model.Parameter

namespace K

variable {α : Type} [Add α] [Sub α] [Mul α] [Div α] [Neg α] [LT α] [LE α]
  [DecidableLT α] [DecidableLE α] [OfScientific α] [KOps α]

-- `tau` (`std::f64::consts::TAU`) is declared in Model/UnitTypes.lean (the generated layer uses it)

/-- Rust `x % 1.0` on `f64` (C `fmod`: exact, the result carries the sign of the dividend — also
    when it is zero; `x - trunc x` is exact but would give `+0.0` for a negative whole `x`). -/
def rem1 (x : α) : α :=
  let r := x - trunc x
  if feq r (0.0 : α) then x * (0.0 : α) else r

/-- Rust `f64::rem_euclid(1.0)` (core/std `f64::rem_euclid`):
    `let r = self % rhs; if r < 0.0 { r + rhs.abs() } else { r }` with `rhs = 1.0`.
    Over ℝ this is `x − ⌊x⌋ ∈ [0, 1)`.  In binary64 `r + 1.0` is a rounded addition: for a tiny negative
    remainder (`−2⁻⁵⁴ ≤ r < 0`) it rounds to exactly `1.0` (documented for `rem_euclid`), and `r = -0.0`
    is not `< 0.0`, so it is returned as is — both mirrored literally by this definition. -/
def remEuclid1 (x : α) : α :=
  let r := rem1 x
  if r < (0.0 : α) then r + (1.0 : α) else r

/-- mirrors: modulator/lfo.rs::Waveform::value — generated (GenFn.lean) -/
def Waveform.value (w : Waveform α) (phase : α) : α := gen_body% Gen.waveformValue w phase
gen_alias Gen.waveformValue => Waveform.value

/-- mirrors: modulator/lfo.rs::Lfo (without the command readers and the shared `removed` flag) -/
structure Lfo (α : Type) where
  waveform : Waveform α
  frequency : Parameter α α
  amplitude : Parameter α α
  offset : Parameter α α
  phase : α
  value : α

/-- mirrors: modulator/lfo/builder.rs::LfoBuilder -/
structure LfoBuilder (α : Type) where
  waveform : Waveform α
  frequency : Value α α
  amplitude : Value α α
  offset : Value α α
  startingPhase : α

/-- mirrors: `impl Default for LfoBuilder` -/
def LfoBuilder.default : LfoBuilder α :=
  gen_body% ⟨Gen.lfoDefaultWaveform, .fixed Gen.lfoBuilderDefaultFrequency, .fixed Gen.lfoBuilderDefaultAmplitude,
    .fixed Gen.lfoBuilderDefaultOffset, Gen.lfoBuilderDefaultStartingPhase⟩

/-- mirrors: modulator/lfo.rs::Lfo::new — note `value` starts at `0.0`, not at `offset + …` -/
def Lfo.new (b : LfoBuilder α) : Lfo α :=
  gen_body%
  { waveform := b.waveform
    frequency := Parameter.new b.frequency Gen.lfoDefaultFrequency
    amplitude := Parameter.new b.amplitude Gen.lfoDefaultAmplitude
    offset := Parameter.new b.offset Gen.lfoDefaultOffset
    phase := b.startingPhase / tau
    value := (0.0 : α) }

/-- what the five `CommandReader`s of an LFO hold when `on_start_processing` runs
    (each writer keeps only the latest value written since the last read). -/
structure LfoCommands (α : Type) where
  setWaveform : Option (Waveform α) := none
  setFrequency : Option (Value α α × Tween α) := none
  setAmplitude : Option (Value α α × Tween α) := none
  setOffset : Option (Value α α × Tween α) := none
  setPhase : Option α := none

/-- mirrors: parameter.rs::Parameter::read_command (as used by `read_commands_into_parameters!`) -/
def Lfo.readCommand (p : Parameter α α) (c : Option (Value α α × Tween α)) : Parameter α α :=
  match c with
  | some (target, tween) => p.set target tween
  | none => p

/-- mirrors: `impl Modulator for Lfo`::on_start_processing -/
def Lfo.onStartProcessing (l : Lfo α) (c : LfoCommands α) : Lfo α :=
  let l := { l with
    frequency := Lfo.readCommand l.frequency c.setFrequency
    amplitude := Lfo.readCommand l.amplitude c.setAmplitude
    offset := Lfo.readCommand l.offset c.setOffset }
  let l := match c.setWaveform with
    | some w => { l with waveform := w }
    | none => l
  match c.setPhase with
  | some p => { l with phase := p / tau }
  | none => l

/-- mirrors: `impl Modulator for Lfo`::update -/
def Lfo.update (l : Lfo α) (dt : α) (info : Info α) : Lfo α :=
  let frequency := (l.frequency.update tw64 dt info).1
  let amplitude := (l.amplitude.update tw64 dt info).1
  let offset := (l.offset.update tw64 dt info).1
  let phase := l.phase + dt * frequency.value
  let phase := remEuclid1 phase
  { l with
    frequency := frequency
    amplitude := amplitude
    offset := offset
    phase := phase
    value := offset.value + amplitude.value * l.waveform.value phase }

/-- a run of updates with a constant `Info` (one `update` per element: any partition of time) -/
def Lfo.run (l : Lfo α) (info : Info α) : List α → Lfo α
  | [] => l
  | dt :: rest => (l.update dt info).run info rest

end K
