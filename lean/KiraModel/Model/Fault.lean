/-
  Fault.lean — the ways modelled kira code can fail instead of returning (DESIGN §2.3).
  The names printed by `Fault.name` are the ones `harness/src/runner.rs::classify` produces.
-/
namespace K

/-- mirrors: harness/src/runner.rs::classify (+ `hang` from the watchdog) -/
inductive Fault where
  /-- `usize` arithmetic overflow / underflow (panic with overflow checks on) -/
  | overflow
  /-- slice index out of bounds -/
  | indexOOB
  /-- `chunks_mut(0)` -/
  | zeroChunk
  /-- `f32::clamp` with `min > max` -/
  | clampMinGtMax
  /-- a loop that never exits -/
  | hang
  /-- any other panic -/
  | panic
deriving DecidableEq, Repr

def Fault.name : Fault → String
  | .overflow => "overflow"
  | .indexOOB => "indexOOB"
  | .zeroChunk => "zeroChunk"
  | .clampMinGtMax => "clampMinGtMax"
  | .hang => "hang"
  | .panic => "panic"

/-- `if let Some(b) = o { f(b, s) }` for an infallible `f` -/
def applyOpt {σ β : Type} (o : Option β) (f : β → σ → σ) (s : σ) : σ :=
  match o with
  | some b => f b s
  | none => s

/-- `if let Some(b) = o { f(b, s) }` for an `f` that can fault -/
def applyOptE {σ β : Type} (o : Option β) (f : β → σ → Except Fault σ) (s : σ) : Except Fault σ :=
  match o with
  | some b => f b s
  | none => .ok s

/-- sequencing of fallible steps -/
def andThen {σ τ : Type} (x : Except Fault σ) (f : σ → Except Fault τ) : Except Fault τ :=
  match x with
  | .error e => .error e
  | .ok a => f a

end K
