/-
  Fault.lean — the ways modelled kira code can fail instead of returning (DESIGN §2.3).
  The names printed by `Fault.name` are the ones `harness/src/runner.rs::classify` produces.
-/
namespace K

/-- mirrors: harness/src/runner.rs::classify (+ `hang` from the watchdog) -/
inductive Fault where
  /-- `usize` arithmetic overflow / underflow (panic with overflow checks on) -/
  | overflow
  /-- slice index out of bounds -/
  | indexOOB
  /-- `chunks_mut(0)` -/
  | zeroChunk
  /-- `f32::clamp` with `min > max` -/
  | clampMinGtMax
  /-- a loop that never exits -/
  | hang
  /-- any other panic -/
  | panic
deriving DecidableEq, Repr

def Fault.name : Fault → String
  | .overflow => "overflow"
  | .indexOOB => "indexOOB"
  | .zeroChunk => "zeroChunk"
  | .clampMinGtMax => "clampMinGtMax"
  | .hang => "hang"
  | .panic => "panic"

end K
