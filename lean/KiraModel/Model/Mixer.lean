/-
  Mixer.lean — main track, mixer, renderer.
  mirrors: track/main.rs (`MainTrack`), backend/resources/mixer.rs (`Mixer`),
           backend/renderer.rs (`Renderer::{on_start_processing, process, process_chunk}`)
  The clocks / modulators / listeners are an abstract environment `X` with a step function
  (their models live elsewhere); the mixer only sees the `Info` they induce.
-/
import KiraModel.Model.Track

namespace K

variable {α : Type} [Add α] [Sub α] [Mul α] [Div α] [Neg α] [LT α] [LE α]
  [DecidableLT α] [DecidableLE α] [OfScientific α] [KOps α]

/-- mirrors: track/main.rs::MainTrack (+ the pending `set_volume` command) -/
structure MainTrk (α S E : Type) where
  volume : Parameter α α
  sounds : List S
  pendingSounds : List S
  effects : List E
  temp : List (Frame α)
  cmdVolume : Option (Value α α × Tween α)

namespace MainTrk
variable {S E P : Type}

/-- mirrors: MainTrack::on_start_processing -/
def onStart (C : Comps α S E P) (t : MainTrk α S E) : MainTrk α S E :=
  { t with volume := readCommand t.volume t.cmdVolume, cmdVolume := none,
           sounds := (removeAndAdd C.sndFinished t.sounds t.pendingSounds).map C.sndStart,
           pendingSounds := [],
           effects := t.effects.map C.fxStart }

/-- mirrors: MainTrack::process -/
def process (C : Comps α S E P) (t : MainTrk α S E) (out : List (Frame α)) (dt : α) (info : Info α) :
    MainTrk α S E × List (Frame α) :=
  let n := out.length
  let vol := (t.volume.update tw32 (dt * (KOps.ofNat n : α)) info).1
  let rs := runSounds C dt info t.sounds out t.temp
  let re := runEffects C dt info t.effects rs.2.1
  let out2 := gainLoop (fun tic => asAmplitude (vol.interpolatedValue tw32 tic)) n 0 re.2
  ({ t with volume := vol, sounds := rs.1, effects := re.1, temp := rs.2.2 }, out2)

end MainTrk

/-- mirrors: backend/resources/mixer.rs::Mixer.  `subTracks` / `sendTracks` are the arenas in
    iteration order (newest first), `pending…` the new-resource rings (oldest first). -/
structure Mixer (α S E P : Type) where
  main : MainTrk α S E
  subTracks : List (Trk α S E P)
  pendingSubTracks : List (Trk α S E P)
  sendTracks : List (SendTrk α E)
  pendingSendTracks : List (SendTrk α E)
  temp : List (Frame α)

namespace Mixer
variable {S E P : Type}

/-- the send-track loop of `Mixer::process` — returns (send tracks, out, temp) -/
def processSends (C : Comps α S E P) (dt : α) (info : Info α) :
    List (SendTrk α E) → List (Frame α) → List (Frame α) → List (SendTrk α E) × List (Frame α) × List (Frame α)
  | [], out, temp => ([], out, temp)
  | s :: ss, out, temp =>
    let r := s.process C (temp.take out.length) dt info
    let temp1 := writeBack r.2 temp
    let out1 := addInto out temp1
    let temp2 := fillZero temp1
    let r' := processSends C dt info ss out1 temp2
    (r.1 :: r'.1, r'.2.1, r'.2.2)

/-- mirrors: Mixer::on_start_processing -/
def onStart (C : Comps α S E P) (m : Mixer α S E P) : Mixer α S E P :=
  { m with
    subTracks := (Trk.onStartList C m.pendingSubTracks).reverse ++ Trk.onStartKept C m.subTracks,
    pendingSubTracks := [],
    sendTracks := (removeAndAdd (fun s => s.marked) m.sendTracks m.pendingSendTracks).map (SendTrk.onStart C),
    pendingSendTracks := [],
    main := m.main.onStart C }

/-- mirrors: Mixer::process -/
def process (C : Comps α S E P) (m : Mixer α S E P) (out : List (Frame α)) (dt : α) (info : Info α) :
    Mixer α S E P × List (Frame α) :=
  let rt := Trk.processChildren C dt info m.subTracks out m.temp m.sendTracks
  let rs := processSends C dt info rt.2.2.2 rt.2.1 rt.2.2.1
  let rm := m.main.process C rs.2.1 dt info
  ({ m with subTracks := rt.1, sendTracks := rs.1, temp := rs.2.2, main := rm.1 }, rm.2)

/-! handle operations on the mixer (mirrors: manager.rs::AudioManager, track/main/handle.rs,
    track/send/handle.rs) -/

/-- apply a handle operation to the sub-track with the given id, wherever it is -/
def mapTrack (id : Nat) (f : Trk α S E P → Trk α S E P) (m : Mixer α S E P) : Mixer α S E P :=
  { m with subTracks := Trk.mapAtList id f m.subTracks,
           pendingSubTracks := Trk.mapAtList id f m.pendingSubTracks }

def findTrack (id : Nat) (m : Mixer α S E P) : Option (Trk α S E P) :=
  match Trk.findList id m.subTracks with
  | some t => some t
  | none => Trk.findList id m.pendingSubTracks

/-- mirrors: AudioManager::add_sub_track -/
def hAddSubTrack (t : Trk α S E P) (m : Mixer α S E P) : Mixer α S E P :=
  { m with pendingSubTracks := m.pendingSubTracks ++ [t] }
/-- mirrors: AudioManager::add_send_track -/
def hAddSendTrack (s : SendTrk α E) (m : Mixer α S E P) : Mixer α S E P :=
  { m with pendingSendTracks := m.pendingSendTracks ++ [s] }
/-- mirrors: MainTrackHandle::play -/
def hPlayMain (s : S) (m : Mixer α S E P) : Mixer α S E P :=
  { m with main := { m.main with pendingSounds := m.main.pendingSounds ++ [s] } }
/-- mirrors: MainTrackHandle::set_volume -/
def hSetMainVolume (v : Value α α) (tw : Tween α) (m : Mixer α S E P) : Mixer α S E P :=
  { m with main := { m.main with cmdVolume := some (v, tw) } }
def mapSend (id : Nat) (f : SendTrk α E → SendTrk α E) (m : Mixer α S E P) : Mixer α S E P :=
  { m with sendTracks := m.sendTracks.map (fun s => if s.id = id then f s else s),
           pendingSendTracks := m.pendingSendTracks.map (fun s => if s.id = id then f s else s) }
/-- mirrors: SendTrackHandle::set_volume -/
def hSetSendVolume (id : Nat) (v : Value α α) (tw : Tween α) : Mixer α S E P → Mixer α S E P :=
  mapSend id (fun s => { s with cmdVolume := some (v, tw) })
/-- mirrors: `impl Drop for SendTrackHandle` -/
def hDropSend (id : Nat) : Mixer α S E P → Mixer α S E P :=
  mapSend id (fun s => { s with marked := true })
/-- mirrors: AudioManager::num_sub_tracks (reserved arena slots) -/
def hNumSubTracks (m : Mixer α S E P) : Nat := m.subTracks.length + m.pendingSubTracks.length
/-- mirrors: AudioManager::num_send_tracks -/
def hNumSendTracks (m : Mixer α S E P) : Nat := m.sendTracks.length + m.pendingSendTracks.length

/-- mirrors: Mixer::new -/
def new (mainVolumeDb : α) (mainEffects : List E) (ibs : Nat) : Mixer α S E P :=
  { main := { volume := Parameter.new (.fixed mainVolumeDb) Psm.identityDb, sounds := [], pendingSounds := [],
              effects := mainEffects, temp := zeros ibs, cmdVolume := none },
    subTracks := [], pendingSubTracks := [], sendTracks := [], pendingSendTracks := [], temp := zeros ibs }

end Mixer

/-! ### renderer -/

/-- `if x.is_nan() { 0.0 }` then Rust `f32::clamp(-1.0, 1.0)` (NaN never reaches the device) -/
def clampUnit (x : α) : α := clamp (nanToZero x) (-(1.0 : α)) (1.0 : α)

/-- the per-frame conversion at the end of `Renderer::process_chunk`: the `num_channels` device
    samples produced for one bus frame (`num_channels ≥ 1`). -/
def frameToChannels (numChannels : Nat) (f : Frame α) : List α :=
  let l := clampUnit f.left
  let r := clampUnit f.right
  if numChannels = 1 then [KOps.r32 (KOps.r32 (l + r) / (2.0 : α))]
  else l :: r :: List.replicate (numChannels - 2) (0.0 : α)

/-- the abstract environment of a renderer (clocks, modulators, listeners) -/
structure EnvOps (α X : Type) where
  /-- `clocks/listeners/modulators.on_start_processing` -/
  start : X → X
  /-- `modulators.process(dt·n) ; clocks.update(dt·n) ; listeners.update(dt·n)` -/
  step : X → α → X
  /-- the `Info` the mixer's tracks see (no spatial track) -/
  info : X → Info α

/-- mirrors: backend/renderer.rs::Renderer -/
structure Renderer (α S E P X : Type) where
  dt : α
  mixer : Mixer α S E P
  env : X
  ibs : Nat
  temp : List (Frame α)

/-- what can go wrong in `Renderer::process` -/
inductive RenderFault where
  /-- `chunks_mut(0)` (internal buffer size 0 or 0 channels) -/
  | zeroChunk
deriving DecidableEq, Repr

namespace Renderer
variable {S E P X : Type}

/-- mirrors: Renderer::on_start_processing (mixer first, then clocks, listeners, modulators) -/
def onStart (C : Comps α S E P) (V : EnvOps α X) (r : Renderer α S E P X) : Renderer α S E P X :=
  { r with mixer := r.mixer.onStart C, env := V.start r.env }

/-- mirrors: Renderer::process_chunk for a chunk of `n` frames — returns the device samples -/
def processChunk (C : Comps α S E P) (V : EnvOps α X) (r : Renderer α S E P X) (n numChannels : Nat) :
    Renderer α S E P X × List α :=
  let env := V.step r.env (r.dt * (KOps.ofNat n : α))
  let rm := r.mixer.process C (r.temp.take n) r.dt (V.info env)
  let temp1 := writeBack rm.2 r.temp
  let samples := ((temp1.take n).map (frameToChannels numChannels)).flatten
  ({ r with env := env, mixer := rm.1, temp := fillZero temp1 }, samples)

/-- the chunk loop of `Renderer::process` on a device buffer of `frames` frames
    (`out.chunks_mut(ibs * num_channels)`); `fuel` bounds the number of chunks. -/
def processLoop (C : Comps α S E P) (V : EnvOps α X) (numChannels : Nat) :
    Nat → Renderer α S E P X → Nat → Renderer α S E P X × List α
  | 0, r, _ => (r, [])
  | fuel + 1, r, frames =>
    if frames = 0 then (r, [])
    else
      let n := min r.ibs frames
      let c := processChunk C V r n numChannels
      let rest := processLoop C V numChannels fuel c.1 (frames - n)
      (rest.1, c.2 ++ rest.2)

/-- mirrors: Renderer::process on a device buffer of `frames * numChannels` samples -/
def process (C : Comps α S E P) (V : EnvOps α X) (r : Renderer α S E P X) (frames numChannels : Nat) :
    Except RenderFault (Renderer α S E P X × List α) :=
  if r.ibs * numChannels = 0 then .error .zeroChunk
  else .ok (processLoop C V numChannels frames r frames)

end Renderer
end K
