/-
  StreamingSound.lean — a streaming sound: the decoder-thread side (`DecodeScheduler`: one `run`
  iteration incl. its three commands, the frame-ring producer, the 1-slot error ring) and the
  audio-thread side (`StreamingSound`: ring consumer, `update_current_frame`, `next_frames`,
  `on_start_processing`, `process` with the "fewer than 2 slots and not reached_end ⇒ silence" rule),
  together with everything the two sides share (`Shared`, the two rings, the command slots).

  mirrors: sound/streaming/sound.rs, sound/streaming/sound/decode_scheduler.rs,
           sound/streaming/data.rs (`split`), sound/streaming/handle.rs, sound/streaming/settings.rs

  Built on: `Dec.frameAtIndex` / `Dec.seekToIndex` / `Dec.Sched.new` (Model/Decoder.lean, C18) for the
  decoder-facing part, `Transport` (C04), `SoundCore` (C03: the life cycle shared with `StaticSound`),
  `interpolateFrame` and the command slots of `StaticSound` (the streaming handle has the same nine
  command kinds), `Ring` (rtrb).

  One record `Sys` holds both sides; which thread owns which field is said at the field. A decoder
  error is not a `Fault`: it is a value (`Wav.Err`) that the decoder thread reports.
  About the state after a *failed* decoder call: the `Decoder` trait exposes no post-error state, so the
  decoder-facing fields (`ds`) keep their pre-call value when `frame_at_index`/`seek` fails (commands
  read and transport moves made before the failing call are kept, as in the Rust code).
-/
import KiraModel.Model.StaticSound
import KiraModel.Model.Decoder
import KiraModel.Model.Ring

namespace K
namespace Streaming

open Wav (Err)
open Dec (Decoder)

variable {α : Type} [Add α] [Sub α] [Mul α] [Div α] [Neg α] [LT α] [LE α]
  [DecidableLT α] [DecidableLE α] [OfScientific α] [KOps α]
variable {σ : Type}

/-- mirrors: streaming/sound.rs::TimestampedFrame -/
structure TimestampedFrame (α : Type) where
  frame : Frame α
  index : Nat

/-- mirrors: streaming/sound/decode_scheduler.rs::BUFFER_SIZE -/
def bufferSize : Nat := gen_body% Gen.streamingBufferSize

/-- mirrors: streaming/data.rs::ERROR_BUFFER_CAPACITY -/
def errorBufferCapacity : Nat := gen_body% Gen.streamingErrorBufferCapacity

/-- mirrors: streaming/settings.rs::StreamingSoundSettings -/
structure StreamingSoundSettings (α : Type) where
  startTime : StartTime α
  startPosition : PlaybackPosition α
  loopRegion : Option (Region α)
  volume : Value α α
  playbackRate : Value α α
  panning : Value α α
  fadeInTween : Option (Tween α)

/-- mirrors: streaming/data.rs::StreamingSoundData — the boxed decoder is its state `dec` plus the two
    constants `decoder.sample_rate()` and `decoder.num_frames()` -/
structure StreamingSoundData (σ α : Type) where
  dec : σ
  sampleRate : Nat
  decFrames : Nat
  settings : StreamingSoundSettings α
  slice : Option (Nat × Nat)

/-- mirrors: streaming/data.rs::StreamingSoundData::slice -/
def StreamingSoundData.withSlice (d : StreamingSoundData σ α) (region : Option (Region α)) :
    StreamingSoundData σ α :=
  { d with slice := region.map (fun r => r.toSamples d.sampleRate d.decFrames) }

/-- mirrors: streaming/sound/decode_scheduler.rs::NextStep -/
inductive NextStep where
  | continue | wait | «end»
deriving DecidableEq, Repr

/-- what one call of `DecodeScheduler::run` amounts to: `Ok(step)`, `Err(e)` (a decoder error), or a
    panic / endless loop inside the call (`Transport` with a degenerate loop region) -/
inductive RunOutcome where
  | ok (n : NextStep)
  | err (e : Err)
  | fault (f : Fault)
deriving DecidableEq, Repr

/-- mirrors: streaming/sound.rs::StreamingSound, streaming/sound.rs::Shared, streaming/sound/decode_scheduler.rs::DecodeScheduler + the rings and
    command channels created by data.rs::split -/
structure Sys (σ α : Type) where
  /-- `slice`, `num_frames` (both sides, constant) -/
  cfg : Dec.Cfg
  /-- `sample_rate` (both sides, constant) -/
  sampleRate : Nat
  /-- the nine command slots written by the handle: `set_volume`, `set_playback_rate`, `set_panning`, `pause`,
      `resume`, `stop` are read by the audio thread, `set_loop_region`, `seek_by`, `seek_to` by the decoder thread -/
  cmds : Commands α
  /-- the frame ring: produced by the decoder thread, consumed by the audio thread -/
  ring : Ring (TimestampedFrame α)
  /-- the error ring (capacity 1): produced by the decoder thread, consumed by the handle -/
  errRing : Ring Err
  /-- `Shared::reached_end` (written by the decoder thread, read by the audio thread) -/
  reachedEnd : Bool
  /-- `Shared::encountered_error` (written by the decoder thread, read by the audio thread) -/
  encounteredError : Bool
  /-- the `StreamingSound` — the owner of the frame ring's `Consumer` — has been dropped: what
      `frame_producer.is_abandoned()` tells the decoder thread (rtrb: the other end of the ring is gone).
      Set when the sound is refused by a full track or discarded with its track / manager; never cleared -/
  soundDropped : Bool
  /-- `Shared::position` (written by the audio thread; read by the handle and by `seek_by`) -/
  sharedPosition : α
  /-- decoder thread: `decoder`, `decoder_current_frame_index`, `decoded_chunk`
      (the `position`/`playing` fields of `Dec.Sched` are not used here: the transport is `transport`) -/
  ds : Dec.Sched σ α
  /-- decoder thread: `transport` -/
  transport : Transport
  /-- audio thread: `playback_state_manager`, `start_time`; `core.shared` is `Shared::state`, which the
      decoder thread and the handle read -/
  core : SoundCore α
  /-- audio thread: `current_frame` -/
  currentFrame : Nat
  /-- audio thread: `fractional_position` -/
  frac : α
  volume : Parameter α α
  playbackRate : Parameter α α
  panning : Parameter α α

/-- why a `run` call stopped early -/
inductive Abort where
  | err (e : Err)
  | fault (f : Fault)

def Abort.outcome : Abort → RunOutcome
  | .err e => .err e
  | .fault f => .fault f

/-- the fuel-exhaustion / panic codes of `Dec.frameAtIndex` are not decoder errors -/
def abortOfErr : Err → Abort
  | .hang => .fault .hang
  | .panic => .fault .panic
  | e => .err e

/-- what the loop in `DecodeScheduler::start` does with the result of one `run` -/
inductive ThreadStep where
  /-- `NextStep::Continue`: loop again at once -/
  | continue
  /-- `NextStep::Wait`: `thread::sleep(1 ms)`, then loop again -/
  | sleep
  /-- `NextStep::End`: `break` — the thread ends and drops the scheduler (decoder, producers) -/
  | ended
  /-- `Err(e)`: error pushed, flag set, `break` — the thread ends like `ended`, after reporting the error -/
  | erred
  /-- a panic inside `run` unwinds the thread -/
  | panicked
deriving DecidableEq, Repr

/-- what the three threads can do to a streaming sound -/
inductive Op (α : Type) where
  /-- a handle method that writes a command (gameplay thread) -/
  | command (c : Command α)
  /-- `handle.pop_error()` (gameplay thread) -/
  | popError
  /-- `on_start_processing` (audio thread) -/
  | startProcessing
  /-- `process` on `len` frames (audio thread) -/
  | process (len : Nat) (dt : α) (info : Info α)
  /-- one iteration of the decoder loop (decoder thread) — if the thread still exists: it ends for good when
      `run` reaches the end of the data or returns an error (a thread that ended because it saw `Stopped`, or that
      its sound was dropped, would only see the same again, so for it another iteration changes nothing) -/
  | decode

namespace Sys

/-! ### construction (`StreamingSoundData::split`) -/

/-- mirrors: streaming/data.rs::StreamingSoundData::split = streaming/sound/decode_scheduler.rs::DecodeScheduler::new (ring pre-seeded with a zero "previous" frame,
    `num_frames` (an inverted slice panics), `decoder.seek(start_position)?`, `Transport::new`) then
    StreamingSound::new (`current_frame = transport.position`, `shared.position = current_frame / rate`) -/
def new (D : Decoder σ α) (d : StreamingSoundData σ α) : Except Err (Sys σ α) :=
  let startPosition := d.settings.startPosition.intoSamples d.sampleRate
  match Dec.Sched.new D d.dec d.slice d.decFrames startPosition with
  | .error e => .error e
  | .ok (cfg, ds) =>
    let loop := d.settings.loopRegion.map (fun r => r.toSamples d.sampleRate cfg.numFrames)
    match Transport.new startPosition loop false cfg.numFrames with
    | .error _ => .error .panic
    | .ok transport =>
      .ok { cfg := cfg
            sampleRate := d.sampleRate
            cmds := {}
            ring := { cap := bufferSize, items := [⟨Frame.zero, 0⟩] }
            errRing := Ring.new errorBufferCapacity
            reachedEnd := false
            encounteredError := false
            soundDropped := false
            sharedPosition := (KOps.ofNat transport.position : α) / (KOps.ofNat d.sampleRate : α)
            ds := ds
            transport := transport
            core := SoundCore.new d.settings.startTime d.settings.fadeInTween
            currentFrame := transport.position
            frac := (0.0 : α)
            volume := Parameter.new d.settings.volume Psm.identityDb
            playbackRate := Parameter.new d.settings.playbackRate (1.0 : α)
            panning := Parameter.new d.settings.panning (0.0 : α) }

/-! ### the decoder thread: `DecodeScheduler` -/

/-- mirrors: streaming/sound/decode_scheduler.rs::DecodeScheduler::seek_to_index (`transport.seek_to` first, then `decoder.seek(index)?`) -/
def seekToIndex (D : Decoder σ α) (s : Sys σ α) (index : Nat) : Except (Abort × Sys σ α) (Sys σ α) :=
  match s.transport.seekTo index s.cfg.numFrames with
  | .error f => .error (.fault f, s)
  | .ok t =>
    let s1 := { s with transport := t }
    match Dec.seekToIndex D s.cfg s.ds index with
    | .error e => .error (abortOfErr e, s1)
    | .ok ds' => .ok { s1 with ds := ds' }

/-- mirrors: streaming/sound/decode_scheduler.rs::DecodeScheduler::seek_to (`(position * sample_rate as f64).round() as usize`) -/
def seekTo (D : Decoder σ α) (s : Sys σ α) (position : α) : Except (Abort × Sys σ α) (Sys σ α) :=
  seekToIndex D s (KOps.toNatSat (roundHalfAway (position * (KOps.ofNat s.sampleRate : α))))

/-- mirrors: streaming/sound/decode_scheduler.rs::DecodeScheduler::seek_by (`shared.position() + amount`) -/
def seekBy (D : Decoder σ α) (s : Sys σ α) (amount : α) : Except (Abort × Sys σ α) (Sys σ α) :=
  seekTo D s (s.sharedPosition + amount)

/-- `run`, "check for commands", 1: `set_loop_region` -/
def readLoopCmd (s : Sys σ α) : Sys σ α :=
  match s.cmds.setLoopRegion with
  | some r =>
    { s with cmds := { s.cmds with setLoopRegion := none }
             transport := s.transport.setLoopRegion (r.map (fun r => r.toSamples s.sampleRate s.cfg.numFrames)) }
  | none => s

/-- `run`, "check for commands", 2: `seek_by` -/
def readSeekByCmd (D : Decoder σ α) (s : Sys σ α) : Except (Abort × Sys σ α) (Sys σ α) :=
  match s.cmds.seekBy with
  | some amount => seekBy D { s with cmds := { s.cmds with seekBy := none } } amount
  | none => .ok s

/-- `run`, "check for commands", 3: `seek_to` -/
def readSeekToCmd (D : Decoder σ α) (s : Sys σ α) : Except (Abort × Sys σ α) (Sys σ α) :=
  match s.cmds.seekTo with
  | some position => seekTo D { s with cmds := { s.cmds with seekTo := none } } position
  | none => .ok s

/-- `run`, last part: `frame_at_index(transport.position)?`, push the timestamped frame,
    `transport.increment_position`, `reached_end` -/
def produce (D : Decoder σ α) (fuel : Nat) (s : Sys σ α) : RunOutcome × Sys σ α :=
  match Dec.frameAtIndex D s.cfg fuel s.ds s.transport.position with
  | .error e => ((abortOfErr e).outcome, s)
  | .ok (frame, ds') =>
    let s1 := { s with ds := ds' }
    match s1.ring.push ⟨frame, s1.transport.position⟩ with
    | none => (.fault .panic, s1)      -- "could not push frame to frame producer"
    | some ring' =>
      let s2 := { s1 with ring := ring' }
      match s2.transport.increment s2.cfg.numFrames with
      | .error f => (.fault f, s2)
      | .ok t =>
        let s3 := { s2 with transport := t }
        if !t.playing then (.ok .end, { s3 with reachedEnd := true }) else (.ok .continue, s3)

/-- mirrors: streaming/sound/decode_scheduler.rs::DecodeScheduler::run — one iteration of the decoder loop body -/
def run (D : Decoder σ α) (fuel : Nat) (s : Sys σ α) : RunOutcome × Sys σ α :=
  if s.core.shared = .stopped then (.ok .end, s)
  else if s.soundDropped then (.ok .end, s)      -- `frame_producer.is_abandoned()`: nobody is left to read the frames
  else if s.ring.isFull then (.ok .wait, s)
  else
    match readSeekByCmd D (readLoopCmd s) with
    | .error (a, s') => (a.outcome, s')
    | .ok s1 =>
      match readSeekToCmd D s1 with
      | .error (a, s') => (a.outcome, s')
      | .ok s2 => produce D fuel s2

/-- `self.error_producer.push(error).ok()` — a full error ring drops the new error -/
def pushError (s : Sys σ α) (e : Err) : Sys σ α :=
  match s.errRing.push e with
  | some r => { s with errRing := r }
  | none => s

/-- `self.shared.encountered_error.store(true)` -/
def setErrorFlag (s : Sys σ α) : Sys σ α := { s with encounteredError := true }

/-- mirrors: streaming/sound/decode_scheduler.rs::DecodeScheduler::start (the body of the `loop`) -/
def threadIter (D : Decoder σ α) (fuel : Nat) (s : Sys σ α) : ThreadStep × Sys σ α :=
  match run D fuel s with
  | (.ok .continue, s') => (.continue, s')
  | (.ok .wait, s') => (.sleep, s')
  | (.ok .end, s') => (.ended, s')
  | (.err e, s') => (.erred, setErrorFlag (pushError s' e))
  | (.fault _, s') => (.panicked, s')

/-! ### the handle -/

/-- mirrors: streaming/handle.rs::StreamingSoundHandle::state -/
def handleState (s : Sys σ α) : PlaybackState := s.core.shared

/-- mirrors: streaming/handle.rs::StreamingSoundHandle::position -/
def handlePosition (s : Sys σ α) : α := s.sharedPosition

/-- mirrors: streaming/handle.rs::StreamingSoundHandle (its command-writing methods; same nine kinds as the static handle) -/
def write (s : Sys σ α) (c : Command α) : Sys σ α := { s with cmds := s.cmds.write c }

/-- mirrors: streaming/handle.rs::StreamingSoundHandle::pop_error -/
def popError (s : Sys σ α) : Option Err × Sys σ α :=
  match s.errRing.pop with
  | some (e, r) => (some e, { s with errRing := r })
  | none => (none, s)

/-! ### the audio thread: `StreamingSound` -/

/-- mirrors: streaming/sound.rs::StreamingSound::update_current_frame (`iter.nth(1)` of the first ≤ 4 ring entries) -/
def updateCurrentFrame (s : Sys σ α) : Sys σ α :=
  match s.ring.items[1]? with
  | some tf => { s with currentFrame := tf.index }
  | none => s

/-- mirrors: streaming/sound.rs::StreamingSound::next_frames, entry `i` (`Frame::ZERO` when the ring is shorter) -/
def nextFrame (s : Sys σ α) (i : Nat) : Frame α :=
  match s.ring.items[i]? with
  | some tf => tf.frame
  | none => Frame.zero

/-- mirrors: streaming/sound.rs::StreamingSound::position -/
def position (s : Sys σ α) : α :=
  ((KOps.ofNat s.currentFrame : α) + s.frac) / (KOps.ofNat s.sampleRate : α)

/-- mirrors: streaming/sound.rs::StreamingSound::read_commands (volume, playback_rate, panning, pause, resume, stop — the six
    slots of `CommandReaders`; the other three are the decoder's) -/
def readCommands (s : Sys σ α) : Sys σ α :=
  let c := s.cmds
  { s with cmds := { c with setVolume := none, setPlaybackRate := none, setPanning := none
                            pause := none, resume := none, stop := none }
           volume := StaticSound.readParam s.volume c.setVolume
           playbackRate := StaticSound.readParam s.playbackRate c.setPlaybackRate
           panning := StaticSound.readParam s.panning c.setPanning
           core := (applyOpt c.stop (fun tw core => core.stop tw)
             (applyOpt c.resume (fun p core => core.resume p.1 p.2)
               (applyOpt c.pause (fun tw core => core.pause tw) s.core))) }

/-- mirrors: streaming/sound.rs::StreamingSound::on_start_processing (`impl Sound for StreamingSound`) -/
def onStartProcessing (s : Sys σ α) : Sys σ α :=
  let s1 := updateCurrentFrame s
  readCommands { s1 with sharedPosition := s1.position }

/-- `self.frame_consumer.pop().ok()` -/
def popFrame (s : Sys σ α) : Sys σ α :=
  match s.ring.pop with
  | some (_, r) => { s with ring := r }
  | none => s

/-- `while self.fractional_position >= 1.0 { self.fractional_position -= 1.0; self.frame_consumer.pop().ok(); }` -/
def stepPos : Nat → Sys σ α → Except Fault (Sys σ α)
  | 0, s => if (1.0 : α) ≤ s.frac then .error .hang else .ok s
  | fuel + 1, s =>
    if (1.0 : α) ≤ s.frac then stepPos fuel (popFrame { s with frac := s.frac - (1.0 : α) })
    else .ok s

/-- what the sound's volume, fade and panning do to an interpolated frame at chunk time `t`
    (`(interpolated_out * fade_volume * volume).panned(panning)`) -/
def shade (s : Sys σ α) (t : α) (f : Frame α) : Frame α :=
  let volume := asAmplitude (s.volume.interpolatedValue tw32 t)
  let fadeVolume := asAmplitude (s.core.psm.interpolatedFadeVolume t)
  let panning := s.panning.interpolatedValue tw32 t
  ((f.scale fadeVolume).scale volume).panned panning

/-- `self.sample_rate as f64 * playback_rate.0.max(0.0) * dt` at chunk time `t` -/
def fracStep (s : Sys σ α) (t dt : α) : α :=
  (KOps.ofNat s.sampleRate : α) * fmax (s.playbackRate.interpolatedValue tw64 t) (0.0 : α) * dt

/-- `if self.shared.reached_end() && self.frame_consumer.is_empty() { mark_as_stopped … }` -/
def checkEnd (s : Sys σ α) : Sys σ α :=
  if s.reachedEnd && s.ring.items.isEmpty then { s with core := s.core.markStopped } else s

/-- the frame the interpolator produces from the first four ring entries at the current fraction -/
def rawFrame (s : Sys σ α) : Frame α :=
  interpolateFrame (s.nextFrame 0) (s.nextFrame 1) (s.nextFrame 2) (s.nextFrame 3) (KOps.r32 s.frac)

/-- one iteration of the render loop of `process` at chunk time `t = (i + 1) / len` -/
def renderFrame (fuel : Nat) (s : Sys σ α) (t dt : α) : Except Fault (Sys σ α × Frame α) :=
  let out := s.shade t s.rawFrame
  match stepPos fuel { s with frac := s.frac + s.fracStep t dt } with
  | .error f => .error f
  | .ok s' => .ok (checkEnd s', out)

/-- the render loop of `process`: `k` frames still to write, the next one has index `i` -/
def renderLoop (fuel : Nat) (dt : α) (len : Nat) : Nat → Nat → Sys σ α →
    Except Fault (Sys σ α × List (Frame α))
  | 0, _, s => .ok (s, [])
  | k + 1, i, s =>
    match renderFrame fuel s ((KOps.ofNat (i + 1) : α) / (KOps.ofNat len : α)) dt with
    | .error f => .error f
    | .ok (s', f) =>
      match renderLoop fuel dt len k (i + 1) s' with
      | .error f => .error f
      | .ok (s'', fs) => .ok (s'', f :: fs)

/-- `process` after the `encountered_error` test: parameters, life-cycle gate, "waiting for audio data",
    render loop -/
def processOk (fuel : Nat) (s : Sys σ α) (len : Nat) (dt : α) (info : Info α) :
    Except Fault (Sys σ α × List (Frame α)) :=
  let dtc := dt * (KOps.ofNat len : α)
  let g := s.core.gate dtc info
  let s1 : Sys σ α :=
    { s with volume := (s.volume.update tw32 dtc info).1
             playbackRate := (s.playbackRate.update tw64 dtc info).1
             panning := (s.panning.update tw32 dtc info).1
             core := g.1 }
  if g.2 then
    -- "the first frame in the ringbuffer is the previous frame, so we need at least 2"
    if s1.ring.len < 2 && !s1.reachedEnd then .ok (s1, List.replicate len Frame.zero)
    else renderLoop fuel dt len len 0 s1
  else .ok (s1, List.replicate len Frame.zero)

/-- mirrors: streaming/sound.rs::StreamingSound::process (`impl Sound for StreamingSound`) on a buffer of `len` frames -/
def process (fuel : Nat) (s : Sys σ α) (len : Nat) (dt : α) (info : Info α) :
    Except Fault (Sys σ α × List (Frame α)) :=
  if s.encounteredError then
    .ok ({ s with core := s.core.markStopped }, List.replicate len Frame.zero)
  else processOk fuel s len dt info

/-- mirrors: streaming/sound.rs::StreamingSound::finished -/
def finished (s : Sys σ α) : Bool := s.core.finished

/-! ### histories -/

/-- one step of a history; the output frames of a `process`, nothing otherwise -/
def step (D : Decoder σ α) (fuel : Nat) (s : Sys σ α) : Op α → Except Fault (Sys σ α × List (Frame α))
  | .command c => .ok (s.write c, [])
  | .popError => .ok ((popError s).2, [])
  | .startProcessing => .ok (s.onStartProcessing, [])
  | .process len dt info => s.process fuel len dt info
  | .decode => .ok (if s.reachedEnd || s.encounteredError then s else (threadIter D fuel s).2, [])

/-- a history: final state and everything written to the output, or the first fault of the audio thread -/
def runOps (D : Decoder σ α) (fuel : Nat) (s : Sys σ α) : List (Op α) →
    Except Fault (Sys σ α × List (Frame α))
  | [] => .ok (s, [])
  | op :: ops =>
    match step D fuel s op with
    | .error f => .error f
    | .ok (s', out) =>
      match runOps D fuel s' ops with
      | .error f => .error f
      | .ok (s'', out') => .ok (s'', out ++ out')

end Sys

/-! ### a scripted in-memory decoder (the twin of `harness/src/suites/stream.rs::ScriptDecoder`) -/

/-- an in-memory `Decoder`: frames, a cyclic list of packet sizes, a seek granularity, and a sticky failure:
    the `failAt`-th call (decode and seek calls counted together from 0) and every later call fail -/
structure Script (α : Type) where
  frames : Array (Frame α)
  pos : Nat
  packets : Array Nat
  pkt : Nat
  gran : Nat
  calls : Nat
  failAt : Option Nat

def Script.fails (s : Script α) : Bool :=
  match s.failAt with
  | some k => decide (k ≤ s.calls)
  | none => false

/-- the scripted decoder as a `Dec.Decoder` -/
def scriptDecoder : Decoder (Script α) α where
  decode s :=
    if s.fails then .error .sym
    else if s.frames.size ≤ s.pos then .error .sym
    else
      let size := max 1 (s.packets.getD (s.pkt % max 1 s.packets.size) 1)
      let stop := min s.frames.size (s.pos + size)
      .ok ((s.frames.extract s.pos stop).toList,
           { s with pos := stop, pkt := s.pkt + 1, calls := s.calls + 1 })
  seek s index :=
    if s.fails then .error .sym
    else
      let j := min index s.frames.size / max 1 s.gran * max 1 s.gran
      .ok (j, { s with pos := j, calls := s.calls + 1 })

end Streaming
end K
