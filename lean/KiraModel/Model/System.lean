/-
  System.lean — the whole-system model: the mixer / renderer model (Model/Track.lean, Model/Mixer.lean)
  instantiated with the REAL component models.
  mirrors: backend/renderer.rs (`Renderer::{on_start_processing, process, process_chunk, on_change_sample_rate}`),
           backend/resources/{mixer,clocks,modulators}.rs, backend/resources.rs (`SelfReferentialResourceStorage`),
           manager.rs (`AudioManager::{play, add_sub_track, add_send_track, add_clock, add_modulator}`),
           track/{main,sub,send}.rs (`init_effects`, `on_change_sample_rate`), track/*/builder.rs,
           track/sub/handle.rs, sound/static_sound/{data,handle}.rs, effect/*/handle.rs, clock/handle.rs,
           modulator/{lfo,tweener}/handle.rs

  Nothing is re-modelled: sounds are `StaticSound` (Model/StaticSound.lean), effects are the sum `FxN`
  of the eight effect models (Model/Effects/Any.lean), clocks are `Clock` under the self-referential
  `for_each` of Model/ClockSys.lean, modulators are the `Mod` store of Model/ModulatorChunk.lean; this file
  is the glue: the `Comps` record, the `EnvOps` record in the renderer's chunk order
  (modulators → clocks → listeners → mixer), sample-rate changes, builders with `Value` parameters and
  the handle operations addressed by identity.

  Spatial tracks: the spatial hook of the track model (`Comps.spStep / spInfo / spStart`) is instantiated with
  the REAL spatial computation of Model/Spatial.lean (`SpatialData.chunkOut`: per-frame interpolated listener
  pose and emitter position, distance attenuation, ear gains, clamped strength; listener looked up by id,
  missing ⇒ silence); listeners (`ListenerSt` of Model/SpatialScene.lean) live in the environment between the
  clocks and the mixer; `Info.listener` is the listener arena, `Info.listenerDistance` is set by the innermost
  enclosing spatial track (its own info wins over its parent's).

  Panics / hangs of a component are latched in the component (`fault`) so that `Comps` stays total;
  `System.fault` finds the first latched fault after a callback.
-/
import KiraModel.Model.Mixer
import KiraModel.Model.StaticSound
import KiraModel.Model.Effects.Any
import KiraModel.Model.ClockSys
import KiraModel.Model.ModulatorChunk
import KiraModel.Model.SpatialScene

namespace K

variable {α : Type} [Add α] [Sub α] [Mul α] [Div α] [Neg α] [LT α] [LE α]
  [DecidableLT α] [DecidableLE α] [OfScientific α] [KOps α]

/-! ### the components -/

/-- a static sound in a sound arena: the identity its handle refers to, the sound, and the panic latch.
    mirrors: `Box<dyn Sound>` holding a sound/static_sound/sound.rs::StaticSound -/
structure SysSnd (α : Type) where
  id : Nat
  snd : StaticSound α
  fault : Option Fault

namespace SysSnd

/-- mirrors: `impl Sound for StaticSound`::process on the slice it is lent (every frame is assigned) -/
def step (fuel : Nat) (s : SysSnd α) (out : List (Frame α)) (dt : α) (info : Info α) :
    SysSnd α × List (Frame α) :=
  match s.fault with
  | some _ => (s, out)
  | none =>
    match s.snd.process fuel out.length dt info with
    | .ok r => ({ s with snd := r.1 }, r.2)
    | .error f => ({ s with fault := some f }, out)

/-- mirrors: `impl Sound for StaticSound`::on_start_processing -/
def start (s : SysSnd α) : SysSnd α :=
  match s.fault with
  | some _ => s
  | none =>
    match s.snd.onStartProcessing with
    | .ok s' => { s with snd := s' }
    | .error f => { s with fault := some f }

/-- mirrors: `impl Sound for StaticSound`::finished -/
def finished (s : SysSnd α) : Bool := s.snd.finished

/-- a handle method writes its command slot (static_sound/handle.rs) -/
def write (c : Command α) (s : SysSnd α) : SysSnd α :=
  { s with snd := { s.snd with cmds := s.snd.cmds.write c } }

end SysSnd

/-- an effect in a track's effect list: identity of its handle, the effect (nesting depth `n`), panic latch.
    mirrors: `Box<dyn Effect>` holding one of kira's eight effects -/
structure SysFx (α : Type) (n : Nat) where
  id : Nat
  fx : FxN α n
  fault : Option FxFault

namespace SysFx
variable {n : Nat}

/-- mirrors: effect.rs::Effect::process through the `Box<dyn Effect>` -/
def step (e : SysFx α n) (input : List (Frame α)) (dt : α) (info : Info α) : SysFx α n × List (Frame α) :=
  match e.fault with
  | some _ => (e, input)
  | none =>
    match (fxOpsN n).process e.fx input dt info with
    | .ok r => ({ e with fx := r.1 }, r.2)
    | .error f => ({ e with fault := some f }, input)

/-- mirrors: effect.rs::Effect::on_start_processing -/
def start (e : SysFx α n) : SysFx α n := { e with fx := (fxOpsN n).start e.fx }
/-- mirrors: effect.rs::Effect::init -/
def init (sr ibs : Nat) (e : SysFx α n) : SysFx α n := { e with fx := (fxOpsN n).init e.fx sr ibs }
/-- mirrors: effect.rs::Effect::on_change_sample_rate -/
def changeRate (sr : Nat) (e : SysFx α n) : SysFx α n := { e with fx := (fxOpsN n).changeRate e.fx sr }

end SysFx

/-- the spatial data of a spatial track and the audio-thread ends of its two command slots.
    mirrors: track/sub.rs::SpatialData (+ the `set_position` / `set_spatialization_strength` readers of its `CommandReaders`) -/
structure SysSpatial (α : Type) where
  sd : SpatialData α
  cmdPos : Cmd α (Vec3 α)
  cmdStr : Cmd α α

namespace SysSpatial

/-- mirrors: track/sub.rs::Track::read_commands, the `if let Some(SpatialData { .. })` block -/
def start (p : SysSpatial α) : SysSpatial α :=
  { sd := { p.sd with position := readCmd p.sd.position p.cmdPos, strength := readCmd p.sd.strength p.cmdStr }
    cmdPos := none, cmdStr := none }

/-- mirrors: track/sub.rs::Track::process, "get info": the track's own `SpatialTrackInfo` (position BEFORE
    this chunk's update, its listener id) replaces whatever an enclosing spatial track supplied;
    info.rs::Info::listener_distance is then the distance between that listener's current position and it -/
def info (p : SysSpatial α) (parent : Info α) : Info α :=
  { parent with
    listenerDistance := listenerDistance (some ⟨p.sd.position.value, p.sd.listenerId⟩) (parent.listener p.sd.listenerId) }

/-- mirrors: track/sub.rs::Track::process, "apply spatialization": the two parameters are updated with the
    chunk's duration, then every frame goes through `SpatialData::spatialize` with the listener pose
    interpolated at `i / n` (no such listener: `Frame::ZERO`) -/
def step (p : SysSpatial α) (buf : List (Frame α)) (dtn : α) (info : Info α) : SysSpatial α × List (Frame α) :=
  let sd' : SpatialData α :=
    { p.sd with position := (p.sd.position.update twVec3 dtn info).1,
                strength := (p.sd.strength.update tw32 dtn info).1 }
  ({ p with sd := sd' }, sd'.chunkOut (info.listener p.sd.listenerId) buf.length 0 buf)

/-- mirrors: track/sub/spatial_builder.rs::SpatialTrackBuilder::build (the `SpatialData` it makes) -/
def new (listenerId : Nat) (position : Value α (Vec3 α)) (minD maxD : α) (atten : Option (Easing α))
    (strength : Value α α) : SysSpatial α :=
  { sd := { listenerId := listenerId, position := Parameter.new position Vec3.zero, minDistance := minD,
            maxDistance := maxD, attenuation := atten, strength := Parameter.new strength (lit32 (0.75 : α)) }
    cmdPos := none, cmdStr := none }

end SysSpatial

/-- **The component record of the whole system**: static sounds, the eight built-in effects and the real
    spatialisation of Model/Spatial.lean. -/
def sysComps (fuel n : Nat) : Comps α (SysSnd α) (SysFx α n) (SysSpatial α) :=
  { sndStep := SysSnd.step fuel, sndStart := SysSnd.start, sndFinished := SysSnd.finished
    fxStep := SysFx.step, fxStart := SysFx.start
    spStep := SysSpatial.step, spInfo := SysSpatial.info, spStart := SysSpatial.start }

/-! ### clocks and modulators: the renderer's environment -/

/-- a modulator in the modulator arena with the audio-thread ends of its command slots and the
    `removed` flag of its handle.
    mirrors: `Box<dyn Modulator>` holding modulator/lfo.rs::Lfo or modulator/tweener.rs::Tweener -/
structure SysMod (α : Type) where
  m : Mod α
  lfoCmds : LfoCommands α
  twCmd : Option (α × Tween α)
  removed : Bool

namespace SysMod

/-- mirrors: modulator.rs::Modulator (`update`, `value`) through the box -/
def ops : ModOps (SysMod α) α :=
  { update := fun m dt info => { m with m := Mod.ops.update m.m dt info }
    value := fun m => Mod.ops.value m.m }

/-- mirrors: modulator.rs::Modulator::on_start_processing (the command slots are read once) -/
def onStart (m : SysMod α) : SysMod α :=
  match m.m with
  | .lfo l => { m with m := .lfo (l.onStartProcessing m.lfoCmds), lfoCmds := {} }
  | .tweener t => { m with m := .tweener (t.onStartProcessing m.twCmd), twCmd := none }
  | .counter _ _ _ => m

end SysMod

/-- mirrors: backend/resources.rs::Resources without the mixer: `clocks`, `modulators`, `listeners` (arena in
    `keys` order + new-resource ring each).  `hung` latched a clock tick loop that did not terminate; since the tick count is computed (`Clock.tickStep`) it is never set. -/
structure SysEnv (α : Type) where
  clocks : List (Nat × Clock α)
  newClocks : List (Nat × Clock α)
  mods : ModStore (SysMod α)
  newMods : ModStore (SysMod α)
  hung : Bool
  listeners : List (ListenerSt α) := []
  newListeners : List (ListenerSt α) := []

namespace SysEnv

def empty : SysEnv α := ⟨[], [], [], [], false, [], []⟩

/-- what `Info::new(&clocks, &modulators, &listeners, None)` answers on these arenas.
    mirrors: info.rs::Info::{clock_info, modulator_value} -/
def infoOf (clockView : Nat → Option (Clock α)) (mods : ModStore (SysMod α)) : Info α :=
  { clock := fun id => (clockView id).map Clock.info
    modulator := fun id => ModStore.valueOf SysMod.ops mods id
    listenerDistance := none }

/-- mirrors: info.rs::Info::listener_info (the arena lookup `listeners.get(id)` as a `ListenerInfo`) -/
def listenerInfo (ls : List (ListenerSt α)) (id : Nat) : Option (ListenerInfo α) :=
  (ls.find? (fun l => l.id == id)).map ListenerSt.info

/-- the `Info` sounds, effects and tracks see during the mixer pass: clocks, modulators and the listener
    arena (no spatial track info yet: `listenerDistance := none` until a spatial track supplies it) -/
def mixInfo (e : SysEnv α) : Info α :=
  { infoOf (fun id => e.clocks.lookup id) e.mods with listener := listenerInfo e.listeners }

/-- mirrors: backend/resources/clocks.rs::Clocks::on_start_processing, backend/resources/modulators.rs::Modulators::on_start_processing, backend/resources.rs::SelfReferentialResourceStorage::remove_and_add
    (remove the dropped ones,
    append the new ones in creation order, read the command slots) -/
def start (e : SysEnv α) : SysEnv α :=
  { e with
    clocks := ((e.clocks.filter (fun p => !p.2.shared.removed)) ++ e.newClocks).map
      (fun p => (p.1, p.2.onStartProcessing))
    newClocks := []
    mods := ((e.mods.filter (fun p => !p.2.removed)) ++ e.newMods).map (fun p => (p.1, p.2.onStart))
    newMods := []
    -- backend/resources/listeners.rs::Listeners::on_start_processing, listener.rs::Listener::on_start_processing
    listeners := ((e.listeners.filter (fun l => !l.removed)) ++ e.newListeners).map ListenerSt.readCommands
    newListeners := [] }

/-- mirrors: backend/resources/clocks.rs::Clocks::update, backend/resources.rs::SelfReferentialResourceStorage::for_each
    (after `Modulators::process`; Model/ClockSys.lean `Sys.updateClocks` with the
    general modulator store) -/
def updateClocks (clocks : List (Nat × Clock α)) (mods : ModStore (SysMod α)) (dt : α) :
    Option (List (Nat × Clock α)) :=
  forEachSelfRef Clock.dummy (fun c view => some (c.update dt (infoOf view mods)).1) [] clocks

/-- mirrors: backend/renderer.rs::Renderer::process_chunk, backend/resources/modulators.rs::Modulators::process
    (the head of `process_chunk`: `modulators.process(dt·n, &clocks)` (clocks not yet
    updated), then `clocks.update(dt·n, &modulators)` (modulators already updated), then
    backend/resources/listeners.rs::Listeners::update (`listeners.update(dt·n, &clocks, &modulators)`: clocks and
    modulators of this chunk; a listener sees no spatial track, so the self-referential swap is invisible) -/
def step (e : SysEnv α) (dt : α) : SysEnv α :=
  let mods := (ModStore.process SysMod.ops e.mods dt (infoOf (fun id => e.clocks.lookup id) [])).1
  match updateClocks e.clocks mods dt with
  | some clocks =>
    { e with mods := mods, clocks := clocks
             listeners := e.listeners.map (fun l => l.updateWith dt (infoOf (fun id => clocks.lookup id) mods)) }
  | none => { e with mods := mods, hung := true }

/-- the environment interface of the renderer model -/
def envOps : EnvOps α (SysEnv α) := ⟨start, step, mixInfo⟩

end SysEnv

/-! ### traversals of the track tree (arena and rings) -/

namespace Trk
variable {S E P : Type}

mutual
/-- apply `fs` to every sound and `fe` to every effect of the subtree, rings included (a handle reaches
    its sound / effect wherever the track currently is) -/
def mapComps (fs : S → S) (fe : E → E) : Trk α S E P → Trk α S E P
  | node d children pending =>
    node { d with sounds := d.sounds.map fs, pendingSounds := d.pendingSounds.map fs, effects := d.effects.map fe }
      (mapCompsList fs fe children) (mapCompsList fs fe pending)
def mapCompsList (fs : S → S) (fe : E → E) : List (Trk α S E P) → List (Trk α S E P)
  | [] => []
  | t :: ts => mapComps fs fe t :: mapCompsList fs fe ts
end

mutual
/-- mirrors: track/sub.rs::Track::on_change_sample_rate, track/sub.rs::Track::init_effects
    — the effects of this track and of
    the sub-tracks that are in the ARENA (`for (_, sub_track) in &mut self.sub_tracks`); sub-tracks still
    in the new-resource ring are not reached -/
def mapArenaFx (f : E → E) : Trk α S E P → Trk α S E P
  | node d children pending => node { d with effects := d.effects.map f } (mapArenaFxList f children) pending
def mapArenaFxList (f : E → E) : List (Trk α S E P) → List (Trk α S E P)
  | [] => []
  | t :: ts => mapArenaFx f t :: mapArenaFxList f ts
end

mutual
/-- every sound and every effect of the subtree (rings included) -/
def comps : Trk α S E P → List S × List E
  | node d children pending =>
    let a := compsList children
    let b := compsList pending
    (d.sounds ++ d.pendingSounds ++ a.1 ++ b.1, d.effects ++ a.2 ++ b.2)
def compsList : List (Trk α S E P) → List S × List E
  | [] => ([], [])
  | t :: ts => let a := comps t; let b := compsList ts; (a.1 ++ b.1, a.2 ++ b.2)
end

/-- mirrors: track/sub/builder.rs::TrackBuilder::build — volume and send volumes are `Value`s
    (`Parameter::new(v, Decibels::IDENTITY)`); `Trk.build` is the special case of fixed values -/
def buildV (id : Nat) (volume : Value α α) (effects : List E) (sends : List (Nat × Value α α)) (persist : Bool)
    (ibs : Nat) : Trk α S E P :=
  node { id := id, volume := Parameter.new volume Psm.identityDb,
         sounds := [], pendingSounds := [], effects := effects,
         routes := sends.map (fun s => ⟨s.1, Parameter.new s.2 Psm.identityDb, none⟩),
         persist := persist, spatial := none, psm := Psm.new none, temp := zeros ibs,
         marked := false, pubState := PlaybackState.playing.toNat,
         cmdVolume := none, cmdPause := none, cmdResume := none } [] []

end Trk

/-- mirrors: track/send/builder.rs::SendTrackBuilder::build with a `Value` volume -/
def SendTrk.buildV {E : Type} (id : Nat) (volume : Value α α) (effects : List E) (ibs : Nat) : SendTrk α E :=
  { id := id, volume := Parameter.new volume Psm.identityDb, effects := effects,
    input := zeros ibs, marked := false, cmdVolume := none }

namespace Mixer
variable {S E P : Type}

/-- mirrors: backend/resources/mixer.rs::Mixer::new, track/main/builder.rs::MainTrackBuilder::build (a `Value` main-track volume) -/
def newV (mainVolume : Value α α) (mainEffects : List E) (ibs : Nat) : Mixer α S E P :=
  { main := { volume := Parameter.new mainVolume Psm.identityDb, sounds := [], pendingSounds := [],
              effects := mainEffects, temp := zeros ibs, cmdVolume := none },
    subTracks := [], pendingSubTracks := [], sendTracks := [], pendingSendTracks := [], temp := zeros ibs }

/-- mirrors: backend/resources/mixer.rs::Mixer::on_change_sample_rate, track/main.rs::MainTrack::on_change_sample_rate, track/send.rs::SendTrack::on_change_sample_rate
    — main track, sub-tracks in the
    arena (recursively, arenas only), send tracks in the arena; tracks still in a ring keep the rate they
    were initialised with (the recorded finding `C16-track-in-flight-keeps-old-rate`) -/
def mapArenaFx (f : E → E) (m : Mixer α S E P) : Mixer α S E P :=
  { m with main := { m.main with effects := m.main.effects.map f }
           subTracks := Trk.mapArenaFxList f m.subTracks
           sendTracks := m.sendTracks.map (fun s => { s with effects := s.effects.map f }) }

/-- apply `fs` / `fe` to every sound / effect anywhere in the mixer (arenas and rings) -/
def mapComps (fs : S → S) (fe : E → E) (m : Mixer α S E P) : Mixer α S E P :=
  { m with main := { m.main with sounds := m.main.sounds.map fs, pendingSounds := m.main.pendingSounds.map fs,
                                 effects := m.main.effects.map fe }
           subTracks := Trk.mapCompsList fs fe m.subTracks
           pendingSubTracks := Trk.mapCompsList fs fe m.pendingSubTracks
           sendTracks := m.sendTracks.map (fun s => { s with effects := s.effects.map fe })
           pendingSendTracks := m.pendingSendTracks.map (fun s => { s with effects := s.effects.map fe }) }

/-- every sound and every effect anywhere in the mixer -/
def comps (m : Mixer α S E P) : List S × List E :=
  let a := Trk.compsList m.subTracks
  let b := Trk.compsList m.pendingSubTracks
  (m.main.sounds ++ m.main.pendingSounds ++ a.1 ++ b.1,
   m.main.effects ++ (m.sendTracks ++ m.pendingSendTracks).flatMap (·.effects) ++ a.2 ++ b.2)

end Mixer

/-! ### effect handles -/

/-- the methods of the eight effect handles (effect/*/handle.rs); each writes one command slot -/
inductive FxCmd (α : Type) where
  | filterMode (m : FilterMode)
  | filterCutoff (v : Value α α) (tw : Tween α)
  | filterResonance (v : Value α α) (tw : Tween α)
  | filterMix (v : Value α α) (tw : Tween α)
  | eqKind (k : EqFilterKind)
  | eqFrequency (v : Value α α) (tw : Tween α)
  | eqGain (v : Value α α) (tw : Tween α)
  | eqQ (v : Value α α) (tw : Tween α)
  | distKind (k : DistortionKind)
  | distDrive (v : Value α α) (tw : Tween α)
  | distMix (v : Value α α) (tw : Tween α)
  | compThreshold (v : Value α α) (tw : Tween α)
  | compRatio (v : Value α α) (tw : Tween α)
  | compAttack (v : Value α Nat) (tw : Tween α)
  | compRelease (v : Value α Nat) (tw : Tween α)
  | compMakeup (v : Value α α) (tw : Tween α)
  | compMix (v : Value α α) (tw : Tween α)
  | reverbFeedback (v : Value α α) (tw : Tween α)
  | reverbDamping (v : Value α α) (tw : Tween α)
  | reverbStereoWidth (v : Value α α) (tw : Tween α)
  | reverbMix (v : Value α α) (tw : Tween α)
  | volVolume (v : Value α α) (tw : Tween α)
  | panPanning (v : Value α α) (tw : Tween α)
  | delayFeedback (v : Value α α) (tw : Tween α)
  | delayMix (v : Value α α) (tw : Tween α)

/-- a handle method applied to the effect it belongs to (a command of another effect kind cannot be
    written through this handle: the effect is left alone) -/
def BaseFx.command (c : FxCmd α) (e : BaseFx α) : BaseFx α :=
  match e, c with
  | .filter s, .filterMode m => .filter (s.setMode m)
  | .filter s, .filterCutoff v tw => .filter (s.setCutoff v tw)
  | .filter s, .filterResonance v tw => .filter (s.setResonance v tw)
  | .filter s, .filterMix v tw => .filter (s.setMix v tw)
  | .eq s, .eqKind k => .eq (s.setKind k)
  | .eq s, .eqFrequency v tw => .eq (s.setFrequency v tw)
  | .eq s, .eqGain v tw => .eq (s.setGain v tw)
  | .eq s, .eqQ v tw => .eq (s.setQ v tw)
  | .dist s, .distKind k => .dist (s.setKind k)
  | .dist s, .distDrive v tw => .dist (s.setDrive v tw)
  | .dist s, .distMix v tw => .dist (s.setMix v tw)
  | .comp s, .compThreshold v tw => .comp (s.setThreshold v tw)
  | .comp s, .compRatio v tw => .comp (s.setRatio v tw)
  | .comp s, .compAttack v tw => .comp (s.setAttackDuration v tw)
  | .comp s, .compRelease v tw => .comp (s.setReleaseDuration v tw)
  | .comp s, .compMakeup v tw => .comp (s.setMakeupGain v tw)
  | .comp s, .compMix v tw => .comp (s.setMix v tw)
  | .reverb s, .reverbFeedback v tw => .reverb (s.setFeedback v tw)
  | .reverb s, .reverbDamping v tw => .reverb (s.setDamping v tw)
  | .reverb s, .reverbStereoWidth v tw => .reverb (s.setStereoWidth v tw)
  | .reverb s, .reverbMix v tw => .reverb (s.setMix v tw)
  | .vol s, .volVolume v tw => .vol (s.setVolume v tw)
  | .pan s, .panPanning v tw => .pan (s.setPanning v tw)
  | e, _ => e

def FxOver.command {φ : Type} (c : FxCmd α) (e : FxOver α φ) : FxOver α φ :=
  match e, c with
  | .base b, c => .base (b.command c)
  | .delay d, .delayFeedback v tw => .delay (d.setFeedback v tw)
  | .delay d, .delayMix v tw => .delay (d.setMix v tw)
  | e, _ => e

def FxN.command (c : FxCmd α) : (n : Nat) → FxN α n → FxN α n
  | 0, e => FxOver.command c e
  | _ + 1, e => FxOver.command c e

/-- a handle method of an effect nested in delay feedback loops: `path = []` is the effect itself, `i :: rest`
    the `i`-th feedback effect of a delay (then `rest` inside it).  The nested effect owns its command slots
    (the handle returned by `add_feedback_effect` writes them directly); they are read when the enclosing
    delay forwards `on_start_processing`.
    mirrors: effect/delay.rs::DelayBuilder::add_feedback_effect -/
def FxN.commandAt (c : FxCmd α) : (n : Nat) → List Nat → FxN α n → FxN α n
  | n, [], e => FxN.command c n e
  | 0, _ :: _, e => e
  | n + 1, i :: rest, e =>
    match (e : FxOver α (FxN α n)) with
    | .delay d => FxOver.delay { d with fx := (d.fx.1.modify i (fun x => FxN.commandAt c n rest x), d.fx.2) }
    | .base b => FxOver.base b

/-! ### the system: renderer + the sample rate new tracks are initialised with -/

/-- the audio side of an `AudioManager`: the renderer (mixer, clocks, modulators), and
    `RendererShared::sample_rate` (read by `add_sub_track` / `add_send_track` to `init` the effects) -/
structure System (α : Type) (n : Nat) where
  r : Renderer α (SysSnd α) (SysFx α n) (SysSpatial α) (SysEnv α)
  sampleRate : Nat
  /-- loop fuel of the components (fuel-independence: C04 / C05) -/
  fuel : Nat

/-- what can have panicked / hung inside the last callback -/
inductive SysFault where
  | sound (f : Fault)
  | effect (f : FxFault)
  | clockHang
  | render (f : RenderFault)

def SysFault.name : SysFault → String
  | .sound f => f.name
  | .effect f => f.name
  | .clockHang => "hang"
  | .render .zeroChunk => "zeroChunk"

namespace System
variable {n : Nat}

abbrev C (s : System α n) : Comps α (SysSnd α) (SysFx α n) (SysSpatial α) := sysComps s.fuel n
abbrev V (_s : System α n) : EnvOps α (SysEnv α) := SysEnv.envOps

/-- mirrors: manager.rs::AudioManager::new, backend/renderer.rs::Renderer::new, backend/resources/mixer.rs::Mixer::new, track/main.rs::MainTrack::init_effects
    (`main_track.init_effects(sample_rate)`) -/
def new (fuel ibs sr : Nat) (mainVolume : Value α α) (mainEffects : List (SysFx α n)) : System α n :=
  { r := { dt := (1.0 : α) / (KOps.ofNat sr : α)
           mixer := Mixer.newV mainVolume (mainEffects.map (SysFx.init sr ibs)) ibs
           env := SysEnv.empty, ibs := ibs, temp := zeros ibs }
    sampleRate := sr, fuel := fuel }

/-- the first latched fault, if any (sounds, then effects, then clocks) -/
def fault (s : System α n) : Option SysFault :=
  let c := s.r.mixer.comps
  match c.1.findSome? (·.fault) with
  | some f => some (.sound f)
  | none =>
    match c.2.findSome? (·.fault) with
    | some f => some (.effect f)
    | none => if s.r.env.hung then some .clockHang else none

/-- mirrors: backend/renderer.rs::Renderer::on_start_processing, backend/renderer.rs::Renderer::process
    (one device callback: `on_start_processing` then `process` on a buffer
    of `frames * channels` samples -/
def callback (s : System α n) (frames channels : Nat) : Except SysFault (System α n × List α) :=
  let r1 := s.r.onStart s.C s.V
  match r1.process s.C s.V frames channels with
  | .error f => .error (.render f)
  | .ok (r2, samples) =>
    let s2 := { s with r := r2 }
    match s2.fault with
    | some f => .error f
    | none => .ok (s2, samples)

/-- mirrors: backend/renderer.rs::Renderer::on_change_sample_rate -/
def changeRate (s : System α n) (sr : Nat) : System α n :=
  { s with sampleRate := sr
           r := { s.r with dt := (1.0 : α) / (KOps.ofNat sr : α)
                           mixer := s.r.mixer.mapArenaFx (SysFx.changeRate sr) } }

def withMixer (s : System α n) (f : Mixer α (SysSnd α) (SysFx α n) (SysSpatial α) → Mixer α (SysSnd α) (SysFx α n) (SysSpatial α)) :
    System α n := { s with r := { s.r with mixer := f s.r.mixer } }

def withEnv (s : System α n) (f : SysEnv α → SysEnv α) : System α n := { s with r := { s.r with env := f s.r.env } }

/-- mirrors: manager.rs::AudioManager::add_sub_track, track/sub/handle.rs::TrackHandle::add_sub_track, track/sub.rs::Track::init_effects
    (build, `init_effects` with the
    sample rate in force now, push into the parent's ring -/
def addSubTrack (s : System α n) (parent : Option Nat) (id : Nat) (volume : Value α α)
    (effects : List (SysFx α n)) (sends : List (Nat × Value α α)) (persist : Bool) : System α n :=
  let t : Trk α (SysSnd α) (SysFx α n) (SysSpatial α) :=
    Trk.buildV id volume (effects.map (SysFx.init s.sampleRate s.r.ibs)) sends persist s.r.ibs
  match parent with
  | none => s.withMixer (Mixer.hAddSubTrack t)
  | some p => s.withMixer (Mixer.mapTrack p (Trk.hAddSubTrack t))

/-- mirrors: manager.rs::AudioManager::add_spatial_sub_track, track/sub/handle.rs::TrackHandle::add_spatial_sub_track, track/sub/spatial_handle.rs::SpatialTrackHandle::add_spatial_sub_track, track/sub/spatial_builder.rs::SpatialTrackBuilder::build
    (the same as `add_sub_track` with `spatial_data: Some(..)`) -/
def addSpatialSubTrack (s : System α n) (parent : Option Nat) (id : Nat) (sp : SysSpatial α) (volume : Value α α)
    (effects : List (SysFx α n)) (sends : List (Nat × Value α α)) (persist : Bool) : System α n :=
  let t : Trk α (SysSnd α) (SysFx α n) (SysSpatial α) :=
    Trk.mapData (fun d => { d with spatial := some sp })
      (Trk.buildV id volume (effects.map (SysFx.init s.sampleRate s.r.ibs)) sends persist s.r.ibs)
  match parent with
  | none => s.withMixer (Mixer.hAddSubTrack t)
  | some p => s.withMixer (Mixer.mapTrack p (Trk.hAddSubTrack t))

/-- mirrors: track/sub/spatial_handle.rs::SpatialTrackHandle::set_position (the command slot keeps the latest write) -/
def setSpatialPosition (s : System α n) (id : Nat) (v : Value α (Vec3 α)) (tw : Tween α) : System α n :=
  s.withMixer (Mixer.mapTrack id (Trk.mapData (fun d =>
    { d with spatial := d.spatial.map (fun p => { p with cmdPos := some (v, tw) }) })))

/-- mirrors: track/sub/spatial_handle.rs::SpatialTrackHandle::set_spatialization_strength -/
def setSpatialStrength (s : System α n) (id : Nat) (v : Value α α) (tw : Tween α) : System α n :=
  s.withMixer (Mixer.mapTrack id (Trk.mapData (fun d =>
    { d with spatial := d.spatial.map (fun p => { p with cmdStr := some (v, tw) }) })))

/-- mirrors: manager.rs::AudioManager::add_listener, listener.rs::Listener::new -/
def addListener (s : System α n) (id : Nat) (position : Value α (Vec3 α)) (orientation : Value α (Quat α)) :
    System α n :=
  s.withEnv (fun e => { e with newListeners := e.newListeners ++
    [{ id := id, removed := false, position := Parameter.new position Vec3.zero,
       orientation := Parameter.new orientation Quat.identity, cmdPos := none, cmdOri := none }] })

/-- a `ListenerHandle` method (listener/handle.rs: `set_position`, `set_orientation`) or its drop: `f` edits
    the command slots / the `removed` flag of the listener, wherever it is -/
def listenerCommand (s : System α n) (id : Nat) (f : ListenerSt α → ListenerSt α) : System α n :=
  s.withEnv (fun e => { e with listeners := e.listeners.map (fun l => if l.id = id then f l else l),
                               newListeners := e.newListeners.map (fun l => if l.id = id then f l else l) })

/-- mirrors: manager.rs::AudioManager::add_send_track, track/send.rs::SendTrack::init_effects -/
def addSendTrack (s : System α n) (id : Nat) (volume : Value α α) (effects : List (SysFx α n)) : System α n :=
  s.withMixer (Mixer.hAddSendTrack
    (SendTrk.buildV id volume (effects.map (SysFx.init s.sampleRate s.r.ibs)) s.r.ibs))

/-- mirrors: manager.rs::AudioManager::play, track/sub/handle.rs::TrackHandle::play, track/main/handle.rs::MainTrackHandle::play
    (with a `StaticSoundData`; `into_sound` runs
    `StaticSound::new` on the caller's thread: a fault there is the caller's panic) -/
def play (s : System α n) (track : Option Nat) (id : Nat) (d : StaticSoundData α) : Except Fault (System α n) :=
  match StaticSound.new d with
  | .error f => .error f
  | .ok snd =>
    let x : SysSnd α := ⟨id, snd, none⟩
    match track with
    | none => .ok (s.withMixer (Mixer.hPlayMain x))
    | some t => .ok (s.withMixer (Mixer.mapTrack t (Trk.hPlay x)))

/-- a `StaticSoundHandle` method -/
def soundCommand (s : System α n) (sid : Nat) (c : Command α) : System α n :=
  s.withMixer (Mixer.mapComps (fun x => if x.id = sid then x.write c else x) (fun e => e))

/-- an effect handle method -/
def fxCommand (s : System α n) (eid : Nat) (c : FxCmd α) : System α n :=
  s.withMixer (Mixer.mapComps (fun x => x) (fun e => if e.id = eid then { e with fx := FxN.command c n e.fx } else e))

/-- a method of the handle of an effect nested (at `path`) in the effect whose handle is `eid` -/
def fxCommandAt (s : System α n) (eid : Nat) (path : List Nat) (c : FxCmd α) : System α n :=
  s.withMixer (Mixer.mapComps (fun x => x)
    (fun e => if e.id = eid then { e with fx := FxN.commandAt c n path e.fx } else e))

/-- mirrors: manager.rs::AudioManager::add_clock -/
def addClock (s : System α n) (id : Nat) (speed : Value α (ClockSpeed α)) : System α n :=
  s.withEnv (fun e => { e with newClocks := e.newClocks ++ [(id, Clock.new speed)] })

/-- a `ClockHandle` method (or its drop) -/
def clockCommand (s : System α n) (id : Nat) (c : HCmd α) : System α n :=
  s.withEnv (fun e => { e with clocks := mapKey id (fun k => c.apply k) e.clocks,
                               newClocks := mapKey id (fun k => c.apply k) e.newClocks })

/-- mirrors: manager.rs::AudioManager::add_modulator -/
def addModulator (s : System α n) (id : Nat) (m : Mod α) : System α n :=
  s.withEnv (fun e => { e with newMods := e.newMods ++ [(id, ⟨m, {}, none, false⟩)] })

/-- a modulator handle method (or its drop): `f` edits the command slots / the `removed` flag -/
def modCommand (s : System α n) (id : Nat) (f : SysMod α → SysMod α) : System α n :=
  s.withEnv (fun e => { e with mods := mapKey id f e.mods, newMods := mapKey id f e.newMods })

/-- what a `StaticSoundHandle` reads: `(state, position)` of the sound with this id, if it still exists -/
def soundShared (s : System α n) (id : Nat) : Option (PlaybackState × α) :=
  (s.r.mixer.comps.1.find? (fun x => x.id = id)).map (fun x => (x.snd.core.shared, x.snd.sharedPosition))

end System

end K
