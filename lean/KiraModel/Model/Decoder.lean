/-
  Decoder.lean — the streaming `Decoder` trait as an abstract contract, the model of
  `DecodeScheduler::frame_at_index` / `seek_to_index` / one `run` iteration (no loop region),
  and Symphonia's WAV reader + PCM codec packaged as such a decoder.

  mirrors: sound/streaming/decoder.rs (trait Decoder), sound/streaming/sound/decode_scheduler.rs
           (DecodeScheduler::{new, run, frame_at_index, seek_to_index}, DecodedChunk::frame_at_index),
           sound/streaming/decoder/symphonia.rs (SymphoniaDecoder), sound/transport.rs
           (increment_position / seek_to with `loop_region = None`).
-/
import KiraModel.Model.Wav

namespace K
namespace Dec

open Wav (Err)

variable {α : Type}

/-- mirrors: streaming/decoder.rs `trait Decoder` (the two `&mut self` methods as state
    transformers over an arbitrary decoder state `σ`; `sample_rate`/`num_frames` are data) -/
structure Decoder (σ : Type) (α : Type) where
  decode : σ → Except Err (List (Frame α) × σ)
  seek : σ → Nat → Except Err (Nat × σ)

/-- mirrors: decode_scheduler.rs `DecodedChunk` -/
structure Chunk (α : Type) where
  start : Nat
  frames : List (Frame α)

/-- mirrors: decode_scheduler.rs::DecodedChunk::frame_at_index -/
def Chunk.frameAt (c : Chunk α) (index : Nat) : Option (Frame α) :=
  if index < c.start then none else c.frames[index - c.start]?

/-- the decoder-facing part of `DecodeScheduler` -/
structure Sched (σ : Type) (α : Type) where
  dec : σ
  /-- `decoder_current_frame_index` -/
  cur : Nat
  /-- `decoded_chunk` -/
  chunk : Option (Chunk α)
  /-- `transport.position` -/
  position : Nat
  /-- `transport.playing` -/
  playing : Bool

/-- static configuration of a scheduler: `slice` and `num_frames` -/
structure Cfg where
  slice : Option (Nat × Nat)
  numFrames : Nat

variable [OfScientific α]

/-- the decode-forward loop of `frame_at_index`; `fuel` bounds the number of packets
    (the Rust `loop` is unbounded: exhaustion is reported as `hang`) -/
def decodeUntil {σ : Type} (D : Decoder σ α) (index : Nat) :
    Nat → σ → Nat → Except Err (Frame α × σ × Nat × Chunk α)
  | 0, _, _ => .error .hang
  | fuel + 1, s, cur =>
    match D.decode s with
    | .error e => .error e
    | .ok (frames, s') =>
      let chunk : Chunk α := ⟨cur, frames⟩
      let cur' := cur + frames.length
      match chunk.frameAt index with
      | some f => .ok (f, s', cur', chunk)
      | none => decodeUntil D index fuel s' cur'

/-- mirrors: decode_scheduler.rs::DecodeScheduler::frame_at_index.
    `end - start` underflows (panic) for an inverted slice: reported as `panic`. -/
def frameAtIndex {σ : Type} (D : Decoder σ α) (cfg : Cfg) (fuel : Nat) (st : Sched σ α) (index : Nat) :
    Except Err (Frame α × Sched σ α) :=
  let start := match cfg.slice with | some (a, _) => a | none => 0
  let stop := match cfg.slice with | some (_, b) => b | none => cfg.numFrames
  if stop < start then .error .panic else
  if index ≥ stop - start then .ok (⟨(0.0 : α), (0.0 : α)⟩, st) else
  let index := start + index
  match st.chunk.bind (·.frameAt index) with
  | some f => .ok (f, st)
  | none =>
    let seeked : Except Err (σ × Nat) :=
      if index < st.cur then
        match D.seek st.dec index with
        | .error e => .error e
        | .ok (j, s') => .ok (s', j)
      else .ok (st.dec, st.cur)
    match seeked with
    | .error e => .error e
    | .ok (s, cur) =>
      match decodeUntil D index fuel s cur with
      | .error e => .error e
      | .ok (f, s', cur', chunk) => .ok (f, { st with dec := s', cur := cur', chunk := some chunk })

/-- mirrors: decode_scheduler.rs::DecodeScheduler::seek_to_index (+ transport.rs::seek_to, no loop) -/
def seekToIndex {σ : Type} (D : Decoder σ α) (cfg : Cfg) (st : Sched σ α) (index : Nat) :
    Except Err (Sched σ α) :=
  let playing := if index ≥ cfg.numFrames then false else st.playing
  match D.seek st.dec index with
  | .error e => .error e
  | .ok (j, s') => .ok { st with dec := s', cur := j, position := index, playing := playing }

/-- mirrors: decode_scheduler.rs::DecodeScheduler::new (the decoder-facing part): initial seek
    to the start position; `end - start` of an inverted slice panics. -/
def Sched.new {σ : Type} (D : Decoder σ α) (s0 : σ) (slice : Option (Nat × Nat)) (decFrames : Nat)
    (startPos : Nat) : Except Err (Cfg × Sched σ α) :=
  match (match slice with
         | some (a, b) => if b < a then (none : Option Nat) else some (b - a)
         | none => some decFrames) with
  | none => .error .panic
  | some n =>
    match D.seek s0 startPos with
    | .error e => .error e
    | .ok (j, s') => .ok (⟨slice, n⟩, ⟨s', j, none, startPos, true⟩)

/-- one iteration of `DecodeScheduler::run` after the command checks: produce the frame at the
    transport position, then `transport.increment_position` (no loop region).
    Returns the pushed frame, its timestamp and whether the scheduler goes on (`false` = End). -/
def runStep {σ : Type} (D : Decoder σ α) (cfg : Cfg) (fuel : Nat) (st : Sched σ α) :
    Except Err (Frame α × Nat × Bool × Sched σ α) :=
  match frameAtIndex D cfg fuel st st.position with
  | .error e => .error e
  | .ok (f, st') =>
    let idx := st'.position
    let st'' : Sched σ α :=
      if st'.playing then
        let p := st'.position + 1
        { st' with position := p, playing := if p ≥ cfg.numFrames then false else true }
      else st'
    .ok (f, idx, st''.playing, st'')

/-- how a decoder thread ends, as seen from the sound and its handle -/
structure ThreadEnd (α : Type) where
  /-- the frames the thread put in the ring buffer, in order, with their transport positions
      (what becomes audible is a prefix of these) -/
  pushed : List (Frame α × Nat)
  /-- `some e`: `e` was pushed to the error ring (`handle.pop_error()`) and `encountered_error` set —
      the sound is marked Stopped by its next `process`; `none`: `reached_end` — the sound plays
      the buffer out and finishes -/
  error : Option Err

/-- mirrors: decode_scheduler.rs::DecodeScheduler::start, streaming/sound.rs::StreamingSound::process
    The decoder thread: `run` until `End`; an `Err` is pushed to the error producer and
    `shared.encountered_error` is set; `process` then does `mark_as_stopped` (before playing
    anything that is still buffered), so the thread's next `run` sees `Stopped` and returns `End`.
    `steps` bounds the iterations of the Rust `loop` (the loop itself is unbounded: exhaustion is
    reported as `hang`, as is a `frame_at_index` that never returns); a panic kills the thread
    and nothing ever stops the sound.  (`Wait` — ring buffer of 16 384 frames full — is not
    modelled: the consumer is assumed live.) -/
def runThread {σ : Type} (D : Decoder σ α) (cfg : Cfg) (fuel : Nat) :
    Nat → Sched σ α → List (Frame α × Nat) → Except Err (ThreadEnd α)
  | 0, _, _ => .error .hang
  | steps + 1, st, acc =>
    match runStep D cfg fuel st with
    | .error e =>
      if e = .hang ∨ e = .panic then .error e else .ok ⟨acc.reverse, some e⟩
    | .ok (f, idx, go, st') =>
      if go then runThread D cfg fuel steps st' ((f, idx) :: acc)
      else .ok ⟨((f, idx) :: acc).reverse, none⟩

end Dec

/-! ## Symphonia's WAV reader + PCM codec as a `Decoder` (SymphoniaDecoder) -/
namespace Wav

variable {α : Type} [Add α] [Sub α] [Mul α] [Div α] [Neg α] [LT α] [LE α]
  [DecidableLT α] [DecidableLE α] [OfScientific α] [KOps α]

/-- mirrors: streaming/decoder/symphonia.rs::SymphoniaDecoder::{decode, seek} over the WAV
    demuxer model; the state is the byte offset in the data chunk -/
def wavDecoder (fd : FloatDec α) (fc : FmtChunk) (r : Reader) : Dec.Decoder Nat α where
  decode pos :=
    match nextPacket fc.blockAlign r.dataLen r.data pos with
    | .packet b p' =>
      match decodePacket fd fc b with
      | .ok fs => .ok (fs, p')
      | .error e => .error e
    | .eof => .error .sym
    | .err => .error .sym
  seek _ ts :=
    match seekPos fc.blockAlign r.dataLen ts with
    | some (actual, p') => .ok (actual, p')
    | none => .error .sym

/-- mirrors: SymphoniaDecoder::new on RIFF/WAVE bytes: (format, reader, sample rate, n_frames);
    `n_frames = None` (block size 0) is reported by kira as UnknownSampleRate -/
def openStream (bytes : List UInt8) : Except Err (FmtChunk × Reader × Nat) :=
  match parse bytes with
  | .error e => .error e
  | .ok r =>
    match r.fmt with
    | none => .error .rate
    | some fc => if fc.blockAlign = 0 then .error .rate else .ok (fc, r, numFrames fc.blockAlign r.dataLen)

end Wav
end K
