/-
  UnitTypes.lean — the TYPE declarations of the unit layer (frames, clock speeds, easings, mappings, LFO
  waveforms, playback states, filter modes / kinds, EQ coefficients), separated from the functions on them so that the functions can be GENERATED from the Rust source
  (KiraModel/GenFn.lean, which imports this file) and used by Model/Units.lean, Model/Easing.lean, Model/Lfo.lean.
  The declarations themselves are checked against the Rust `enum`/`struct` declarations by
  Proofs/GenAgree.lean (variant names, order and payloads against `K.Gen.Shape.*`; struct fields by the translator).
-/
import KiraModel.Num

namespace K

/-- A stereo frame (`f32` components). mirrors: frame.rs::Frame -/
structure Frame (α : Type) where
  left : α
  right : α
deriving Repr

/-- mirrors: clock/clock_speed.rs::ClockSpeed -/
inductive ClockSpeed (α : Type) where
  | secondsPerTick (v : α)
  | ticksPerSecond (v : α)
  | ticksPerMinute (v : α)
deriving Repr

/-- mirrors: tween.rs::Easing -/
inductive Easing (α : Type) where
  | linear
  | inPowi (p : Int)
  | outPowi (p : Int)
  | inOutPowi (p : Int)
  | inPowf (p : α)
  | outPowf (p : α)
  | inOutPowf (p : α)
deriving Repr

/-- mirrors: tween/tweenable.rs::Tweenable — linear interpolation on a value type `τ` -/
structure Tweenable (α τ : Type) where
  lerp : τ → τ → α → τ

/-- mirrors: value.rs::Mapping<T> -/
structure Mapping (α τ : Type) where
  in0 : α
  in1 : α
  out0 : τ
  out1 : τ
  easing : Easing α

/-- mirrors: modulator/lfo.rs::Waveform -/
inductive Waveform (α : Type) where
  | sine
  | triangle
  | saw
  | pulse (width : α)
deriving Repr

/-- mirrors: sound.rs::PlaybackState (discriminants 0..6 in this order) -/
inductive PlaybackState where
  | playing | pausing | paused | waitingToResume | resuming | stopping | stopped
deriving DecidableEq, Repr

/-- mirrors: filter.rs::FilterMode -/
inductive FilterMode where
  | lowPass | bandPass | highPass | notch
deriving DecidableEq, Repr

/-- mirrors: distortion.rs::DistortionKind -/
inductive DistortionKind where
  | hardClip | softClip
deriving DecidableEq, Repr

/-- mirrors: eq_filter.rs::EqFilterKind -/
inductive EqFilterKind where
  | bell | lowShelf | highShelf
deriving DecidableEq, Repr

/-- mirrors: eq_filter.rs::Coefficients (all `f64`) -/
structure EqCoefs (α : Type) where
  a1 : α
  a2 : α
  a3 : α
  m0 : α
  m1 : α
  m2 : α

/-- the `f64` coefficients computed per frame in Filter::process -/
structure FilterCoefs (α : Type) where
  k : α
  a1 : α
  a2 : α
  a3 : α

/-- mirrors: clock/time.rs::ClockTime (one clock: the `clock: ClockId` field is not modelled; `u64` ticks are `Nat`) -/
structure ClockTime (α : Type) where
  ticks : Nat
  fraction : α
deriving Repr

variable {α : Type} [Mul α] [OfScientific α] [KOps α] in
/-- `std::f64::consts::TAU`.  In binary64 TAU is exactly `2 * PI` (doubling is exact); the `lfo`
    correspondence suite pins the bits (`starting_phase / TAU`, `sin(phase * TAU)`). -/
def tau : α := (2.0 : α) * KOps.pi

/-! ### the transport state (fields checked against sound/transport.rs by the translator) -/

/-- mirrors: sound/transport.rs::Transport -/
structure Transport where
  position : Nat
  /-- start and (exclusive) end frame of the loop -/
  loopRegion : Option (Nat × Nat)
  playing : Bool
deriving DecidableEq, Repr

end K
