/-
  Spatial.lean — spatial tracks: distance attenuation, per-ear direction gains, listener lookup.
  mirrors: track/sub.rs (`SpatialData::spatialize`, `listener_ear_positions`, `listener_ear_directions`,
           the "apply spatialization" loop of `Track::process`), track/sub/spatial_builder.rs
           (`SpatialTrackDistances::relative_distance`), info.rs (`ListenerInfo::interpolated_*`,
           `Info::listener_distance`), tween/tweenable.rs (`impl Tweenable for Vec3 / Quat`),
           and the glam 0.30 kernels those call on x86-64: `Vec3` is the *scalar* struct
           (glam/src/f32/vec3.rs), `Quat` is the SSE2 one (glam/src/f32/sse2/quat.rs) — every lane
           operation there is a plain IEEE `mulps/addps/subps/divps/sqrtps` (no rsqrt/rcp, no fma:
           `fast-math` is off), so each is written here as the f32 operation (`KOps.r32` after each
           step) in the order glam performs it.
-/
import KiraModel.Model.Parameter

namespace K

variable {α : Type} [Add α] [Sub α] [Mul α] [Div α] [Neg α] [LT α] [LE α]
  [DecidableLT α] [DecidableLE α] [OfScientific α] [KOps α]

/-- an `f32` literal: the decimal rounded to binary32 -/
@[inline] def lit32 (x : α) : α := KOps.r32 x

/-- `std::f32::consts::PI` -/
def pi32 : α := KOps.r32 (KOps.pi : α)

/-! ### glam `Vec3` (scalar struct, glam/src/f32/vec3.rs) -/

-- `structure Vec3` (mirrors: glam::Vec3) is declared in Model/Geom.lean

namespace Vec3

def zero : Vec3 α := ⟨(0.0 : α), (0.0 : α), (0.0 : α)⟩
/-- `Vec3::X` -/
def posX : Vec3 α := ⟨(1.0 : α), (0.0 : α), (0.0 : α)⟩
/-- `Vec3::NEG_X` -/
def negX : Vec3 α := ⟨-(1.0 : α), (0.0 : α), (0.0 : α)⟩

/-- mirrors: `impl Add for Vec3` -/
def add (a b : Vec3 α) : Vec3 α := ⟨KOps.r32 (a.x + b.x), KOps.r32 (a.y + b.y), KOps.r32 (a.z + b.z)⟩
/-- mirrors: `impl Sub for Vec3` -/
def sub (a b : Vec3 α) : Vec3 α := ⟨KOps.r32 (a.x - b.x), KOps.r32 (a.y - b.y), KOps.r32 (a.z - b.z)⟩
/-- mirrors: `impl Mul<f32> for Vec3` -/
def scale (a : Vec3 α) (k : α) : Vec3 α := ⟨KOps.r32 (a.x * k), KOps.r32 (a.y * k), KOps.r32 (a.z * k)⟩
/-- mirrors: Vec3::dot — `(x*x' + y*y') + z*z'` -/
def dot (a b : Vec3 α) : α :=
  KOps.r32 (KOps.r32 (KOps.r32 (a.x * b.x) + KOps.r32 (a.y * b.y)) + KOps.r32 (a.z * b.z))
/-- mirrors: Vec3::length — `sqrt(dot(self, self))` -/
def length (a : Vec3 α) : α := KOps.r32 (KOps.sqrt (dot a a))
/-- mirrors: Vec3::length_recip — `self.length().recip()` = `1.0 / length` -/
def lengthRecip (a : Vec3 α) : α := KOps.r32 ((1.0 : α) / length a)
/-- mirrors: Vec3::distance -/
def distance (a b : Vec3 α) : α := length (sub a b)
/-- mirrors: Vec3::normalize_or_zero (`normalize_or(ZERO)`): the zero vector when the reciprocal
    length is not a positive finite number (zero-length, overflowing or NaN input). -/
def normalizeOrZero (a : Vec3 α) : Vec3 α :=
  let rcp := lengthRecip a
  if KOps.isFinite rcp && decide ((0.0 : α) < rcp) then scale a rcp else zero
/-- mirrors: Vec3::lerp — `self * (1.0 - s) + rhs * s` -/
def lerp (a b : Vec3 α) (s : α) : Vec3 α := add (scale a (KOps.r32 ((1.0 : α) - s))) (scale b s)
/-- mirrors: tweenable.rs `impl Tweenable for Vec3` — `a + (b - a) * amount as f32` -/
def tweenLerp (a b : Vec3 α) (amount : α) : Vec3 α := add a (scale (sub b a) (KOps.r32 amount))

end Vec3

/-! ### glam `Quat` (SSE2, glam/src/f32/sse2/quat.rs + sse2.rs helpers) -/

-- `structure Quat` (mirrors: glam::Quat, lanes x y z w) is declared in Model/Geom.lean

namespace Quat

/-- `Quat::IDENTITY` -/
def identity : Quat α := ⟨(0.0 : α), (0.0 : α), (0.0 : α), (1.0 : α)⟩

/-- mirrors: sse2.rs::dot4_in_x — `(x² + z²) + (y² + w²)` lane order -/
def dot4 (a b : Quat α) : α :=
  KOps.r32 (KOps.r32 (KOps.r32 (a.x * b.x) + KOps.r32 (a.z * b.z))
    + KOps.r32 (KOps.r32 (a.y * b.y) + KOps.r32 (a.w * b.w)))
/-- mirrors: `impl Mul<f32> for Quat` (lane-wise `mulps`) -/
def scale (a : Quat α) (k : α) : Quat α :=
  ⟨KOps.r32 (a.x * k), KOps.r32 (a.y * k), KOps.r32 (a.z * k), KOps.r32 (a.w * k)⟩
/-- mirrors: `impl Add for Quat` (lane-wise `addps`) -/
def add (a b : Quat α) : Quat α :=
  ⟨KOps.r32 (a.x + b.x), KOps.r32 (a.y + b.y), KOps.r32 (a.z + b.z), KOps.r32 (a.w + b.w)⟩
/-- mirrors: `impl Neg for Quat` (`self * -1.0`: exact sign flip) -/
def neg (a : Quat α) : Quat α := ⟨-a.x, -a.y, -a.z, -a.w⟩
/-- mirrors: Quat::normalize → Vec4::normalize — every lane divided by `sqrt(dot4)` (no zero check) -/
def normalize (a : Quat α) : Quat α :=
  let len := KOps.r32 (KOps.sqrt (dot4 a a))
  ⟨KOps.r32 (a.x / len), KOps.r32 (a.y / len), KOps.r32 (a.z / len), KOps.r32 (a.w / len)⟩
/-- mirrors: Quat::lerp_impl — `(self * (1.0 - s) + end * s).normalize()` -/
def lerpImpl (a e : Quat α) (s : α) : Quat α :=
  normalize (add (scale a (KOps.r32 ((1.0 : α) - s))) (scale e s))
/-- mirrors: Quat::lerp — flips `end` when the sign bit of the 4-d dot product is set -/
def lerp (a e : Quat α) (s : α) : Quat α :=
  let d := dot4 a e
  lerpImpl a (if signNeg d then neg e else e) s

/-- mirrors: sse2.rs::dot3_in_x — `(x·x' + y·y') + z·z'` -/
def dot3 (ax ay az bx by' bz : α) : α :=
  KOps.r32 (KOps.r32 (KOps.r32 (ax * bx) + KOps.r32 (ay * by')) + KOps.r32 (az * bz))

/-- mirrors: Quat::mul_vec3 → Quat::mul_vec3a:
    `v*(w² − b·b) + b*(2(v·b)) + (b × v)*(2w)` with `b = (x, y, z)`; no normalisation check
    (`glam_assert` is compiled out). For a non-unit `q` this is `|q|²` times a rotation. -/
def mulVec3 (q : Quat α) (v : Vec3 α) : Vec3 α :=
  let b2 := dot3 q.x q.y q.z q.x q.y q.z
  let k1 := KOps.r32 (KOps.r32 (q.w * q.w) - b2)
  let k2 := KOps.r32 (dot3 v.x v.y v.z q.x q.y q.z * (2.0 : α))
  let k3 := KOps.r32 (q.w * (2.0 : α))
  -- Vec3A::cross(b, v)
  let cx := KOps.r32 (KOps.r32 (q.y * v.z) - KOps.r32 (v.y * q.z))
  let cy := KOps.r32 (KOps.r32 (q.z * v.x) - KOps.r32 (v.z * q.x))
  let cz := KOps.r32 (KOps.r32 (q.x * v.y) - KOps.r32 (v.x * q.y))
  ⟨KOps.r32 (KOps.r32 (KOps.r32 (v.x * k1) + KOps.r32 (q.x * k2)) + KOps.r32 (cx * k3)),
   KOps.r32 (KOps.r32 (KOps.r32 (v.y * k1) + KOps.r32 (q.y * k2)) + KOps.r32 (cy * k3)),
   KOps.r32 (KOps.r32 (KOps.r32 (v.z * k1) + KOps.r32 (q.z * k2)) + KOps.r32 (cz * k3))⟩

/-- mirrors: Quat::from_rotation_y — `sin_cos(angle * 0.5)`, `(0, s, 0, c)` -/
def fromRotationY (angle : α) : Quat α :=
  let h := KOps.r32 (angle * (0.5 : α))
  ⟨(0.0 : α), KOps.sin32 h, (0.0 : α), KOps.cos32 h⟩

/-- mirrors: glam/src/f32/math.rs::acos_approx_f32 (DirectXMath `XMScalarAcos`) -/
def acosApprox (v : α) : α :=
  let nonneg := decide ((0.0 : α) ≤ v)
  let x := KOps.abs v
  let omx := KOps.r32 ((1.0 : α) - x)
  let omx := if omx < (0.0 : α) then (0.0 : α) else omx
  let root := KOps.r32 (KOps.sqrt omx)
  let m (a b : α) : α := KOps.r32 (a * b)
  let r := KOps.r32 (m (-(lit32 (0.0012624911 : α))) x + lit32 (0.00667009 : α))
  let r := KOps.r32 (m r x - lit32 (0.017088126 : α))
  let r := KOps.r32 (m r x + lit32 (0.03089188 : α))
  let r := KOps.r32 (m r x - lit32 (0.050174303 : α))
  let r := KOps.r32 (m r x + lit32 (0.08897899 : α))
  let r := KOps.r32 (m r x - lit32 (0.2145988 : α))
  let r := KOps.r32 (m r x + lit32 (1.5707963 : α))
  let r := m r root
  if nonneg then r else KOps.r32 (pi32 - r)

/-- mirrors: sse2.rs::m128_round for one lane (`(v ± 2²³) ∓ 2²³` when `|v| ≤ 2²³`).
    Over ℝ this rounding trick is the identity; no theorem is stated about `slerp`. -/
def lane_round (v : α) : α :=
  let magic : α := if signNeg v then -(8388608.0 : α) else (8388608.0 : α)
  let r1 := KOps.r32 (KOps.r32 (v + magic) - magic)
  if KOps.abs v ≤ (8388608.0 : α) then r1 else v

/-- mirrors: sse2.rs::m128_sin for one lane (mod-angles, reflection into [−π/2, π/2],
    11-degree minimax polynomial; multiply and add are separate roundings) -/
def lane_sin (a : α) : α :=
  -- m128_mod_angles
  let v := KOps.r32 (a * lit32 (0.15915494 : α))
  let v := lane_round v
  let x := KOps.r32 (a - KOps.r32 (KOps.r32 (pi32 * (2.0 : α)) * v))
  -- reflect
  let c : α := if signNeg x then -pi32 else pi32
  let absx := KOps.abs x
  let rflx := KOps.r32 (c - x)
  let x := if absx ≤ KOps.r32 (pi32 / (2.0 : α)) then x else rflx
  let x2 := KOps.r32 (x * x)
  let ma (a b c : α) : α := KOps.r32 (KOps.r32 (a * b) + c)
  let r := ma (-(lit32 (2.3889859e-8 : α))) x2 (lit32 (2.7525562e-6 : α))
  let r := ma r x2 (-(lit32 (0.00019840874 : α)))
  let r := ma r x2 (lit32 (0.008333331 : α))
  let r := ma r x2 (-(lit32 (0.16666667 : α)))
  let r := ma r x2 (1.0 : α)
  KOps.r32 (r * x)

/-- mirrors: Quat::slerp (SSE2): shortest-arc flip, linear fallback above `1 − ε`, otherwise
    `(self·sin((1−s)θ) + end·sin(sθ)) / sin θ` with glam's own `acos`/`sin` approximations -/
def slerp (a e : Quat α) (s : α) : Quat α :=
  let d := dot4 a e
  let flip := decide (d < (0.0 : α))
  let e := if flip then neg e else e
  let d := if flip then -d else d
  if (0.99999988079071044921875 : α) < d then lerpImpl a e s
  else
    let theta := acosApprox d
    let s1 := lane_sin (KOps.r32 (theta * KOps.r32 ((1.0 : α) - s)))
    let s2 := lane_sin (KOps.r32 (theta * s))
    let st := lane_sin (KOps.r32 (theta * (1.0 : α)))
    let p := add (scale a s1) (scale e s2)
    ⟨KOps.r32 (p.x / st), KOps.r32 (p.y / st), KOps.r32 (p.z / st), KOps.r32 (p.w / st)⟩

/-- mirrors: tweenable.rs `impl Tweenable for Quat` — `a.slerp(b, amount as f32)` -/
def tweenSlerp (a b : Quat α) (amount : α) : Quat α := slerp a b (KOps.r32 amount)

end Quat

/-- `Tweenable` instance of `Vec3` -/
def twVec3 : Tweenable α (Vec3 α) := ⟨Vec3.tweenLerp⟩
/-- `Tweenable` instance of `Quat` -/
def twQuat : Tweenable α (Quat α) := ⟨Quat.tweenSlerp⟩

/-! ### spatial track -/

/-- the ideal-arithmetic shadow of NaN/∞ inside `spatialize`: a division by zero at the named site
    (raised only by `spatializeChecked`; the computation itself cannot panic) -/
inductive SpatialFault where
  | nonFinite (site : String)
deriving Repr, DecidableEq

def SpatialFault.name : SpatialFault → String
  | .nonFinite s => "nonFinite:" ++ s

/-- mirrors: spatial_builder.rs::SpatialTrackDistances::relative_distance — `min < max`: the clamped
    distance's place in the range; otherwise (no range to interpolate over; `f32::clamp` is not
    called) a step at `min_distance`: `0.0` below it, `1.0` from it on -/
def relativeDistance (minD maxD distance : α) : α :=
  if minD < maxD then
    KOps.r32 (KOps.r32 (clamp distance minD maxD - minD) / KOps.r32 (maxD - minD))
  else if distance < minD then (0.0 : α)
  else (1.0 : α)

/-- mirrors: sub.rs::SpatialData::spatialize, "attenuate volume": the amplitude for a distance:
    `interpolate(SILENCE, IDENTITY, ease(1 − relative_distance) as f32).as_amplitude()` -/
def attenuation (e : Easing α) (minD maxD distance : α) : α :=
  let rel := relativeDistance minD maxD distance
  let relVol := KOps.r32 (e.apply (KOps.r32 ((1.0 : α) - rel)))
  asAmplitude (lerp32 (silenceDb : α) (0.0 : α) relVol)

/-- `EAR_DISTANCE` (sub.rs::listener_ear_positions) -/
def earDistance : α := gen_body% Gen.earDistance
/-- `EAR_ANGLE_FROM_HEAD = FRAC_PI_8` (sub.rs::listener_ear_directions) -/
def earAngle : α := gen_body% Gen.earAngleFromHead

/-- mirrors: sub.rs::listener_ear_positions -/
def earPositions (lp : Vec3 α) (lo : Quat α) : Vec3 α × Vec3 α :=
  (Vec3.add lp (lo.mulVec3 (Vec3.scale Vec3.negX earDistance)),
   Vec3.add lp (lo.mulVec3 (Vec3.scale Vec3.posX earDistance)))

/-- left / right ear direction relative to the head (sub.rs::listener_ear_directions, first half) -/
def earDirLocal : Vec3 α × Vec3 α :=
  ((Quat.fromRotationY (-(earAngle : α))).mulVec3 Vec3.negX,
   (Quat.fromRotationY (earAngle : α)).mulVec3 Vec3.posX)

/-- mirrors: sub.rs::listener_ear_directions -/
def earDirections (lo : Quat α) : Vec3 α × Vec3 α :=
  (lo.mulVec3 (earDirLocal (α := α)).1, lo.mulVec3 (earDirLocal (α := α)).2)

/-- `(ear_direction.dot(normalize_or_zero(position − ear_position)) + 1.0) / 2.0` -/
def earVolume (dir earPos position : Vec3 α) : α :=
  KOps.r32 (KOps.r32 (Vec3.dot dir (Vec3.normalizeOrZero (Vec3.sub position earPos)) + (1.0 : α)) / (2.0 : α))

/-- the two ear volumes in [0, 1] for an emitter position and a listener pose -/
def earVolumes (position lp : Vec3 α) (lo : Quat α) : α × α :=
  let ep := earPositions lp lo
  let ed := earDirections lo
  (earVolume ed.1 ep.1 position, earVolume ed.2 ep.2 position)

/-- `min_ear_amplitude + (1.0 − min_ear_amplitude) * ear_volume` -/
def earGain (minEar vol : α) : α := KOps.r32 (minEar + KOps.r32 (KOps.r32 ((1.0 : α) - minEar) * vol))

/-- the two per-ear gains for a (clamped) spatialization strength -/
def earGains (strength : α) (position lp : Vec3 α) (lo : Quat α) : α × α :=
  let minEar := KOps.r32 ((1.0 : α) - strength)
  let v := earVolumes position lp lo
  (earGain minEar v.1, earGain minEar v.2)

/-- mirrors: sub.rs::SpatialData::spatialize for given (already interpolated) emitter position and
    (already clamped) strength -/
def spatializeAt (atten : Option (Easing α)) (minD maxD : α) (position : Vec3 α) (strength : α)
    (input : Frame α) (lp : Vec3 α) (lo : Quat α) : Frame α :=
  let output : Frame α :=
    match atten with
    | none => input
    | some e => input.scale (attenuation e minD maxD (Vec3.length (Vec3.sub lp position)))
  if feq strength (0.0 : α) then output
  else
    let m := output.asMono
    let g := earGains strength position lp lo
    ⟨KOps.r32 (m.left * g.1), KOps.r32 (m.right * g.2)⟩

/-- `f32::MIN_POSITIVE` = 2⁻¹²⁶, the smallest positive normal `f32` -/
def minPositive32 : α := (1.17549435082228750796873653722e-38 : α)

/-- mirrors: `f32::is_normal` — neither zero, subnormal, infinite nor NaN -/
def isNormal32 (x : α) : Bool := KOps.isFinite x && decide ((minPositive32 : α) ≤ KOps.abs x)

/-- mirrors: Quat::length_squared → Vec4::length_squared (`dot4(self, self)`) -/
def Quat.lengthSquared (q : Quat α) : α := Quat.dot4 q q

/-- mirrors: info.rs::rotation_or_identity — a quaternion that cannot be normalised (squared length
    zero, subnormal, infinite or NaN) counts as the identity orientation -/
def Quat.rotationOrIdentity (q : Quat α) : Quat α :=
  if isNormal32 (Quat.lengthSquared q) then q else Quat.identity

/-- the same computation with every division checked, from the listener's previous and current
    orientation as the caller supplied them: `nonFinite site` when a divisor is zero
    (`relative_distance`'s `max − min`, reached only when `min < max`; the `sqrt(dot4)` of the
    interpolated orientation, reached with the two orientations after `rotation_or_identity`).
    `normalize_or_zero` guards its own division, so coincident points raise nothing.
    `C15_defined`: over ℝ this never raises anything. -/
def spatializeChecked (atten : Option (Easing α)) (minD maxD : α) (position : Vec3 α) (strength : α)
    (input : Frame α) (lp : Vec3 α) (prevOri ori : Quat α) (s : α) : Except SpatialFault (Frame α) :=
  let a := Quat.rotationOrIdentity prevOri
  let o := Quat.rotationOrIdentity ori
  let d := Quat.dot4 a o
  let e := if signNeg d then Quat.neg o else o
  let mixed := Quat.add (Quat.scale a (KOps.r32 ((1.0 : α) - s))) (Quat.scale e s)
  if atten.isSome && decide (minD < maxD) && feq (KOps.r32 (maxD - minD)) (0.0 : α) then
    .error (.nonFinite "relative_distance")
  else if !(feq strength (0.0 : α)) && feq (KOps.r32 (KOps.sqrt (Quat.dot4 mixed mixed))) (0.0 : α) then
    .error (.nonFinite "orientation")
  else .ok (spatializeAt atten minD maxD position strength input lp (Quat.lerp a o s))

/-- mirrors: sub.rs::SpatialData -/
structure SpatialData (α : Type) where
  listenerId : Nat
  position : Parameter α (Vec3 α)
  minDistance : α
  maxDistance : α
  attenuation : Option (Easing α)
  strength : Parameter α α

-- `structure ListenerInfo` (mirrors: info.rs::ListenerInfo) is declared in Model/Geom.lean

/-- mirrors: info.rs::ListenerInfo::interpolated_position -/
def ListenerInfo.interpolatedPosition (li : ListenerInfo α) (amount : α) : Vec3 α :=
  li.previousPosition.lerp li.position amount
/-- mirrors: info.rs::ListenerInfo::interpolated_orientation (a normalised *lerp*, not a slerp, of the
    two orientations, each replaced by the identity when it cannot be normalised) -/
def ListenerInfo.interpolatedOrientation (li : ListenerInfo α) (amount : α) : Quat α :=
  (Quat.rotationOrIdentity li.previousOrientation).lerp (Quat.rotationOrIdentity li.orientation) amount

/-- mirrors: info.rs::SpatialTrackInfo -/
structure SpatialTrackInfo (α : Type) where
  position : Vec3 α
  listenerId : Nat

/-- mirrors: info.rs::Info::listener_distance (`zip` of the track info and the listener lookup) -/
def listenerDistance (sti : Option (SpatialTrackInfo α)) (li : Option (ListenerInfo α)) : Option α :=
  match sti, li with
  | some s, some l => some (Vec3.distance l.position s.position)
  | _, _ => none

/-- the clamped, interpolated spatialization strength (`interpolated_value(t).clamp(0.0, 1.0)`) -/
def SpatialData.strengthAt (sd : SpatialData α) (t : α) : α :=
  clamp (sd.strength.interpolatedValue tw32 t) (0.0 : α) (1.0 : α)

/-- mirrors: sub.rs::SpatialData::spatialize -/
def SpatialData.spatialize (sd : SpatialData α) (input : Frame α) (lp : Vec3 α) (lo : Quat α) (t : α) :
    Frame α :=
  spatializeAt sd.attenuation sd.minDistance sd.maxDistance (sd.position.interpolatedValue twVec3 t)
    (sd.strengthAt t) input lp lo

/-- mirrors: sub.rs::Track::process, "apply spatialization", frame `i` of a chunk of `n` frames:
    the listener is looked up by id; when it does not exist the frame is zeroed. -/
def SpatialData.frameOut (sd : SpatialData α) (li : Option (ListenerInfo α)) (i n : Nat) (frame : Frame α) :
    Frame α :=
  let t : α := (KOps.ofNat i : α) / (KOps.ofNat n : α)
  match li with
  | some li =>
    sd.spatialize frame (li.interpolatedPosition (KOps.r32 t)) (li.interpolatedOrientation (KOps.r32 t)) t
  | none => Frame.zero

/-- the whole "apply spatialization" loop over a chunk (frames `i, i+1, …` of `n`) -/
def SpatialData.chunkOut (sd : SpatialData α) (li : Option (ListenerInfo α)) (n : Nat) :
    Nat → List (Frame α) → List (Frame α)
  | _, [] => []
  | i, f :: rest => sd.frameOut li i n f :: chunkOut sd li n (i + 1) rest

end K
