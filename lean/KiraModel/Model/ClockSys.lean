/-
  ClockSys.lean — one internal chunk of the renderer as far as clocks are concerned: tweener
  modulators, clocks (self-referential storage) and the clock-gated consumers of the mixer pass.
  mirrors: backend/renderer.rs (`on_start_processing`, `process_chunk`: modulators.process →
           clocks.update → listeners.update → mixer.process), backend/resources.rs
           (`SelfReferentialResourceStorage::{remove_and_add, for_each}`), backend/resources/{clocks,
           modulators}.rs, modulator/tweener.rs, sound/static_sound/sound.rs (the start-time gate at
           the top of `process`), manager.rs (`add_clock`, `add_modulator`, `play`)
  Ids are creation indices (an arena key is never valid again after its clock was removed, so a
  fresh number per resource is faithful).  Capacities are assumed not to be exhausted.
-/
import KiraModel.Model.Clock

namespace K

variable {α : Type} [Add α] [Sub α] [Mul α] [Div α] [Neg α] [LT α] [LE α]
  [DecidableLT α] [DecidableLE α] [OfScientific α] [KOps α]

/-- mirrors: modulator/tweener.rs::State -/
inductive TweenerState (α : Type) where
  | idle
  | tweening (a b : α) (time : α) (tween : Tween α)

/-- mirrors: modulator/tweener.rs::Tweener (with the handle's end of the `set` slot and `removed`) -/
structure ModTweener (α : Type) where
  state : TweenerState α
  value : α
  cmd : Option (α × Tween α)
  removed : Bool

namespace ModTweener

/-- mirrors: modulator/tweener.rs::Tweener::new -/
def new (initial : α) : ModTweener α := ⟨.idle, initial, none, false⟩

/-- mirrors: `impl Modulator for Tweener`::on_start_processing -/
def onStartProcessing (m : ModTweener α) : ModTweener α :=
  match m.cmd with
  | some (target, tw) => { m with state := .tweening m.value target (0.0 : α) tw, cmd := none }
  | none => m

/-- mirrors: `impl Modulator for Tweener`::update -/
def update (m : ModTweener α) (dt : α) (info : Info α) : ModTweener α :=
  match m.state with
  | .idle => m
  | .tweening a b time tween =>
    let (st', started) : StartTime α × Bool :=
      match tween.startTime with
      | .immediate => (.immediate, true)
      | .delayed ns => if ns = 0 then (.delayed ns, true) else (.delayed (durSubSecs ns dt), false)
      | .clockTime c t => (.clockTime c t, decide (info.whenToStart c t = .now))
    let tween' : Tween α := { tween with startTime := st' }
    if !started then { m with state := .tweening a b time tween' }
    else
      let time' := time + dt
      if (durToSecs tween.durationNs : α) ≤ time' then { m with value := b, state := .idle }
      else { m with value := lerp64 a b (tween.value time'), state := .tweening a b time' tween' }

end ModTweener

/-- a clock-gated consumer of the mixer pass (a static/streaming sound waiting for its start time).
    mirrors: the head of sound/static_sound/sound.rs::`impl Sound for StaticSound`::process -/
structure Waiter (α : Type) where
  st : StartTime α
  /-- `playback_state_manager.mark_as_stopped()` happened (the clock is gone) -/
  stopped : Bool
  /-- the last processed chunk got past the start-time gate (the sound played in it) -/
  audible : Bool

/-- mirrors: sound/static_sound/sound.rs process: `start_time.update`, `mark_as_stopped`, the gate -/
def Waiter.process (w : Waiter α) (dt : α) (info : Info α) : Waiter α :=
  if w.stopped then { w with audible := false }   -- a stopped sound is `finished()`: unloaded
  else
    let r := w.st.update dt info
    { st := r.1, stopped := r.2, audible := r.1.isImmediate && !r.2 }

/-- mirrors: backend/resources.rs::SelfReferentialResourceStorage::for_each — every resource is
    updated in `keys` order while a dummy sits in its own arena slot; resources earlier in the
    order are seen already updated, later ones not yet.  `none` = an update did not terminate. -/
def forEachSelfRef {T : Type} (dummy : T) (f : T → (Nat → Option T) → Option T) :
    List (Nat × T) → List (Nat × T) → Option (List (Nat × T))
  | done, [] => some done
  | done, (k, x) :: rest =>
    let view : Nat → Option T := fun j => if j = k then some dummy else (done ++ rest).lookup j
    match f x view with
    | none => none
    | some x' => forEachSelfRef dummy f (done ++ [(k, x')]) rest

/-- the audio side as far as clocks are concerned -/
structure Sys (α : Type) where
  /-- clocks in the arena, in `keys` (insertion) order -/
  clocks : List (Nat × Clock α)
  /-- clocks sent by `add_clock`, not yet picked up by `on_start_processing` -/
  newClocks : List (Nat × Clock α)
  mods : List (Nat × ModTweener α)
  newMods : List (Nat × ModTweener α)
  waiters : List (Waiter α)
  newWaiters : List (Waiter α)
  nextId : Nat

def Sys.empty : Sys α := ⟨[], [], [], [], [], [], 0⟩

/-- operations of a clock handle -/
inductive HCmd (α : Type) where
  | start | pause | stop | drop
  | setSpeed (v : Value α (ClockSpeed α)) (tw : Tween α)

def HCmd.apply (c : Clock α) : HCmd α → Clock α
  | .start => c.hStart
  | .pause => c.hPause
  | .stop => c.hStop
  | .drop => c.hDrop
  | .setSpeed v tw => c.hSetSpeed v tw

/-- what can happen to the system -/
inductive Ev (α : Type) where
  | addClock (speed : Value α (ClockSpeed α))
  | addTweener (initial : α)
  | clockCmd (id : Nat) (cmd : HCmd α)
  | tweenerSet (id : Nat) (target : α) (tw : Tween α)
  | tweenerDrop (id : Nat)
  | play (st : StartTime α)
  | startProcessing
  | chunk (dt : α)

def mapKey {T : Type} (id : Nat) (f : T → T) (l : List (Nat × T)) : List (Nat × T) :=
  l.map (fun p => if p.1 = id then (p.1, f p.2) else p)

namespace Sys

/-- the `Info` built from the arenas. mirrors: info.rs::Info::new + clock_info + modulator_value -/
def infoOf (clockView : Nat → Option (Clock α)) (modView : Nat → Option (ModTweener α)) : Info α :=
  { clock := fun id => (clockView id).map Clock.info,
    modulator := fun id => (modView id).map (·.value),
    listenerDistance := none }

/-- the `Info` the mixer pass (sounds, effects, tracks) sees -/
def mixInfo (s : Sys α) : Info α := infoOf (fun id => s.clocks.lookup id) (fun id => s.mods.lookup id)

/-- mirrors: backend/renderer.rs::Renderer::on_start_processing as far as clocks, modulators and
    new sounds are concerned (mixer, then clocks, then modulators) -/
def startProcessing (s : Sys α) : Sys α :=
  let clocks := (s.clocks.filter (fun p => !p.2.shared.removed)) ++ s.newClocks
  let mods := (s.mods.filter (fun p => !p.2.removed)) ++ s.newMods
  { s with
    waiters := s.waiters ++ s.newWaiters, newWaiters := [],
    clocks := clocks.map (fun p => (p.1, p.2.onStartProcessing)), newClocks := [],
    mods := mods.map (fun p => (p.1, p.2.onStartProcessing)), newMods := [] }

/-- mirrors: backend/resources/modulators.rs::Modulators::process (clocks not yet updated) -/
def processMods (s : Sys α) (dt : α) : Option (List (Nat × ModTweener α)) :=
  forEachSelfRef (ModTweener.new (0.0 : α))
    (fun m view => some (m.update dt (infoOf (fun id => s.clocks.lookup id) view))) [] s.mods

/-- mirrors: backend/resources/clocks.rs::Clocks::update (modulators already processed) -/
def updateClocks (s : Sys α) (mods : List (Nat × ModTweener α)) (dt : α) :
    Option (List (Nat × Clock α)) :=
  forEachSelfRef Clock.dummy
    (fun c view => some (c.update dt (infoOf view (fun id => mods.lookup id))).1) [] s.clocks

/-- mirrors: backend/renderer.rs::Renderer::process_chunk: modulators, then clocks, then the mixer
    pass (`dt` is the chunk's duration `self.dt * num_frames`) -/
def chunk (s : Sys α) (dt : α) : Option (Sys α) :=
  match s.processMods dt with
  | none => none
  | some mods =>
    match s.updateClocks mods dt with
    | none => none
    | some clocks =>
      let s1 := { s with mods := mods, clocks := clocks }
      some { s1 with waiters := s1.waiters.map (fun w => w.process dt s1.mixInfo) }

/-- one event (never `none`: `Sys.step_total` — the `Option` is `forEachSelfRef`'s) -/
def step (s : Sys α) : Ev α → Option (Sys α)
  | .addClock speed =>
    some { s with newClocks := s.newClocks ++ [(s.nextId, Clock.new speed)], nextId := s.nextId + 1 }
  | .addTweener v =>
    some { s with newMods := s.newMods ++ [(s.nextId, ModTweener.new v)], nextId := s.nextId + 1 }
  | .clockCmd id cmd =>
    some { s with clocks := mapKey id (fun c => cmd.apply c) s.clocks,
                  newClocks := mapKey id (fun c => cmd.apply c) s.newClocks }
  | .tweenerSet id target tw =>
    some { s with mods := mapKey id (fun m => { m with cmd := some (target, tw) }) s.mods,
                  newMods := mapKey id (fun m => { m with cmd := some (target, tw) }) s.newMods }
  | .tweenerDrop id =>
    some { s with mods := mapKey id (fun m => { m with removed := true }) s.mods,
                  newMods := mapKey id (fun m => { m with removed := true }) s.newMods }
  | .play st => some { s with newWaiters := s.newWaiters ++ [⟨st, false, false⟩] }
  | .startProcessing => some s.startProcessing
  | .chunk dt => s.chunk dt

/-- a whole history -/
def run (s : Sys α) : List (Ev α) → Option (Sys α)
  | [] => some s
  | e :: rest =>
    match s.step e with
    | none => none
    | some s' => run s' rest

end Sys
end K
