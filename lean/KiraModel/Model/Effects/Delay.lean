/-
  Delay.lean — the delay effect and what the line-based effects (delay, reverb) share.
  mirrors: effect.rs (`Effect`), effect/delay.rs, effect/delay/builder.rs, effect/delay/handle.rs,
           command.rs (`read_commands_into_parameters!`, `handle_param_setters!`), mix.rs,
           harness/src/probe.rs::ProbeEffect (the test effect nested in the feedback loop)

  The delay line is a `List (Frame α)` of `max ⌊delay·fs⌋ 1` frames (oldest first; computed in integers).  `process` mirrors the
  Rust sub-chunking (`input.chunks_mut(buffer.len())`): each sub-chunk reads the first `n` frames of the
  line, sends them through the feedback effects, scales them by the feedback amplitude, shifts the line
  left by `n`, writes `input + read` at its end and outputs the wet/dry blend.
  The feedback effects are abstract: a state type `φ` and an `FxChain α φ` of state-passing functions.
-/
import KiraModel.Gen
import KiraModel.Model.Parameter

namespace K

variable {α : Type} [Add α] [Sub α] [Mul α] [Div α] [Neg α] [LT α] [LE α]
  [DecidableLT α] [DecidableLE α] [OfScientific α] [KOps α]

/-- the ways the delay / reverb code can panic (harness/src/runner.rs::classify names) -/
inductive FxFault where
  /-- `chunks_mut(0)`: "chunk size must be non-zero" -/
  | zeroChunk
  /-- slice index / range out of bounds -/
  | indexOOB
  /-- an explicit `panic!` -/
  | panic
  /-- the model's loop fuel ran out (never happens: fuel = number of input frames) -/
  | fuel
deriving DecidableEq, Repr

def FxFault.name : FxFault → String
  | .zeroChunk => "zeroChunk"
  | .indexOOB => "indexOOB"
  | .panic => "panic"
  | .fuel => "fuel"

namespace LineFx

/-- a `ValueChangeCommand` waiting in a `CommandReader` (the newest write wins) -/
abbrev Cmd (α τ : Type) := Option (Value α τ × Tween α)

/-- mirrors: parameter.rs::Parameter::read_command -/
def readCommand {τ : Type} (p : Parameter α τ) (c : Cmd α τ) : Parameter α τ :=
  match c with
  | some (v, t) => p.set v t
  | none => p

/-- `time_in_chunk = (i + 1) as f64 / num_frames as f64` -/
def timeInChunk (n i : Nat) : α := (KOps.ofNat (i + 1) : α) / (KOps.ofNat n : α)

/-- `self.mix.interpolated_value(time_in_chunk).0.clamp(0.0, 1.0)` (an `f32`) -/
def mixAt (p : Parameter α α) (n i : Nat) : α :=
  clamp (p.interpolatedValue tw32 (timeInChunk n i)) (0.0 : α) (1.0 : α)

/-- the wet/dry tail of every effect: `wet * mix.sqrt() + dry * (1.0 - mix).sqrt()` -/
def blend (wet dry : Frame α) (mix : α) : Frame α :=
  Frame.add (wet.scale (KOps.r32 (KOps.sqrt mix)))
    (dry.scale (KOps.r32 (KOps.sqrt (KOps.r32 ((1.0 : α) - mix)))))

end LineFx

/-- mirrors: effect.rs::Effect as seen by an owner of a `Vec<Box<dyn Effect>>`: a state `φ` and the four
    callbacks as state-passing functions (`process` rewrites the slice it is given: same length). -/
structure FxChain (α φ : Type) where
  init : φ → Nat → Nat → φ
  changeRate : φ → Nat → φ
  startProcessing : φ → φ
  process : φ → List (Frame α) → α → Info α → φ × List (Frame α)

/-- mirrors: effect/delay.rs::Delay (+ the two command readers) -/
structure Delay (α φ : Type) where
  /-- `delay_time: Duration` in nanoseconds (fixed at build time) -/
  delayNs : Nat
  /-- `Parameter<Decibels>` -/
  feedback : Parameter α α
  /-- `Parameter<Mix>` -/
  mix : Parameter α α
  cmdFeedback : LineFx.Cmd α α
  cmdMix : LineFx.Cmd α α
  /-- the delay line, oldest frame first -/
  buffer : List (Frame α)
  /-- `temp_buffer.len()` (= internal buffer size after `init`) -/
  tempLen : Nat
  /-- the feedback effects' state -/
  fx : φ

namespace Delay
variable {φ : Type}
open LineFx

/-- mirrors: effect/delay.rs::Delay::new via DelayBuilder (`feedback`/`mix` are the builder's values) -/
def new (delayNs : Nat) (feedback mix : Value α α) (fx : φ) : Delay α φ :=
  { delayNs := delayNs
    feedback := Parameter.new feedback (Gen.delayDefaultFeedbackDb : α)
    mix := Parameter.new mix (Gen.delayDefaultMix : α)
    cmdFeedback := none, cmdMix := none
    buffer := [], tempLen := 0, fx := fx }

/-- mirrors: effect/delay.rs::delay_time_frames — `delay_time.as_nanos() * sample_rate as u128 / 1_000_000_000`
    (whole nanoseconds times the rate, in integers, rounded down), `.max(1)`: at least one frame.
    (`usize::try_from(..).unwrap_or(usize::MAX)` only matters for lines no machine can allocate.) -/
def frames (delayNs sr : Nat) : Nat :=
  max (delayNs * sr / 1000000000) 1

/-- mirrors: `Effect::init` for Delay -/
def init (C : FxChain α φ) (d : Delay α φ) (sr ibs : Nat) : Delay α φ :=
  { d with buffer := List.replicate (frames d.delayNs sr) Frame.zero
           tempLen := ibs
           fx := C.init d.fx sr ibs }

/-- mirrors: `Effect::on_change_sample_rate` for Delay -/
def changeRate (C : FxChain α φ) (d : Delay α φ) (sr : Nat) : Delay α φ :=
  { d with buffer := List.replicate (frames d.delayNs sr) Frame.zero
           fx := C.changeRate d.fx sr }

/-- mirrors: DelayHandle::set_feedback -/
def setFeedback (d : Delay α φ) (v : Value α α) (t : Tween α) : Delay α φ :=
  { d with cmdFeedback := some (v, t) }
/-- mirrors: DelayHandle::set_mix -/
def setMix (d : Delay α φ) (v : Value α α) (t : Tween α) : Delay α φ :=
  { d with cmdMix := some (v, t) }

/-- mirrors: `Effect::on_start_processing` for Delay -/
def startProcessing (C : FxChain α φ) (d : Delay α φ) : Delay α φ :=
  { d with feedback := readCommand d.feedback d.cmdFeedback
           mix := readCommand d.mix d.cmdMix
           cmdFeedback := none, cmdMix := none
           fx := C.startProcessing d.fx }

/-- `self.feedback.interpolated_value(time_in_chunk).as_amplitude()` -/
def fbAmp (p : Parameter α α) (n i : Nat) : α :=
  asAmplitude (p.interpolatedValue tw32 (timeInChunk n i))

/-- `*frame *= feedback.as_amplitude()` over the chunk, frame `i` first -/
def scaleFb (p : Parameter α α) (n : Nat) : Nat → List (Frame α) → List (Frame α)
  | _, [] => []
  | i, f :: fs => f.scale (fbAmp p n i) :: scaleFb p n (i + 1) fs

/-- `*frame = temp_buffer[i] * mix.sqrt() + *frame * (1.0 - mix).sqrt()` over the chunk -/
def mixOut (p : Parameter α α) (n : Nat) : Nat → List (Frame α) → List (Frame α) → List (Frame α)
  | i, t :: ts, x :: xs => blend t x (mixAt p n i) :: mixOut p n (i + 1) ts xs
  | _, _, _ => []

/-- one sub-chunk (`xs.length ≤ line length`) of effect/delay.rs::process, on (line, feedback-effect state) -/
def chunkPure (C : FxChain α φ) (fb mx : Parameter α α) (dt : α) (info : Info α)
    (st : List (Frame α) × φ) (xs : List (Frame α)) : (List (Frame α) × φ) × List (Frame α) :=
  let n := xs.length
  -- read from the beginning of the buffer and apply effects and feedback gain
  let r := C.process st.2 (st.1.take n) dt info
  let temp := scaleFb fb n 0 r.2
  -- write input + read buffer to the end of the buffer
  let buf := st.1.drop n ++ List.zipWith Frame.add xs temp
  -- output mix of input and read buffer
  ((buf, r.1), mixOut mx n 0 temp xs)

/-- the `for input in input.chunks_mut(L)` loop; `self.temp_buffer[..n]` panics when `n > temp_buffer.len()` -/
def chunks (C : FxChain α φ) (fb mx : Parameter α α) (dt : α) (info : Info α) (tempLen L : Nat) :
    Nat → List (Frame α) × φ → List (Frame α) → Except FxFault ((List (Frame α) × φ) × List (Frame α))
  | _, st, [] => .ok (st, [])
  | 0, _, _ :: _ => .error .fuel
  | fuel + 1, st, x :: xs =>
    let c := (x :: xs).take L
    if tempLen < c.length then .error .indexOOB
    else
      let r := chunkPure C fb mx dt info st c
      match chunks C fb mx dt info tempLen L fuel r.1 ((x :: xs).drop L) with
      | .ok (st2, o2) => .ok (st2, r.2 ++ o2)
      | .error e => .error e

/-- mirrors: `Effect::process` for Delay -/
def process (C : FxChain α φ) (d : Delay α φ) (input : List (Frame α)) (dt : α) (info : Info α) :
    Except FxFault (Delay α φ × List (Frame α)) :=
  let t := dt * (KOps.ofNat input.length : α)
  let fb := (d.feedback.update tw32 t info).1
  let mx := (d.mix.update tw32 t info).1
  let L := d.buffer.length
  if L = 0 then .error .zeroChunk
  else
    match chunks C fb mx dt info d.tempLen L input.length (d.buffer, d.fx) input with
    | .ok (st, out) => .ok ({ d with feedback := fb, mix := mx, buffer := st.1, fx := st.2 }, out)
    | .error e => .error e

end Delay

/-- mirrors: harness/src/probe.rs::ProbeEffect — a one-pole test effect written against the public
    `Effect` trait: `o = f * gain + offset + prev * feedback; prev = o` per channel. -/
structure ProbeFx (α : Type) where
  gain : α
  offset : α
  feedback : α
  prev : Frame α

namespace ProbeFx

/-- one channel: `f * gain + offset + prev * feedback` in `f32` -/
def chan (p : ProbeFx α) (x prev : α) : α :=
  KOps.r32 (KOps.r32 (KOps.r32 (x * p.gain) + p.offset) + KOps.r32 (prev * p.feedback))

/-- mirrors: the body of the `for f in input.iter_mut()` loop of ProbeEffect::process -/
def step (p : ProbeFx α) (f : Frame α) : ProbeFx α × Frame α :=
  let o : Frame α := ⟨p.chan f.left p.prev.left, p.chan f.right p.prev.right⟩
  ({ p with prev := o }, o)

/-- mirrors: harness/src/probe.rs::ProbeEffect::process -/
def process (p : ProbeFx α) : List (Frame α) → ProbeFx α × List (Frame α)
  | [] => (p, [])
  | f :: fs =>
    let r := p.step f
    let r' := process r.1 fs
    (r'.1, r.2 :: r'.2)

/-- a `Vec` of probe effects applied in order to the same slice -/
def chainProcess : List (ProbeFx α) → List (Frame α) → List (ProbeFx α) × List (Frame α)
  | [], xs => ([], xs)
  | p :: ps, xs =>
    let r := p.process xs
    let r' := chainProcess ps r.2
    (r.1 :: r'.1, r'.2)

/-- the chain interface of a list of probe effects (they ignore init / rate / dt / info) -/
def chain : FxChain α (List (ProbeFx α)) :=
  { init := fun s _ _ => s, changeRate := fun s _ => s, startProcessing := fun s => s
    process := fun s xs _ _ => chainProcess s xs }

end ProbeFx

end K
