/-
  Effects/Distortion.lean — hard / soft clipping with drive.
  mirrors: effect/distortion.rs (+ builder.rs, handle.rs)
-/
import KiraModel.Model.Effects.CommonA

namespace K

variable {α : Type} [Add α] [Sub α] [Mul α] [Div α] [Neg α] [LT α] [LE α]
  [DecidableLT α] [DecidableLE α] [OfScientific α] [KOps α]

/-- mirrors: distortion.rs::Distortion (+ the pending commands of its `CommandReaders`) -/
structure Distortion (α : Type) where
  kind : DistortionKind
  drive : Parameter α α
  mix : Parameter α α
  cmdKind : Option DistortionKind
  cmdDrive : Cmd α α
  cmdMix : Cmd α α

namespace Distortion

/-- mirrors: DistortionBuilder::build (defaults Decibels::IDENTITY, Mix::WET) -/
def new (kind : DistortionKind) (drive mix : Value α α) : Distortion α :=
  gen_body%
  { kind := kind
    drive := Parameter.new drive Gen.distortionDefaultDrive
    mix := Parameter.new mix Gen.distortionDefaultMix
    cmdKind := none, cmdDrive := none, cmdMix := none }

/-- mirrors: Effect::init (trait default: nothing) -/
def init (s : Distortion α) (_sampleRate _internalBufferSize : Nat) : Distortion α := s
/-- mirrors: Effect::on_change_sample_rate (trait default: nothing) -/
def onChangeSampleRate (s : Distortion α) (_sampleRate : Nat) : Distortion α := s

/-- mirrors: DistortionHandle::set_kind -/
def setKind (s : Distortion α) (k : DistortionKind) : Distortion α := { s with cmdKind := some k }
/-- mirrors: DistortionHandle::set_drive -/
def setDrive (s : Distortion α) (v : Value α α) (tw : Tween α) : Distortion α :=
  { s with cmdDrive := some (v, tw) }
/-- mirrors: DistortionHandle::set_mix -/
def setMix (s : Distortion α) (v : Value α α) (tw : Tween α) : Distortion α :=
  { s with cmdMix := some (v, tw) }

/-- mirrors: Distortion::on_start_processing -/
def onStartProcessing (s : Distortion α) : Distortion α :=
  { s with
    kind := (match s.cmdKind with | some k => k | none => s.kind)
    drive := s.drive.readCommand s.cmdDrive
    mix := s.mix.readCommand s.cmdMix
    cmdKind := none, cmdDrive := none, cmdMix := none }

/-- mirrors: the `match self.kind` of Distortion::process on one `f32` sample -/
def shape (kind : DistortionKind) (x : α) : α :=
  match kind with
  | .hardClip => clamp x (-(1.0 : α)) (1.0 : α)
  | .softClip => KOps.r32 (x / KOps.r32 ((1.0 : α) + KOps.abs x))

/-- the wet signal of one frame: `(shape (frame * drive)) / drive`, `drive` the linear amplitude -/
def wet (kind : DistortionKind) (drive : α) (frame : Frame α) : Frame α :=
  let o := frame.scale drive
  let o : Frame α := ⟨shape kind o.left, shape kind o.right⟩
  -- a silent drive (amplitude exactly 0) leaves the signal undistorted instead of dividing 0 by 0
  if feq drive (0.0 : α) then frame else o.divs drive

/-- one frame of Distortion::process for given linear drive and clamped mix -/
def tick (kind : DistortionKind) (drive mix : α) (frame : Frame α) : Frame α :=
  dryWet (wet kind drive frame) frame mix

/-- mirrors: the loop body of Distortion::process -/
def body (t : α) (s : Distortion α) (f : Frame α) : Distortion α × Frame α :=
  let drive := asAmplitude (s.drive.interpolatedValue tw32 t)
  let mix := clamp (s.mix.interpolatedValue tw32 t) (0.0 : α) (1.0 : α)
  (s, tick s.kind drive mix f)

/-- mirrors: Distortion::process -/
def process (s : Distortion α) (input : List (Frame α)) (dt : α) (info : Info α) :
    Distortion α × List (Frame α) :=
  let d := chunkDt dt input.length
  let s := { s with
    drive := (s.drive.update tw32 d info).1
    mix := (s.mix.update tw32 d info).1 }
  frameLoop body input.length 0 s input

end Distortion
end K
