/-
  Effects/Filter.lean — the state-variable filter (low/band/high-pass, notch).
  mirrors: effect/filter.rs (+ builder.rs, handle.rs)
-/
import KiraModel.Model.Effects.CommonA

namespace K

variable {α : Type} [Add α] [Sub α] [Mul α] [Div α] [Neg α] [LT α] [LE α]
  [DecidableLT α] [DecidableLE α] [OfScientific α] [KOps α]

/-- mirrors: filter.rs::Filter (+ the pending commands of its `CommandReaders`) -/
structure Filter (α : Type) where
  mode : FilterMode
  cutoff : Parameter α α
  resonance : Parameter α α
  mix : Parameter α α
  ic1eq : Frame α
  ic2eq : Frame α
  cmdMode : Option FilterMode
  cmdCutoff : Cmd α α
  cmdResonance : Cmd α α
  cmdMix : Cmd α α

namespace Filter

/-- mirrors: FilterBuilder::build / Filter::new (defaults 1000.0, 0.0, Mix(1.0)) -/
def new (mode : FilterMode) (cutoff resonance mix : Value α α) : Filter α :=
  gen_body%
  { mode := mode
    cutoff := Parameter.new cutoff Gen.filterDefaultCutoff
    resonance := Parameter.new resonance Gen.filterDefaultResonance
    mix := Parameter.new mix Gen.filterDefaultMix
    ic1eq := Frame.zero, ic2eq := Frame.zero
    cmdMode := none, cmdCutoff := none, cmdResonance := none, cmdMix := none }

/-- mirrors: Effect::init (trait default: nothing) -/
def init (s : Filter α) (_sampleRate _internalBufferSize : Nat) : Filter α := s
/-- mirrors: Effect::on_change_sample_rate (trait default: nothing) -/
def onChangeSampleRate (s : Filter α) (_sampleRate : Nat) : Filter α := s

/-- mirrors: FilterHandle::set_mode -/
def setMode (s : Filter α) (m : FilterMode) : Filter α := { s with cmdMode := some m }
/-- mirrors: FilterHandle::set_cutoff -/
def setCutoff (s : Filter α) (v : Value α α) (tw : Tween α) : Filter α := { s with cmdCutoff := some (v, tw) }
/-- mirrors: FilterHandle::set_resonance -/
def setResonance (s : Filter α) (v : Value α α) (tw : Tween α) : Filter α :=
  { s with cmdResonance := some (v, tw) }
/-- mirrors: FilterHandle::set_mix -/
def setMix (s : Filter α) (v : Value α α) (tw : Tween α) : Filter α := { s with cmdMix := some (v, tw) }

/-- mirrors: Filter::on_start_processing -/
def onStartProcessing (s : Filter α) : Filter α :=
  { s with
    mode := (match s.cmdMode with | some m => m | none => s.mode)
    cutoff := s.cutoff.readCommand s.cmdCutoff
    resonance := s.resonance.readCommand s.cmdResonance
    mix := s.mix.readCommand s.cmdMix
    cmdMode := none, cmdCutoff := none, cmdResonance := none, cmdMix := none }

/-- mirrors: the coefficient lines of Filter::process (all `f64`):
    `sample_rate = 1.0 / dt; g = (PI * (cutoff / sample_rate).clamp(0.0001, 0.5)).tan();
     k = 2.0 - (1.9 * resonance); a1 = 1.0 / (1.0 + (g * (g + k))); a2 = g * a1; a3 = g * a2` — generated (GenFn.lean) -/
def coefs (cutoff resonance dt : α) : FilterCoefs α := gen_body% Gen.filterCoefs cutoff resonance dt
gen_alias Gen.filterCoefs => coefs

/-- mirrors: `let output = match self.mode { … }` in Filter::process -/
def modeOutput (mode : FilterMode) (k : α) (frame v1 v2 : Frame α) : Frame α :=
  match mode with
  | .lowPass => v2
  | .bandPass => v1
  | .highPass => (frame.sub (v1.scale (KOps.r32 k))).sub v2
  | .notch => frame.sub (v1.scale (KOps.r32 k))

/-- one frame of Filter::process for given (already clamped) parameter values: new integrator
    states and the output frame -/
def tick (mode : FilterMode) (cutoff resonance mix dt : α) (ic1eq ic2eq frame : Frame α) :
    Frame α × Frame α × Frame α :=
  let c := coefs cutoff resonance dt
  let o := svfTick c.a1 c.a2 c.a3 ic1eq ic2eq frame
  (o.ic1eq, o.ic2eq, dryWet (modeOutput mode c.k frame o.v1 o.v2) frame mix)

/-- mirrors: the loop body of Filter::process -/
def body (dt : α) (t : α) (s : Filter α) (f : Frame α) : Filter α × Frame α :=
  let cutoff := s.cutoff.interpolatedValue tw64 t
  let resonance := clamp (s.resonance.interpolatedValue tw64 t) (0.0 : α) (1.0 : α)
  let mix := clamp (s.mix.interpolatedValue tw32 t) (0.0 : α) (1.0 : α)
  let r := tick s.mode cutoff resonance mix dt s.ic1eq s.ic2eq f
  ({ s with ic1eq := r.1, ic2eq := r.2.1 }, r.2.2)

/-- mirrors: Filter::process -/
def process (s : Filter α) (input : List (Frame α)) (dt : α) (info : Info α) :
    Filter α × List (Frame α) :=
  let d := chunkDt dt input.length
  let s := { s with
    cutoff := (s.cutoff.update tw64 d info).1
    resonance := (s.resonance.update tw64 d info).1
    mix := (s.mix.update tw32 d info).1 }
  frameLoop (body dt) input.length 0 s input

end Filter
end K
