/-
  Effects/EqFilter.lean — bell / low-shelf / high-shelf EQ on the trapezoidal SVF.
  mirrors: effect/eq_filter.rs (+ builder.rs, handle.rs)
-/
import KiraModel.Model.Effects.CommonA

namespace K

variable {α : Type} [Add α] [Sub α] [Mul α] [Div α] [Neg α] [LT α] [LE α]
  [DecidableLT α] [DecidableLE α] [OfScientific α] [KOps α]

/-- mirrors: eq_filter.rs::MIN_Q -/
def eqMinQ : α := gen_body% Gen.eqFilterMinQ
gen_alias Gen.eqFilterMinQ => eqMinQ

/-- mirrors: eq_filter.rs::Coefficients::calculate (`gain` is the `f32` decibel value) — generated (GenFn.lean) -/
def EqCoefs.calculate (kind : EqFilterKind) (frequency q gain dt : α) : EqCoefs α :=
  gen_body% Gen.eqCoefficientsCalculate kind frequency q gain dt
gen_alias Gen.eqCoefficientsCalculate => EqCoefs.calculate

/-- mirrors: eq_filter.rs::EqFilter (+ the pending commands of its `CommandReaders`) -/
structure EqFilter (α : Type) where
  kind : EqFilterKind
  frequency : Parameter α α
  gain : Parameter α α
  q : Parameter α α
  ic1eq : Frame α
  ic2eq : Frame α
  cmdKind : Option EqFilterKind
  cmdFrequency : Cmd α α
  cmdGain : Cmd α α
  cmdQ : Cmd α α

namespace EqFilter

/-- mirrors: EqFilterBuilder::build / EqFilter::new (defaults 500.0, Decibels::IDENTITY, 1.0) -/
def new (kind : EqFilterKind) (frequency gain q : Value α α) : EqFilter α :=
  gen_body%
  { kind := kind
    frequency := Parameter.new frequency Gen.eqFilterDefaultFrequency
    gain := Parameter.new gain Gen.eqFilterDefaultGain
    q := Parameter.new q Gen.eqFilterDefaultQ
    ic1eq := Frame.zero, ic2eq := Frame.zero
    cmdKind := none, cmdFrequency := none, cmdGain := none, cmdQ := none }

/-- mirrors: Effect::init (trait default: nothing) -/
def init (s : EqFilter α) (_sampleRate _internalBufferSize : Nat) : EqFilter α := s
/-- mirrors: Effect::on_change_sample_rate (trait default: nothing) -/
def onChangeSampleRate (s : EqFilter α) (_sampleRate : Nat) : EqFilter α := s

/-- mirrors: EqFilterHandle::set_kind -/
def setKind (s : EqFilter α) (k : EqFilterKind) : EqFilter α := { s with cmdKind := some k }
/-- mirrors: EqFilterHandle::set_frequency -/
def setFrequency (s : EqFilter α) (v : Value α α) (tw : Tween α) : EqFilter α :=
  { s with cmdFrequency := some (v, tw) }
/-- mirrors: EqFilterHandle::set_gain -/
def setGain (s : EqFilter α) (v : Value α α) (tw : Tween α) : EqFilter α := { s with cmdGain := some (v, tw) }
/-- mirrors: EqFilterHandle::set_q -/
def setQ (s : EqFilter α) (v : Value α α) (tw : Tween α) : EqFilter α := { s with cmdQ := some (v, tw) }

/-- mirrors: EqFilter::on_start_processing -/
def onStartProcessing (s : EqFilter α) : EqFilter α :=
  { s with
    kind := (match s.cmdKind with | some k => k | none => s.kind)
    frequency := s.frequency.readCommand s.cmdFrequency
    gain := s.gain.readCommand s.cmdGain
    q := s.q.readCommand s.cmdQ
    cmdKind := none, cmdFrequency := none, cmdGain := none, cmdQ := none }

/-- one frame of EqFilter::process for given parameter values:
    `*frame * (m0 as f32) + v1 * (m1 as f32) + v2 * (m2 as f32)` -/
def tick (kind : EqFilterKind) (frequency q gain dt : α) (ic1eq ic2eq frame : Frame α) :
    Frame α × Frame α × Frame α :=
  let c := EqCoefs.calculate kind frequency q gain dt
  let o := svfTick c.a1 c.a2 c.a3 ic1eq ic2eq frame
  (o.ic1eq, o.ic2eq,
    ((frame.scale (KOps.r32 c.m0)).add (o.v1.scale (KOps.r32 c.m1))).add (o.v2.scale (KOps.r32 c.m2)))

/-- mirrors: the loop body of EqFilter::process -/
def body (dt : α) (t : α) (s : EqFilter α) (f : Frame α) : EqFilter α × Frame α :=
  let frequency := s.frequency.interpolatedValue tw64 t
  let q := s.q.interpolatedValue tw64 t
  let gain := s.gain.interpolatedValue tw32 t
  let r := tick s.kind frequency q gain dt s.ic1eq s.ic2eq f
  ({ s with ic1eq := r.1, ic2eq := r.2.1 }, r.2.2)

/-- mirrors: EqFilter::process -/
def process (s : EqFilter α) (input : List (Frame α)) (dt : α) (info : Info α) :
    EqFilter α × List (Frame α) :=
  let d := chunkDt dt input.length
  let s := { s with
    frequency := (s.frequency.update tw64 d info).1
    gain := (s.gain.update tw32 d info).1
    q := (s.q.update tw64 d info).1 }
  frameLoop (body dt) input.length 0 s input

end EqFilter
end K
