/-
  Effects/Any.lean — the sum of kira's eight built-in effects, as one effect type that can live in a
  track's `Vec<Box<dyn Effect>>` (and, recursively, in a delay's feedback chain).
  mirrors: effect.rs (`Effect`: `init`, `on_change_sample_rate`, `on_start_processing`, `process` — the
           dynamic dispatch of a `Box<dyn Effect>`), effect/delay.rs (`feedback_effects: Vec<Box<dyn Effect>>`)

  Nothing is re-modelled here: every arm calls the existing model of that effect
  (`Model/Effects/{Filter,EqFilter,Distortion,Compressor,Reverb,VolumeControl,PanningControl,Delay}.lean`).

  * `BaseFx α` — the seven effects that do not nest other effects.
  * `FxOver α φ` — a base effect, or a `Delay` whose feedback chain is a list of effects of type `φ`.
  * `FxN α n` — effects nested to depth `n`: `FxN α 0 = FxOver α Empty` (a delay's chain is empty),
    `FxN α (n+1) = FxOver α (FxN α n)`.  The delay model takes its chain as an abstract `FxChain`; the
    depth index is what lets the chain be "the same sum type" with plain structural recursion on `n`.
  * `FxOps α φ` — the four trait methods for an effect type `φ`; `fxOpsN n : FxOps α (FxN α n)`.
  A panic inside an effect (`FxFault`) is an `Except` value at every level; inside a feedback chain it is
  latched (`ChainSt.2`) and re-raised by the enclosing delay's `process`.
-/
import KiraModel.Model.Effects.VolumeControl
import KiraModel.Model.Effects.PanningControl
import KiraModel.Model.Effects.Filter
import KiraModel.Model.Effects.EqFilter
import KiraModel.Model.Effects.Distortion
import KiraModel.Model.Effects.Compressor
import KiraModel.Model.Effects.Delay
import KiraModel.Model.Effects.Reverb

namespace K

variable {α : Type} [Add α] [Sub α] [Mul α] [Div α] [Neg α] [LT α] [LE α]
  [DecidableLT α] [DecidableLE α] [OfScientific α] [KOps α]

/-- mirrors: effect.rs::Effect for an effect state type `φ` (what a `Box<dyn Effect>` can be asked) -/
structure FxOps (α φ : Type) where
  init : φ → Nat → Nat → φ
  changeRate : φ → Nat → φ
  start : φ → φ
  process : φ → List (Frame α) → α → Info α → Except FxFault (φ × List (Frame α))

/-- the seven built-in effects without nested effects.
    mirrors: effect/{filter,eq_filter,distortion,compressor,reverb,volume_control,panning_control}.rs -/
inductive BaseFx (α : Type) where
  | filter (e : Filter α)
  | eq (e : EqFilter α)
  | dist (e : Distortion α)
  | comp (e : Compressor α)
  | reverb (e : Reverb α)
  | vol (e : VolumeControl α)
  | pan (e : PanningControl α)

namespace BaseFx

/-- mirrors: effect.rs::Effect::init (dispatch) -/
def init (e : BaseFx α) (sr ibs : Nat) : BaseFx α :=
  match e with
  | .filter s => .filter (s.init sr ibs)
  | .eq s => .eq (s.init sr ibs)
  | .dist s => .dist (s.init sr ibs)
  | .comp s => .comp (s.init sr ibs)
  | .reverb s => .reverb (s.init sr)
  | .vol s => .vol (s.init sr ibs)
  | .pan s => .pan (s.init sr ibs)

/-- mirrors: effect.rs::Effect::on_change_sample_rate (dispatch) -/
def changeRate (e : BaseFx α) (sr : Nat) : BaseFx α :=
  match e with
  | .filter s => .filter (s.onChangeSampleRate sr)
  | .eq s => .eq (s.onChangeSampleRate sr)
  | .dist s => .dist (s.onChangeSampleRate sr)
  | .comp s => .comp (s.onChangeSampleRate sr)
  | .reverb s => .reverb (s.init sr)
  | .vol s => .vol (s.onChangeSampleRate sr)
  | .pan s => .pan (s.onChangeSampleRate sr)

/-- mirrors: effect.rs::Effect::on_start_processing (dispatch) -/
def start (e : BaseFx α) : BaseFx α :=
  match e with
  | .filter s => .filter s.onStartProcessing
  | .eq s => .eq s.onStartProcessing
  | .dist s => .dist s.onStartProcessing
  | .comp s => .comp s.onStartProcessing
  | .reverb s => .reverb s.startProcessing
  | .vol s => .vol s.onStartProcessing
  | .pan s => .pan s.onStartProcessing

/-- mirrors: effect.rs::Effect::process (dispatch); only the reverb can panic (not initialised, or
    a zero-length line at a very low sample rate) -/
def process (e : BaseFx α) (input : List (Frame α)) (dt : α) (info : Info α) :
    Except FxFault (BaseFx α × List (Frame α)) :=
  match e with
  | .filter s => let r := s.process input dt info; .ok (.filter r.1, r.2)
  | .eq s => let r := s.process input dt info; .ok (.eq r.1, r.2)
  | .dist s => let r := s.process input dt info; .ok (.dist r.1, r.2)
  | .comp s => let r := s.process input dt info; .ok (.comp r.1, r.2)
  | .reverb s =>
    match s.process input dt info with
    | .ok r => .ok (.reverb r.1, r.2)
    | .error f => .error f
  | .vol s => let r := s.process input dt info; .ok (.vol r.1, r.2)
  | .pan s => let r := s.process input dt info; .ok (.pan r.1, r.2)

def ops : FxOps α (BaseFx α) := ⟨init, changeRate, start, process⟩

end BaseFx

/-! ### feedback chains of an arbitrary effect type -/

/-- the state of a `Vec<Box<dyn Effect>>` inside a delay: the effects and, once one of them has
    panicked, the fault (the enclosing `process` re-raises it) -/
abbrev ChainSt (φ : Type) := List φ × Option FxFault

/-- `for effect in &mut self.feedback_effects { effect.process(slice, dt, info) }` -/
def chainRun {φ : Type} (o : FxOps α φ) : List φ → List (Frame α) → α → Info α →
    Except FxFault (List φ × List (Frame α))
  | [], xs, _, _ => .ok ([], xs)
  | e :: es, xs, dt, info =>
    match o.process e xs dt info with
    | .error f => .error f
    | .ok (e', ys) =>
      match chainRun o es ys dt info with
      | .error f => .error f
      | .ok (es', zs) => .ok (e' :: es', zs)

/-- the chain interface the delay model asks for, built from the trait methods of the nested type.
    mirrors: effect/delay.rs (`for effect in &mut self.feedback_effects { effect.init / on_change_sample_rate /
    on_start_processing / process }`) -/
def chainOf {φ : Type} (o : FxOps α φ) : FxChain α (ChainSt φ) :=
  { init := fun s sr ibs => (s.1.map (fun e => o.init e sr ibs), s.2)
    changeRate := fun s sr => (s.1.map (fun e => o.changeRate e sr), s.2)
    startProcessing := fun s => (s.1.map o.start, s.2)
    process := fun s xs dt info =>
      match s.2 with
      | some _ => (s, xs)
      | none =>
        match chainRun o s.1 xs dt info with
        | .ok (es, out) => ((es, none), out)
        | .error f => ((s.1, some f), xs) }

/-- a base effect, or a delay whose feedback effects have type `φ` -/
inductive FxOver (α φ : Type) where
  | base (b : BaseFx α)
  | delay (d : Delay α (ChainSt φ))

namespace FxOver
variable {φ : Type}

/-- mirrors: effect.rs::Effect::init (dispatch) -/
def init (o : FxOps α φ) (e : FxOver α φ) (sr ibs : Nat) : FxOver α φ :=
  match e with
  | .base b => .base (b.init sr ibs)
  | .delay d => .delay (d.init (chainOf o) sr ibs)

/-- mirrors: effect.rs::Effect::on_change_sample_rate (dispatch) -/
def changeRate (o : FxOps α φ) (e : FxOver α φ) (sr : Nat) : FxOver α φ :=
  match e with
  | .base b => .base (b.changeRate sr)
  | .delay d => .delay (d.changeRate (chainOf o) sr)

/-- mirrors: effect.rs::Effect::on_start_processing (dispatch) -/
def start (o : FxOps α φ) (e : FxOver α φ) : FxOver α φ :=
  match e with
  | .base b => .base b.start
  | .delay d => .delay (d.startProcessing (chainOf o))

/-- mirrors: effect.rs::Effect::process (dispatch); a panic of a nested feedback effect surfaces here -/
def process (o : FxOps α φ) (e : FxOver α φ) (input : List (Frame α)) (dt : α) (info : Info α) :
    Except FxFault (FxOver α φ × List (Frame α)) :=
  match e with
  | .base b =>
    match b.process input dt info with
    | .ok r => .ok (.base r.1, r.2)
    | .error f => .error f
  | .delay d =>
    match d.process (chainOf o) input dt info with
    | .error f => .error f
    | .ok r =>
      match r.1.fx.2 with
      | some f => .error f
      | none => .ok (.delay r.1, r.2)

def ops (o : FxOps α φ) : FxOps α (FxOver α φ) := ⟨init o, changeRate o, start o, process o⟩

end FxOver

/-- the trait methods of the empty effect type (a feedback chain of it is always `[]`) -/
def emptyFxOps : FxOps α Empty :=
  ⟨fun e _ _ => e, fun e _ => e, fun e => e, fun e _ _ _ => nomatch e⟩

/-- effects nested to depth `n` (a delay at depth 0 has an empty feedback chain; a delay at depth
    `n + 1` has feedback effects of depth `n`, delays included) -/
def FxN (α : Type) : Nat → Type
  | 0 => FxOver α Empty
  | n + 1 => FxOver α (FxN α n)

/-- the `Effect` trait of the depth-`n` sum type -/
def fxOpsN : (n : Nat) → FxOps α (FxN α n)
  | 0 => FxOver.ops emptyFxOps
  | n + 1 => FxOver.ops (fxOpsN n)

end K
