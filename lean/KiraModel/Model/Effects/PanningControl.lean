/-
  Effects/PanningControl.lean — mirrors: effect/panning_control.rs (+ builder.rs, handle.rs)
-/
import KiraModel.Model.Effects.CommonA

namespace K

variable {α : Type} [Add α] [Sub α] [Mul α] [Div α] [Neg α] [LT α] [LE α]
  [DecidableLT α] [DecidableLE α] [OfScientific α] [KOps α]

/-- mirrors: panning_control.rs::PanningControl (+ the pending `set_panning` command) -/
structure PanningControl (α : Type) where
  panning : Parameter α α
  cmdPanning : Cmd α α

namespace PanningControl

/-- mirrors: PanningControlBuilder::build / PanningControl::new (default `Panning::CENTER`) -/
def new (panning : Value α α) : PanningControl α :=
  gen_body% { panning := Parameter.new panning Gen.panningControlDefault, cmdPanning := none }

/-- mirrors: Effect::init (trait default: nothing) -/
def init (s : PanningControl α) (_sampleRate _internalBufferSize : Nat) : PanningControl α := s
/-- mirrors: Effect::on_change_sample_rate (trait default: nothing) -/
def onChangeSampleRate (s : PanningControl α) (_sampleRate : Nat) : PanningControl α := s

/-- mirrors: PanningControlHandle::set_panning -/
def setPanning (s : PanningControl α) (v : Value α α) (tw : Tween α) : PanningControl α :=
  { s with cmdPanning := some (v, tw) }

/-- mirrors: PanningControl::on_start_processing -/
def onStartProcessing (s : PanningControl α) : PanningControl α :=
  { s with panning := s.panning.readCommand s.cmdPanning, cmdPanning := none }

/-- mirrors: the loop body of PanningControl::process -/
def body (t : α) (s : PanningControl α) (f : Frame α) : PanningControl α × Frame α :=
  (s, f.panned (s.panning.interpolatedValue tw32 t))

/-- mirrors: PanningControl::process -/
def process (s : PanningControl α) (input : List (Frame α)) (dt : α) (info : Info α) :
    PanningControl α × List (Frame α) :=
  let s := { s with panning := (s.panning.update tw32 (chunkDt dt input.length) info).1 }
  frameLoop body input.length 0 s input

end PanningControl
end K
