/-
  Reverb.lean — the Freeverb-style reverb: comb lines, all-pass lines, the network, the effect.
  mirrors: effect/reverb.rs, effect/reverb/comb.rs, effect/reverb/all_pass.rs,
           effect/reverb/builder.rs, effect/reverb/handle.rs
  The tuning tables, `STEREO_SPREAD`, `GAIN`, the reference sample rate and the all-pass feedback are
  taken from `Gen.lean`, which is re-extracted from the Rust source on every run.
  Ring buffers are `Array`s with the Rust index arithmetic (`buffer[current_index]` on a zero-length
  line is `fault indexOOB`).
-/
import KiraModel.Model.Effects.Delay

namespace K

variable {α : Type} [Add α] [Sub α] [Mul α] [Div α] [Neg α] [LT α] [LE α]
  [DecidableLT α] [DecidableLE α] [OfScientific α] [KOps α]

/-- mirrors: effect/reverb/comb.rs::CombFilter -/
structure Comb (α : Type) where
  store : α
  buffer : Array α
  idx : Nat

namespace Comb
/-- mirrors: CombFilter::new -/
def new (n : Nat) : Comb α := ⟨(0.0 : α), Array.replicate n (0.0 : α), 0⟩

/-- mirrors: CombFilter::process (all arguments are `f32`) -/
def process (c : Comb α) (input feedback damp : α) : Except FxFault (Comb α × α) :=
  match c with
  | ⟨store, buffer, idx⟩ =>
    match buffer[idx]? with
    | none => .error .indexOOB
    | some output =>
      let store' := KOps.r32 (KOps.r32 (output * KOps.r32 ((1.0 : α) - damp)) + KOps.r32 (store * damp))
      let buffer' := buffer.setIfInBounds idx (KOps.r32 (input + KOps.r32 (store' * feedback)))
      .ok (⟨store', buffer', (idx + 1) % buffer'.size⟩, output)
end Comb

/-- mirrors: effect/reverb/all_pass.rs::AllPassFilter -/
structure AllPass (α : Type) where
  buffer : Array α
  idx : Nat

namespace AllPass
/-- mirrors: AllPassFilter::new -/
def new (n : Nat) : AllPass α := ⟨Array.replicate n (0.0 : α), 0⟩

/-- mirrors: AllPassFilter::process -/
def process (a : AllPass α) (input : α) : Except FxFault (AllPass α × α) :=
  match a with
  | ⟨buffer, idx⟩ =>
    match buffer[idx]? with
    | none => .error .indexOOB
    | some bo =>
      let output := KOps.r32 (-input + bo)
      let buffer' := buffer.setIfInBounds idx
        (KOps.r32 (input + KOps.r32 (bo * KOps.r32 (Gen.allPassFeedback : α))))
      .ok (⟨buffer', (idx + 1) % buffer'.size⟩, output)
end AllPass

/-- mirrors: effect/reverb.rs::ReverbState::Initialized -/
structure ReverbLines (α : Type) where
  combs : List (Comb α × Comb α)
  allPasses : List (AllPass α × AllPass α)

namespace ReverbLines

/-- mirrors: init_filters::adjust_buffer_size -/
def adjust (α : Type) [Mul α] [Div α] [KOps α] (sr n : Nat) : Nat :=
  KOps.toNatSat ((KOps.ofNat n : α) * ((KOps.ofNat sr : α) / (KOps.ofNat Gen.reverbReferenceSampleRate : α)))

/-- mirrors: effect/reverb.rs::Reverb::init_filters -/
def init (sr : Nat) : ReverbLines α :=
  { combs := Gen.reverbCombTuning.map (fun t => (Comb.new (adjust α sr t.1), Comb.new (adjust α sr t.2)))
    allPasses := Gen.reverbAllPassTuning.map
      (fun t => (AllPass.new (adjust α sr t.1), AllPass.new (adjust α sr t.2))) }

/-- "accumulate comb filters in parallel": `output.left += comb.0.process(..); output.right += comb.1.process(..)` -/
def combBank (x feedback damp : α) :
    List (Comb α × Comb α) → Frame α → Except FxFault (List (Comb α × Comb α) × Frame α)
  | [], acc => .ok ([], acc)
  | (l, r) :: rest, acc =>
    match l.process x feedback damp with
    | .error e => .error e
    | .ok (l', ol) =>
      match r.process x feedback damp with
      | .error e => .error e
      | .ok (r', or) =>
        match combBank x feedback damp rest ⟨KOps.r32 (acc.left + ol), KOps.r32 (acc.right + or)⟩ with
        | .error e => .error e
        | .ok (rest', out) => .ok ((l', r') :: rest', out)

/-- "feed through all-pass filters in series" -/
def allPassChain : List (AllPass α × AllPass α) → Frame α → Except FxFault (List (AllPass α × AllPass α) × Frame α)
  | [], acc => .ok ([], acc)
  | (l, r) :: rest, acc =>
    match l.process acc.left with
    | .error e => .error e
    | .ok (l', ol) =>
      match r.process acc.right with
      | .error e => .error e
      | .ok (r', or) =>
        match allPassChain rest ⟨ol, or⟩ with
        | .error e => .error e
        | .ok (rest', out) => .ok ((l', r') :: rest', out)

/-- the network for one input frame: mono input × GAIN → combs → all-passes (the un-widened wet frame) -/
def frame (ls : ReverbLines α) (x : Frame α) (feedback damp : α) : Except FxFault (ReverbLines α × Frame α) :=
  match ls with
  | ⟨combs, aps⟩ =>
    let mono := KOps.r32 (KOps.r32 (x.left + x.right) * KOps.r32 (Gen.reverbGain : α))
    match combBank mono feedback damp combs Frame.zero with
    | .error e => .error e
    | .ok (combs', o1) =>
      match allPassChain aps o1 with
      | .error e => .error e
      | .ok (aps', o2) => .ok (⟨combs', aps'⟩, o2)

end ReverbLines

/-- mirrors: effect/reverb.rs::Reverb (+ the four command readers); `state = none` is `Uninitialized` -/
structure Reverb (α : Type) where
  feedback : Parameter α α
  damping : Parameter α α
  stereoWidth : Parameter α α
  /-- `Parameter<Mix>` (f32) -/
  mix : Parameter α α
  cmdFeedback : LineFx.Cmd α α
  cmdDamping : LineFx.Cmd α α
  cmdStereoWidth : LineFx.Cmd α α
  cmdMix : LineFx.Cmd α α
  state : Option (ReverbLines α)

namespace Reverb
open LineFx

/-- mirrors: Reverb::new via ReverbBuilder -/
def new (feedback damping stereoWidth mix : Value α α) : Reverb α :=
  { feedback := Parameter.new feedback (Gen.reverbDefaultFeedback : α)
    damping := Parameter.new damping (Gen.reverbDefaultDamping : α)
    stereoWidth := Parameter.new stereoWidth (Gen.reverbDefaultStereoWidth : α)
    mix := Parameter.new mix (Gen.reverbDefaultMix : α)
    cmdFeedback := none, cmdDamping := none, cmdStereoWidth := none, cmdMix := none
    state := none }

/-- mirrors: `Effect::init` and `Effect::on_change_sample_rate` for Reverb (both call `init_filters`) -/
def init (r : Reverb α) (sr : Nat) : Reverb α := { r with state := some (ReverbLines.init sr) }

def setFeedback (r : Reverb α) (v : Value α α) (t : Tween α) : Reverb α := { r with cmdFeedback := some (v, t) }
def setDamping (r : Reverb α) (v : Value α α) (t : Tween α) : Reverb α := { r with cmdDamping := some (v, t) }
def setStereoWidth (r : Reverb α) (v : Value α α) (t : Tween α) : Reverb α :=
  { r with cmdStereoWidth := some (v, t) }
def setMix (r : Reverb α) (v : Value α α) (t : Tween α) : Reverb α := { r with cmdMix := some (v, t) }

/-- mirrors: `Effect::on_start_processing` for Reverb -/
def startProcessing (r : Reverb α) : Reverb α :=
  { r with feedback := readCommand r.feedback r.cmdFeedback
           damping := readCommand r.damping r.cmdDamping
           stereoWidth := readCommand r.stereoWidth r.cmdStereoWidth
           mix := readCommand r.mix r.cmdMix
           cmdFeedback := none, cmdDamping := none, cmdStereoWidth := none, cmdMix := none }

/-- the stereo-width matrix: `wet_1 = width / 2 + 0.5`, `wet_2 = (1 - width) / 2` (all `f32`) -/
def widen (o : Frame α) (sw : α) : Frame α :=
  let wet1 := KOps.r32 (KOps.r32 (sw / (2.0 : α)) + (0.5 : α))
  let wet2 := KOps.r32 (KOps.r32 ((1.0 : α) - sw) / (2.0 : α))
  ⟨KOps.r32 (KOps.r32 (o.left * wet1) + KOps.r32 (o.right * wet2)),
   KOps.r32 (KOps.r32 (o.right * wet1) + KOps.r32 (o.left * wet2))⟩

/-- `self.stereo_width.interpolated_value(time_in_chunk) as f32` -/
def widthAt (p : Parameter α α) (n i : Nat) : α := KOps.r32 (p.interpolatedValue tw64 (timeInChunk n i))

/-- the per-frame loop of `process` (frame `i` of `n` first) -/
def frames (swP mixP : Parameter α α) (feedback damp : α) (n : Nat) :
    Nat → ReverbLines α → List (Frame α) → Except FxFault (ReverbLines α × List (Frame α))
  | _, ls, [] => .ok (ls, [])
  | i, ls, x :: xs =>
    match ls.frame x feedback damp with
    | .error e => .error e
    | .ok (ls1, o) =>
      let y := blend (widen o (widthAt swP n i)) x (mixAt mixP n i)
      match frames swP mixP feedback damp n (i + 1) ls1 xs with
      | .error e => .error e
      | .ok (ls2, ys) => .ok (ls2, y :: ys)

/-- mirrors: `Effect::process` for Reverb -/
def process (r : Reverb α) (input : List (Frame α)) (dt : α) (info : Info α) :
    Except FxFault (Reverb α × List (Frame α)) :=
  match r.state with
  | none => .error .panic
  | some ls =>
    let t := dt * (KOps.ofNat input.length : α)
    let fb := (r.feedback.update tw64 t info).1
    let dp := (r.damping.update tw64 t info).1
    let sw := (r.stereoWidth.update tw64 t info).1
    let mx := (r.mix.update tw32 t info).1
    match frames sw mx (KOps.r32 fb.value) (KOps.r32 dp.value) input.length 0 ls input with
    | .error e => .error e
    | .ok (ls', out) =>
      .ok ({ r with feedback := fb, damping := dp, stereoWidth := sw, mix := mx, state := some ls' }, out)

end Reverb
end K
