/-
  Effects/CommonA.lean — what the built-in effects share: the trait defaults, the command
  slots filled by the handles, the per-frame loop with `time_in_chunk`, the wet/dry blend and
  the trapezoidal SVF tick used by `filter.rs` and `eq_filter.rs`.
  mirrors: effect.rs (trait `Effect`), command.rs (`CommandWriter::write`, `CommandReader::read`,
           `read_commands_into_parameters!`), the shared shapes of effect/*.rs `process`
-/
import KiraModel.Model.Parameter

namespace K

variable {α : Type} [Add α] [Sub α] [Mul α] [Div α] [Neg α] [LT α] [LE α]
  [DecidableLT α] [DecidableLE α] [OfScientific α] [KOps α]


/-- mirrors: parameter.rs::Parameter::read_command -/
def Parameter.readCommand {τ : Type} (p : Parameter α τ) (c : Cmd α τ) : Parameter α τ :=
  match c with
  | some (target, tween) => p.set target tween
  | none => p

/-- mirrors: the `for (i, frame) in input.iter_mut().enumerate()` loop of every built-in effect:
    `time_in_chunk = (i + 1) as f64 / num_frames as f64`, then the effect's per-frame body. -/
def frameLoop {σ : Type} (body : α → σ → Frame α → σ × Frame α) (numFrames : Nat) :
    Nat → σ → List (Frame α) → σ × List (Frame α)
  | _, s, [] => (s, [])
  | i, s, f :: rest =>
    let timeInChunk : α := (KOps.ofNat (i + 1) : α) / (KOps.ofNat numFrames : α)
    let r := body timeInChunk s f
    let r' := frameLoop body numFrames (i + 1) r.1 rest
    (r'.1, r.2 :: r'.2)

/-- the argument every built-in effect passes to `Parameter::update`: `dt * input.len() as f64` -/
def chunkDt (dt : α) (n : Nat) : α := dt * (KOps.ofNat n : α)

/-- mirrors: the tail of filter/distortion/compressor `process`:
    `output * mix.sqrt() + *frame * (1.0 - mix).sqrt()` (all `f32`) -/
def dryWet (output frame : Frame α) (mix : α) : Frame α :=
  (output.scale (KOps.r32 (KOps.sqrt mix))).add
    (frame.scale (KOps.r32 (KOps.sqrt (KOps.r32 ((1.0 : α) - mix)))))

/-- result of one trapezoidal SVF tick -/
structure SvfOut (α : Type) where
  v1 : Frame α
  v2 : Frame α
  ic1eq : Frame α
  ic2eq : Frame α

/-- mirrors: the integrator update shared by filter.rs and eq_filter.rs `process`
    (`a1 a2 a3` are the `f64` coefficients, cast `as f32` at each use):
    `v3 = frame - ic2eq; v1 = ic1eq*a1 + v3*a2; v2 = ic2eq + ic1eq*a2 + v3*a3;
     ic1eq = v1*2 - ic1eq; ic2eq = v2*2 - ic2eq` -/
def svfTick (a1 a2 a3 : α) (ic1eq ic2eq frame : Frame α) : SvfOut α :=
  let v3 := frame.sub ic2eq
  let v1 := (ic1eq.scale (KOps.r32 a1)).add (v3.scale (KOps.r32 a2))
  let v2 := (ic2eq.add (ic1eq.scale (KOps.r32 a2))).add (v3.scale (KOps.r32 a3))
  { v1 := v1, v2 := v2
    ic1eq := (v1.scale (2.0 : α)).sub ic1eq
    ic2eq := (v2.scale (2.0 : α)).sub ic2eq }

end K
