/-
  Effects/VolumeControl.lean — mirrors: effect/volume_control.rs (+ builder.rs, handle.rs)
-/
import KiraModel.Model.Effects.CommonA

namespace K

variable {α : Type} [Add α] [Sub α] [Mul α] [Div α] [Neg α] [LT α] [LE α]
  [DecidableLT α] [DecidableLE α] [OfScientific α] [KOps α]

/-- mirrors: volume_control.rs::VolumeControl (+ the pending `set_volume` command) -/
structure VolumeControl (α : Type) where
  volume : Parameter α α
  cmdVolume : Cmd α α

namespace VolumeControl

/-- mirrors: VolumeControlBuilder::build / VolumeControl::new (default `Decibels::IDENTITY`) -/
def new (volume : Value α α) : VolumeControl α :=
  gen_body% { volume := Parameter.new volume Gen.volumeControlDefault, cmdVolume := none }

/-- mirrors: Effect::init (trait default: nothing) -/
def init (s : VolumeControl α) (_sampleRate _internalBufferSize : Nat) : VolumeControl α := s
/-- mirrors: Effect::on_change_sample_rate (trait default: nothing) -/
def onChangeSampleRate (s : VolumeControl α) (_sampleRate : Nat) : VolumeControl α := s

/-- mirrors: VolumeControlHandle::set_volume -/
def setVolume (s : VolumeControl α) (v : Value α α) (tw : Tween α) : VolumeControl α :=
  { s with cmdVolume := some (v, tw) }

/-- mirrors: VolumeControl::on_start_processing -/
def onStartProcessing (s : VolumeControl α) : VolumeControl α :=
  { s with volume := s.volume.readCommand s.cmdVolume, cmdVolume := none }

/-- mirrors: the loop body of VolumeControl::process -/
def body (t : α) (s : VolumeControl α) (f : Frame α) : VolumeControl α × Frame α :=
  (s, f.scale (asAmplitude (s.volume.interpolatedValue tw32 t)))

/-- mirrors: VolumeControl::process -/
def process (s : VolumeControl α) (input : List (Frame α)) (dt : α) (info : Info α) :
    VolumeControl α × List (Frame α) :=
  let s := { s with volume := (s.volume.update tw32 (chunkDt dt input.length) info).1 }
  frameLoop body input.length 0 s input

end VolumeControl
end K
