/-
  Effects/Compressor.lean — feed-forward compressor with a dB-domain envelope follower.
  mirrors: effect/compressor.rs (+ builder.rs, handle.rs)

  Two IEEE infinities of the Rust code are made explicit so that the definitions mean the same
  over ℝ as in floating point (the Float twin is bit-identical either way; a third one, `1.0 / ratio`
  for a ratio of 0, is guarded in the Rust code itself since the repair: `slope`):
  * a sample of exactly 0 has `log10 = -inf`, so `(input_decibels - threshold).max(0.0) = 0`
    (for every finite threshold) — `overDecibels` returns 0 there instead of using `log10 0`;
  * a zero attack/release duration gives `(-1.0 / 0.0).exp() = 0` — `speed` returns 0 there.
-/
import KiraModel.Model.Effects.CommonA

namespace K

variable {α : Type} [Add α] [Sub α] [Mul α] [Div α] [Neg α] [LT α] [LE α]
  [DecidableLT α] [DecidableLE α] [OfScientific α] [KOps α]

/-- mirrors: compressor.rs::Compressor (+ the pending commands of its `CommandReaders`);
    durations are nanoseconds -/
structure Compressor (α : Type) where
  threshold : Parameter α α
  ratio : Parameter α α
  attackDuration : Parameter α Nat
  releaseDuration : Parameter α Nat
  makeupGain : Parameter α α
  mix : Parameter α α
  envL : α
  envR : α
  cmdThreshold : Cmd α α
  cmdRatio : Cmd α α
  cmdAttack : Cmd α Nat
  cmdRelease : Cmd α Nat
  cmdMakeup : Cmd α α
  cmdMix : Cmd α α

namespace Compressor

/-- mirrors: CompressorBuilder::build / Compressor::new with the `DEFAULT_*` constants
    (threshold 0.0, ratio 1.0, attack 10 ms, release 100 ms, makeup 0 dB, mix WET) -/
def new (threshold ratio : Value α α) (attack release : Value α Nat) (makeup mix : Value α α) :
    Compressor α :=
  gen_body%
  { threshold := Parameter.new threshold Gen.compressorDefaultThreshold
    ratio := Parameter.new ratio Gen.compressorDefaultRatio
    attackDuration := Parameter.new attack Gen.compressorDefaultAttackNs
    releaseDuration := Parameter.new release Gen.compressorDefaultReleaseNs
    makeupGain := Parameter.new makeup Gen.compressorDefaultMakeupGain
    mix := Parameter.new mix Gen.compressorDefaultMix
    envL := (0.0 : α), envR := (0.0 : α)
    cmdThreshold := none, cmdRatio := none, cmdAttack := none, cmdRelease := none
    cmdMakeup := none, cmdMix := none }

/-- mirrors: Effect::init (trait default: nothing) -/
def init (s : Compressor α) (_sampleRate _internalBufferSize : Nat) : Compressor α := s
/-- mirrors: Effect::on_change_sample_rate (trait default: nothing) -/
def onChangeSampleRate (s : Compressor α) (_sampleRate : Nat) : Compressor α := s

/-- mirrors: CompressorHandle::set_threshold -/
def setThreshold (s : Compressor α) (v : Value α α) (tw : Tween α) : Compressor α :=
  { s with cmdThreshold := some (v, tw) }
/-- mirrors: CompressorHandle::set_ratio -/
def setRatio (s : Compressor α) (v : Value α α) (tw : Tween α) : Compressor α :=
  { s with cmdRatio := some (v, tw) }
/-- mirrors: CompressorHandle::set_attack_duration -/
def setAttackDuration (s : Compressor α) (v : Value α Nat) (tw : Tween α) : Compressor α :=
  { s with cmdAttack := some (v, tw) }
/-- mirrors: CompressorHandle::set_release_duration -/
def setReleaseDuration (s : Compressor α) (v : Value α Nat) (tw : Tween α) : Compressor α :=
  { s with cmdRelease := some (v, tw) }
/-- mirrors: CompressorHandle::set_makeup_gain -/
def setMakeupGain (s : Compressor α) (v : Value α α) (tw : Tween α) : Compressor α :=
  { s with cmdMakeup := some (v, tw) }
/-- mirrors: CompressorHandle::set_mix -/
def setMix (s : Compressor α) (v : Value α α) (tw : Tween α) : Compressor α :=
  { s with cmdMix := some (v, tw) }

/-- mirrors: Compressor::on_start_processing -/
def onStartProcessing (s : Compressor α) : Compressor α :=
  { s with
    threshold := s.threshold.readCommand s.cmdThreshold
    ratio := s.ratio.readCommand s.cmdRatio
    attackDuration := s.attackDuration.readCommand s.cmdAttack
    releaseDuration := s.releaseDuration.readCommand s.cmdRelease
    makeupGain := s.makeupGain.readCommand s.cmdMakeup
    mix := s.mix.readCommand s.cmdMix
    cmdThreshold := none, cmdRatio := none, cmdAttack := none, cmdRelease := none
    cmdMakeup := none, cmdMix := none }

/-- mirrors: `(20.0 * x.abs().log10() - threshold).max(0.0)` (all `f32`) -/
def overDecibels (threshold x : α) : α :=
  let a := KOps.abs x
  if feq a (0.0 : α) then (0.0 : α)
  else fmax (KOps.r32 (KOps.r32 ((20.0 : α) * KOps.log10_32 a) - threshold)) (0.0 : α)

/-- mirrors: `(-1.0 / (duration.as_secs_f64() / dt)).exp()` (`f64`) -/
def speed (durationNs : Nat) (dt : α) : α :=
  if durationNs = 0 then (0.0 : α)
  else KOps.exp (-(1.0 : α) / ((durToSecs durationNs : α) / dt))

/-- mirrors: the envelope-follower update of one channel:
    `duration = if env > over { release } else { attack };
     env = over + speed as f32 * (env - over)` -/
def follow (attackNs releaseNs : Nat) (dt over env : α) : α :=
  let duration := if over < env then releaseNs else attackNs
  KOps.r32 (over + KOps.r32 (KOps.r32 (speed duration dt) * KOps.r32 (env - over)))

/-- mirrors: `let slope = if ratio == 0.0 { 0.0 } else { (1.0 / ratio) - 1.0 };` (all `f32`; `==` is the IEEE
    comparison, so `-0.0` counts as 0): a ratio of 0 has no reciprocal and leaves the dynamics unchanged,
    like a ratio of 1 -/
def slope (ratio : α) : α :=
  if feq ratio (0.0 : α) then (0.0 : α)
  else KOps.r32 (KOps.r32 ((1.0 : α) / ratio) - (1.0 : α))

/-- mirrors: `10.0f32.powf(envelope * slope / 20.0)` (all `f32`) -/
def reductionAmplitude (ratio env : α) : α :=
  let gainReduction := KOps.r32 (env * slope ratio)
  KOps.pow32 (10.0 : α) (KOps.r32 (gainReduction / (20.0 : α)))

/-- result of one compressor frame -/
structure CompOut (α : Type) where
  envL : α
  envR : α
  out : Frame α

/-- one frame of Compressor::process for given parameter values (`threshold`, `ratio` already
    cast to `f32`, `makeup` the decibel value, `mix` clamped) -/
def tick (threshold ratio : α) (attackNs releaseNs : Nat) (makeup mix dt : α) (envL envR : α)
    (frame : Frame α) : CompOut α :=
  let envL' := follow attackNs releaseNs dt (overDecibels threshold frame.left) envL
  let envR' := follow attackNs releaseNs dt (overDecibels threshold frame.right) envR
  let makeupLinear := KOps.pow32 (10.0 : α) (KOps.r32 (makeup / (20.0 : α)))
  let output : Frame α :=
    (⟨KOps.r32 (reductionAmplitude ratio envL' * frame.left),
      KOps.r32 (reductionAmplitude ratio envR' * frame.right)⟩ : Frame α).scale makeupLinear
  { envL := envL', envR := envR', out := dryWet output frame mix }

/-- mirrors: the loop body of Compressor::process (threshold, ratio and the durations are read
    once per call, before the loop: `value()`, not `interpolated_value`) -/
def body (dt : α) (t : α) (s : Compressor α) (f : Frame α) : Compressor α × Frame α :=
  let threshold := KOps.r32 s.threshold.value
  let ratio := KOps.r32 s.ratio.value
  let makeup := s.makeupGain.interpolatedValue tw32 t
  let mix := clamp (s.mix.interpolatedValue tw32 t) (0.0 : α) (1.0 : α)
  let r := tick threshold ratio s.attackDuration.value s.releaseDuration.value makeup mix dt
    s.envL s.envR f
  ({ s with envL := r.envL, envR := r.envR }, r.out)

/-- mirrors: Compressor::process -/
def process (s : Compressor α) (input : List (Frame α)) (dt : α) (info : Info α) :
    Compressor α × List (Frame α) :=
  let d := chunkDt dt input.length
  let s := { s with
    threshold := (s.threshold.update tw64 d info).1
    ratio := (s.ratio.update tw64 d info).1
    attackDuration := (s.attackDuration.update twDur d info).1
    releaseDuration := (s.releaseDuration.update twDur d info).1
    makeupGain := (s.makeupGain.update tw32 d info).1
    mix := (s.mix.update tw32 d info).1 }
  frameLoop (body dt) input.length 0 s input

end Compressor
end K
