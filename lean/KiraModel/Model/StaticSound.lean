/-
  StaticSound.lean — static sound playback: data lookup, 4-frame resampler, Hermite interpolation,
  command handling, the render loop.
  mirrors: sound/static_sound/{data.rs, settings.rs, handle.rs, sound.rs, sound/resampler.rs},
           frame.rs (`interpolate_frame`), command.rs (one triple-buffered slot per command kind)
-/
import KiraModel.Model.SoundCore
import KiraModel.Model.Transport

namespace K

variable {α : Type} [Add α] [Sub α] [Mul α] [Div α] [Neg α] [LT α] [LE α]
  [DecidableLT α] [DecidableLE α] [OfScientific α] [KOps α]

/-- mirrors: frame.rs::interpolate_frame (4-point, 3rd-order Hermite, x-form; all `f32`) — generated (GenFn.lean) -/
def interpolateFrame (previous current next1 next2 : Frame α) (fraction : α) : Frame α :=
  gen_body% Gen.interpolateFrame previous current next1 next2 fraction
gen_alias Gen.interpolateFrame => interpolateFrame

/-! ### resampler -/

/-- mirrors: resampler.rs::RecentFrame -/
structure RecentFrame (α : Type) where
  frame : Frame α
  frameIndex : Nat

/-- mirrors: resampler.rs::Resampler (`frames : [RecentFrame; 4]`) -/
structure Resampler (α : Type) where
  f0 : RecentFrame α
  f1 : RecentFrame α
  f2 : RecentFrame α
  f3 : RecentFrame α
  timeUntilEmpty : Nat

namespace Resampler

/-- mirrors: Resampler::new -/
def new (startingFrameIndex : Nat) : Resampler α :=
  let z : RecentFrame α := ⟨Frame.zero, startingFrameIndex⟩
  ⟨z, z, z, z, 0⟩

/-- mirrors: Resampler::push_frame -/
def pushFrame (r : Resampler α) (frame : Option (Frame α)) (sampleIndex : Nat) : Resampler α :=
  { f0 := r.f1, f1 := r.f2, f2 := r.f3
    f3 := ⟨frame.getD Frame.zero, sampleIndex⟩
    timeUntilEmpty := match frame with
      | some _ => 4
      | none => r.timeUntilEmpty - 1 }

/-- mirrors: Resampler::get (`fractional_position : f32`) -/
def get (r : Resampler α) (fractionalPosition : α) : Frame α :=
  interpolateFrame r.f0.frame r.f1.frame r.f2.frame r.f3.frame fractionalPosition

/-- mirrors: Resampler::current_frame_index -/
def currentFrameIndex (r : Resampler α) : Nat := r.f1.frameIndex

/-- mirrors: Resampler::empty -/
def empty (r : Resampler α) : Bool := r.timeUntilEmpty == 0

end Resampler

/-! ### data -/

/-- mirrors: data.rs::num_frames — `end.min(frames.len()).saturating_sub(start)`: a slice reaching past
    the data is clamped to the data, an inverted slice is empty (`Nat` subtraction saturates like
    `saturating_sub`).  Never fails; kept in `Except` for its callers. -/
def numFrames (len : Nat) (slice : Option (Nat × Nat)) : Except Fault Nat :=
  match slice with
  | some (s, e) => .ok (min e len - s)
  | none => .ok len

/-- mirrors: data.rs::frame_at_index (`frames[index + start]` is a checked slice index: the model keeps
    the check, `C04_never_outside_slice` proves that it never fails) -/
def frameAtIndex (index : Nat) (frames : Array (Frame α)) (slice : Option (Nat × Nat)) :
    Except Fault (Option (Frame α)) :=
  match numFrames frames.size slice with
  | .error f => .error f
  | .ok n =>
    if n ≤ index then .ok none
    else
      let start := match slice with
        | some (s, _) => s
        | none => 0
      match frames[index + start]? with
      | some f => .ok (some f)
      | none => .error .indexOOB

/-- mirrors: settings.rs::StaticSoundSettings -/
structure StaticSoundSettings (α : Type) where
  startTime : StartTime α
  startPosition : PlaybackPosition α
  loopRegion : Option (Region α)
  reverse : Bool
  volume : Value α α
  playbackRate : Value α α
  panning : Value α α
  fadeInTween : Option (Tween α)

/-- mirrors: data.rs::StaticSoundData -/
structure StaticSoundData (α : Type) where
  sampleRate : Nat
  frames : Array (Frame α)
  settings : StaticSoundSettings α
  slice : Option (Nat × Nat)

/-- mirrors: StaticSoundData::slice -/
def StaticSoundData.withSlice (d : StaticSoundData α) (region : Option (Region α)) : StaticSoundData α :=
  { d with slice := region.map (fun r => r.toSamples d.sampleRate d.frames.size) }

/-! ### commands (handle.rs → command.rs → sound.rs::read_commands) -/

/-- mirrors: the methods of handle.rs::StaticSoundHandle that write a command -/
inductive Command (α : Type) where
  | setVolume (v : Value α α) (tw : Tween α)
  | setPlaybackRate (v : Value α α) (tw : Tween α)
  | setPanning (v : Value α α) (tw : Tween α)
  | setLoopRegion (r : Option (Region α))
  | pause (tw : Tween α)
  | resume (st : StartTime α) (tw : Tween α)
  | stop (tw : Tween α)
  | seekBy (amount : α)
  | seekTo (position : α)

/-- mirrors: static_sound.rs `command_writers_and_readers!` — one slot per command kind; a newer
    write replaces an unread older one -/
structure Commands (α : Type) where
  setVolume : Option (Value α α × Tween α) := none
  setPlaybackRate : Option (Value α α × Tween α) := none
  setPanning : Option (Value α α × Tween α) := none
  setLoopRegion : Option (Option (Region α)) := none
  pause : Option (Tween α) := none
  resume : Option (StartTime α × Tween α) := none
  stop : Option (Tween α) := none
  seekBy : Option α := none
  seekTo : Option α := none

def Commands.write (c : Commands α) : Command α → Commands α
  | .setVolume v tw => { c with setVolume := some (v, tw) }
  | .setPlaybackRate v tw => { c with setPlaybackRate := some (v, tw) }
  | .setPanning v tw => { c with setPanning := some (v, tw) }
  | .setLoopRegion r => { c with setLoopRegion := some r }
  | .pause tw => { c with pause := some tw }
  | .resume st tw => { c with resume := some (st, tw) }
  | .stop tw => { c with stop := some tw }
  | .seekBy x => { c with seekBy := some x }
  | .seekTo x => { c with seekTo := some x }

/-! ### the sound -/

/-- mirrors: sound.rs::StaticSound (+ `Shared`, + the unread commands) -/
structure StaticSound (α : Type) where
  cmds : Commands α
  sampleRate : Nat
  frames : Array (Frame α)
  slice : Option (Nat × Nat)
  reverse : Bool
  /-- `playback_state_manager`, `start_time`, `shared.state` -/
  core : SoundCore α
  resampler : Resampler α
  transport : Transport
  /-- `fractional_position` -/
  frac : α
  volume : Parameter α α
  playbackRate : Parameter α α
  panning : Parameter α α
  /-- `shared.position` — what `handle.position()` returns -/
  sharedPosition : α

namespace StaticSound

/-- mirrors: StaticSound::is_playing_backwards -/
def isPlayingBackwards (s : StaticSound α) : Bool :=
  let b := signNeg s.playbackRate.value
  if s.reverse then !b else b

/-- mirrors: StaticSound::push_frame_to_resampler -/
def pushFrameToResampler (s : StaticSound α) : Except Fault (StaticSound α) :=
  if s.transport.playing then
    match frameAtIndex s.transport.position s.frames s.slice with
    | .error f => .error f
    | .ok fo =>
      .ok { s with resampler := s.resampler.pushFrame (some (fo.getD Frame.zero)) s.transport.position }
  else .ok { s with resampler := s.resampler.pushFrame none s.transport.position }

/-- the transport half of `update_position` -/
def moveTransport (s : StaticSound α) : Except Fault Transport :=
  if s.isPlayingBackwards then s.transport.decrement
  else
    match numFrames s.frames.size s.slice with
    | .error f => .error f
    | .ok n => s.transport.increment n

/-- mirrors: StaticSound::update_position -/
def updatePosition (s : StaticSound α) : Except Fault (StaticSound α) :=
  match s.pushFrameToResampler with
  | .error f => .error f
  | .ok s1 =>
    match s1.moveTransport with
    | .error f => .error f
    | .ok t =>
      let s2 := { s1 with transport := t }
      if !t.playing && s2.resampler.empty then .ok { s2 with core := s2.core.markStopped }
      else .ok s2

/-- mirrors: StaticSound::new up to (not including) the three priming `update_position` calls -/
def init (d : StaticSoundData α) : Except Fault (StaticSound α) :=
  match numFrames d.frames.size d.slice with
  | .error f => .error f
  | .ok n =>
    let loop := d.settings.loopRegion.map (fun r => r.toSamples d.sampleRate n)
    match Transport.new (d.settings.startPosition.intoSamples d.sampleRate) loop d.settings.reverse n with
    | .error f => .error f
    | .ok transport =>
      let idx := transport.position
      .ok { cmds := {}
            sampleRate := d.sampleRate
            frames := d.frames
            slice := d.slice
            reverse := d.settings.reverse
            core := SoundCore.new d.settings.startTime d.settings.fadeInTween
            resampler := Resampler.new idx
            transport := transport
            frac := (0.0 : α)
            volume := Parameter.new d.settings.volume Psm.identityDb
            playbackRate := Parameter.new d.settings.playbackRate (1.0 : α)
            panning := Parameter.new d.settings.panning (0.0 : α)
            sharedPosition := (KOps.ofNat idx : α) / (KOps.ofNat d.sampleRate : α) }

/-- mirrors: StaticSound::new — "fill the resample buffer with 3 samples so playback can start
    immediately" -/
def new (d : StaticSoundData α) : Except Fault (StaticSound α) :=
  match init d with
  | .error f => .error f
  | .ok s =>
    match s.updatePosition with
    | .error f => .error f
    | .ok s => match s.updatePosition with
      | .error f => .error f
      | .ok s => s.updatePosition

/-- mirrors: StaticSound::seek_to_index -/
def seekToIndex (s : StaticSound α) (index : Nat) : Except Fault (StaticSound α) :=
  match numFrames s.frames.size s.slice with
  | .error f => .error f
  | .ok n =>
    match s.transport.seekTo index n with
    | .error f => .error f
    | .ok t =>
      let s1 := { s with transport := t }
      if s1.core.psm.playbackState.isAdvancing then s1.pushFrameToResampler else .ok s1

/-- mirrors: StaticSound::seek_by -/
def seekBy (s : StaticSound α) (amount : α) : Except Fault (StaticSound α) :=
  let current : α := (KOps.ofNat s.transport.position : α) / (KOps.ofNat s.sampleRate : α)
  let position := current + amount
  s.seekToIndex (KOps.toNatSat (position * (KOps.ofNat s.sampleRate : α)))

/-- mirrors: StaticSound::seek_to -/
def seekTo (s : StaticSound α) (position : α) : Except Fault (StaticSound α) :=
  s.seekToIndex (KOps.toNatSat (position * (KOps.ofNat s.sampleRate : α)))

/-- `Parameter::read_command` on an optional pending command -/
def readParam (p : Parameter α α) : Option (Value α α × Tween α) → Parameter α α
  | some (v, tw) => p.set v tw
  | none => p

/-- `read_commands`, part 1: the three parameter commands; every command slot is emptied -/
def readParamCmds (s : StaticSound α) : StaticSound α :=
  { s with cmds := {}
           volume := readParam s.volume s.cmds.setVolume
           playbackRate := readParam s.playbackRate s.cmds.setPlaybackRate
           panning := readParam s.panning s.cmds.setPanning }

/-- `set_loop_region` command handler -/
def setLoopRegion (r : Option (Region α)) (s : StaticSound α) : Except Fault (StaticSound α) :=
  andThen (numFrames s.frames.size s.slice) (fun n =>
    .ok { s with transport := s.transport.setLoopRegion (r.map (fun r => r.toSamples s.sampleRate n)) })

/-- `read_commands`, part 2: `set_loop_region` -/
def readLoopCmd (c : Commands α) (s : StaticSound α) : Except Fault (StaticSound α) :=
  applyOptE c.setLoopRegion setLoopRegion s

/-- `read_commands`, part 3: `pause`, `resume`, `stop` (in this order) -/
def readLifeCmds (c : Commands α) (s : StaticSound α) : StaticSound α :=
  { s with core := (applyOpt c.stop (fun tw core => core.stop tw)
      (applyOpt c.resume (fun p core => core.resume p.1 p.2)
        (applyOpt c.pause (fun tw core => core.pause tw) s.core))) }

/-- `read_commands`, part 4: `seek_by`, then `seek_to` -/
def readSeekCmds (c : Commands α) (s : StaticSound α) : Except Fault (StaticSound α) :=
  andThen (applyOptE c.seekBy (fun x s => s.seekBy x) s) (applyOptE c.seekTo (fun x s => s.seekTo x))

/-- mirrors: StaticSound::read_commands (order: volume, playback_rate, panning, set_loop_region, pause,
    resume, stop, seek_by, seek_to); every slot is emptied -/
def readCommands (s : StaticSound α) : Except Fault (StaticSound α) :=
  andThen (readLoopCmd s.cmds s.readParamCmds) (fun s1 => readSeekCmds s.cmds (readLifeCmds s.cmds s1))

/-- mirrors: `impl Sound for StaticSound`::on_start_processing -/
def onStartProcessing (s : StaticSound α) : Except Fault (StaticSound α) :=
  let s := { s with sharedPosition :=
    (KOps.ofNat s.resampler.currentFrameIndex : α) / (KOps.ofNat s.sampleRate : α) }
  s.readCommands

/-- `while self.fractional_position >= 1.0 { self.fractional_position -= 1.0; self.update_position(); }` -/
def stepPos : Nat → StaticSound α → Except Fault (StaticSound α)
  | 0, s => if (1.0 : α) ≤ s.frac then .error .hang else .ok s
  | fuel + 1, s =>
    if (1.0 : α) ≤ s.frac then
      match updatePosition { s with frac := s.frac - (1.0 : α) } with
      | .error f => .error f
      | .ok s' => stepPos fuel s'
    else .ok s

/-- what the sound's volume, fade, and panning do to a resampled frame at chunk time `t` -/
def shade (s : StaticSound α) (t : α) (f : Frame α) : Frame α :=
  let volume := asAmplitude (s.volume.interpolatedValue tw32 t)
  let fadeVolume := asAmplitude (s.core.psm.interpolatedFadeVolume t)
  let panning := s.panning.interpolatedValue tw32 t
  ((f.scale fadeVolume).scale volume).panned panning

/-- the per-frame increment of the fractional position at chunk time `t` -/
def fracStep (s : StaticSound α) (t dt : α) : α :=
  (KOps.ofNat s.sampleRate : α) * KOps.abs (s.playbackRate.interpolatedValue tw64 t) * dt

/-- one iteration of the render loop of `process` at chunk time `t = (i + 1) / len` -/
def renderFrame (fuel : Nat) (s : StaticSound α) (t dt : α) : Except Fault (StaticSound α × Frame α) :=
  let out := s.shade t (s.resampler.get (KOps.r32 s.frac))
  match stepPos fuel { s with frac := s.frac + s.fracStep t dt } with
  | .error f => .error f
  | .ok s' => .ok (s', out)

/-- the render loop of `process`: `k` frames still to write, the next one has index `i` -/
def renderLoop (fuel : Nat) (dt : α) (len : Nat) : Nat → Nat → StaticSound α →
    Except Fault (StaticSound α × List (Frame α))
  | 0, _, s => .ok (s, [])
  | k + 1, i, s =>
    match renderFrame fuel s ((KOps.ofNat (i + 1) : α) / (KOps.ofNat len : α)) dt with
    | .error f => .error f
    | .ok (s', f) =>
      match renderLoop fuel dt len k (i + 1) s' with
      | .error f => .error f
      | .ok (s'', fs) => .ok (s'', f :: fs)

/-- mirrors: `impl Sound for StaticSound`::process on a buffer of `len` frames -/
def process (fuel : Nat) (s : StaticSound α) (len : Nat) (dt : α) (info : Info α) :
    Except Fault (StaticSound α × List (Frame α)) :=
  let dtc := dt * (KOps.ofNat len : α)
  let g := s.core.gate dtc info
  let s1 : StaticSound α :=
    { s with volume := (s.volume.update tw32 dtc info).1
             playbackRate := (s.playbackRate.update tw64 dtc info).1
             panning := (s.panning.update tw32 dtc info).1
             core := g.1 }
  if g.2 then renderLoop fuel dt len len 0 s1
  else .ok (s1, List.replicate len Frame.zero)

/-- mirrors: Sound::finished -/
def finished (s : StaticSound α) : Bool := s.core.finished

/-- what the two threads can do to a playing static sound -/
inductive Op (α : Type) where
  /-- a handle method (gameplay thread) -/
  | command (c : Command α)
  /-- `on_start_processing` (audio thread, once per callback) -/
  | startProcessing
  /-- `process` on `len` frames -/
  | process (len : Nat) (dt : α) (info : Info α)

def step (fuel : Nat) (s : StaticSound α) : Op α → Except Fault (StaticSound α × List (Frame α))
  | .command c => .ok ({ s with cmds := s.cmds.write c }, [])
  | .startProcessing =>
    match s.onStartProcessing with
    | .error f => .error f
    | .ok s' => .ok (s', [])
  | .process len dt info => s.process fuel len dt info

/-- a history: final state and everything written to the output, or the first fault -/
def run (fuel : Nat) (s : StaticSound α) : List (Op α) → Except Fault (StaticSound α × List (Frame α))
  | [] => .ok (s, [])
  | op :: ops =>
    match s.step fuel op with
    | .error f => .error f
    | .ok (s', out) =>
      match run fuel s' ops with
      | .error f => .error f
      | .ok (s'', out') => .ok (s'', out ++ out')

end StaticSound
end K
