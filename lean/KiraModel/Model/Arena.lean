/-
  Arena.lean — `atomic_arena` 0.1.2: generational arena whose keys are reserved ahead of time
  through an atomic `Controller` (free-list + per-slot generation), slots filled later by
  `insert_with_key`.

  Abstractions (recorded in the trusted base): the two intrusive linked lists are represented by
  the lists of their indices — `Controller.freeList` for `first_free_slot_index →
  next_free_slot_index → …` (a LIFO stack) and `Arena.order` for `first_occupied_slot_index →
  next_occupied_slot_index → …` (newest first); `try_reserve` and `free` (CAS loops) are single
  atomic actions (there is one reserving thread per controller — every kira caller holds `&mut` —
  and one freeing thread, so the CAS loops cannot suffer ABA).  Core Lean only.
-/
import KiraModel.Model.Ring

namespace K

/-- mirrors: atomic-arena-0.1.2/src/lib.rs::Key -/
structure Key where
  index : Nat
  generation : Nat
deriving DecidableEq, Repr

/-- mirrors: atomic-arena controller.rs::ControllerSlot (without the intrusive next pointer) -/
structure CSlot where
  free : Bool
  generation : Nat
deriving DecidableEq, Repr

/-- mirrors: atomic-arena controller.rs::ControllerInner -/
structure Controller where
  slots : List CSlot
  /-- the free chain, head = `first_free_slot_index` -/
  freeList : List Nat
deriving DecidableEq, Repr

namespace Controller

/-- mirrors: controller.rs::ControllerInner::new.  `first_free_slot_index` starts at 0 *whatever
    the capacity*: with capacity 0 the chain points at a slot that does not exist. -/
def new (cap : Nat) : Controller :=
  { slots := List.replicate cap ⟨true, 0⟩,
    freeList := if cap = 0 then [0] else List.range cap }

/-- mirrors: controller.rs::ControllerInner::capacity -/
def capacity (c : Controller) : Nat := c.slots.length

/-- mirrors: controller.rs::ControllerInner::len -/
def len (c : Controller) : Nat := c.slots.countP (fun s => !s.free)

/-- mirrors: controller.rs::ControllerInner::try_reserve (`ok none` = `Err(ArenaFull)`;
    `&self.slots[first_free_slot_index]` panics when the index is out of bounds) -/
def tryReserve (c : Controller) : Except SFault (Option Key × Controller) :=
  match c.freeList with
  | [] => .ok (none, c)
  | i :: rest =>
    match c.slots[i]? with
    | none => .error .indexOOB
    | some sl =>
      .ok (some ⟨i, sl.generation⟩, { slots := c.slots.set i { sl with free := false }, freeList := rest })

/-- mirrors: controller.rs::ControllerInner::free (only called with the index of an occupied
    arena slot, hence in bounds) -/
def free (c : Controller) (i : Nat) : Controller :=
  match c.slots[i]? with
  | none => c
  | some sl => { slots := c.slots.set i ⟨true, sl.generation + 1⟩, freeList := i :: c.freeList }

def generation (c : Controller) (i : Nat) : Nat := (c.slots[i]?.map (·.generation)).getD 0

end Controller

/-- mirrors: atomic-arena slot.rs::ArenaSlot (`data = none` ⇔ `ArenaSlotState::Free`) -/
structure ASlot (τ : Type) where
  data : Option τ
  generation : Nat
deriving DecidableEq, Repr

/-- mirrors: atomic-arena lib.rs::Arena (its `controller` handle lives in the enclosing store) -/
structure Arena (τ : Type) where
  slots : List (ASlot τ)
  /-- occupied slots in iteration order (newest first) -/
  order : List Nat
deriving DecidableEq, Repr

/-- mirrors: atomic-arena error.rs::InsertWithKeyError -/
inductive InsertErr where
  | invalidKey
  | keyNotReserved
deriving DecidableEq, Repr

namespace Arena
variable {τ : Type}

/-- mirrors: lib.rs::Arena::new -/
def new (cap : Nat) : Arena τ := { slots := List.replicate cap ⟨none, 0⟩, order := [] }

/-- mirrors: lib.rs::Arena::len -/
def len (a : Arena τ) : Nat := a.slots.countP (fun s => s.data.isSome)

/-- mirrors: lib.rs::Arena::insert_with_key -/
def insertWithKey (a : Arena τ) (key : Key) (d : τ) : Except InsertErr (Arena τ) :=
  match a.slots[key.index]? with
  | none => .error .invalidKey
  | some sl =>
    if sl.generation ≠ key.generation then .error .invalidKey
    else if sl.data.isSome then .error .keyNotReserved
    else .ok { slots := a.slots.set key.index { sl with data := some d }, order := key.index :: a.order }

/-- mirrors: lib.rs::Arena::remove_from_slot (+ the `controller.free(index)` inside it) -/
def removeFromSlot (a : Arena τ) (c : Controller) (i : Nat) : Except SFault (Option τ × Arena τ × Controller) :=
  match a.slots[i]? with
  | none => .error .indexOOB
  | some sl =>
    match sl.data with
    | none => .ok (none, a, c)
    | some d =>
      .ok (some d, { slots := a.slots.set i ⟨none, sl.generation + 1⟩, order := a.order.erase i }, c.free i)

/-- mirrors: lib.rs::Arena::remove -/
def remove (a : Arena τ) (c : Controller) (key : Key) : Except SFault (Option τ × Arena τ × Controller) :=
  match a.slots[key.index]? with
  | none => .error .indexOOB
  | some sl =>
    if sl.generation ≠ key.generation then .ok (none, a, c) else a.removeFromSlot c key.index

/-- mirrors: lib.rs::Arena::get / get_mut (`slots[key.index]` panics out of bounds) -/
def get (a : Arena τ) (key : Key) : Except SFault (Option τ) :=
  match a.slots[key.index]? with
  | none => .error .indexOOB
  | some sl => if sl.generation ≠ key.generation then .ok none else .ok sl.data

/-- `get` as kira's `Info` lookups use it (ids always come from the same arena, in bounds) -/
def get? (a : Arena τ) (key : Key) : Option τ :=
  match a.slots[key.index]? with
  | none => none
  | some sl => if sl.generation ≠ key.generation then none else sl.data

/-- overwrite the data of an occupied slot (what `&mut arena[key]` is used for) -/
def setData (a : Arena τ) (i : Nat) (d : τ) : Arena τ :=
  match a.slots[i]? with
  | none => a
  | some sl => { a with slots := a.slots.set i { sl with data := some d } }

/-- mirrors: iter.rs::Iter (keys and items in iteration order) -/
def iter (a : Arena τ) : List (Key × τ) :=
  a.order.filterMap (fun i =>
    match a.slots[i]? with
    | some sl => sl.data.map (fun d => (⟨i, sl.generation⟩, d))
    | none => none)

end Arena
end K
