/-
  CommandReaders.lean — which command readers each component owns (the fields of its
  `CommandReaders` struct, one triple buffer each) and the order in which its
  `on_start_processing` / `read_commands` reads them.  A component's command state is a product of
  channels (`Chan.Prod`); reading commands is `Chan.Prod.drain` over the reader list.  Core Lean only.
-/
import KiraModel.Model.Conc.CommandChan
import KiraModel.Model.ResourceStorage

namespace K.Cmd

/-- mirrors: sound/static_sound.rs::command_writers_and_readers! (fields of CommandReaders) -/
inductive StaticKind where
  | setVolume | setPlaybackRate | setPanning | setLoopRegion | pause | resume | stop | seekBy | seekTo
deriving DecidableEq, Repr

/-- mirrors: sound/static_sound/sound.rs::StaticSound::read_commands (called once from on_start_processing) -/
def staticReaders : List StaticKind :=
  [.setVolume, .setPlaybackRate, .setPanning, .setLoopRegion, .pause, .resume, .stop, .seekBy, .seekTo]

def staticAll : List StaticKind :=
  [.setVolume, .setPlaybackRate, .setPanning, .setLoopRegion, .pause, .resume, .stop, .seekBy, .seekTo]

/-- mirrors: sound/streaming.rs::{CommandWriters, CommandReaders, DecodeSchedulerCommandReaders} -/
inductive StreamKind where
  | setVolume | setPlaybackRate | setPanning | setLoopRegion | pause | resume | stop | seekBy | seekTo
deriving DecidableEq, Repr

/-- mirrors: sound/streaming/sound.rs::StreamingSound::read_commands (audio thread, once per on_start_processing) -/
def streamSoundReaders : List StreamKind := [.setVolume, .setPlaybackRate, .setPanning, .pause, .resume, .stop]

/-- mirrors: sound/streaming/sound/decode_scheduler.rs::DecodeScheduler::run (decoder thread, once per step
    that gets past the `Stopped` and ring-full checks) -/
def streamDecoderReaders : List StreamKind := [.setLoopRegion, .seekBy, .seekTo]

def streamAll : List StreamKind :=
  [.setVolume, .setPlaybackRate, .setPanning, .setLoopRegion, .pause, .resume, .stop, .seekBy, .seekTo]

/-- mirrors: track/sub.rs::command_writers_and_readers! -/
inductive TrackKind where
  | setVolume | setPosition | setSpatializationStrength | pause | resume
deriving DecidableEq, Repr

/-- mirrors: track/sub.rs::Track::read_commands; the two spatial readers are read only by a track
    built with `spatial_data` (only such a track's handle can write them).  (Send-route volumes are
    separate single channels read in the same function.) -/
def trackReaders (spatial : Bool) : List TrackKind :=
  if spatial then [.setVolume, .setPosition, .setSpatializationStrength, .pause, .resume]
  else [.setVolume, .pause, .resume]

/-- the kinds a handle of that track can write: TrackHandle vs SpatialTrackHandle -/
def trackWritable (spatial : Bool) : List TrackKind :=
  if spatial then [.setVolume, .setPosition, .setSpatializationStrength, .pause, .resume]
  else [.setVolume, .pause, .resume]

/-- mirrors: clock.rs::command_writers_and_readers! -/
inductive ClockKind where
  | setSpeed | setTicking | reset
deriving DecidableEq, Repr

/-- mirrors: clock.rs::Clock::on_start_processing -/
def clockReaders : List ClockKind := [.setSpeed, .setTicking, .reset]
def clockAll : List ClockKind := [.setSpeed, .setTicking, .reset]

/-- mirrors: listener.rs::command_writers_and_readers! -/
inductive ListenerKind where
  | setPosition | setOrientation
deriving DecidableEq, Repr

/-- mirrors: listener.rs::Listener::on_start_processing -/
def listenerReaders : List ListenerKind := [.setPosition, .setOrientation]
def listenerAll : List ListenerKind := [.setPosition, .setOrientation]

/-- mirrors: modulator/lfo.rs::command_writers_and_readers! -/
inductive LfoKind where
  | setWaveform | setFrequency | setAmplitude | setOffset | setPhase
deriving DecidableEq, Repr

/-- mirrors: modulator/lfo.rs::Lfo::on_start_processing -/
def lfoReaders : List LfoKind := [.setFrequency, .setAmplitude, .setOffset, .setWaveform, .setPhase]
def lfoAll : List LfoKind := [.setWaveform, .setFrequency, .setAmplitude, .setOffset, .setPhase]

/-- mirrors: modulator/tweener.rs::command_writers_and_readers! -/
inductive TweenerKind where
  | set
deriving DecidableEq, Repr

/-- mirrors: modulator/tweener.rs::Tweener::on_start_processing -/
def tweenerReaders : List TweenerKind := [.set]
def tweenerAll : List TweenerKind := [.set]

/-- mirrors: effect/filter.rs::command_writers_and_readers! -/
inductive FilterKind where
  | setMode | setCutoff | setResonance | setMix
deriving DecidableEq, Repr

/-- mirrors: effect/filter.rs::Filter::on_start_processing -/
def filterReaders : List FilterKind := [.setMode, .setCutoff, .setResonance, .setMix]
def filterAll : List FilterKind := [.setMode, .setCutoff, .setResonance, .setMix]

/-! ### the streaming decoder thread -/

/-- what the decoder thread's loop looks at before it reads commands -/
structure Decoder (V : Type) where
  chans : Chan.Prod StreamKind V
  /-- `shared.state() == Stopped` -/
  stopped : Bool
  /-- the thread has returned `NextStep::End` (reached the end of the data, or stopped) and exited -/
  ended : Bool
  /-- `frame_producer.is_full()` -/
  ringFull : Bool

/-- mirrors: decode_scheduler.rs::DecodeScheduler::{start, run} as far as command reading goes:
    one loop iteration.  `reachedEnd` says whether this step's `increment_position` stops the
    transport.  Returns the commands read in this step. -/
def Decoder.step {V : Type} (d : Decoder V) (reachedEnd : Bool) : Decoder V × List (StreamKind × Option V) :=
  if d.ended then (d, [])                       -- the thread no longer exists
  else if d.stopped then ({ d with ended := true }, [])
  else if d.ringFull then (d, [])               -- `NextStep::Wait`
  else
    let (p, rs) := d.chans.drain streamDecoderReaders
    ({ d with chans := p, ended := reachedEnd }, rs)


/-- run the decoder thread for a number of loop iterations -/
def Decoder.steps {V : Type} (d : Decoder V) : List Bool → Decoder V × List (StreamKind × Option V)
  | [] => (d, [])
  | e :: es =>
    let (d1, r1) := d.step e
    let (d2, r2) := Decoder.steps d1 es
    (d2, r1 ++ r2)

/-! ### a resource that carries the reader end of a command channel through the resource storage -/

/-- a resource that owns the reader end of one command channel (its handle keeps the writer end)
    and records the commands it has applied -/
structure Comp (V : Type) where
  chan : Chan.St V
  applied : List V

/-- the resource's `on_start_processing`: read the reader once, apply what it returns -/
def Comp.onStart {V : Type} (c : Comp V) : Comp V :=
  { chan := (Chan.readOp c.chan).1, applied := c.applied ++ (Chan.readOp c.chan).2.toList }

end K.Cmd

namespace K

/-- apply `f` to every resource in the arena: `for (_, resource) in &mut storage { … }` -/
def Arena.mapData {τ : Type} (f : τ → τ) (a : Arena τ) : Arena τ :=
  { a with slots := a.slots.map (fun sl => { sl with data := sl.data.map f }) }

/-- mirrors: track/sub.rs::Track::on_start_processing and track/main.rs::MainTrack::on_start_processing as far as
    the track's sounds go (and the same shape for every other storage): `self.sounds.remove_and_add(finished)`
    *first*, then `on_start_processing` (`f`) of every resource that is in the storage — so a resource picked up in
    this callback runs its `on_start_processing` (where it reads its command readers) in this very callback -/
def Cmd.callbackWith {τ : Type} (test : τ → Bool) (f : τ → τ) (s : Store τ) : Except SFault (Store τ) :=
  match s.removeAndAdd test with
  | .error e => .error e
  | .ok s1 => .ok { s1 with arena := s1.arena.mapData f }

/-- mirrors: the common shape of backend/resources/{clocks,listeners,modulators,mixer}.rs::on_start_processing,
    track/{main,sub}.rs::on_start_processing: `remove_and_add`, then `on_start_processing` of every
    resource in the storage — in the same callback -/
def Cmd.callback {V : Type} (test : Cmd.Comp V → Bool) (s : Store (Cmd.Comp V)) : Except SFault (Store (Cmd.Comp V)) :=
  match s.removeAndAdd test with
  | .error e => .error e
  | .ok s1 => .ok { s1 with arena := s1.arena.mapData Cmd.Comp.onStart }

end K
