/-
  ModulatorChunk.lean — the modulator store and the order of one internal chunk.
  mirrors: backend/resources.rs (`SelfReferentialResourceStorage::{remove_and_add, for_each}`),
           backend/resources/modulators.rs (`Modulators::{on_start_processing, process}`, `DummyModulator`),
           backend/renderer.rs (`Renderer::process_chunk`: modulators → clocks → listeners → mixer),
           info.rs (`Info::modulator_value` on `InfoKind::Real`)

  A modulator id (`ModulatorId` = arena key = slot + generation) is a natural number that is never
  reused.  The store is the list of `(id, modulator)` in *insertion order* (`keys: Vec<Key>` + arena).
  The store is generic over the modulator state type `μ` (`ModOps μ α` = the `Modulator` trait:
  `update`, `value`); `Mod α` is the concrete sum of kira's two built-in modulators plus a counting
  modulator (a user-defined `Modulator`, the harness's `ProbeModulator`).
-/
import KiraModel.Model.Lfo
import KiraModel.Model.Tweener

namespace K

variable {α : Type} [Add α] [Sub α] [Mul α] [Div α] [Neg α] [LT α] [LE α]
  [DecidableLT α] [DecidableLE α] [OfScientific α] [KOps α]

/-- mirrors: modulator.rs::Modulator (`update`, `value`) for a state type `μ` -/
structure ModOps (μ α : Type) where
  update : μ → α → Info α → μ
  value : μ → α

/-- the modulators in insertion order -/
abbrev ModStore (μ : Type) := List (Nat × μ)

/-- mirrors: `Arena::get(id).map(|m| m.value())` -/
def ModStore.valueOf {μ : Type} (ops : ModOps μ α) (s : ModStore μ) (id : Nat) : Option α :=
  match s with
  | [] => none
  | (k, m) :: rest => if k = id then some (ops.value m) else ModStore.valueOf ops rest id

/-- mirrors: modulators.rs::DummyModulator::value -/
def dummyValue : α := (0.0 : α)

/-- The `Info` a modulator is updated with inside `for_each`: clocks (and listeners) from `base`,
    the *other* modulators as they are at this moment, and the modulator's own slot occupied by
    the dummy (value `0.0`).  `Info::new(.., None)`: no listener distance. -/
def modInfo {μ : Type} (ops : ModOps μ α) (base : Info α) (others : ModStore μ) (self : Nat) : Info α :=
  { clock := base.clock
    modulator := fun id => if id = self then some dummyValue else ModStore.valueOf ops others id
    listenerDistance := none }

/-- mirrors: `SelfReferentialResourceStorage::for_each` driving `Modulators::process`:
    `done` = already updated in this chunk (in order), `todo` = not yet updated.
    Returns the new store and the ids in the order in which `update` was called. -/
def processFrom {μ : Type} (ops : ModOps μ α) (dt : α) (base : Info α) (done : ModStore μ) :
    ModStore μ → ModStore μ × List Nat
  | [] => (done, [])
  | (k, m) :: rest =>
    let m' := ops.update m dt (modInfo ops base (done ++ rest) k)
    let r := processFrom ops dt base (done ++ [(k, m')]) rest
    (r.1, k :: r.2)

/-- mirrors: modulators.rs::Modulators::process -/
def ModStore.process {μ : Type} (ops : ModOps μ α) (s : ModStore μ) (dt : α) (base : Info α) :
    ModStore μ × List Nat :=
  processFrom ops dt base [] s

/-- mirrors: `remove_and_add`: drop the finished modulators (order of the others kept), then append
    the newly added ones in the order they were added (FIFO ring).  (`remove_unused` also stops
    when the unused-resource ring is full; that ring has the arena's capacity and is drained by
    every `add_modulator`, so it cannot fill while a finished modulator remains — C08's subject.) -/
def ModStore.removeAndAdd {μ : Type} (s : ModStore μ) (finished : Nat → Bool) (added : ModStore μ) :
    ModStore μ :=
  s.filter (fun e => !finished e.1) ++ added

/-- the `Info` every later stage of the chunk (clocks, listeners, mixer: tracks, sounds, effects)
    reads modulators through: the store *after* `Modulators::process`. -/
def readerInfo {μ : Type} (ops : ModOps μ α) (base : Info α) (s : ModStore μ) : Info α :=
  { base with modulator := fun id => ModStore.valueOf ops s id }

/-- who is updated, in the order of one internal chunk -/
inductive ChunkEvent where
  | modulator (id : Nat)
  | clockParam (i : Nat)
  | listenerParam (i : Nat)
  | mixerParam (i : Nat)
deriving DecidableEq, Repr

/-- a modulator-linkable parameter together with the interpolation of its value type
    (`f64`, or an `f32`-backed unit: Decibels, Panning, Mix, …) -/
abbrev Reader (α : Type) := Tweenable α α × Parameter α α

/-- The parts of the system that C17 talks about: the modulators and, for each later stage, the
    modulator-linkable parameters it updates (clock speeds; listener parameters; volumes, rates,
    effect settings of tracks and sounds). -/
structure ChunkState (μ α : Type) where
  mods : ModStore μ
  clockParams : List (Reader α)
  listenerParams : List (Reader α)
  mixerParams : List (Reader α)

/-- the `Info` bases of the four stages (clock and listener state differ between stages: clocks are
    updated after the modulators, listeners after the clocks); their `modulator` field is ignored. -/
structure ChunkBases (α : Type) where
  forModulators : Info α
  forClocks : Info α
  forListeners : Info α
  forMixer : Info α

def updateReaders (dt : α) (info : Info α) (ps : List (Reader α)) : List (Reader α) :=
  ps.map (fun r => (r.1, (r.2.update r.1 dt info).1))

/-- mirrors: renderer.rs::Renderer::process_chunk — `dtFrame` = `1 / sample_rate`, `frames` = frames in
    this chunk.  Every stage gets `dtFrame * frames` (tracks and sounds compute the same product from
    `dt` and `out.len()`).  Returns the new state and the order of updates. -/
def processChunk {μ : Type} (ops : ModOps μ α) (dtFrame : α) (frames : Nat)
    (b : ChunkBases α) (s : ChunkState μ α) : ChunkState μ α × List ChunkEvent :=
  let dt := dtFrame * (KOps.ofNat frames : α)
  let r := s.mods.process ops dt b.forModulators
  let mods := r.1
  let clocks := updateReaders dt (readerInfo ops b.forClocks mods) s.clockParams
  let listeners := updateReaders dt (readerInfo ops b.forListeners mods) s.listenerParams
  let mixer := updateReaders dt (readerInfo ops b.forMixer mods) s.mixerParams
  ({ mods := mods, clockParams := clocks, listenerParams := listeners, mixerParams := mixer },
   r.2.map ChunkEvent.modulator
     ++ (List.range s.clockParams.length).map ChunkEvent.clockParam
     ++ (List.range s.listenerParams.length).map ChunkEvent.listenerParam
     ++ (List.range s.mixerParams.length).map ChunkEvent.mixerParam)

/-- mirrors: renderer.rs::Renderer::process — the frame counts of the internal chunks of one callback
    (`out.chunks_mut(internal_buffer_size * channels)`); `none` = `chunks_mut(0)` panics. -/
def modChunkSizes (frames ibs : Nat) : Option (List Nat) :=
  if ibs = 0 then none
  else some ((List.replicate (frames / ibs) ibs) ++ (if frames % ibs = 0 then [] else [frames % ibs]))

/-- kira's built-in modulators, plus a counting modulator (a user-defined `Modulator`:
    harness `ProbeModulator`: its value is the number of times it has been updated, and it records
    what `info.modulator_value` answered for the ids on its watch list during its last update). -/
inductive Mod (α : Type) where
  | lfo (l : Lfo α)
  | tweener (t : Tweener α)
  | counter (n : α) (watch : List Nat) (seen : List (Option α))

/-- the `Modulator` trait implementations -/
def Mod.ops : ModOps (Mod α) α where
  update := fun m dt info =>
    match m with
    | .lfo l => .lfo (l.update dt info)
    | .tweener t => .tweener (t.update dt info)
    | .counter n watch _ => .counter (n + (1.0 : α)) watch (watch.map info.modulator)
  value := fun m =>
    match m with
    | .lfo l => l.value
    | .tweener t => t.value
    | .counter n _ _ => n

end K
