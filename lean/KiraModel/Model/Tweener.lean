/-
  Tweener.lean — the tweener modulator.
  mirrors: modulator/tweener.rs (`Tweener`, `State`), modulator/tweener/builder.rs, handle.rs
  The tweener does NOT contain a `Parameter`: tweener.rs repeats the tween bookkeeping of
  parameter.rs by hand (without the `stagnant` flag, without re-evaluating the value while the
  tween waits for its start time).  It is modelled as written; `Props/C17.lean` proves that the
  two agree.
-/
import KiraModel.Model.Parameter

namespace K

variable {α : Type} [Add α] [Sub α] [Mul α] [Div α] [Neg α] [LT α] [LE α]
  [DecidableLT α] [DecidableLE α] [OfScientific α] [KOps α]

/-- mirrors: modulator/tweener.rs::State -/
inductive TwState (α : Type) where
  | idle
  | tweening (v0 v1 : α) (time : α) (tween : Tween α)

/-- mirrors: modulator/tweener.rs::Tweener (without the command reader and the `removed` flag) -/
structure Tweener (α : Type) where
  state : TwState α
  value : α

namespace Tweener

/-- mirrors: Tweener::new (via `TweenerBuilder { initial_value }`) -/
def new (initial : α) : Tweener α := ⟨.idle, initial⟩

/-- mirrors: Tweener::set -/
def set (t : Tweener α) (target : α) (tween : Tween α) : Tweener α :=
  { t with state := .tweening t.value target (0.0 : α) tween }

/-- mirrors: `impl Modulator for Tweener`::on_start_processing (`c` = what the command reader holds) -/
def onStartProcessing (t : Tweener α) (c : Option (α × Tween α)) : Tweener α :=
  match c with
  | some (target, tween) => t.set target tween
  | none => t

/-- mirrors: `impl Modulator for Tweener`::update -/
def update (t : Tweener α) (dt : α) (info : Info α) : Tweener α :=
  match t.state with
  | .idle => t
  | .tweening v0 v1 time tween =>
    let (st', started) : StartTime α × Bool :=
      match tween.startTime with
      | .immediate => (.immediate, true)
      | .delayed ns =>
        if ns = 0 then (.delayed ns, true) else (.delayed (durSubSecs ns dt), false)
      | .clockTime c ct => (.clockTime c ct, decide (info.whenToStart c ct = .now))
    let tween' : Tween α := { tween with startTime := st' }
    if !started then { t with state := .tweening v0 v1 time tween' }
    else
      let time' := time + dt
      if (durToSecs tween.durationNs : α) ≤ time' then { value := v1, state := .idle }
      else { value := lerp64 v0 v1 (tween.value time'), state := .tweening v0 v1 time' tween' }

/-- a run of updates with a constant `Info` -/
def run (t : Tweener α) (info : Info α) : List α → Tweener α
  | [] => t
  | dt :: rest => (t.update dt info).run info rest

end Tweener

/-- what can happen to a tweener between two reads of its value: a `set` taking effect, or an update -/
inductive TwOp (α : Type) where
  | set (target : α) (tween : Tween α)
  | update (dt : α) (info : Info α)

/-- a history of sets and updates (each update with its own `Info`) -/
def Tweener.runOps (t : Tweener α) : List (TwOp α) → Tweener α
  | [] => t
  | .set target tween :: rest => (t.set target tween).runOps rest
  | .update dt info :: rest => (t.update dt info).runOps rest

/-- the same history applied to a `Parameter<f64>` whose targets are all `Value::Fixed` -/
def Parameter.runTwOps (p : Parameter α α) : List (TwOp α) → Parameter α α
  | [] => p
  | .set target tween :: rest => (p.set (.fixed target) tween).runTwOps rest
  | .update dt info :: rest => ((p.update tw64 dt info).1).runTwOps rest

end K
