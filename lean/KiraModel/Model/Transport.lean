/-
  Transport.lean — integer play head with loop wrap and end detection; playback positions and regions.
  mirrors: sound/transport.rs, sound/playback_position.rs, sound.rs (`Region`, `EndPosition`)
  `usize` is `Nat`; subtraction that can underflow in Rust is an explicit `Fault.overflow` (Rust's
  `saturating_sub` is `Nat` subtraction; `saturating_add(1)` is `+ 1`: a play head AT `usize::MAX` — a start
  position or seek that saturated — stays there in kira and is one further here; either way it is past
  the end of every sound).  The wrap into the loop region is modular arithmetic (no loop, no fuel);
  a remainder by zero is an explicit `Fault.panic`.
-/
import KiraModel.Num
import KiraModel.Model.Fault
import KiraModel.Model.UnitTypes

namespace K

/-! ### positions and regions (these involve `f64` seconds) -/
section positions
variable {α : Type} [Add α] [Sub α] [Mul α] [Div α] [Neg α] [LT α] [LE α]
  [DecidableLT α] [DecidableLE α] [OfScientific α] [KOps α]

/-- Rust `f64::round` (half away from zero), built from `trunc`: `x - trunc x` is exact. -/
def roundHalfAway (x : α) : α :=
  let t := trunc x
  let f := x - t
  if (0.5 : α) ≤ f then t + (1.0 : α)
  else if f ≤ -(0.5 : α) then t - (1.0 : α)
  else t

/-- mirrors: sound/playback_position.rs::PlaybackPosition -/
inductive PlaybackPosition (α : Type) where
  | seconds (s : α)
  | samples (n : Nat)

/-- mirrors: PlaybackPosition::into_samples (`(seconds * sample_rate as f64).round() as usize`) -/
def PlaybackPosition.intoSamples (p : PlaybackPosition α) (sampleRate : Nat) : Nat :=
  match p with
  | .seconds s => KOps.toNatSat (roundHalfAway (s * (KOps.ofNat sampleRate : α)))
  | .samples n => n

/-- mirrors: sound.rs::EndPosition -/
inductive EndPosition (α : Type) where
  | endOfAudio
  | custom (p : PlaybackPosition α)

/-- mirrors: sound.rs::Region -/
structure Region (α : Type) where
  start : PlaybackPosition α
  stop : EndPosition α

/-- mirrors: the closure in Transport::new / Transport::set_loop_region (and StaticSoundData::slice) -/
def Region.toSamples (r : Region α) (sampleRate numFrames : Nat) : Nat × Nat :=
  (r.start.intoSamples sampleRate,
   match r.stop with
   | .endOfAudio => numFrames
   | .custom p => p.intoSamples sampleRate)

end positions

/-! ### the transport (pure `usize` arithmetic) -/

/- `structure Transport` (mirrors sound/transport.rs::Transport) lives in Model/UnitTypes.lean, so that the generated
   `Gen.transport*` (GenFn.lean) can range over it; its fields are checked against the Rust declaration by the translator. -/

/-- mirrors: sound/transport.rs::Transport::increment_position, sound/transport.rs::Transport::seek_to (the forward wrap):
    `if p >= le { p = ls + (p - ls) % (le - ls) }` — the closed form of the loop
    `while p >= le { p -= le - ls }` the code used to run (`Proofs/TransportLemmas.lean`: `wrapDownLoop`,
    `wrapDown_eq_loop`).  `le - ls` underflows when `le < ls`, `% 0` panics when `le = ls`
    (neither is reachable: `validLoop`). -/
def wrapDown (p ls le : Nat) : Except Fault Nat :=
  if p < le then .ok p
  else if le < ls then .error .overflow
  else if le = ls then .error .panic
  else .ok (ls + (p - ls) % (le - ls))

/-- mirrors: sound/transport.rs::Transport::decrement_position (the backward wrap):
    `if p <= ls { p = le - (ls - p) % (le - ls) }` — the closed form of `while p <= ls { p += le - ls }`. -/
def wrapUpDec (p ls le : Nat) : Except Fault Nat :=
  if ls < p then .ok p
  else if le < ls then .error .overflow
  else if le = ls then .error .panic
  else .ok (le - (ls - p) % (le - ls))

/-- mirrors: sound/transport.rs::Transport::seek_to (the backward wrap):
    `if p < ls { p = le - 1 - (ls - p - 1) % (le - ls) }` — the closed form of `while p < ls { p += le - ls }`. -/
def wrapUpSeek (p ls le : Nat) : Except Fault Nat :=
  if ls ≤ p then .ok p
  else if le < ls then .error .overflow
  else if le = ls then .error .panic
  else .ok (le - 1 - (ls - p - 1) % (le - ls))

namespace Transport

/-- an empty or inverted loop region cannot be looped over: it is dropped
    (mirrors the `.filter(|(loop_start, loop_end)| loop_end > loop_start)` in Transport::new / set_loop_region) -/
def validLoop (loopRegion : Option (Nat × Nat)) : Option (Nat × Nat) :=
  loopRegion.filter (fun r => decide (r.1 < r.2))

@[simp] theorem validLoop_none : validLoop none = none := rfl
@[simp] theorem validLoop_some_of_lt (a b : Nat) (h : a < b) : validLoop (some (a, b)) = some (a, b) := by
  simp [validLoop, Option.filter, h]
theorem validLoop_some_of_not_lt (a b : Nat) (h : ¬ a < b) : validLoop (some (a, b)) = none := by
  simp [validLoop, Option.filter, h]

/-- mirrors: Transport::new (the region is already converted to frames).  Reversed, the start frame is
    `num_frames.saturating_sub(1).saturating_sub(start_position)`: `Nat` subtraction saturates in the same
    way, so a start position at or past the end of a reversed sound (every start position of an empty
    one) starts at frame 0.  Never fails; kept in `Except` for its callers. -/
def new (startPosition : Nat) (loopRegion : Option (Nat × Nat)) (reverse : Bool) (numFrames : Nat) :
    Except Fault Transport :=
  let loopRegion := validLoop loopRegion
  .ok { position := if reverse then numFrames - 1 - startPosition else startPosition
        loopRegion := loopRegion, playing := true }

/-- mirrors: Transport::set_loop_region -/
def setLoopRegion (t : Transport) (loopRegion : Option (Nat × Nat)) : Transport :=
  { t with loopRegion := validLoop loopRegion }

/-- the wrap loop of `increment_position` applied to the already incremented position `p` -/
def incWrap (t : Transport) (p : Nat) : Except Fault Nat :=
  match t.loopRegion with
  | some (ls, le) => wrapDown p ls le
  | none => .ok p

/-- mirrors: Transport::increment_position -/
def increment (t : Transport) (numFrames : Nat) : Except Fault Transport :=
  if !t.playing then .ok t
  else
    match t.incWrap (t.position + 1) with
    | .error f => .error f
    | .ok p => .ok { t with position := p, playing := decide (p < numFrames) }

/-- the wrap loop of `decrement_position` -/
def decWrap (t : Transport) : Except Fault Nat :=
  match t.loopRegion with
  | some (ls, le) => wrapUpDec t.position ls le
  | none => .ok t.position

/-- mirrors: Transport::decrement_position -/
def decrement (t : Transport) : Except Fault Transport :=
  if !t.playing then .ok t
  else
    match t.decWrap with
    | .error f => .error f
    | .ok p => if p = 0 then .ok { t with position := p, playing := false }
               else .ok { t with position := p - 1 }

/-- the wrap loops of `seek_to` -/
def seekWrap (t : Transport) (position : Nat) : Except Fault Nat :=
  match t.loopRegion with
  | some (ls, le) =>
    if t.position < position then wrapDown position ls le
    else wrapUpSeek position ls le
  | none => .ok position

/-- mirrors: Transport::seek_to (note: never sets `playing` back to `true`) -/
def seekTo (t : Transport) (position numFrames : Nat) : Except Fault Transport :=
  match t.seekWrap position with
  | .error f => .error f
  | .ok p => .ok { t with position := p, playing := if numFrames ≤ p then false else t.playing }

end Transport
end K
