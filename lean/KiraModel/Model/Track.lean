/-
  Track.lean — buffers, the abstract sound/effect interface, send tracks and the sub-track tree.
  mirrors: track/send.rs (`SendTrack`, `SendTrackRoute`), track/sub.rs (`Track`), track.rs (`TrackShared`),
           backend/resources.rs (`ResourceStorage::remove_and_add`, arena iteration order),
           command.rs (`CommandReader::read`: the latest written value, once)

  Sounds and effects are *abstract state-passing components*: the tree is parametrised by the types
  `S` (sound state), `E` (effect state), `P` (spatial data) and a record `Comps` of step functions.
  A sound/effect receives the very buffer slice kira hands it (`&mut [Frame]`) and returns the new
  contents of that slice.

  Resource storages are lists in *arena iteration order* (newest first) plus the not-yet-consumed
  new-resource ring (`pending…`, oldest first).  The shared per-track scratch buffer (`temp_buffer`)
  is explicit state, so "the temp buffer is clean when handed to a child" is a theorem (Props/C02).
-/
import KiraModel.Model.Psm

namespace K

variable {α : Type} [Add α] [Sub α] [Mul α] [Div α] [Neg α] [LT α] [LE α]
  [DecidableLT α] [DecidableLE α] [OfScientific α] [KOps α]

/-! ### buffers -/

/-- a buffer of `n` silent frames (`vec![Frame::ZERO; n]`) -/
def zeros (n : Nat) : List (Frame α) := List.replicate n Frame.zero

/-- `buf.fill(Frame::ZERO)` -/
def fillZero (buf : List (Frame α)) : List (Frame α) := zeros buf.length

/-- `for (o, b) in out.iter_mut().zip(buf.iter().copied()) { *o += b }` — `zip` stops at the shorter
    of the two; the rest of `out` is left as it is. -/
def addInto : List (Frame α) → List (Frame α) → List (Frame α)
  | o :: os, b :: bs => Frame.add o b :: addInto os bs
  | os, [] => os
  | [], _ => []

/-- writing the result `r` of a callee back into the slice `buf[..r.len()]` it was lent -/
def writeBack (r buf : List (Frame α)) : List (Frame α) := r ++ buf.drop r.length

/-- `(i + 1) as f64 / num_frames as f64` -/
def timeInChunk (i n : Nat) : α := (KOps.ofNat (i + 1) : α) / (KOps.ofNat n : α)

/-- the per-frame gain loop shared by `Track`, `SendTrack` and `MainTrack::process`:
    `for (i, frame) in out.iter_mut().enumerate() { *frame *= g((i + 1) / n) }`; `i` is the index of
    the head of the list. -/
def gainLoop (g : α → α) (n : Nat) : Nat → List (Frame α) → List (Frame α)
  | _, [] => []
  | i, f :: fs => Frame.scale f (g (timeInChunk i n)) :: gainLoop g n (i + 1) fs

/-! ### abstract components -/

/-- The behaviour of the sounds (`S`), effects (`E`) and spatial data (`P`) living in a mixer.
    mirrors: sound.rs::Sound (`process`, `on_start_processing`, `finished`), effect.rs::Effect
    (`process`, `on_start_processing`); `spStep`/`spInfo` are the hook for track/sub.rs::SpatialData
    (modelled elsewhere). -/
structure Comps (α S E P : Type) where
  /-- `Sound::process(out, dt, info)`: new state and new contents of `out` -/
  sndStep : S → List (Frame α) → α → Info α → S × List (Frame α)
  sndStart : S → S
  sndFinished : S → Bool
  /-- `Effect::process(input, dt, info)` -/
  fxStep : E → List (Frame α) → α → Info α → E × List (Frame α)
  fxStart : E → E
  /-- the spatialisation part of `Track::process` (parameter updates + per-frame `spatialize`) -/
  spStep : P → List (Frame α) → α → Info α → P × List (Frame α)
  /-- what a spatial track adds to the `Info` seen by itself and its descendants -/
  spInfo : P → Info α → Info α
  /-- the spatial part of `Track::read_commands` (the `set_position` / `set_spatialization_strength`
      command readers), run by `Track::on_start_processing`; spatial data without commands keeps the default -/
  spStart : P → P := fun p => p

/-- `for effect in &mut self.effects { effect.process(out, dt, info) }` -/
def runEffects {S E P : Type} (C : Comps α S E P) (dt : α) (info : Info α) :
    List E → List (Frame α) → List E × List (Frame α)
  | [], out => ([], out)
  | e :: es, out =>
    let r := C.fxStep e out dt info
    let r' := runEffects C dt info es r.2
    (r.1 :: r'.1, r'.2)

/-- the sound loop shared by `Track` and `MainTrack::process`:
    `for (_, sound) in &mut self.sounds { sound.process(&mut temp[..out.len()], dt, info); out += temp;
    temp.fill(ZERO) }` — returns (sounds, out, temp). -/
def runSounds {S E P : Type} (C : Comps α S E P) (dt : α) (info : Info α) :
    List S → List (Frame α) → List (Frame α) → List S × List (Frame α) × List (Frame α)
  | [], out, temp => ([], out, temp)
  | s :: ss, out, temp =>
    let r := C.sndStep s (temp.take out.length) dt info
    let temp1 := writeBack r.2 temp
    let out1 := addInto out temp1
    let temp2 := fillZero temp1
    let r' := runSounds C dt info ss out1 temp2
    (r.1 :: r'.1, r'.2.1, r'.2.2)

/-- mirrors: backend/resources.rs::ResourceStorage::remove_and_add — `drain_filter` then every pending
    resource (FIFO) is inserted at the head of the arena's list. -/
def removeAndAdd {T : Type} (test : T → Bool) (arena pending : List T) : List T :=
  pending.reverse ++ arena.filter (fun x => !test x)

/-- a pending `ValueChangeCommand` is applied with `Parameter::set` (parameter.rs::read_command) -/
def readCommand (p : Parameter α α) (cmd : Option (Value α α × Tween α)) : Parameter α α :=
  match cmd with
  | some c => p.set c.1 c.2
  | none => p

/-! ### send tracks -/

/-- mirrors: track/send.rs::SendTrack (+ the `removed` flag of its `TrackShared` and the pending
    `set_volume` command). `id` stands for the arena key (`SendTrackId`). -/
structure SendTrk (α E : Type) where
  id : Nat
  volume : Parameter α α
  effects : List E
  input : List (Frame α)
  marked : Bool
  cmdVolume : Option (Value α α × Tween α)

namespace SendTrk
variable {S E P : Type}

/-- mirrors: SendTrack::add_input -/
def addInput (t : SendTrk α E) (buf : List (Frame α)) (volumeDb : α) : SendTrk α E :=
  { t with input := addInto t.input (buf.map (fun f => Frame.scale f (asAmplitude volumeDb))) }

/-- mirrors: SendTrack::on_start_processing -/
def onStart (C : Comps α S E P) (t : SendTrk α E) : SendTrk α E :=
  { t with volume := readCommand t.volume t.cmdVolume, cmdVolume := none,
           effects := t.effects.map C.fxStart }

/-- mirrors: SendTrack::process -/
def process (C : Comps α S E P) (t : SendTrk α E) (out : List (Frame α)) (dt : α) (info : Info α) :
    SendTrk α E × List (Frame α) :=
  let n := out.length
  let vol := (t.volume.update tw32 (dt * (KOps.ofNat n : α)) info).1
  let out1 := addInto out t.input
  let input1 := fillZero t.input
  let r := runEffects C dt info t.effects out1
  let out2 := gainLoop (fun tic => asAmplitude (vol.interpolatedValue tw32 tic)) n 0 r.2
  ({ t with volume := vol, input := input1, effects := r.1 }, out2)

end SendTrk

/-- `send_tracks.get_mut(id).map(|t| t.add_input(out, volume))` over the send-track arena -/
def sendsAddInput {E : Type} (sends : List (SendTrk α E)) (id : Nat) (buf : List (Frame α)) (volumeDb : α) :
    List (SendTrk α E) :=
  sends.map (fun s => if s.id = id then s.addInput buf volumeDb else s)

/-- mirrors: track/send.rs::SendTrackRoute (+ its pending `set_volume` command) -/
structure Route (α : Type) where
  to : Nat
  volume : Parameter α α
  cmd : Option (Value α α × Tween α)

/-- the "output to send tracks" loop at the end of `Track::process` -/
def feedSends {E : Type} (routes : List (Route α)) (out : List (Frame α)) (sends : List (SendTrk α E)) :
    List (SendTrk α E) :=
  routes.foldl (fun ss r => sendsAddInput ss r.to out r.volume.value) sends

/-! ### sub-tracks -/

/-- The non-recursive part of track/sub.rs::Track, the two flags of its `TrackShared`
    (`marked` = `removed`, `pubState` = the published `state: AtomicU8`) and its pending commands.
    `id` stands for the identity of the `Arc<TrackShared>` (what a handle refers to). -/
structure TrkData (α S E P : Type) where
  id : Nat
  volume : Parameter α α
  /-- the sound arena in iteration order (newest first) -/
  sounds : List S
  /-- sounds still in the new-resource ring (oldest first) -/
  pendingSounds : List S
  effects : List E
  routes : List (Route α)
  persist : Bool
  spatial : Option P
  psm : Psm α
  temp : List (Frame α)
  marked : Bool
  pubState : Nat
  cmdVolume : Option (Value α α × Tween α)
  cmdPause : Option (Tween α)
  cmdResume : Option (StartTime α × Tween α)

/-- mirrors: track/sub.rs::Track — `children` is the sub-track arena in iteration order (newest
    first), `pending` the sub-tracks still in the new-resource ring (oldest first). -/
inductive Trk (α S E P : Type) where
  | node (d : TrkData α S E P) (children : List (Trk α S E P)) (pending : List (Trk α S E P))

namespace Trk
variable {S E P : Type}

def data : Trk α S E P → TrkData α S E P
  | node d _ _ => d
def children : Trk α S E P → List (Trk α S E P)
  | node _ c _ => c
def pending : Trk α S E P → List (Trk α S E P)
  | node _ _ p => p

/-- mirrors: Track::update_shared_playback_state -/
def publish (d : TrkData α S E P) : TrkData α S E P :=
  { d with pubState := d.psm.playbackState.toNat }

/-- mirrors: Track::read_commands (the spatial commands are read by the hook `Comps.spStart`, see `onStart`) -/
def readCommands (d : TrkData α S E P) : TrkData α S E P :=
  let d1 := { d with volume := readCommand d.volume d.cmdVolume, cmdVolume := none,
                     routes := d.routes.map (fun (r : Route α) => { r with volume := readCommand r.volume r.cmd, cmd := none }) }
  let d2 := match d1.cmdPause with
    | some tw => publish { d1 with psm := d1.psm.pause tw, cmdPause := none }
    | none => d1
  match d2.cmdResume with
  | some c => publish { d2 with psm := d2.psm.resume c.1 c.2, cmdResume := none }
  | none => d2

mutual
/-- mirrors: track/sub.rs::Track::should_be_removed, backend/resources.rs::ResourceStorage::is_empty, backend/resources.rs::ResourceStorage::has_pending
    (`self.sounds.is_empty()`: nothing in the arena and nothing waiting in the new-resource ring;
    `self.sub_tracks.has_pending()`: a sub-track is waiting in the new-resource ring) -/
def shouldBeRemoved : Trk α S E P → Bool
  | node d children pending =>
    -- `self.sub_tracks.has_pending()`
    if !pending.isEmpty then false
    else if anyNotRemovable children then false
    else if d.persist then d.marked && (d.sounds.isEmpty && d.pendingSounds.isEmpty)
    else d.marked
/-- `self.sub_tracks.iter().any(|(_, t)| !t.should_be_removed())` -/
def anyNotRemovable : List (Trk α S E P) → Bool
  | [] => false
  | t :: ts => !shouldBeRemoved t || anyNotRemovable ts
end

mutual
/-- mirrors: Track::on_start_processing -/
def onStart (C : Comps α S E P) : Trk α S E P → Trk α S E P
  | node d children pending =>
    let d1 := readCommands d
    let sounds := (removeAndAdd C.sndFinished d1.sounds d1.pendingSounds).map C.sndStart
    -- `remove_and_add(should_be_removed)` then `on_start_processing` on every sub-track, including
    -- the ones that have just been taken from the ring
    let kept := onStartKept C children
    let added := onStartList C pending
    node { d1 with sounds := sounds, pendingSounds := [], effects := d1.effects.map C.fxStart,
                   spatial := d1.spatial.map C.spStart }
      (added.reverse ++ kept) []
/-- drop the removable sub-tracks, run `on_start_processing` on the others -/
def onStartKept (C : Comps α S E P) : List (Trk α S E P) → List (Trk α S E P)
  | [] => []
  | t :: ts => if shouldBeRemoved t then onStartKept C ts else onStart C t :: onStartKept C ts
/-- `on_start_processing` on every track of a list -/
def onStartList (C : Comps α S E P) : List (Trk α S E P) → List (Trk α S E P)
  | [] => []
  | t :: ts => onStart C t :: onStartList C ts
end

/-- the gain of frame `i` of an `n`-frame chunk: `volume.interpolated_value(t).as_amplitude() *
    fade.interpolated_value(t).as_amplitude()` (an `f32` product) -/
def frameGain (vol : Parameter α α) (psm : Psm α) (tic : α) : α :=
  KOps.r32 (asAmplitude (vol.interpolatedValue tw32 tic) * asAmplitude (psm.interpolatedFadeVolume tic))

/-- "get info" at the top of `Track::process`: a spatial track adds its `SpatialTrackInfo`, any other
    track passes its parent's on -/
def trackInfo (C : Comps α S E P) (d : TrkData α S E P) (parentInfo : Info α) : Info α :=
  match d.spatial with
  | some p => C.spInfo p parentInfo
  | none => parentInfo

/-- the fallback in "update playback state" of `Track::process`: tracks have no stopped state — a
    manager that `update` left Stopped (the awaited clock no longer exists) is marked Paused
    (`if playback_state() == Stopped { mark_as_paused() }`) -/
def pausedIfStopped (m : Psm α) : Psm α :=
  if m.playbackState = .stopped then m.markAsPaused else m

/-- "update volume parameters" and "update playback state" of `Track::process` for a chunk of `n`
    frames (the published state follows the manager when it changes; a track never stays Stopped) -/
def preUpdate (dt : α) (info : Info α) (n : Nat) (d : TrkData α S E P) : TrkData α S E P :=
  let dtn := dt * (KOps.ofNat n : α)
  let vol := (d.volume.update tw32 dtn info).1
  let routes := d.routes.map (fun (r : Route α) => { r with volume := (r.volume.update tw32 dtn info).1 })
  let u := d.psm.update dtn info
  let d1 : TrkData α S E P := { d with volume := vol, routes := routes, psm := u.1 }
  if u.2 then publish { d1 with psm := pausedIfStopped d1.psm } else d1

/-- `self.playback_state_manager.playback_state().is_advancing()` -/
def advancing (d : TrkData α S E P) : Bool := d.psm.playbackState.isAdvancing

/-- the spatialisation hook of `Track::process` -/
def spatialStage (C : Comps α S E P) (dt : α) (info : Info α) (n : Nat) (sp : Option P) (buf : List (Frame α)) :
    Option P × List (Frame α) :=
  match sp with
  | some p => let r := C.spStep p buf (dt * (KOps.ofNat n : α)) info; (some r.1, r.2)
  | none => (none, buf)

/-- the part of `Track::process` after the sub-track loop: sounds, effects, spatialisation, volume and
    pause fade, sends.  `out` already holds the sum of the sub-tracks, `temp` is the scratch buffer. -/
def postChildren (C : Comps α S E P) (dt : α) (info : Info α) (n : Nat) (d : TrkData α S E P)
    (children pending : List (Trk α S E P)) (out temp : List (Frame α)) (sends : List (SendTrk α E)) :
    Trk α S E P × List (Frame α) × List (SendTrk α E) :=
  -- process sounds
  let rs := runSounds C dt info d.sounds out temp
  -- apply effects
  let re := runEffects C dt info d.effects rs.2.1
  -- apply spatialization (hook)
  let rp := spatialStage C dt info n d.spatial re.2
  -- apply volume fade
  let y := gainLoop (frameGain d.volume d.psm) n 0 rp.2
  -- output to send tracks
  (node { d with sounds := rs.1, effects := re.1, spatial := rp.1, temp := rs.2.2 } children pending,
    y, feedSends d.routes y sends)

mutual
/-- mirrors: Track::process.  `out` is the slice lent by the caller; returns the new track, the new
    contents of `out` and the send tracks (whose `input` buffers it feeds). -/
def process (C : Comps α S E P) (dt : α) (parentInfo : Info α) :
    Trk α S E P → List (Frame α) → List (SendTrk α E) → Trk α S E P × List (Frame α) × List (SendTrk α E)
  | node d children pending, out, sends =>
    let info := trackInfo C d parentInfo
    let d2 := preUpdate dt info out.length d
    if !advancing d2 then
      (node d2 children pending, fillZero out, sends)
    else
      -- process sub tracks
      let rc := processChildren C dt info children out d2.temp sends
      postChildren C dt info out.length { d2 with temp := rc.2.2.1 } rc.1 pending rc.2.1 rc.2.2.1 rc.2.2.2
/-- the sub-track loop of `Track::process` (and of `Mixer::process`):
    `for t in children { t.process(&mut temp[..out.len()], …); out += temp; temp.fill(ZERO) }`
    — returns (children, out, temp, sends). -/
def processChildren (C : Comps α S E P) (dt : α) (info : Info α) :
    List (Trk α S E P) → List (Frame α) → List (Frame α) → List (SendTrk α E) →
      List (Trk α S E P) × List (Frame α) × List (Frame α) × List (SendTrk α E)
  | [], out, temp, sends => ([], out, temp, sends)
  | t :: ts, out, temp, sends =>
    let r := process C dt info t (temp.take out.length) sends
    let temp1 := writeBack r.2.1 temp
    let out1 := addInto out temp1
    let temp2 := fillZero temp1
    let r' := processChildren C dt info ts out1 temp2 r.2.2
    (r.1 :: r'.1, r'.2.1, r'.2.2.1, r'.2.2.2)
end

end Trk
end K

/-! ### handle operations (the caller's side)
  mirrors: track/sub/handle.rs::TrackHandle, track.rs::TrackShared.  A handle refers to its track by
  `id`, wherever the track currently is (in an arena or still in a new-resource ring). -/
namespace K

variable {α : Type} [Add α] [Sub α] [Mul α] [Div α] [Neg α] [LT α] [LE α]
  [DecidableLT α] [DecidableLE α] [OfScientific α] [KOps α]

/-- mirrors: track.rs::TrackPlaybackState -/
inductive TrackPlaybackState where
  | playing | pausing | paused | waitingToResume | resuming
deriving DecidableEq, Repr

/-- mirrors: track.rs::TrackShared::state — total: any other byte reads as Paused -/
def decodeTrackState : Nat → TrackPlaybackState
  | 0 => .playing
  | 1 => .pausing
  | 2 => .paused
  | 3 => .waitingToResume
  | 4 => .resuming
  | _ => .paused

namespace Trk
variable {S E P : Type}

mutual
/-- apply `f` to the track with the given id (anywhere in the tree, rings included) -/
def mapAt (id : Nat) (f : Trk α S E P → Trk α S E P) : Trk α S E P → Trk α S E P
  | node d children pending =>
    if d.id = id then f (node d children pending)
    else node d (mapAtList id f children) (mapAtList id f pending)
def mapAtList (id : Nat) (f : Trk α S E P → Trk α S E P) : List (Trk α S E P) → List (Trk α S E P)
  | [] => []
  | t :: ts => mapAt id f t :: mapAtList id f ts
end

mutual
/-- the track with the given id (anywhere in the tree, rings included) -/
def find (id : Nat) : Trk α S E P → Option (Trk α S E P)
  | node d children pending =>
    if d.id = id then some (node d children pending)
    else match findList id children with
      | some t => some t
      | none => findList id pending
def findList (id : Nat) : List (Trk α S E P) → Option (Trk α S E P)
  | [] => none
  | t :: ts => match find id t with
    | some r => some r
    | none => findList id ts
end

def mapData (f : TrkData α S E P → TrkData α S E P) : Trk α S E P → Trk α S E P
  | node d c p => node (f d) c p

/-- mirrors: TrackHandle::set_volume (the command slot keeps the latest write) -/
def hSetVolume (v : Value α α) (tw : Tween α) : Trk α S E P → Trk α S E P :=
  mapData (fun d => { d with cmdVolume := some (v, tw) })
/-- mirrors: TrackHandle::set_send for an existing route -/
def hSetSend (to : Nat) (v : Value α α) (tw : Tween α) : Trk α S E P → Trk α S E P :=
  mapData (fun d => { d with routes := d.routes.map (fun (r : Route α) =>
    if r.to = to then { r with cmd := some (v, tw) } else r) })
/-- mirrors: TrackHandle::pause -/
def hPause (tw : Tween α) : Trk α S E P → Trk α S E P :=
  mapData (fun d => { d with cmdPause := some tw })
/-- mirrors: TrackHandle::resume_at (`resume` = `resume_at(Immediate)`) -/
def hResumeAt (st : StartTime α) (tw : Tween α) : Trk α S E P → Trk α S E P :=
  mapData (fun d => { d with cmdResume := some (st, tw) })
/-- mirrors: TrackHandle::play (push into the sound ring) -/
def hPlay (s : S) : Trk α S E P → Trk α S E P :=
  mapData (fun d => { d with pendingSounds := d.pendingSounds ++ [s] })
/-- mirrors: TrackHandle::add_sub_track (push into the sub-track ring) -/
def hAddSubTrack (child : Trk α S E P) : Trk α S E P → Trk α S E P
  | node d c p => node d c (p ++ [child])
/-- mirrors: `impl Drop for TrackHandle` -/
def hDrop : Trk α S E P → Trk α S E P :=
  mapData (fun d => { d with marked := true })
/-- mirrors: TrackHandle::state -/
def hState (t : Trk α S E P) : TrackPlaybackState := decodeTrackState t.data.pubState
/-- mirrors: TrackHandle::num_sounds (reserved arena slots: inserted + still in the ring) -/
def hNumSounds (t : Trk α S E P) : Nat := t.data.sounds.length + t.data.pendingSounds.length
/-- mirrors: TrackHandle::num_sub_tracks -/
def hNumSubTracks (t : Trk α S E P) : Nat := t.children.length + t.pending.length

/-- mirrors: track/sub/builder.rs::TrackBuilder::build with fixed volumes -/
def build (id : Nat) (volumeDb : α) (effects : List E) (sends : List (Nat × α)) (persist : Bool) (ibs : Nat) :
    Trk α S E P :=
  node { id := id, volume := Parameter.new (.fixed volumeDb) Psm.identityDb,
         sounds := [], pendingSounds := [], effects := effects,
         routes := sends.map (fun s => ⟨s.1, Parameter.new (.fixed s.2) Psm.identityDb, none⟩),
         persist := persist, spatial := none, psm := Psm.new none, temp := zeros ibs,
         marked := false, pubState := PlaybackState.playing.toNat,
         cmdVolume := none, cmdPause := none, cmdResume := none } [] []

end Trk

/-- mirrors: track/send/builder.rs::SendTrackBuilder::build with a fixed volume -/
def SendTrk.build {E : Type} (id : Nat) (volumeDb : α) (effects : List E) (ibs : Nat) : SendTrk α E :=
  { id := id, volume := Parameter.new (.fixed volumeDb) Psm.identityDb, effects := effects,
    input := zeros ibs, marked := false, cmdVolume := none }

end K
