/-
  Probe.lean — the scripted probe sound / effect of the harness (harness/src/probe.rs) as
  instances of the abstract component interface; used by the `mixer` twin and by non-vacuity examples.
  mirrors: harness/src/probe.rs (`ProbeSound`, `ProbeEffect`)
-/
import KiraModel.Model.Mixer

namespace K

variable {α : Type} [Add α] [Sub α] [Mul α] [Div α] [Neg α] [LT α] [LE α]
  [DecidableLT α] [DecidableLE α] [OfScientific α] [KOps α]

/-- mirrors: probe.rs::Signal -/
inductive PSignal (α : Type) where
  | index (base : α)
  | const (left right : α)

/-- mirrors: probe.rs::ProbeSound + its log (slice lengths newest first, on_start_processing count) -/
structure PSnd (α : Type) where
  id : Nat
  signal : PSignal α
  length : Option Nat
  produced : Nat
  slices : List Nat
  starts : Nat

namespace PSnd
/-- the frame a probe sound emits when it has produced `k` frames so far -/
def frameAt (s : PSnd α) (k : Nat) : Frame α :=
  let live := match s.length with
    | some n => decide (k < n)
    | none => true
  if !live then Frame.zero
  else match s.signal with
    | .index base => let v := KOps.r32 (base + KOps.r32 (KOps.ofNat k : α)); ⟨v, v⟩
    | .const l r => ⟨l, r⟩

/-- the per-frame loop of `ProbeSound::process` -/
def fill (s : PSnd α) : Nat → Nat → List (Frame α)
  | _, 0 => []
  | k, n + 1 => s.frameAt k :: fill s (k + 1) n

/-- mirrors: `impl Sound for ProbeSound`::process -/
def step (s : PSnd α) (out : List (Frame α)) (_dt : α) (_info : Info α) : PSnd α × List (Frame α) :=
  ({ s with produced := s.produced + out.length, slices := out.length :: s.slices },
    fill s s.produced out.length)

def start (s : PSnd α) : PSnd α := { s with starts := s.starts + 1 }

def finished (s : PSnd α) : Bool :=
  match s.length with
  | some n => decide (n ≤ s.produced)
  | none => false
end PSnd

/-- mirrors: probe.rs::ProbeEffect + its log -/
structure PFx (α : Type) where
  id : Nat
  gain : α
  offset : α
  feedback : α
  prev : Frame α
  slices : List Nat
  starts : Nat

namespace PFx
/-- one channel of one frame: `x * gain + offset + prev * feedback` in `f32` arithmetic -/
def chan (e : PFx α) (x prev : α) : α :=
  KOps.r32 (KOps.r32 (KOps.r32 (x * e.gain) + e.offset) + KOps.r32 (prev * e.feedback))

/-- the per-frame loop of `ProbeEffect::process` — returns (last output, outputs) -/
def run (e : PFx α) : Frame α → List (Frame α) → Frame α × List (Frame α)
  | prev, [] => (prev, [])
  | prev, f :: fs =>
    let o : Frame α := ⟨e.chan f.left prev.left, e.chan f.right prev.right⟩
    let r := run e o fs
    (r.1, o :: r.2)

/-- mirrors: `impl Effect for ProbeEffect`::process -/
def step (e : PFx α) (input : List (Frame α)) (_dt : α) (_info : Info α) : PFx α × List (Frame α) :=
  let r := e.run e.prev input
  ({ e with prev := r.1, slices := input.length :: e.slices }, r.2)

def start (e : PFx α) : PFx α := { e with starts := e.starts + 1 }
end PFx

/-- the component record of a mixer populated with probe sounds and probe effects (no spatial tracks) -/
def probeComps : Comps α (PSnd α) (PFx α) Unit :=
  { sndStep := PSnd.step, sndStart := PSnd.start, sndFinished := PSnd.finished,
    fxStep := PFx.step, fxStart := PFx.start,
    spStep := fun p out _ _ => (p, out), spInfo := fun _ i => i }

end K
