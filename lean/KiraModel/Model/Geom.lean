/-
  Geom.lean — the plain data records of the spatial model that `Info` has to mention: glam's `Vec3` / `Quat`
  and kira's `ListenerInfo`.  Only the `structure` declarations live here (moved, unchanged, from
  Model/Spatial.lean so that Model/Parameter.lean::Info can carry the listener lookup); every operation on
  them is in Model/Spatial.lean.
-/

namespace K

/-- mirrors: glam::Vec3 -/
structure Vec3 (α : Type) where
  x : α
  y : α
  z : α

/-- mirrors: glam::Quat (lanes x y z w) -/
structure Quat (α : Type) where
  x : α
  y : α
  z : α
  w : α

/-- mirrors: info.rs::ListenerInfo -/
structure ListenerInfo (α : Type) where
  position : Vec3 α
  orientation : Quat α
  previousPosition : Vec3 α
  previousOrientation : Quat α

end K
