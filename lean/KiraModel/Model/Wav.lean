/-
  Wav.lean — PCM WAV: an independent encoder, a model of the decoding path kira uses
  (Symphonia's RIFF/WAVE demuxer + PCM codec, third-party: *modelled, not verified*), the
  sample-conversion spec and kira's frame assembly / static packet loop.

  mirrors: sound/symphonia.rs (load_frames_from_buffer), sound/static_sound/data/from_file.rs
           (from_boxed_media_source), sound/streaming/decoder/symphonia.rs (SymphoniaDecoder);
  models:  symphonia-format-riff 0.5.5 (wave/mod.rs, wave/chunks.rs, common.rs),
           symphonia-codec-pcm 0.5.5 (decode_inner), symphonia-core 0.5.5 conv.rs (→ f32).

  Bytes are `List UInt8`; a *sample code* is the little-endian unsigned value of the bytes of
  one stored sample (two's complement for the signed formats, the IEEE bit pattern for floats).
  Imports only the numeric interface and `Frame` (core Lean, no Mathlib).
-/
import KiraModel.Num
import KiraModel.Model.Units

namespace K
namespace Wav

/-! ## sample formats -/

/-- the six PCM encodings of the property (WAVE_FORMAT_PCM 8/16/24/32, IEEE_FLOAT 32/64) -/
inductive Fmt where
  | u8 | s16 | s24 | s32 | f32 | f64
deriving DecidableEq, Repr

def Fmt.bytes : Fmt → Nat
  | .u8 => 1 | .s16 => 2 | .s24 => 3 | .s32 => 4 | .f32 => 4 | .f64 => 8

def Fmt.bits (f : Fmt) : Nat := 8 * f.bytes

/-- WAVE format tag: 1 = PCM, 3 = IEEE float -/
def Fmt.tag : Fmt → Nat
  | .f32 => 3 | .f64 => 3 | _ => 1

/-- models: wave/chunks.rs::read_pcm_fmt / read_ieee_fmt (codec selection by tag and bits per sample) -/
def Fmt.ofTagBits (tag bits : Nat) : Option Fmt :=
  if tag = 1 then
    (if bits = 8 then some .u8 else if bits = 16 then some .s16
     else if bits = 24 then some .s24 else if bits = 32 then some .s32 else none)
  else if tag = 3 then
    (if bits = 32 then some .f32 else if bits = 64 then some .f64 else none)
  else none

/-- what a WAV file says about itself -/
structure Spec where
  fmt : Fmt
  channels : Nat
  rate : Nat
deriving DecidableEq, Repr

/-! ## little-endian bytes -/

/-- `k` little-endian bytes of `v` (truncating) -/
def leBytes : Nat → Nat → List UInt8
  | 0, _ => []
  | k + 1, v => UInt8.ofNat (v % 256) :: leBytes k (v / 256)

/-- little-endian value of a byte string -/
def leVal : List UInt8 → Nat
  | [] => 0
  | b :: bs => b.toNat + 256 * leVal bs

def tagRIFF : List UInt8 := [0x52, 0x49, 0x46, 0x46]
def tagWAVE : List UInt8 := [0x57, 0x41, 0x56, 0x45]
def tagFmt : List UInt8 := [0x66, 0x6d, 0x74, 0x20]
def tagData : List UInt8 := [0x64, 0x61, 0x74, 0x61]

/-! ## the encoder (independent of the decoding path) -/

/-- sample codes → interleaved little-endian bytes -/
def encodeData (f : Fmt) : List Nat → List UInt8
  | [] => []
  | c :: cs => leBytes f.bytes c ++ encodeData f cs

/-- the canonical 44-byte RIFF/WAVE header: `fmt ` chunk of 16 bytes, then the `data` chunk header -/
def header (s : Spec) (dataLen : Nat) : List UInt8 :=
  tagRIFF ++ (leBytes 4 (36 + dataLen + dataLen % 2) ++ (tagWAVE ++ (tagFmt ++ (leBytes 4 16 ++
  (leBytes 2 s.fmt.tag ++ (leBytes 2 s.channels ++ (leBytes 4 s.rate ++
  (leBytes 4 (s.rate * (s.channels * s.fmt.bytes)) ++ (leBytes 2 (s.channels * s.fmt.bytes) ++
  (leBytes 2 s.fmt.bits ++ (tagData ++ leBytes 4 dataLen)))))))))))

/-- RIFF pad byte after an odd-sized data chunk -/
def pad (dataLen : Nat) : List UInt8 := if dataLen % 2 = 1 then [0] else []

/-- a complete PCM WAV file for interleaved sample codes -/
def encode (s : Spec) (codes : List Nat) : List UInt8 :=
  header s (encodeData s.fmt codes).length ++ (encodeData s.fmt codes ++ pad (encodeData s.fmt codes).length)

/-- the spec fits the header's field widths (16-bit channel count and block size, 32-bit rate) -/
def Spec.Valid (s : Spec) : Prop :=
  1 ≤ s.channels ∧ s.channels * s.fmt.bytes < 65536 ∧ s.rate < 4294967296

/-! ## the demuxer model (Symphonia `WavReader`) -/

/-- error kinds of `FromFileError` as far as this path can produce them; `panic` is the
    `TimeBase::new(1, 0)` panic inside Symphonia for a zero sample rate. -/
inductive Err where
  | chan     -- UnsupportedChannelConfiguration
  | rate     -- UnknownSampleRate (also used by kira for an unknown frame count)
  | sym      -- SymphoniaError(_) (decode / unsupported / io / seek)
  | panic    -- the real code panics
  | hang     -- fuel exhausted (never happens: see `loadLoop_fuel`)
deriving DecidableEq, Repr

/-- contents of the `fmt ` chunk that the decoding path uses -/
structure FmtChunk where
  fmt : Fmt
  channels : Nat
  rate : Nat
  blockAlign : Nat
deriving DecidableEq, Repr

/-- models: symphonia_core ReadBytes: take `n` bytes or fail with an I/O error -/
def splitN (n : Nat) (bs : List UInt8) : Option (List UInt8 × List UInt8) :=
  if (bs.take n).length < n then none else some (bs.take n, bs.drop n)

/-- models: wave/chunks.rs::WaveFormatChunk::parse (+ read_pcm_fmt, read_ieee_fmt, common.rs
    try_channel_count_to_mask, append_format_params).  `len` is the chunk length; returns the
    chunk and the bytes after it.  Format tags other than PCM / IEEE float are rejected (exact for
    chunk lengths < 20, which is all a single-point mutation of a canonical file can produce). -/
def parseFmt (len : Nat) (bs : List UInt8) : Except Err (FmtChunk × List UInt8) :=
  if len < 16 then .error .sym else
  match splitN 16 bs with
  | none => .error .sym
  | some (h, rest) =>
    let tag := leVal (h.take 2)
    let channels := leVal ((h.drop 2).take 2)
    let rate := leVal ((h.drop 4).take 4)
    let blockAlign := leVal ((h.drop 12).take 2)
    let bits := leVal ((h.drop 14).take 2)
    if tag ≠ 1 ∧ tag ≠ 3 then .error .sym else
    -- extension bytes by chunk length (16: none, 18: a 2-byte size field, 40: 24 bytes)
    let extra : Option Nat := if len = 16 then some 0 else if len = 18 then some 2
                              else if len = 40 then some 24 else none
    match extra with
    | none => .error .sym
    | some ex =>
      -- PCM: a short read is an error; IEEE with len 40 ignores the result of `ignore_bytes`
      let rest? : Option (List UInt8) :=
        if tag = 3 ∧ len = 40 then some (rest.drop ex)
        else (splitN ex rest).map (·.2)
      match rest? with
      | none => .error .sym
      | some rest' =>
        if tag = 3 ∧ len = 18 ∧ leVal (rest.take 2) ≠ 0 then .error .sym else
        match Fmt.ofTagBits tag bits with
        | none => .error .sym
        | some f =>
          -- try_channel_count_to_mask: 1..=32 and all mask bits known (26 positions)
          if channels < 1 ∨ 26 < channels then .error .sym
          -- append_format_params: TimeBase::new(1, sample_rate) panics for 0
          else if rate = 0 then .error .panic
          else .ok (⟨f, channels, rate, blockAlign⟩, rest')

/-- the demuxer after `try_new`: format (if a `fmt ` chunk was seen), declared data length, and
    the bytes physically present after the `data` chunk header -/
structure Reader where
  fmt : Option FmtChunk
  dataLen : Nat
  data : List UInt8
deriving Repr

/-- models: common.rs::ChunksReader::next as driven by wave/mod.rs::WavReader::try_new.
    `riffLen` is the RIFF chunk length field, `consumed` the reader's running count.
    (`LIST`/`fact` chunks are treated as unknown chunks: the encoder never writes them.) -/
def chunkLoop : Nat → Nat → Nat → Option FmtChunk → List UInt8 → Except Err Reader
  | 0, _, _, _, _ => .error .hang
  | fuel + 1, riffLen, consumed, fmt, bs =>
    -- align to a 2-byte boundary
    let aligned : Option (List UInt8 × Nat) :=
      if consumed % 2 = 1 then (splitN 1 bs).map (fun p => (p.2, consumed + 1)) else some (bs, consumed)
    match aligned with
    | none => .error .sym
    | some (bs, consumed) =>
      if consumed + 8 > riffLen then .error .sym else   -- "missing data chunk"
      match splitN 8 bs with
      | none => .error .sym
      | some (h, rest) =>
        let tag := h.take 4
        let len := leVal (h.drop 4)
        let consumed := consumed + 8
        if riffLen - consumed < len ∧ ¬ (riffLen = len ∧ len = 4294967295) then .error .sym else
        let consumed := min (consumed + len) 4294967295
        if tag = tagFmt then
          match parseFmt len rest with
          | .error e => .error e
          | .ok (fc, rest') => chunkLoop fuel riffLen consumed (some fc) rest'
        else if tag = tagData then .ok ⟨fmt, len, rest⟩
        else
          match splitN len rest with
          | none => .error .sym
          | some (_, rest') => chunkLoop fuel riffLen consumed fmt rest'

/-- models: wave/mod.rs::WavReader::try_new (after the probe has matched `RIFF`) -/
def parse (bs : List UInt8) : Except Err Reader :=
  match splitN 12 bs with
  | none => .error .sym
  | some (h, rest) =>
    if h.take 4 ≠ tagRIFF then .error .sym
    else if h.drop 8 ≠ tagWAVE then .error .sym
    else chunkLoop (bs.length + 1) (leVal ((h.drop 4).take 4)) 0 none rest

/-- models: common.rs MAX_FRAMES_PER_PACKET -/
def maxFramesPerPacket : Nat := 1152

/-- result of `next_packet` -/
inductive Next where
  | packet (bytes : List UInt8) (pos' : Nat)
  | eof            -- IoError(UnexpectedEof): end of the data chunk, or no byte left in the file
  | err            -- any other error
deriving Repr

/-- models: common.rs::next_packet; `pos` is the byte offset in the data chunk.
    `read_boxed_slice` returns *up to* `len` bytes (a short packet when the file is shorter than
    its header declares) and fails with end-of-stream only when no byte is left. -/
def nextPacket (blockAlign dataLen : Nat) (data : List UInt8) (pos : Nat) : Next :=
  if blockAlign = 0 then .err else
  let blocksLeft := if pos < dataLen then (dataLen - pos) / blockAlign else 0
  if blocksLeft = 0 then .eof else
  let len := (min blocksLeft maxFramesPerPacket) * blockAlign
  let b := (data.drop pos).take len
  if b.isEmpty then .eof else .packet b (pos + b.length)

/-- models: common.rs::PacketInfo::get_frames (`n_frames` of the track) -/
def numFrames (blockAlign dataLen : Nat) : Nat := dataLen / blockAlign

/-- models: wave/mod.rs::WavReader::seek: `none` = SeekError(OutOfRange), else
    (the packet-aligned timestamp reached, the new byte offset) -/
def seekPos (blockAlign dataLen ts : Nat) : Option (Nat × Nat) :=
  if blockAlign = 0 then none
  else if ts > numFrames blockAlign dataLen then none
  else
    let actual := ts / maxFramesPerPacket * maxFramesPerPacket
    some (actual, actual * blockAlign)

/-! ## the PCM codec model and the conversion to `f32` -/

/-- read up to `n` samples of `k` bytes each -/
def readSamples (k : Nat) : Nat → List UInt8 → List Nat
  | 0, _ => []
  | n + 1, bs =>
    if (bs.take k).length < k then [] else leVal (bs.take k) :: readSamples k n (bs.drop k)

/-- read up to `n` frames of `ch` samples of `k` bytes each; a partial last frame is dropped.
    models: symphonia-codec-pcm decode_inner (`buf.fill` stops at the first short read; the
    error is discarded) with buffer capacity `n` -/
def readFrames (k ch : Nat) : Nat → List UInt8 → List (List Nat)
  | 0, _ => []
  | n + 1, bs =>
    if (bs.take (ch * k)).length < ch * k then []
    else readSamples k ch (bs.take (ch * k)) :: readFrames k ch n (bs.drop (ch * k))

/-- the file-level decoder: what a WAV file says (spec) and the sample codes of its data chunk.
    (`parse` is the demuxer model, `readSamples` the codec's sample reader.) -/
def decodeFile (bs : List UInt8) : Option (Spec × List Nat) :=
  match parse bs with
  | .ok ⟨some fc, dataLen, data⟩ =>
    some (⟨fc.fmt, fc.channels, fc.rate⟩, readSamples fc.fmt.bytes (dataLen / fc.fmt.bytes) (data.take dataLen))
  | _ => none

/-- two's complement value of a `bits`-bit code -/
def toSigned (bits code : Nat) : Int :=
  if code < 2 ^ (bits - 1) then (code : Int) else (code : Int) - (2 ^ bits : Nat)

/-- the code of a signed value -/
def ofSigned (bits : Nat) (x : Int) : Nat := (x % ((2 ^ bits : Nat) : Int)).toNat

end Wav

variable {α : Type} [Add α] [Sub α] [Mul α] [Div α] [Neg α] [LT α] [LE α]
  [DecidableLT α] [DecidableLE α] [OfScientific α] [KOps α]

namespace Wav

/-- `i as f32` / `i as f64` for the integers that occur (|i| ≤ 2^31: exact) -/
def ofInt (i : Int) : α := if i < 0 then -(KOps.ofNat i.natAbs : α) else (KOps.ofNat i.natAbs : α)

/-- how IEEE bit patterns are read (the twin: `Float32.ofBits` / `Float.ofBits`; the theorems:
    any function) -/
structure FloatDec (α : Type) where
  f32 : Nat → α
  f64 : Nat → α

/-- models: symphonia_core conv.rs `impl_convert!(u8|i16|i24|i32|f32|f64, f32, …)` as reached
    through sound/symphonia.rs `(*sample).into_sample()`:
    u8 ↦ x/128 − 1, i16 ↦ x/2¹⁵, i24 ↦ x/2²³, i32 ↦ (x as f64 / 2³¹) as f32, f32 ↦ x, f64 ↦ x as f32 -/
def convSample (fd : FloatDec α) : Fmt → Nat → α
  | .u8, c => KOps.r32 (KOps.r32 ((KOps.ofNat c : α) / (128.0 : α)) - (1.0 : α))
  | .s16, c => KOps.r32 ((ofInt (toSigned 16 c) : α) / (32768.0 : α))
  | .s24, c => KOps.r32 ((ofInt (toSigned 24 c) : α) / (8388608.0 : α))
  | .s32, c => KOps.r32 ((ofInt (toSigned 32 c) : α) / (2147483648.0 : α))
  | .f32, c => fd.f32 c
  | .f64, c => KOps.r32 (fd.f64 c)

/-- mirrors: sound/symphonia.rs::load_frames_from_buffer for one frame of `samples`:
    1 channel → duplicated, 2 → paired, otherwise UnsupportedChannelConfiguration.
    (`channels` is the buffer's channel count; each decoded frame has that many samples.) -/
def assembleFrame (channels : Nat) (samples : List α) : Except Err (Frame α) :=
  match channels, samples with
  | 1, [m] => .ok ⟨m, m⟩
  | 2, [l, r] => .ok ⟨l, r⟩
  | _, _ => .error .chan

/-- mirrors: sound/symphonia.rs::load_frames_from_buffer (whole buffer) -/
def assemble (channels : Nat) (frames : List (List α)) : Except Err (List (Frame α)) :=
  if channels = 1 ∨ channels = 2 then frames.mapM (assembleFrame channels) else .error .chan

/-- `decoder.decode(&packet)` then `load_frames_from_buffer_ref`: the frames of one packet -/
def decodePacket (fd : FloatDec α) (fc : FmtChunk) (bytes : List UInt8) : Except Err (List (Frame α)) :=
  assemble fc.channels
    ((readFrames fc.fmt.bytes fc.channels maxFramesPerPacket bytes).map (·.map (convSample fd fc.fmt)))

/-! ## kira's static loader -/

/-- mirrors: from_file.rs::from_boxed_media_source — the packet loop.  `next` is the demuxer
    (`format_reader.next_packet()`), `dec` is `decoder.decode` + `load_frames_from_buffer_ref`.
    The loop ends at the first error of `next`: end-of-stream (`UnexpectedEof`) returns the frames
    so far, any other error is returned; a decode/convert error is returned at once. -/
def loadLoop {σ π : Type} (next : σ → Except Bool (π × σ)) (dec : π → Except Err (List (Frame α))) :
    Nat → σ → List (Frame α) → Except Err (List (Frame α))
  | 0, _, _ => .error .hang
  | fuel + 1, s, acc =>
    match next s with
    | .ok (p, s') =>
      match dec p with
      | .ok fs => loadLoop next dec fuel s' (acc ++ fs)
      | .error e => .error e
    | .error true => .ok acc          -- IoError(UnexpectedEof) ⇒ break
    | .error false => .error .sym     -- any other error ⇒ return Err

/-- the WAV demuxer as a packet source for `loadLoop` -/
def wavNext (fc : FmtChunk) (r : Reader) (pos : Nat) : Except Bool (List UInt8 × Nat) :=
  match nextPacket fc.blockAlign r.dataLen r.data pos with
  | .packet b p' => .ok (b, p')
  | .eof => .error true
  | .err => .error false

/-- mirrors: from_file.rs::from_boxed_media_source on a byte string that the probe recognises
    as RIFF/WAVE: (sample rate, frames) or the error kind -/
def loadStatic (fd : FloatDec α) (bytes : List UInt8) : Except Err (Nat × List (Frame α)) :=
  match parse bytes with
  | .error e => .error e
  | .ok r =>
    match r.fmt with
    | none => .error .rate            -- codec_params.sample_rate = None ⇒ UnknownSampleRate
    | some fc =>
      match loadLoop (wavNext fc r) (decodePacket fd fc) (r.data.length + 2) 0 [] with
      | .ok fs => .ok (fc.rate, fs)
      | .error e => .error e

end Wav
end K
