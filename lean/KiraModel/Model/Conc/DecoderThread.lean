/-
  Conc/DecoderThread.lean — a streaming sound as a labelled transition system over three threads:
    * the decoder thread (`DecodeScheduler::start`): one label = one atomic stretch of its loop
      (a whole `run()` with the `Ok` arm; on `Err`: the error push; the flag store and the `break`);
    * the audio thread: the owning track's `on_start_processing` for this sound (unload when
      `finished()`, otherwise `Sound::on_start_processing`) and `process` on a chunk;
    * the gameplay thread: handle commands, `pop_error`, dropping the handle;
    * the track side: the sound is *abandoned* — `play` was refused by a full track (`into_sound` had
      already spawned the thread), or the track / manager owning it was dropped: the `Box<dyn Sound>` is
      dropped and never processed again.
  The steps are the functions of `Model/StreamingSound.lean` (what the twin runs), nothing is re-modelled.

  mirrors: sound/streaming/sound/decode_scheduler.rs::DecodeScheduler::start (the thread loop),
           sound/streaming/data.rs::into_sound, track/main.rs::on_start_processing + process (sounds part),
           track/main/handle.rs::play, track/sub/handle.rs::play, sound/streaming/handle.rs
  All kira atomics are SeqCst and rtrb is a linearizable SPSC queue: sequentially consistent interleaving
  of these labels (DESIGN §2.4).
-/
import KiraModel.Model.StreamingSound

namespace K
namespace DT

open Wav (Err)
open Dec (Decoder)
open Streaming

variable {α : Type} [Add α] [Sub α] [Mul α] [Div α] [Neg α] [LT α] [LE α]
  [DecidableLT α] [DecidableLE α] [OfScientific α] [KOps α]
variable {σ : Type}

/-- program counter of the decoder thread (`std::thread::spawn(move || loop { … })`) -/
inductive Pc where
  /-- at the top of the loop (yield point `decoder.loop.top`) -/
  | top
  /-- `run()` returned `Err(e)`; before `error_producer.push` (yield point `decoder.loop.before_error_push`) -/
  | errPending (e : Err)
  /-- the error was pushed; before `encountered_error.store(true)` and the `break` that follows it -/
  | flagPending
  /-- `break`: the closure returned, the scheduler (decoder, both producers) is dropped -/
  | ended
  /-- a panic inside `run()` unwound the thread (the scheduler is dropped as well) -/
  | panicked
deriving DecidableEq, Repr

/-- where the `Box<dyn Sound>` is -/
inductive Place where
  /-- owned by a live track (in its new-sound ring or its arena): `on_start_processing` / `process` get called -/
  | inTrack
  /-- dropped without being unloaded by `finished()`: refused by a full track, or discarded with its
      track / manager — the consumer end of the frame ring is gone (`sys.soundDropped`), nothing is ever
      processed again -/
  | abandoned
  /-- removed by its track's `remove_and_add(|s| s.finished())` (a finished sound is Stopped: the decoder thread
      ends on that, whenever the box itself is freed) -/
  | unloaded
deriving DecidableEq, Repr

/-- state of the system; `slept`, `iters`, `firstErr`, `pops` are ghost (nothing branches on them) -/
structure St (σ α : Type) where
  sys : Sys σ α
  pc : Pc
  place : Place
  /-- the `StreamingSoundHandle` still exists -/
  handle : Bool
  /-- ghost: completed loop iterations of the decoder thread -/
  iters : Nat
  /-- ghost: how many of them slept (`NextStep::Wait`) -/
  slept : Nat
  /-- ghost: the first error `run()` ever returned -/
  firstErr : Option Err
  /-- ghost: successful `pop_error` calls -/
  pops : Nat

/-- the state right after `StreamingSoundData::into_sound` / `split` + `start` -/
def St.init (sys : Sys σ α) : St σ α :=
  { sys := sys, pc := .top, place := .inTrack, handle := true, iters := 0, slept := 0, firstErr := none, pops := 0 }

inductive Label (α : Type) where
  /-- the decoder thread's next atomic stretch -/
  | dStep
  /-- the owning track's `on_start_processing`, as far as this sound is concerned -/
  | aStart
  /-- `Sound::process` on `len` frames -/
  | aProcess (len : Nat) (dt : α) (info : Info α)
  /-- a command-writing handle method -/
  | hCmd (c : Command α)
  | hPopError
  /-- the handle is dropped -/
  | hDrop
  /-- the sound is refused by a full track / discarded with its track or manager -/
  | abandon

/-- the decoder thread's step -/
def dStep (D : Decoder σ α) (fuel : Nat) (l : St σ α) : Option (St σ α) :=
  match l.pc with
  | .top =>
    let r := Sys.run D fuel l.sys
    match r.1 with
    | .ok .continue => some { l with sys := r.2, iters := l.iters + 1 }
    | .ok .wait => some { l with sys := r.2, iters := l.iters + 1, slept := l.slept + 1 }
    | .ok .end => some { l with sys := r.2, pc := .ended, iters := l.iters + 1 }
    | .err e => some { l with sys := r.2, pc := .errPending e
                              firstErr := match l.firstErr with | some f => some f | none => some e }
    | .fault _ => some { l with sys := r.2, pc := .panicked }
  | .errPending e => some { l with sys := l.sys.pushError e, pc := .flagPending }
  | .flagPending => some { l with sys := l.sys.setErrorFlag, pc := .ended, iters := l.iters + 1 }
  | .ended => none
  | .panicked => none

/-- one transition; `none` = the label is not enabled in this state (or the audio thread faults,
    which in-domain states never do) -/
def step (D : Decoder σ α) (fuel : Nat) (l : St σ α) : Label α → Option (St σ α)
  | .dStep => dStep D fuel l
  | .aStart =>
    if l.place = .inTrack then
      if l.sys.finished then some { l with place := .unloaded }
      else some { l with sys := l.sys.onStartProcessing }
    else none
  | .aProcess len dt info =>
    if l.place = .inTrack then
      match l.sys.process fuel len dt info with
      | .ok (s', _) => some { l with sys := s' }
      | .error _ => none
    else none
  | .hCmd c => if l.handle then some { l with sys := l.sys.write c } else none
  | .hPopError =>
    if l.handle then
      let r := l.sys.popError
      some { l with sys := r.2, pops := if r.1.isSome then l.pops + 1 else l.pops }
    else none
  | .hDrop => if l.handle then some { l with handle := false } else none
  | .abandon =>
    if l.place = .inTrack then some { l with place := .abandoned, sys := { l.sys with soundDropped := true } } else none

/-- run a schedule (labels that are not enabled are skipped) -/
def runSched (D : Decoder σ α) (fuel : Nat) (l : St σ α) : List (Label α) → St σ α
  | [] => l
  | x :: xs => runSched D fuel ((step D fuel l x).getD l) xs

/-- states reachable from a freshly split sound -/
inductive Reachable (D : Decoder σ α) (fuel : Nat) (sys0 : Sys σ α) : St σ α → Prop where
  | init : Reachable D fuel sys0 (St.init sys0)
  | step {l l' : St σ α} (x : Label α) : Reachable D fuel sys0 l → step D fuel l x = some l' →
      Reachable D fuel sys0 l'

/-- the decoder thread advanced to its next *gate* (a yield point of the real code: `decoder.loop.top` or
    `decoder.loop.before_error_push`): what one `tstep` of the harness does -/
def gateStep (D : Decoder σ α) (fuel : Nat) (l : St σ α) : St σ α :=
  match dStep D fuel l with
  | none => l
  | some l1 =>
    match l1.pc with
    | .flagPending => (dStep D fuel l1).getD l1
    | _ => l1

end DT
end K
