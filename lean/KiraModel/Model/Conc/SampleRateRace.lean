/-
  SampleRateRace.lean — which sample rate each track's effects believe in, under every
  interleaving of the gameplay thread's add-track path with the audio thread's rate change and pickup.
  mirrors: manager.rs::{add_sub_track, add_spatial_sub_track, add_send_track},
           track/sub/handle.rs::{add_sub_track, add_spatial_sub_track} (load sample rate → init_effects → enqueue),
           backend/renderer.rs::Renderer::on_change_sample_rate, backend/resources/mixer.rs::Mixer::on_change_sample_rate,
           track/sub.rs::Track::on_change_sample_rate (arena contents only, recursively — never the new-resource rings),
           backend/resources.rs::ResourceStorage::remove_and_add (pickup).
  A track is abstracted to the rate its effects were last told (`init` or `on_change_sample_rate`) and
  whether the audio thread owns it yet (in an arena) or it still sits in a new-resource ring.
  A child can only be in an arena if its parent is, so ownership of a track does not depend on the tree shape.
-/

namespace K.SR

structure Trk where
  /-- the sample rate the track's effects were last initialised / notified with -/
  known : Nat
  /-- owned by the audio thread (in an arena) — otherwise still in a new-resource ring -/
  inArena : Bool
deriving DecidableEq, Repr

structure State where
  /-- `RendererShared::sample_rate`: the rate in force -/
  rate : Nat
  /-- tracks in creation order -/
  tracks : List Trk
  /-- gameplay thread in the middle of an add-track call: effects initialised with this rate, not yet enqueued -/
  building : Option Nat
deriving DecidableEq, Repr

def init (rate : Nat) : State := ⟨rate, [], none⟩

/-- one atomic action of one thread -/
inductive Label where
  /-- gameplay: `track.init_effects(sample_rate.load())` -/
  | gLoadInit
  /-- gameplay: push the built track into the new-resource ring -/
  | gEnqueue
  /-- audio/backend: `Renderer::on_change_sample_rate(r)` -/
  | aChange (r : Nat)
  /-- audio: `on_start_processing` picks up every pending track (recursively) -/
  | aPickup
deriving Repr

def step (s : State) : Label → Option State
  | .gLoadInit => if s.building.isNone then some { s with building := some s.rate } else none
  | .gEnqueue =>
    match s.building with
    | some r => some { s with tracks := s.tracks ++ [⟨r, false⟩], building := none }
    | none => none
  | .aChange r =>
    some { s with rate := r, tracks := s.tracks.map (fun t => if t.inArena then { t with known := r } else t) }
  | .aPickup => some { s with tracks := s.tracks.map (fun t => { t with inArena := true }) }

/-- run a schedule (stops at the first disabled action) -/
def run (s : State) : List Label → Option State
  | [] => some s
  | l :: ls => (step s l).bind (fun s' => run s' ls)

/-- what the property demands: every effect the audio thread processes knows the rate in force -/
def AllCurrent (s : State) : Prop := ∀ t ∈ s.tracks, t.inArena = true → t.known = s.rate

/-- nothing is in flight between the two threads -/
def Quiescent (s : State) : Prop := s.building = none ∧ ∀ t ∈ s.tracks, t.inArena = true

/-- the restricted system in which a rate change only happens when nothing is in flight -/
def stepQuiet (s : State) (l : Label) : Option State :=
  match l with
  | .aChange _ => if s.building.isNone && s.tracks.all (·.inArena) then step s l else none
  | _ => step s l

end K.SR
