/-
  Conc/ClockShared.lean — the cross-thread protocol of a clock's published time, as a labelled
  transition system over sequentially consistent atomic steps.
  mirrors: clock.rs (`ClockShared.{ticks, fractional_position}`, `Clock::update_shared`,
           `Clock::reset`), clock/handle.rs (`ClockHandle::time`, `ClockHandle::stop`)

  Two threads:
  * the audio thread: `update_shared` = `ticks.store(t)` ; `fractional_position.store(f)` for the
    clock's current value `(t, f)` (two separate atomic steps), and `reset` = `ticks.store(0)`;
  * the caller's thread (owner of the `ClockHandle`; `time` takes `&self`, `stop` takes `&mut self`,
    so one sequential program): `time()` = `ticks.load()` ; `fractional_position.load()`, and
    `stop()` = `ticks.store(0)` ; `fractional_position.store(0.0)`.
  `φ` is the type of the fraction word (any type: the steps only move values around).
  Ghost fields record which values the clock / each word has had, for the statements in Props/C05.
-/

namespace K.Conc

/-- program counter of the caller's thread -/
inductive CallerPc where
  | idle
  /-- inside `time()`: ticks loaded; `good` = the two words were a published pair at that moment
      and no writer has stepped since -/
  | gotTicks (t : Nat) (good : Bool)
  /-- inside `stop()`: ticks stored; `untouched` = the audio thread has not stored since -/
  | stopMid (untouched : Bool)
deriving DecidableEq, Repr

/-- every step of a writer spoils a read / a `stop()` that is in progress on the caller's side -/
def CallerPc.taint : CallerPc → CallerPc
  | .idle => .idle
  | .gotTicks t _ => .gotTicks t false
  | .stopMid _ => .stopMid false

/-- atomic actions -/
inductive Lbl (φ : Type) where
  /-- audio thread, `update_shared` first store; `(t, f)` is the clock's value being published -/
  | audStoreTicks (t : Nat) (f : φ)
  /-- audio thread, `update_shared` second store -/
  | audStoreFrac
  /-- audio thread, `Clock::reset`: `ticks.store(0)` -/
  | audReset
  /-- caller, `stop()` first store -/
  | stopStoreTicks
  /-- caller, `stop()` second store -/
  | stopStoreFrac
  /-- caller, `time()` first load -/
  | loadTicks
  /-- caller, `time()` second load (completes a read) -/
  | loadFrac

structure CS (φ : Type) where
  /-- `ClockShared.ticks` -/
  ticks : Nat
  /-- `ClockShared.fractional_position` -/
  frac : φ
  /-- audio thread inside `update_shared`: the value being published, and whether no other writer
      has stored since the first store -/
  aud : Option (Nat × φ × Bool)
  caller : CallerPc
  /-- ghost: the two words are known to be a pair the clock had (no publication in progress or
      interleaved with another writer's) -/
  pairOK : Bool
  /-- ghost: every value the clock has had (initial value, every published value, zero after a
      reset / stop), newest first -/
  hist : List (Nat × φ)
  /-- ghost: every value the ticks word has had -/
  ticksHist : List Nat
  /-- ghost: every value the fraction word has had -/
  fracHist : List φ
  /-- completed `time()` calls, newest first, with the `good` flag of the read -/
  reads : List (Nat × φ × Bool)

variable {φ : Type}

/-- mirrors: clock.rs::ClockShared::new (`z` is the fraction word of 0.0) -/
def CS.init (z : φ) : CS φ :=
  { ticks := 0, frac := z, aud := none, caller := .idle, pairOK := true,
    hist := [(0, z)], ticksHist := [0], fracHist := [z], reads := [] }

def taintAud : Option (Nat × φ × Bool) → Option (Nat × φ × Bool)
  | none => none
  | some (t, f, _) => some (t, f, false)

/-- one atomic step (`none` = the label is not enabled in this state) -/
def CS.step (z : φ) (s : CS φ) : Lbl φ → Option (CS φ)
  | .audStoreTicks t f =>
    match s.aud with
    | some _ => none
    | none => some { s with ticks := t, aud := some (t, f, true), pairOK := false,
                            hist := (t, f) :: s.hist, ticksHist := t :: s.ticksHist,
                            caller := s.caller.taint }
  | .audStoreFrac =>
    match s.aud with
    | none => none
    | some (_, f, u) => some { s with frac := f, aud := none, pairOK := u,
                                      fracHist := f :: s.fracHist, caller := s.caller.taint }
  | .audReset =>
    match s.aud with
    | some _ => none
    | none => some { s with ticks := 0, pairOK := false, hist := (0, z) :: s.hist,
                            ticksHist := 0 :: s.ticksHist, caller := s.caller.taint }
  | .stopStoreTicks =>
    match s.caller with
    | .idle => some { s with ticks := 0, caller := .stopMid true, pairOK := false,
                             hist := (0, z) :: s.hist, ticksHist := 0 :: s.ticksHist,
                             aud := taintAud s.aud }
    | _ => none
  | .stopStoreFrac =>
    match s.caller with
    | .stopMid u => some { s with frac := z, caller := .idle, pairOK := u,
                                  fracHist := z :: s.fracHist, aud := taintAud s.aud }
    | _ => none
  | .loadTicks =>
    match s.caller with
    | .idle => some { s with caller := .gotTicks s.ticks s.pairOK }
    | _ => none
  | .loadFrac =>
    match s.caller with
    | .gotTicks t g => some { s with caller := .idle, reads := (t, s.frac, g) :: s.reads }
    | _ => none

/-- a schedule: a sequence of atomic steps -/
def CS.run (z : φ) (s : CS φ) : List (Lbl φ) → Option (CS φ)
  | [] => some s
  | l :: rest =>
    match s.step z l with
    | none => none
    | some s' => CS.run z s' rest

/-- states reachable from `init` by any interleaving -/
inductive CS.Reachable (z : φ) : CS φ → Prop where
  | init : CS.Reachable z (CS.init z)
  | step {s s' : CS φ} (l : Lbl φ) : CS.Reachable z s → s.step z l = some s' → CS.Reachable z s'

end K.Conc
