/-
  Conc/ResourceHandshake.lean — the two-thread protocol of backend/resources.rs as a labelled
  transition system over the primitive steps of `Model/ResourceStorage.lean`.

  gameplay thread (one creation in flight per controller: every caller holds `&mut`):
      try_reserve → (pop unused)* → push new            [manager.rs add_*/play, resources.rs insert_with_key]
      set the `removed` flag of a resource               [handle Drop impls]
  audio thread (`remove_and_add` inside `on_start_processing`):
      for each slot in iteration order: test; remove from the arena (slot freed) ; push unused
      (pop new ; insert_with_key)*

  One label = one atomic action (one controller operation, one ring push/pop, one flag store).
  With `atomicRemove = true` the removal of a resource from the arena and its push onto the
  unused ring form a single step (the granularity of the yield sites in /repo); with `false`
  they are two steps, as in the code.  Core Lean only.
-/
import KiraModel.Model.ResourceStorage

namespace K.Hand

/-- a resource is identified by a number; its shared `removed`/`finished` flag is `id ∈ marked` -/
abbrev Res := Nat

/-- gameplay program counter inside a create call -/
inductive GPc where
  | idle
  /-- key reserved; draining the unused ring -/
  | reserved (k : Key)
  /-- unused ring seen empty; about to push -/
  | drained (k : Key)
deriving DecidableEq, Repr

/-- audio program counter inside `remove_and_add` -/
inductive APc where
  | idle
  /-- in the drain loop: slots still to visit, and a removed resource not yet pushed -/
  | draining (rest : List Nat) (hand : Option Res)
  /-- in the pop-new loop -/
  | adding
deriving DecidableEq, Repr

structure St where
  store : Store Res
  /-- shared flags: resources whose handle was dropped / that have finished -/
  marked : List Res
  gpc : GPc
  apc : APc
  /-- ghost: id of the next resource created -/
  nextId : Nat
  /-- ghost: the keys that were in the arena with their flag set when the current callback began -/
  mustGo : List Key
deriving DecidableEq, Repr

def init (cap : Nat) : St :=
  { store := Store.new cap, marked := [], gpc := .idle, apc := .idle, nextId := 0, mustGo := [] }

inductive Label where
  /-- gameplay: `try_reserve` -/
  | gReserve
  /-- gameplay: one `unused_resource_consumer.pop()` -/
  | gPopUnused
  /-- gameplay: `new_resource_producer.push((key, resource))` -/
  | gPushNew
  /-- either thread: set the removed/finished flag of resource `x` -/
  | mark (x : Res)
  /-- audio: `remove_and_add` starts (the drain iterator captures the head of the occupied list) -/
  | aBegin
  /-- audio: one `DrainFilter::next` visit -/
  | aVisit
  /-- audio: `unused_resource_producer.push(resource)` -/
  | aPushUnused
  /-- audio: the drain loop ends -/
  | aEndDrain
  /-- audio: one `new_resource_consumer.pop()` (+ `insert_with_key`) -/
  | aPopNew
deriving DecidableEq, Repr

/-- audio-thread labels -/
def Label.isAudio : Label → Bool
  | .aBegin | .aVisit | .aPushUnused | .aEndDrain | .aPopNew => true
  | _ => false

/-- the remove test of every kira storage: the resource's shared flag -/
def St.test (s : St) : Res → Bool := fun x => s.marked.contains x

/-- `none` = label not enabled; `some (.error f)` = the step panics with `f`. -/
def step (atomicRemove : Bool) (s : St) : Label → Option (Except SFault St)
  | .gReserve =>
    match s.gpc with
    | .idle =>
      match s.store.tryReserve with
      | .error e => some (.error e)
      | .ok (none, st) => some (.ok { s with store := st })          -- `Err(ResourceLimitReached)`
      | .ok (some k, st) => some (.ok { s with store := st, gpc := .reserved k })
    | _ => none
  | .gPopUnused =>
    match s.gpc with
    | .reserved k =>
      match s.store.popUnused with
      | some st => some (.ok { s with store := st })
      | none => some (.ok { s with gpc := .drained k })
    | _ => none
  | .gPushNew =>
    match s.gpc with
    | .drained k =>
      match s.store.pushNew k s.nextId with
      | .error e => some (.error e)
      | .ok st => some (.ok { s with store := st, gpc := .idle, nextId := s.nextId + 1 })
    | _ => none
  | .mark x => some (.ok { s with marked := x :: s.marked })
  | .aBegin =>
    match s.apc with
    | .idle =>
      some (.ok { s with apc := .draining s.store.arena.order none,
                         mustGo := (s.store.arena.iter.filter (fun p => s.test p.2)).map (·.1) })
    | _ => none
  | .aVisit =>
    match s.apc with
    | .draining (i :: rest) none =>
      match s.store.drainVisit s.test i with
      | .error e => some (.error e)
      | .ok (none, st) => some (.ok { s with store := st, apc := .draining rest none })
      | .ok (some x, st) =>
        if atomicRemove then
          match st.pushUnused x with
          | .error e => some (.error e)
          | .ok st2 => some (.ok { s with store := st2, apc := .draining rest none })
        else some (.ok { s with store := st, apc := .draining rest (some x) })
    | _ => none
  | .aPushUnused =>
    match s.apc with
    | .draining rest (some x) =>
      match s.store.pushUnused x with
      | .error e => some (.error e)
      | .ok st => some (.ok { s with store := st, apc := .draining rest none })
    | _ => none
  | .aEndDrain =>
    match s.apc with
    | .draining [] none => some (.ok { s with apc := .adding })
    | _ => none
  | .aPopNew =>
    match s.apc with
    | .adding =>
      match s.store.popNewInsert with
      | .error e => some (.error e)
      | .ok (none, st) => some (.ok { s with store := st, apc := .idle })
      | .ok (some _, st) => some (.ok { s with store := st })
    | _ => none

/-- Reachable states of the protocol with capacity `cap` (every interleaving, any length). -/
inductive Reachable (atomicRemove : Bool) (cap : Nat) : St → Prop where
  | init : Reachable atomicRemove cap (init cap)
  | step {s s' : St} {l : Label} :
      Reachable atomicRemove cap s → step atomicRemove s l = some (.ok s') → Reachable atomicRemove cap s'

/-- run a list of labels: `ok` final state, or the first fault; a disabled label is skipped -/
def run (atomicRemove : Bool) (s : St) : List Label → Except SFault St
  | [] => .ok s
  | l :: ls =>
    match step atomicRemove s l with
    | none => run atomicRemove s ls
    | some (.error e) => .error e
    | some (.ok s') => run atomicRemove s' ls

/-- the keys held by the gameplay thread (reserved, not yet pushed) -/
def St.held (s : St) : List Key :=
  match s.gpc with
  | .idle => []
  | .reserved k => [k]
  | .drained k => [k]

/-- a resource taken out of the arena and not yet pushed -/
def St.inHand (s : St) : List Res :=
  match s.apc with
  | .draining _ (some x) => [x]
  | _ => []

/-- every resource object alive in the system -/
def St.objects (s : St) : List Res := s.inHand ++ s.store.objects

end K.Hand
