/-
  Conc/CommandChan.lean — one command channel (`CommandWriter<T>` / `CommandReader<T>` over
  `triple_buffer::{Input,Output}<Option<T>>`) as a labelled transition system.

  Shared state: three buffers, the atomic `back_info` byte (back index + dirty bit).
  Writer-private: `input_idx`; reader-private: `output_idx`.  One label = one atomic action of
  one thread: a *half* of the (non-atomic) store into the writer's own input buffer, the
  `AcqRel` swap in `publish`, the relaxed load in `updated`, the `AcqRel` swap in `update`,
  a *half* of the (non-atomic) load of the reader's own output buffer.

  A buffer cell is two halves so that "torn" is expressible: a consistent cell has equal halves.
  Values carry a ghost tag (the number of the write that produced them); nothing branches on it.

  Core Lean only.
-/

namespace K.Chan

/-- buffer index (`BufferIndex = u8`, values 0,1,2) -/
abbrev Idx := Fin 3

/-- a buffer: the two halves of an `Option<T>` (ghost tag × value) -/
structure Cell (V : Type) where
  a : Option (Nat × V)
  b : Option (Nat × V)
deriving DecidableEq, Repr

/-- a cell whose halves agree -/
def Cell.full {V : Type} (x : Option (Nat × V)) : Cell V := ⟨x, x⟩

def Cell.consistent {V : Type} [DecidableEq V] (c : Cell V) : Bool := decide (c.a = c.b)

/-- writer program counter inside `CommandWriter::write` -/
inductive WPc (V : Type) where
  | idle
  /-- first half of `*input_buffer_mut() = Some(v)` stored -/
  | half (x : Nat × V)
  /-- whole value stored, `publish` not yet executed -/
  | stored (x : Nat × V)
deriving DecidableEq, Repr

/-- reader program counter inside `CommandReader::read` -/
inductive RPc (V : Type) where
  | idle
  /-- `updated()` returned true, the swap has not happened yet -/
  | tested
  /-- swapped; about to copy the output buffer -/
  | swapped
  /-- first half of the output buffer copied -/
  | half (x : Option (Nat × V))
deriving DecidableEq, Repr

/-- mirrors: triple_buffer-8.1.1/src/lib.rs::{SharedState, Input, Output} + command.rs::{CommandWriter, CommandReader} -/
structure St (V : Type) where
  /-- `SharedState::buffers` -/
  buf : Idx → Cell V
  /-- `Input::input_idx` -/
  inp : Idx
  /-- `back_info & BACK_INDEX_MASK` -/
  back : Idx
  /-- `back_info & BACK_DIRTY_BIT != 0` -/
  dirty : Bool
  /-- `Output::output_idx` -/
  out : Idx
  wpc : WPc V
  rpc : RPc V
  /-- ghost: number of `publish` calls so far -/
  nPub : Nat
  /-- ghost: the value of the latest publish -/
  lastPub : Option (Nat × V)
  /-- ghost: every published value, oldest first -/
  pubs : List (Nat × V)
  /-- ghost: the value of the latest publish at the moment of the reader's last swap -/
  taken : Option (Nat × V)
  /-- ghost: every value a `read` has returned as `Some`, oldest first -/
  delivered : List (Nat × V)

variable {V : Type}


/-- mirrors: triple_buffer::TripleBuffer::new_impl (back 0, input 1, output 2, all buffers `None`)
    via command.rs::command_writer_and_reader -/
def init : St V :=
  { buf := fun _ => .full none, inp := 1, back := 0, dirty := false, out := 2,
    wpc := .idle, rpc := .idle, nPub := 0, lastPub := none, pubs := [], taken := none, delivered := [] }

/-- one atomic action -/
inductive Label (V : Type) where
  /-- writer: store the first half of `Some(v)` into its input buffer -/
  | wHalf1 (v : V)
  /-- writer: store the second half -/
  | wHalf2
  /-- writer: `publish` = `back_info.swap(input_idx | DIRTY)`; `input_idx := former back` -/
  | wPublish
  /-- reader: `updated()` = load `back_info`, test the dirty bit -/
  | rTest
  /-- reader: `back_info.swap(output_idx)`; `output_idx := former back` (dirty bit cleared) -/
  | rSwap
  /-- reader: copy the first half of its output buffer -/
  | rRead1
  /-- reader: copy the second half; `read` returns -/
  | rRead2
deriving DecidableEq, Repr

/-- What a label returns to its thread: only the end of a `read` returns something. -/
inductive Ret (V : Type) where
  | none
  /-- `CommandReader::read` returned this (two halves as copied) -/
  | read (c : Cell V)
deriving DecidableEq, Repr

/-- mirrors: triple_buffer::Input::{write,publish}, Output::{updated,update,output_buffer_mut},
    command.rs::CommandWriter::write / CommandReader::read.  `none` = label not enabled. -/
def step (s : St V) : Label V → Option (St V × Ret V)
  | .wHalf1 v =>
    match s.wpc with
    | .idle =>
      let x := (s.nPub + 1, v)
      some ({ s with buf := fun j => if j = s.inp then ⟨some x, (s.buf s.inp).b⟩ else s.buf j, wpc := .half x }, .none)
    | _ => none
  | .wHalf2 =>
    match s.wpc with
    | .half x =>
      some ({ s with buf := fun j => if j = s.inp then ⟨(s.buf s.inp).a, some x⟩ else s.buf j, wpc := .stored x }, .none)
    | _ => none
  | .wPublish =>
    match s.wpc with
    | .stored x =>
      some ({ s with back := s.inp, inp := s.back, dirty := true, wpc := .idle,
                     nPub := s.nPub + 1, lastPub := some x, pubs := s.pubs ++ [x] }, .none)
    | _ => none
  | .rTest =>
    match s.rpc with
    | .idle =>
      if s.dirty then some ({ s with rpc := .tested }, .none)
      else some (s, .read (.full none))     -- `read` returns `None` without touching a buffer
    | _ => none
  | .rSwap =>
    match s.rpc with
    | .tested =>
      some ({ s with back := s.out, out := s.back, dirty := false, rpc := .swapped, taken := s.lastPub }, .none)
    | _ => none
  | .rRead1 =>
    match s.rpc with
    | .swapped => some ({ s with rpc := .half (s.buf s.out).a }, .none)
    | _ => none
  | .rRead2 =>
    match s.rpc with
    | .half x =>
      let c : Cell V := ⟨x, (s.buf s.out).b⟩
      let d := match c.a, c.b with
        | some p, some _ => s.delivered ++ [p]
        | _, _ => s.delivered
      some ({ s with rpc := .idle, delivered := d }, .read c)
    | _ => none

/-- Reachable states: the inductive closure of `step` from `init` (every interleaving, any length). -/
inductive Reachable : St V → Prop where
  | init : Reachable init
  | step {s s' : St V} {l : Label V} {r : Ret V} : Reachable s → step s l = some (s', r) → Reachable s'

/-- run a list of labels; `none` if one is not enabled; collects the return values -/
def run (s : St V) : List (Label V) → Option (St V × List (Ret V))
  | [] => some (s, [])
  | l :: ls =>
    match step s l with
    | none => none
    | some (s', r) =>
      match run s' ls with
      | none => none
      | some (s'', rs) => some (s'', r :: rs)

/-! ### whole operations (what the twin and the sequential theorems use): the same steps, run
    to completion without interleaving -/

/-- `CommandWriter::write(v)` run to completion. mirrors: command.rs::CommandWriter::write -/
def writeOp (s : St V) (v : V) : St V :=
  match step s (.wHalf1 v) with
  | some (s1, _) =>
    match step s1 .wHalf2 with
    | some (s2, _) =>
      match step s2 .wPublish with
      | some (s3, _) => s3
      | none => s2
    | none => s1
  | none => s

/-- `CommandReader::read()` run to completion. mirrors: command.rs::CommandReader::read -/
def readOp (s : St V) : St V × Option V :=
  match step s .rTest with
  | some (s1, .read _) => (s1, none)
  | some (s1, .none) =>
    match step s1 .rSwap with
    | some (s2, _) =>
      match step s2 .rRead1 with
      | some (s3, _) =>
        match step s3 .rRead2 with
        | some (s4, .read c) => (s4, c.a.map (·.2))
        | some (s4, _) => (s4, none)
        | none => (s3, none)
      | none => (s2, none)
    | none => (s1, none)
  | none => (s, none)

/-- quiescent: no operation in progress on either side -/
def St.quiet (s : St V) : Prop := s.wpc = .idle ∧ s.rpc = .idle

/-! ### product of channels: one triple buffer per command kind
    mirrors: command.rs::command_writers_and_readers! (one `command_writer_and_reader()` per field) -/

/-- the state of a `CommandWriters`/`CommandReaders` pair with kinds `κ` -/
def Prod (κ : Type) (V : Type) := κ → St V

def Prod.init {κ : Type} : Prod κ V := fun _ => Chan.init

/-- a step of the channel of kind `k` -/
def Prod.step {κ : Type} [DecidableEq κ] (p : Prod κ V) (k : κ) (l : Label V) : Option (Prod κ V × Ret V) :=
  match Chan.step (p k) l with
  | some (s', r) => some (fun k' => if k' = k then s' else p k', r)
  | none => none

def Prod.writeOp {κ : Type} [DecidableEq κ] (p : Prod κ V) (k : κ) (v : V) : Prod κ V :=
  let s' := Chan.writeOp (p k) v      -- (bound outside the function: computed once by the twin)
  fun k' => if k' = k then s' else p k'

def Prod.readOp {κ : Type} [DecidableEq κ] (p : Prod κ V) (k : κ) : Prod κ V × Option V :=
  let r := Chan.readOp (p k)
  (fun k' => if k' = k then r.1 else p k', r.2)

/-- read the given readers in order, once each (the body of a `read_commands` /
    `on_start_processing`); returns what each read produced -/
def Prod.drain {κ : Type} [DecidableEq κ] (p : Prod κ V) : List κ → Prod κ V × List (κ × Option V)
  | [] => (p, [])
  | k :: ks =>
    let (p1, r) := p.readOp k
    let (p2, rs) := Prod.drain p1 ks
    (p2, (k, r) :: rs)

end K.Chan
