/-
  Psm.lean — playback states and the playback state manager (pause / resume / stop with fades).
  mirrors: sound.rs (`PlaybackState`, `is_advancing`), playback_state_manager.rs
-/
import KiraModel.Model.Parameter

namespace K

variable {α : Type} [Add α] [Sub α] [Mul α] [Div α] [Neg α] [LT α] [LE α]
  [DecidableLT α] [DecidableLE α] [OfScientific α] [KOps α]

/-- mirrors: sound.rs::PlaybackState::is_advancing — generated (GenFn.lean) -/
def PlaybackState.isAdvancing (s : PlaybackState) : Bool := gen_body% Gen.playbackStateIsAdvancing s
gen_alias Gen.playbackStateIsAdvancing => PlaybackState.isAdvancing

/-- `state as u8` -/
def PlaybackState.toNat : PlaybackState → Nat
  | .playing => 0 | .pausing => 1 | .paused => 2 | .waitingToResume => 3
  | .resuming => 4 | .stopping => 5 | .stopped => 6

/-- mirrors: playback_state_manager.rs::State -/
inductive PsmState (α : Type) where
  | playing | pausing | paused
  | waitingToResume (startTime : StartTime α) (fadeIn : Tween α)
  | resuming | stopping | stopped

/-- mirrors: playback_state_manager.rs::PlaybackStateManager (`volume_fade : Parameter<Decibels>`) -/
structure Psm (α : Type) where
  state : PsmState α
  fade : Parameter α α

namespace Psm

/-- `Decibels::IDENTITY` -/
def identityDb : α := (0.0 : α)

/-- mirrors: PlaybackStateManager::new -/
def new (fadeIn : Option (Tween α)) : Psm α :=
  { state := .playing
    fade := match fadeIn with
      | some tw => (Parameter.new (.fixed (silenceDb : α)) (silenceDb : α)).set (.fixed identityDb) tw
      | none => Parameter.new (.fixed identityDb) identityDb }

/-- mirrors: PlaybackStateManager::interpolated_fade_volume (decibels) -/
def interpolatedFadeVolume (m : Psm α) (amount : α) : α := m.fade.interpolatedValue tw32 amount

/-- mirrors: PlaybackStateManager::playback_state -/
def playbackState (m : Psm α) : PlaybackState :=
  match m.state with
  | .playing => .playing
  | .pausing => .pausing
  | .paused => .paused
  | .waitingToResume _ _ => .waitingToResume
  | .resuming => .resuming
  | .stopping => .stopping
  | .stopped => .stopped

def isStopped (m : Psm α) : Bool :=
  match m.state with
  | .stopped => true
  | _ => false

/-- mirrors: PlaybackStateManager::pause -/
def pause (m : Psm α) (fadeOut : Tween α) : Psm α :=
  if m.isStopped then m
  else { state := .pausing, fade := m.fade.set (.fixed (silenceDb : α)) fadeOut }

/-- mirrors: PlaybackStateManager::resume -/
def resume (m : Psm α) (startTime : StartTime α) (fadeIn : Tween α) : Psm α :=
  if m.isStopped then m
  else match startTime with
    | .immediate => { state := .resuming, fade := m.fade.set (.fixed identityDb) fadeIn }
    | st => { m with state := .waitingToResume st fadeIn }

/-- mirrors: PlaybackStateManager::stop -/
def stop (m : Psm α) (fadeOut : Tween α) : Psm α :=
  if m.isStopped then m
  else { state := .stopping, fade := m.fade.set (.fixed (silenceDb : α)) fadeOut }

/-- mirrors: PlaybackStateManager::mark_as_stopped -/
def markAsStopped (m : Psm α) : Psm α := { m with state := .stopped }

/-- mirrors: PlaybackStateManager::mark_as_paused -/
def markAsPaused (m : Psm α) : Psm α := { m with state := .paused }

/-- mirrors: PlaybackStateManager::update — returns (new manager, changed_playback_state) -/
def update (m : Psm α) (dt : α) (info : Info α) : Psm α × Bool :=
  let r := m.fade.update tw32 dt info
  let m1 : Psm α := { m with fade := r.1 }
  let finished := r.2
  match m.state with
  | .playing => (m1, false)
  | .pausing => if finished then ({ m1 with state := .paused }, true) else (m1, false)
  | .paused => (m1, false)
  | .waitingToResume st fadeIn =>
    let u := st.update dt info
    if u.2 then ({ m1 with state := .stopped }, true)
    else if u.1.isImmediate then (resume { m1 with state := .waitingToResume u.1 fadeIn } .immediate fadeIn, true)
    else ({ m1 with state := .waitingToResume u.1 fadeIn }, false)
  | .resuming => if finished then ({ m1 with state := .playing }, true) else (m1, false)
  | .stopping => if finished then ({ m1 with state := .stopped }, true) else (m1, false)
  | .stopped => (m1, false)

end Psm
end K
