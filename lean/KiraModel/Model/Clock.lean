/-
  Clock.lean — one clock: audio-thread state machine, its command slots, the words it publishes
  to its handle, and the handle's operations.
  mirrors: clock.rs (`Clock`, `ClockShared`, `State`, `on_start_processing`, `set_ticking`, `reset`,
           `update_shared`, `update`), clock/handle.rs (`start`, `pause`, `stop`, `set_speed`,
           `time`, `ticking`, `Drop`)
  The model is sequential: the cross-thread protocol of the two published words is modelled
  separately in `Model/Conc/ClockShared.lean`.  The three command slots are "latest write wins,
  read at most once" cells (the triple-buffer channel of command.rs, property C07).
  `u64` tick counts are unbounded `Nat`.
-/
import KiraModel.Model.Parameter

namespace K

variable {α : Type} [Add α] [Sub α] [Mul α] [Div α] [Neg α] [LT α] [LE α]
  [DecidableLT α] [DecidableLE α] [OfScientific α] [KOps α]

/-- mirrors: clock.rs::State -/
inductive ClockState (α : Type) where
  | notStarted
  | started (ticks : Nat) (frac : α)

/-- the time `Info::clock_info` reports for a state. mirrors: info.rs::Info::clock_info -/
def ClockState.time : ClockState α → ClockTime α
  | .notStarted => ⟨0, (0.0 : α)⟩
  | .started t f => ⟨t, f⟩

/-- mirrors: clock.rs `command_writers_and_readers! { set_speed, set_ticking, reset }` — the value
    waiting in each slot (`none` / `false` = nothing new since the last read) -/
structure ClockCmds (α : Type) where
  setSpeed : Option (Value α (ClockSpeed α) × Tween α)
  setTicking : Option Bool
  reset : Bool

def ClockCmds.empty : ClockCmds α := ⟨none, none, false⟩

/-- mirrors: clock.rs::ClockShared (the handle-visible atomics) -/
structure ClockShared (α : Type) where
  ticking : Bool
  ticks : Nat
  frac : α
  removed : Bool

/-- mirrors: clock.rs::ClockShared::new -/
def ClockShared.new : ClockShared α := ⟨false, 0, (0.0 : α), false⟩

/-- mirrors: clock.rs::Clock (with the handle's ends of the command slots and the shared words) -/
structure Clock (α : Type) where
  cmds : ClockCmds α
  shared : ClockShared α
  ticking : Bool
  speed : Parameter α (ClockSpeed α)
  state : ClockState α

namespace Clock

/-- mirrors: clock.rs::Clock::new / Clock::without_handle -/
def new (speed : Value α (ClockSpeed α)) : Clock α :=
  { cmds := ClockCmds.empty, shared := ClockShared.new, ticking := false,
    speed := Parameter.new speed (.ticksPerMinute (120.0 : α)), state := .notStarted }

/-- mirrors: clock.rs `impl Default for Clock` — the non-ticking stand-in that sits in the arena
    while a clock is being updated -/
def dummy : Clock α := new (.fixed (.ticksPerSecond (0.0 : α)))

/-- mirrors: info.rs::Info::clock_info (the `InfoKind::Real` arm) -/
def info (c : Clock α) : ClockInfo α := ⟨c.ticking, c.state.time⟩

/-- mirrors: clock.rs::Clock::update_shared (two separate stores: ticks, then fraction) -/
def updateShared (c : Clock α) : Clock α :=
  let t := c.state.time
  { c with shared := { c.shared with ticks := t.ticks, frac := t.fraction } }

/-- mirrors: clock.rs::Clock::set_ticking -/
def setTicking (c : Clock α) (b : Bool) : Clock α :=
  { c with ticking := b, shared := { c.shared with ticking := b } }

/-- mirrors: clock.rs::Clock::reset (stores only the ticks word) -/
def reset (c : Clock α) : Clock α :=
  { c with state := .notStarted, shared := { c.shared with ticks := 0 } }

/-- mirrors: clock.rs::Clock::on_start_processing -/
def onStartProcessing (c : Clock α) : Clock α :=
  let c1 := match c.cmds.setSpeed with
    | some (v, tw) => { c with speed := c.speed.set v tw }
    | none => c
  let c2 := match c.cmds.setTicking with
    | some b => c1.setTicking b
    | none => c1
  let c3 := if c.cmds.reset then c2.reset else c2
  updateShared { c3 with cmds := ClockCmds.empty }

/-- mirrors: clock.rs::Clock::update (the tick counting),
    `if *tick_timer >= 1.0 { let whole_ticks = tick_timer.floor();
       *tick_timer = if whole_ticks.is_finite() { *tick_timer - whole_ticks } else { 0.0 };
       *ticks = ticks.saturating_add(whole_ticks as u64); }`
    — all the whole ticks at once.  It replaces the loop `while *tick_timer >= 1.0 { *tick_timer -= 1.0;
    *ticks += 1 }` (`Proofs/ClockLemmas.lean`: `tickLoop`, `tickStep_eq_loop`), which never ended for a timer
    of 2^53 or more (`x - 1.0 == x`), e.g. `SecondsPerTick(0.0)` or `TicksPerSecond(1e300)`.  No fuel. -/
def tickStep (ticks : Nat) (timer : α) : Nat × α :=
  if (1.0 : α) ≤ timer then
    let whole := KOps.floor timer
    (KOps.satU64 (α := α) (ticks + KOps.toNatSat whole),
     if KOps.isFinite whole then timer - whole else (0.0 : α))
  else (ticks, timer)

/-- mirrors: clock.rs::Clock::update — returns the new clock and the "new tick count" result -/
def update (c : Clock α) (dt : α) (info : Info α) : Clock α × Option Nat :=
  let speed' := (c.speed.update twCs dt info).1
  let c1 := { c with speed := speed' }
  if !c.ticking then (c1, none)
  else
    let start : Nat × α × Option Nat := match c.state with
      | .notStarted => (0, (0.0 : α), some 0)
      | .started t f => (t, f, none)
    let timer := start.2.1 + speed'.value.asTicksPerSecond * dt
    let r := tickStep start.1 timer
    ({ c1 with state := .started r.1 r.2 }, if (1.0 : α) ≤ timer then some r.1 else start.2.2)

/-- a run of updates with a constant `Info` (one per element of `dts`) -/
def run (c : Clock α) (info : Info α) : List α → Clock α
  | [] => c
  | dt :: rest => run (c.update dt info).1 info rest

/-! ### the handle (caller's thread) -/

/-- mirrors: clock/handle.rs::ClockHandle::start -/
def hStart (c : Clock α) : Clock α := { c with cmds := { c.cmds with setTicking := some true } }
/-- mirrors: clock/handle.rs::ClockHandle::pause -/
def hPause (c : Clock α) : Clock α := { c with cmds := { c.cmds with setTicking := some false } }
/-- mirrors: clock/handle.rs::ClockHandle::stop (also writes the two shared words itself) -/
def hStop (c : Clock α) : Clock α :=
  { c with cmds := { c.cmds with setTicking := some false, reset := true },
           shared := { c.shared with ticks := 0, frac := (0.0 : α) } }
/-- mirrors: clock/handle.rs::ClockHandle::set_speed -/
def hSetSpeed (c : Clock α) (v : Value α (ClockSpeed α)) (tw : Tween α) : Clock α :=
  { c with cmds := { c.cmds with setSpeed := some (v, tw) } }
/-- mirrors: clock/handle.rs::ClockHandle::time -/
def hTime (c : Clock α) : ClockTime α := ⟨c.shared.ticks, c.shared.frac⟩
/-- mirrors: clock/handle.rs::ClockHandle::ticking -/
def hTicking (c : Clock α) : Bool := c.shared.ticking
/-- mirrors: clock/handle.rs `impl Drop for ClockHandle` -/
def hDrop (c : Clock α) : Clock α := { c with shared := { c.shared with removed := true } }

end Clock
end K
