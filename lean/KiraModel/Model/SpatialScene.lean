/-
  SpatialScene.lean — the part of the mixer a spatial scene exercises, as a state machine:
  listeners (add / drop / tweened position and orientation), a tree of spatial and non-spatial
  sub-tracks with constant sounds, the per-chunk update order of `Renderer::process_chunk`.
  mirrors: backend/renderer.rs (`on_start_processing`, `process`, `process_chunk`: listeners are
           updated before the mixer runs; output clamped to [−1, 1]), backend/resources/listeners.rs,
           backend/resources.rs (`SelfReferentialResourceStorage::remove_and_add`: marked listeners
           leave *before* new ones enter, so a listener dropped before its first callback still
           lives for one callback), backend/resources/mixer.rs, listener.rs, track/sub.rs
           (`Track::on_start_processing`, `Track::process`), track/main.rs.
  Resource ids are never reused (arena generations); arenas iterate newest first.
-/
import KiraModel.Model.Spatial

namespace K

variable {α : Type} [Add α] [Sub α] [Mul α] [Div α] [Neg α] [LT α] [LE α]
  [DecidableLT α] [DecidableLE α] [OfScientific α] [KOps α]


/-- mirrors: Parameter::read_command -/
def readCmd {τ : Type} (p : Parameter α τ) (c : Cmd α τ) : Parameter α τ :=
  match c with
  | some (v, tw) => p.set v tw
  | none => p

/-- mirrors: listener.rs::Listener (+ the `removed` flag of `ListenerShared`) -/
structure ListenerSt (α : Type) where
  id : Nat
  removed : Bool
  position : Parameter α (Vec3 α)
  orientation : Parameter α (Quat α)
  cmdPos : Cmd α (Vec3 α)
  cmdOri : Cmd α (Quat α)

/-- mirrors: info.rs::Info::listener_info (the `ListenerInfo` of one listener) -/
def ListenerSt.info (l : ListenerSt α) : ListenerInfo α :=
  ⟨l.position.value, l.orientation.value, l.position.previousValue, l.orientation.previousValue⟩

/-- mirrors: Listener::on_start_processing -/
def ListenerSt.readCommands (l : ListenerSt α) : ListenerSt α :=
  { l with position := readCmd l.position l.cmdPos, orientation := readCmd l.orientation l.cmdOri,
           cmdPos := none, cmdOri := none }

/-- mirrors: Listener::update (listeners see no spatial track info) -/
def ListenerSt.update (l : ListenerSt α) (dt : α) : ListenerSt α :=
  { l with position := (l.position.update twVec3 dt Info.empty).1,
           orientation := (l.orientation.update twQuat dt Info.empty).1 }

/-- mirrors: listener.rs::Listener::update with the `Info` the renderer hands it (clocks, modulators; no
    spatial track): position / orientation may be linked to a modulator or wait for a clock -/
def ListenerSt.updateWith (l : ListenerSt α) (dt : α) (info : Info α) : ListenerSt α :=
  { l with position := (l.position.update twVec3 dt info).1,
           orientation := (l.orientation.update twQuat dt info).1 }

/-- mirrors: track/sub.rs::Track as far as a spatial scene needs it -/
structure TrackSt (α : Type) where
  id : Nat
  /-- `none`: child of the mixer -/
  parent : Option Nat
  spatial : Option (SpatialData α)
  volume : Parameter α α
  /-- constant stereo sounds, newest first -/
  sounds : List (Frame α)
  /-- carries an effect that logs `Info::listener_distance()` once per chunk -/
  probe : Bool
  cmdPos : Cmd α (Vec3 α)
  cmdStr : Cmd α α
  /-- pending `set_volume` command (any track, spatial or not) -/
  cmdVol : Cmd α α := none

/-- mirrors: Track::read_commands -/
def TrackSt.readCommands (t : TrackSt α) : TrackSt α :=
  let t := { t with volume := readCmd t.volume t.cmdVol, cmdVol := none }
  match t.spatial with
  | some sd =>
    { t with spatial := some { sd with position := readCmd sd.position t.cmdPos,
                                        strength := readCmd sd.strength t.cmdStr },
             cmdPos := none, cmdStr := none }
  | none => t

structure Scene (α : Type) where
  ibs : Nat
  /-- `1.0 / sample_rate as f64` -/
  dt : α
  listeners : List (ListenerSt α)
  /-- listeners in the new-resource ring -/
  pending : List (ListenerSt α)
  /-- all tracks, newest first -/
  tracks : List (TrackSt α)

/-- mirrors: Renderer::on_start_processing (mixer, then listeners) -/
def Scene.onStartProcessing (sc : Scene α) : Scene α :=
  { sc with tracks := sc.tracks.map TrackSt.readCommands,
            listeners := ((sc.listeners.filter (fun l => !l.removed)) ++ sc.pending).map ListenerSt.readCommands,
            pending := [] }

def Scene.listenerInfo (sc : Scene α) (id : Nat) : Option (ListenerInfo α) :=
  (sc.listeners.find? (fun l => l.id == id)).map ListenerSt.info

def Scene.setTrack (sc : Scene α) (t : TrackSt α) : Scene α :=
  { sc with tracks := sc.tracks.map (fun u => if u.id == t.id then t else u) }

def spZeros (n : Nat) : List (Frame α) := List.replicate n Frame.zero

def addBuf : List (Frame α) → List (Frame α) → List (Frame α)
  | a :: as, b :: bs => Frame.add a b :: addBuf as bs
  | as, [] => as
  | [], _ => []

/-- "apply volume fade": frame `i` is scaled by `volume.interpolated_value((i+1)/n).as_amplitude()`
    (times the playback fade, which is 1.0 for a playing track) -/
def volumeFade (vol : Parameter α α) (n : Nat) : Nat → List (Frame α) → List (Frame α)
  | _, [] => []
  | i, f :: rest =>
    let t : α := (KOps.ofNat (i + 1) : α) / (KOps.ofNat n : α)
    let v := asAmplitude (vol.interpolatedValue tw32 t)
    let fade := asAmplitude (lerp32 (0.0 : α) (0.0 : α) t)
    f.scale (KOps.r32 (v * fade)) :: volumeFade vol n (i + 1) rest

/-- result of processing one track for one chunk -/
structure TrackOut (α : Type) where
  scene : Scene α
  out : List (Frame α)
  /-- (track id, logged listener distance) -/
  log : List (Nat × Option α)

def foldTracks (rec : Scene α → Nat → TrackOut α) :
    Scene α → List Nat → List (Frame α) → List (Nat × Option α) → TrackOut α
  | sc, [], acc, log => ⟨sc, acc, log⟩
  | sc, c :: cs, acc, log =>
    let r := rec sc c
    foldTracks rec r.scene cs (addBuf acc r.out) (log ++ r.log)

/-- mirrors: track/sub.rs::Track::process for one chunk of `n` frames (`fuel` bounds the depth) -/
def Scene.processTrack : Nat → Scene α → Nat → Option (SpatialTrackInfo α) → Nat → TrackOut α
  | 0, sc, _, _, n => ⟨sc, spZeros n, []⟩
  | fuel + 1, sc, tid, parentSti, n =>
    match sc.tracks.find? (fun t => t.id == tid) with
    | none => ⟨sc, spZeros n, []⟩
    | some tr =>
      let sti : Option (SpatialTrackInfo α) := match tr.spatial with
        | some sd => some ⟨sd.position.value, sd.listenerId⟩
        | none => parentSti
      let li := sti.bind (fun s => sc.listenerInfo s.listenerId)
      let info : Info α := { (Info.empty : Info α) with listenerDistance := listenerDistance sti li }
      let dtn : α := sc.dt * (KOps.ofNat n : α)
      let vol := (tr.volume.update tw32 dtn info).1
      let childIds := (sc.tracks.filter (fun t => t.parent == some tid)).map (fun t => t.id)
      let r := foldTracks (fun sc c => Scene.processTrack fuel sc c sti n) sc childIds (spZeros n) []
      let out := tr.sounds.foldl (fun acc s => addBuf acc (List.replicate n s)) r.out
      let log := if tr.probe then r.log ++ [(tid, info.listenerDistance)] else r.log
      let spatialized : Option (SpatialData α) × List (Frame α) :=
        match tr.spatial with
        | none => (none, out)
        | some sd =>
          let sd' : SpatialData α :=
            { sd with position := (sd.position.update twVec3 dtn info).1,
                      strength := (sd.strength.update tw32 dtn info).1 }
          (some sd', sd'.chunkOut li n 0 out)
      let out := volumeFade vol n 0 spatialized.2
      ⟨r.scene.setTrack { tr with volume := vol, spatial := spatialized.1 }, out, log⟩

/-- result of one internal chunk: the device frames, and the frames the main track's effects see -/
structure ChunkOut (α : Type) where
  scene : Scene α
  /-- what goes to the device: main-track volume, NaN replaced by silence, clamped to [−1, 1] -/
  out : List (Frame α)
  /-- the mix on the main track before its volume and the device stage (what an effect on the main
      track is handed) -/
  bus : List (Frame α)
  log : List (Nat × Option α)

/-- mirrors: Renderer::process_chunk — listeners are updated, the mixer sums its sub-tracks (newest
    first), the main track applies its (unit) volume, NaN is replaced by silence and the result is
    clamped to [−1, 1] -/
def Scene.processChunk (sc : Scene α) (n : Nat) : ChunkOut α :=
  let dtn : α := sc.dt * (KOps.ofNat n : α)
  let sc := { sc with listeners := sc.listeners.map (fun l => l.update dtn) }
  let top := (sc.tracks.filter (fun t => t.parent.isNone)).map (fun t => t.id)
  let r := foldTracks (fun sc c => Scene.processTrack (sc.tracks.length + 1) sc c none n) sc top (spZeros n) []
  let out := r.out.map (fun f =>
    let f := f.scale (1.0 : α)
    (⟨clamp (nanToZero f.left) (-(1.0 : α)) (1.0 : α), clamp (nanToZero f.right) (-(1.0 : α)) (1.0 : α)⟩ : Frame α))
  ⟨r.scene, out, r.out, r.log⟩

/-- mirrors: Renderer::process — chunks of `internal_buffer_size` frames -/
def Scene.process : Nat → Scene α → Nat → List (Frame α) → List (Frame α) → List (Nat × Option α) → ChunkOut α
  | 0, sc, _, acc, bus, log => ⟨sc, acc, bus, log⟩
  | fuel + 1, sc, remaining, acc, bus, log =>
    if remaining = 0 then ⟨sc, acc, bus, log⟩
    else
      let n := if sc.ibs < remaining then sc.ibs else remaining
      let r := sc.processChunk n
      Scene.process fuel r.scene (remaining - n) (acc ++ r.out) (bus ++ r.bus) (log ++ r.log)

/-- one device callback of `frames` frames -/
def Scene.callback (sc : Scene α) (frames : Nat) : ChunkOut α :=
  Scene.process (frames + 1) sc.onStartProcessing frames [] [] []

end K
