import KiraModel.Num
import KiraModel.Model.Units
import KiraModel.Model.Easing
import KiraModel.Model.ClockTime
import KiraModel.Model.Spatial
import KiraModel.Model.SpatialScene
