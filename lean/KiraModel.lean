import KiraModel.Num
import KiraModel.Model.Units
import KiraModel.Model.Easing
import KiraModel.Model.ClockTime
import KiraModel.Model.Lfo
import KiraModel.Model.Tweener
import KiraModel.Model.ModulatorChunk
