#!/usr/bin/env python3
"""tools/shrink.py <replay.json> — delta-debug the ops of a replay file while the named oracle
(or the same fault) still fails on the real code; prints the minimal ops and rewrites the file.
Uses the harness binary of the current tree (KV_HBIN overrides)."""
import json, os, subprocess, sys
ROOT = os.path.dirname(os.path.dirname(os.path.abspath(__file__)))
HBIN = os.environ.get("KV_HBIN", os.path.join(ROOT, "harness", "target", "debug", "kv-harness"))
path = sys.argv[1]
r = json.load(open(path))
suite, ops, oracle = r["suite"], r["ops"], r.get("oracle", "")
def fails(o):
    p = subprocess.run([HBIN, "run", suite], input="\n".join(o) + "\n", stdout=subprocess.PIPE, stderr=subprocess.DEVNULL, text=True, timeout=600)
    out = p.stdout
    if oracle.startswith("fault_"):
        return ("fault " + oracle[6:]) in out
    return ("!oracle " + oracle + " ") in out
assert fails(ops), "not reproducible"
head, body = ops[:1], ops[1:]
n = 2
while len(body) >= 2:
    chunk = max(1, len(body) // n)
    reduced = False
    for i in range(0, len(body), chunk):
        cand = body[:i] + body[i + chunk:]
        if cand and fails(head + cand):
            body = cand; n = max(n - 1, 2); reduced = True; break
    if not reduced:
        if chunk == 1: break
        n = min(n * 2, len(body))
r["ops"] = head + body
json.dump(r, open(path, "w"), indent=1)
print("\n".join(r["ops"]))
