#!/usr/bin/env python3
"""Resolve merge conflicts in the shared registry files by taking the union of both sides.
usage (during a conflicted `git merge`): tools/merge_union.py            # handles all conflicted files it knows"""
import json, subprocess, sys, os, re
ROOT = os.path.dirname(os.path.dirname(os.path.abspath(__file__)))
def sh(*a): return subprocess.run(a, cwd=ROOT, stdout=subprocess.PIPE, text=True).stdout
conf = [l for l in sh("git", "diff", "--name-only", "--diff-filter=U").split("\n") if l]
for f in conf:
    p = os.path.join(ROOT, f)
    if f == "known_findings.json":
        ours = json.loads(sh("git", "show", ":2:" + f)); theirs = json.loads(sh("git", "show", ":3:" + f))
        try:
            base = json.loads(sh("git", "show", ":1:" + f))
        except Exception:
            base = {"findings": [], "fixed": []}
        # three-way: an entry one side REMOVED (present in the base, absent on that side) stays removed
        bids = {x["id"] for x in base["findings"]}
        oids = {x["id"] for x in ours["findings"]}; tids = {x["id"] for x in theirs["findings"]}
        removed = (bids - oids) | (bids - tids)
        ours["findings"] = [x for x in ours["findings"] if x["id"] not in removed]
        ids = {x["id"] for x in ours["findings"]}
        ours["findings"] += [x for x in theirs["findings"] if x["id"] not in ids and x["id"] not in removed]
        ours["fixed"] += [x for x in theirs.get("fixed", []) if x not in ours["fixed"]]
        json.dump(ours, open(p, "w"), indent=1)
    elif f == "props.py":
        # keep ours; append every entry that only theirs has as `PROPS["Cxx"] = {...}` at the end of the file
        import importlib.util, pprint, tempfile
        def load(txt, name):
            t = tempfile.NamedTemporaryFile("w", suffix=".py", delete=False); t.write(txt); t.close()
            spec = importlib.util.spec_from_file_location(name, t.name); m = importlib.util.module_from_spec(spec)
            spec.loader.exec_module(m); os.unlink(t.name); return m
        ours = sh("git", "show", ":2:" + f); theirs = sh("git", "show", ":3:" + f)
        mo, mt = load(ours, "po"), load(theirs, "pt")
        text = ours.rstrip("\n") + "\n"
        for k in sorted(mt.PROPS):
            if k not in mo.PROPS:
                text += "\nPROPS[%r] = %s\n" % (k, pprint.pformat(mt.PROPS[k], width=150, sort_dicts=False))
        open(p, "w").write(text)
    elif f in ("MANIFEST.json", "lean/spans.json", "seeded/results.json", "seeded/RESULTS.md") or f.startswith("evidence/"):
        open(p, "w").write(sh("git", "show", ":2:" + f))
    else:
        # textual union: keep ours then theirs inside each conflict hunk, dropping duplicate lines
        out, side, a, b = [], None, [], []
        for line in open(p).read().split("\n"):
            if line.startswith("<<<<<<< "): side, a, b = "a", [], []
            elif line.startswith("=======") and side == "a": side = "b"
            elif line.startswith(">>>>>>> ") and side == "b":
                out += a + [x for x in b if x not in a or x.strip() in ("", "},", "}")]
                side = None
            elif side == "a": a.append(line)
            elif side == "b": b.append(line)
            else: out.append(line)
        open(p, "w").write("\n".join(out))
    print("resolved", f)
    subprocess.run(["git", "add", f], cwd=ROOT)
