#!/bin/sh
# tools/cmp_local.sh <suite> [seed] [n] [tier] — like cmp.sh but keeps its files in out/cmp (inside the worktree)
S=$1; SEED=${2:-1}; N=${3:-200}; TIER=${4:-quick}
R=$(cd "$(dirname "$0")/.." && pwd)
D=$R/out/cmp; mkdir -p $D
H=${KV_HBIN:-$R/harness/target/debug/kv-harness}   # KV_HBIN: a harness built against another tree (check builds it under /var/tmp/kv-alt)
T=$R/lean/.lake/build/bin/kira_twin
$H gen $S $SEED $N $TIER | grep -v '^#' > $D/ops.txt
$T $S < $D/ops.txt > $D/model.txt
KV_TWIN_TRACE=$D/model.txt $H run $S < $D/ops.txt > $D/impl_all.txt
grep -v '^!' $D/impl_all.txt > $D/impl.txt
wc -l $D/ops.txt $D/impl.txt $D/model.txt | head -3
paste -d'|' $D/ops.txt $D/impl.txt $D/model.txt | awk -F'|' '$2!=$3' > $D/diff.txt
echo "mismatches: $(wc -l < $D/diff.txt)   oracle failures: $(grep -c '^!oracle' $D/impl_all.txt)"
cut -c1-300 $D/diff.txt | head -${5:-10}
grep '^!oracle' $D/impl_all.txt | awk '{print $2}' | sort | uniq -c
