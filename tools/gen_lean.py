#!/usr/bin/env python3
"""
tools/gen_lean.py — regenerate lean/KiraModel/Gen.lean from the Rust source in /repo.

Run by `./check` before every `lake build` (and by setup.sh).  The generated file holds constants
and small structural facts *extracted from the current source*; the model and some theorems import
it, so a change of such a constant in the Rust breaks a proof obligation directly.

Structure: a list of independent EXTRACTORS.  An extractor is a function `() -> str` returning a
block of Lean definitions (inside `namespace K.Gen`).  It reads files with `src(path)` and finds
things with `anchor(text, regex, what)`, which raises `Missing` — and the script exits 1, loudly —
when the anchor pattern is not found.  To add your own: write a function, append it to EXTRACTORS.
Gen.lean must stay import-free (core Lean only) and must not depend on KiraModel.Num.
"""
import os
import re
import sys

ROOT = os.path.dirname(os.path.dirname(os.path.abspath(__file__)))
REPO = os.environ.get("KV_REPO") or os.environ.get("KIRA_REPO", "/repo")
KIRA = os.path.join(REPO, "crates", "kira", "src")
OUT = os.path.join(ROOT, "lean", "KiraModel", "Gen.lean")


class Missing(Exception):
    pass


def src(rel):
    p = os.path.join(KIRA, rel)
    if not os.path.exists(p):
        raise Missing(f"source file missing: {p}")
    return open(p).read()


def anchor(text, pattern, what, flags=re.S):
    m = re.search(pattern, text, flags)
    if not m:
        raise Missing(f"anchor not found: {what}   (pattern: {pattern})")
    return m


def anchors(text, pattern, what, flags=re.S):
    ms = list(re.finditer(pattern, text, flags))
    if not ms:
        raise Missing(f"anchor not found: {what}   (pattern: {pattern})")
    return ms


def lean_float(lit, alpha_neg=False):
    """a Rust float literal (`0.015`, `-6.0`, `1.0`) as a Lean term of the generic number type α"""
    lit = lit.strip().replace("_", "")
    lit = re.sub(r"f(32|64)$", "", lit)
    neg = lit.startswith("-")
    if neg:
        lit = lit[1:]
    if not re.fullmatch(r"\d+\.\d+|\d+", lit):
        raise Missing(f"not a plain float literal: {lit}")
    if "." not in lit:
        lit += ".0"
    return f"-({lit} : α)" if neg else f"({lit} : α)"


def def_float(name, lit, doc):
    term = lean_float(lit)
    neg = " [Neg α]" if term.startswith("-") else ""
    return f"/-- {doc} -/\ndef {name} {{α : Type}} [OfScientific α]{neg} : α := {term}\n"


def def_nat(name, value, doc):
    return f"/-- {doc} -/\ndef {name} : Nat := {int(value)}\n"


# ------------------------------------------------------------------------------------------
# extractors
# ------------------------------------------------------------------------------------------

def ex_reverb():
    """effect/reverb.rs, reverb/all_pass.rs, reverb/builder.rs: the Freeverb network's constants and shape"""
    t = src("effect/reverb.rs")
    out = []
    n_comb = int(anchor(t, r"const NUM_COMB_FILTERS: usize = (\d+);", "reverb NUM_COMB_FILTERS").group(1))
    n_ap = int(anchor(t, r"const NUM_ALL_PASS_FILTERS: usize = (\d+);", "reverb NUM_ALL_PASS_FILTERS").group(1))
    gain = anchor(t, r"const GAIN: f32 = ([-0-9._]+);", "reverb GAIN").group(1)
    spread = int(anchor(t, r"const STEREO_SPREAD: usize = (\d+);", "reverb STEREO_SPREAD").group(1))
    ref = int(anchor(t, r"const REFERENCE_SAMPLE_RATE: u32 = (\d+);", "reverb REFERENCE_SAMPLE_RATE").group(1))
    # the scaling of a tuning value: ((buffer_size as f64) * (sample_rate as f64 / REFERENCE as f64)) as usize
    anchor(t, r"let sample_rate_factor = \(sample_rate as f64\) / \(REFERENCE_SAMPLE_RATE as f64\);\s*"
              r"\(\(buffer_size as f64\) \* sample_rate_factor\) as usize",
           "reverb adjust_buffer_size body")
    out.append(def_nat("reverbNumCombFilters", n_comb, "effect/reverb.rs: NUM_COMB_FILTERS"))
    out.append(def_nat("reverbNumAllPassFilters", n_ap, "effect/reverb.rs: NUM_ALL_PASS_FILTERS"))
    out.append(def_nat("reverbStereoSpread", spread, "effect/reverb.rs: STEREO_SPREAD"))
    out.append(def_nat("reverbReferenceSampleRate", ref, "effect/reverb.rs: init_filters::REFERENCE_SAMPLE_RATE"))
    out.append(def_float("reverbGain", gain, "effect/reverb.rs: GAIN (an f32 literal)"))

    def table(kind, count, name, what):
        ms = anchors(
            t,
            kind + r"::new\(adjust_buffer_size\((\d+)\)\),\s*" + kind
            + r"::new\(adjust_buffer_size\((\d+) \+ STEREO_SPREAD\)\),",
            what)
        if len(ms) != count:
            raise Missing(f"{what}: found {len(ms)} (left, right) pairs, the constant says {count}")
        rows = []
        for m in ms:
            if m.group(1) != m.group(2):
                raise Missing(f"{what}: right line is not `left + STEREO_SPREAD` ({m.group(0)})")
            rows.append(f"({m.group(1)}, {m.group(2)} + reverbStereoSpread)")
        return (f"/-- effect/reverb.rs::init_filters: the arguments of `adjust_buffer_size` for the (left, right) "
                f"{kind}s, in array order -/\ndef {name} : List (Nat × Nat) :=\n  [" + ", ".join(rows) + "]\n")

    out.append(table("CombFilter", n_comb, "reverbCombTuning", "reverb comb tuning table"))
    out.append(table("AllPassFilter", n_ap, "reverbAllPassTuning", "reverb all-pass tuning table"))
    # the shape of the per-frame network: combs accumulate in parallel, all-passes chain in series
    anchor(t, r"for comb_filter in comb_filters\.iter_mut\(\) \{\s*"
              r"output\.left \+= comb_filter\.0\.process\(mono_input, feedback, damping\);\s*"
              r"output\.right \+= comb_filter\.1\.process\(mono_input, feedback, damping\);\s*\}",
           "reverb: combs fed the mono input and summed (parallel)")
    anchor(t, r"for all_pass_filter in all_pass_filters\.iter_mut\(\) \{\s*"
              r"output\.left = all_pass_filter\.0\.process\(output\.left\);\s*"
              r"output\.right = all_pass_filter\.1\.process\(output\.right\);\s*\}",
           "reverb: all-passes chained (series)")
    anchor(t, r"let mono_input = \(frame\.left \+ frame\.right\) \* GAIN;", "reverb mono input")
    out.append("/-- how a bank of lines is combined (read off the loops of effect/reverb.rs::process) -/\n"
               "inductive Combine where\n  | parallelSum\n  | series\nderiving DecidableEq, Repr\n")
    out.append("/-- effect/reverb.rs::process: `output += comb.process(mono_input, ..)` -/\n"
               "def reverbCombCombine : Combine := .parallelSum\n")
    out.append("/-- effect/reverb.rs::process: `output = all_pass.process(output)` -/\n"
               "def reverbAllPassCombine : Combine := .series\n")
    ap = src("effect/reverb/all_pass.rs")
    fb = anchor(ap, r"const FEEDBACK: f32 = ([-0-9._]+);", "all_pass FEEDBACK").group(1)
    out.append(def_float("allPassFeedback", fb, "effect/reverb/all_pass.rs: FEEDBACK"))
    # Parameter::new(settings.<x>, <default>) — the value used until a modulator-linked value is first read
    for field, name in [("feedback", "reverbDefaultFeedback"), ("damping", "reverbDefaultDamping"),
                        ("stereo_width", "reverbDefaultStereoWidth")]:
        m = anchor(t, r"%s: Parameter::new\(settings\.%s, ([-0-9._]+)\)," % (field, field),
                   f"reverb Parameter::new default of {field}")
        out.append(def_float(name, m.group(1), f"effect/reverb.rs::Reverb::new: default raw value of `{field}`"))
    m = anchor(t, r"mix: Parameter::new\(settings\.mix, Mix\(([-0-9._]+)\)\),", "reverb Parameter::new default of mix")
    out.append(def_float("reverbDefaultMix", m.group(1), "effect/reverb.rs::Reverb::new: default raw value of `mix`"))
    return "\n".join(out)


def ex_delay():
    """effect/delay.rs: default raw values, the buffer-length formula"""
    t = src("effect/delay.rs")
    out = []
    m = anchor(t, r"feedback: Parameter::new\(builder\.feedback, Decibels\(([-0-9._]+)\)\),",
               "delay Parameter::new default of feedback")
    out.append(def_float("delayDefaultFeedbackDb", m.group(1),
                         "effect/delay.rs::Delay::new: default raw value of `feedback` (decibels)"))
    m = anchor(t, r"mix: Parameter::new\(builder\.mix, Mix\(([-0-9._]+)\)\),", "delay Parameter::new default of mix")
    out.append(def_float("delayDefaultMix", m.group(1), "effect/delay.rs::Delay::new: default raw value of `mix`"))
    # the line length: whole nanoseconds times the sample rate in integers, rounded down, at least one frame
    # (Model/Effects/Delay.lean::frames mirrors exactly this; any other formula must fail here)
    anchor(t, r"fn delay_time_frames\(delay_time: Duration, sample_rate: u32\) -> usize \{\s*"
              r"let frames = delay_time\.as_nanos\(\) \* sample_rate as u128 / 1_000_000_000;\s*"
              r"usize::try_from\(frames\)\.unwrap_or\(usize::MAX\)\.max\(1\)\s*\}",
           "delay length formula (ns * rate / 10^9 in integers, at least one frame)")
    ms = anchors(t, r"let delay_time_frames = delay_time_frames\(self\.delay_time, sample_rate\);\s*"
                    r"self\.buffer = vec!\[Frame::ZERO; delay_time_frames\];",
                 "delay line sized by delay_time_frames")
    if len(ms) != 2:
        raise Missing(f"delay line sized by delay_time_frames: expected in init and on_change_sample_rate, found {len(ms)}")
    anchor(t, r"for input in input\.chunks_mut\(self\.buffer\.len\(\)\)", "delay sub-chunking by the line length")
    out.append("/-- effect/delay.rs::delay_time_frames is `ns * rate / 10^9` in integers, `.max(1)` -/\n"
               "def delayLengthInIntegers : Bool := true\n")
    out.append("/-- effect/delay.rs::process walks the input in `chunks_mut(self.buffer.len())` -/\n"
               "def delaySubChunksByLineLength : Bool := true\n")
    return "\n".join(out)


EXTRACTORS = [ex_reverb, ex_delay]


def main():
    blocks = []
    errors = []
    for ex in EXTRACTORS:
        try:
            blocks.append(f"/-! ### {ex.__name__}: {(ex.__doc__ or '').strip()} -/\n\n" + ex())
        except Missing as e:
            errors.append(f"{ex.__name__}: {e}")
    if errors:
        print("gen_lean.py: EXTRACTION FAILED (the Rust source no longer matches an anchor pattern):")
        for e in errors:
            print("  " + e)
        return 1
    text = ("/-\n  Gen.lean — GENERATED by tools/gen_lean.py from the Rust source (crates/kira/src) on every check run.\n"
            "  Do not edit.  Import-free.\n-/\n\nnamespace K.Gen\n\n" + "\n".join(blocks) + "\nend K.Gen\n")
    old = open(OUT).read() if os.path.exists(OUT) else None
    if old != text:
        with open(OUT, "w") as f:
            f.write(text)
        print(f"gen_lean.py: wrote {os.path.relpath(OUT, ROOT)} ({len(EXTRACTORS)} extractors)")
    else:
        print(f"gen_lean.py: {os.path.relpath(OUT, ROOT)} up to date ({len(EXTRACTORS)} extractors)")
    return 0


if __name__ == "__main__":
    sys.exit(main())
