#!/usr/bin/env python3
"""
tools/gen_lean.py — regenerate lean/KiraModel/Gen.lean and lean/KiraModel/GenFn.lean from the Rust source in /repo
(or $KV_REPO; $KV_GEN_OUT=<dir> writes the two files elsewhere — used by tools/gen_lean_selftest.py).

Run by `./check` before every `lake build` (and by setup.sh).  The generated files hold constants, enum shapes and
PURE functions *translated from the current source*; the model takes the bodies of its definitions from them
(`gen_body% Gen.x …`, KiraModel/Meta.lean) and Proofs/GenAgree*.lean pin them to the last validated hand-written
readings, so a change of such an item in the Rust changes the model and breaks a proof obligation directly.

Two mechanisms:
  * EXTRACTORS (Freeverb, delay): functions `() -> str` returning a block of Lean definitions; they find things with
    `anchor(text, regex, what)`, which raises `Missing` when the anchor pattern is not found.
  * `translate(S)`: the item list of the Rust-subset → Lean translator (tools/rs2lean.py; notes/translator.md).
    To add an item: one `S.fn / S.const / S.value_in_fn / S.default_arg / S.snippet / S.enum / S.struct` line.
In both cases an item that no longer matches makes the script print the item and exit 1 — loudly, never skipped.
Gen.lean stays import-free; GenFn.lean imports only KiraModel.Num, KiraModel.Gen, KiraModel.Model.UnitTypes.
`--manifest` prints the table Rust item → Lean name.
"""
import os
import re
import sys

ROOT = os.path.dirname(os.path.dirname(os.path.abspath(__file__)))
REPO = os.environ.get("KV_REPO") or os.environ.get("KIRA_REPO", "/repo")
KIRA = os.path.join(REPO, "crates", "kira", "src")


class Missing(Exception):
    pass


def src(rel):
    p = os.path.join(KIRA, rel)
    if not os.path.exists(p):
        raise Missing(f"source file missing: {p}")
    return open(p).read()


def anchor(text, pattern, what, flags=re.S):
    m = re.search(pattern, text, flags)
    if not m:
        raise Missing(f"anchor not found: {what}   (pattern: {pattern})")
    return m


def anchors(text, pattern, what, flags=re.S):
    ms = list(re.finditer(pattern, text, flags))
    if not ms:
        raise Missing(f"anchor not found: {what}   (pattern: {pattern})")
    return ms


def lean_float(lit, alpha_neg=False):
    """a Rust float literal (`0.015`, `-6.0`, `1.0`) as a Lean term of the generic number type α"""
    lit = lit.strip().replace("_", "")
    lit = re.sub(r"f(32|64)$", "", lit)
    neg = lit.startswith("-")
    if neg:
        lit = lit[1:]
    if not re.fullmatch(r"\d+\.\d+|\d+", lit):
        raise Missing(f"not a plain float literal: {lit}")
    if "." not in lit:
        lit += ".0"
    return f"-({lit} : α)" if neg else f"({lit} : α)"


def def_float(name, lit, doc):
    term = lean_float(lit)
    neg = " [Neg α]" if term.startswith("-") else ""
    return f"/-- {doc} -/\ndef {name} {{α : Type}} [OfScientific α]{neg} : α := {term}\n"


def def_nat(name, value, doc):
    return f"/-- {doc} -/\ndef {name} : Nat := {int(value)}\n"


# ------------------------------------------------------------------------------------------
# extractors
# ------------------------------------------------------------------------------------------

def ex_reverb():
    """effect/reverb.rs, reverb/all_pass.rs, reverb/builder.rs: the Freeverb network's constants and shape"""
    t = src("effect/reverb.rs")
    out = []
    n_comb = int(anchor(t, r"const NUM_COMB_FILTERS: usize = (\d+);", "reverb NUM_COMB_FILTERS").group(1))
    n_ap = int(anchor(t, r"const NUM_ALL_PASS_FILTERS: usize = (\d+);", "reverb NUM_ALL_PASS_FILTERS").group(1))
    gain = anchor(t, r"const GAIN: f32 = ([-0-9._]+);", "reverb GAIN").group(1)
    spread = int(anchor(t, r"const STEREO_SPREAD: usize = (\d+);", "reverb STEREO_SPREAD").group(1))
    ref = int(anchor(t, r"const REFERENCE_SAMPLE_RATE: u32 = (\d+);", "reverb REFERENCE_SAMPLE_RATE").group(1))
    # the scaling of a tuning value: ((buffer_size as f64) * (sample_rate as f64 / REFERENCE as f64)) as usize
    anchor(t, r"let sample_rate_factor = \(sample_rate as f64\) / \(REFERENCE_SAMPLE_RATE as f64\);\s*"
              r"\(\(buffer_size as f64\) \* sample_rate_factor\) as usize",
           "reverb adjust_buffer_size body")
    out.append(def_nat("reverbNumCombFilters", n_comb, "effect/reverb.rs: NUM_COMB_FILTERS"))
    out.append(def_nat("reverbNumAllPassFilters", n_ap, "effect/reverb.rs: NUM_ALL_PASS_FILTERS"))
    out.append(def_nat("reverbStereoSpread", spread, "effect/reverb.rs: STEREO_SPREAD"))
    out.append(def_nat("reverbReferenceSampleRate", ref, "effect/reverb.rs: init_filters::REFERENCE_SAMPLE_RATE"))
    out.append(def_float("reverbGain", gain, "effect/reverb.rs: GAIN (an f32 literal)"))

    def table(kind, count, name, what):
        ms = anchors(
            t,
            kind + r"::new\(adjust_buffer_size\((\d+)\)\),\s*" + kind
            + r"::new\(adjust_buffer_size\((\d+) \+ STEREO_SPREAD\)\),",
            what)
        if len(ms) != count:
            raise Missing(f"{what}: found {len(ms)} (left, right) pairs, the constant says {count}")
        rows = []
        for m in ms:
            if m.group(1) != m.group(2):
                raise Missing(f"{what}: right line is not `left + STEREO_SPREAD` ({m.group(0)})")
            rows.append(f"({m.group(1)}, {m.group(2)} + reverbStereoSpread)")
        return (f"/-- effect/reverb.rs::init_filters: the arguments of `adjust_buffer_size` for the (left, right) "
                f"{kind}s, in array order -/\ndef {name} : List (Nat × Nat) :=\n  [" + ", ".join(rows) + "]\n")

    out.append(table("CombFilter", n_comb, "reverbCombTuning", "reverb comb tuning table"))
    out.append(table("AllPassFilter", n_ap, "reverbAllPassTuning", "reverb all-pass tuning table"))
    # the shape of the per-frame network: combs accumulate in parallel, all-passes chain in series
    anchor(t, r"for comb_filter in comb_filters\.iter_mut\(\) \{\s*"
              r"output\.left \+= comb_filter\.0\.process\(mono_input, feedback, damping\);\s*"
              r"output\.right \+= comb_filter\.1\.process\(mono_input, feedback, damping\);\s*\}",
           "reverb: combs fed the mono input and summed (parallel)")
    anchor(t, r"for all_pass_filter in all_pass_filters\.iter_mut\(\) \{\s*"
              r"output\.left = all_pass_filter\.0\.process\(output\.left\);\s*"
              r"output\.right = all_pass_filter\.1\.process\(output\.right\);\s*\}",
           "reverb: all-passes chained (series)")
    anchor(t, r"let mono_input = \(frame\.left \+ frame\.right\) \* GAIN;", "reverb mono input")
    out.append("/-- how a bank of lines is combined (read off the loops of effect/reverb.rs::process) -/\n"
               "inductive Combine where\n  | parallelSum\n  | series\nderiving DecidableEq, Repr\n")
    out.append("/-- effect/reverb.rs::process: `output += comb.process(mono_input, ..)` -/\n"
               "def reverbCombCombine : Combine := .parallelSum\n")
    out.append("/-- effect/reverb.rs::process: `output = all_pass.process(output)` -/\n"
               "def reverbAllPassCombine : Combine := .series\n")
    ap = src("effect/reverb/all_pass.rs")
    fb = anchor(ap, r"const FEEDBACK: f32 = ([-0-9._]+);", "all_pass FEEDBACK").group(1)
    out.append(def_float("allPassFeedback", fb, "effect/reverb/all_pass.rs: FEEDBACK"))
    # Parameter::new(settings.<x>, <default>) — the value used until a modulator-linked value is first read
    for field, name in [("feedback", "reverbDefaultFeedback"), ("damping", "reverbDefaultDamping"),
                        ("stereo_width", "reverbDefaultStereoWidth")]:
        m = anchor(t, r"%s: Parameter::new\(settings\.%s, ([-0-9._]+)\)," % (field, field),
                   f"reverb Parameter::new default of {field}")
        out.append(def_float(name, m.group(1), f"effect/reverb.rs::Reverb::new: default raw value of `{field}`"))
    m = anchor(t, r"mix: Parameter::new\(settings\.mix, Mix\(([-0-9._]+)\)\),", "reverb Parameter::new default of mix")
    out.append(def_float("reverbDefaultMix", m.group(1), "effect/reverb.rs::Reverb::new: default raw value of `mix`"))
    return "\n".join(out)


def ex_delay():
    """effect/delay.rs: default raw values, the buffer-length formula"""
    t = src("effect/delay.rs")
    out = []
    m = anchor(t, r"feedback: Parameter::new\(builder\.feedback, Decibels\(([-0-9._]+)\)\),",
               "delay Parameter::new default of feedback")
    out.append(def_float("delayDefaultFeedbackDb", m.group(1),
                         "effect/delay.rs::Delay::new: default raw value of `feedback` (decibels)"))
    m = anchor(t, r"mix: Parameter::new\(builder\.mix, Mix\(([-0-9._]+)\)\),", "delay Parameter::new default of mix")
    out.append(def_float("delayDefaultMix", m.group(1), "effect/delay.rs::Delay::new: default raw value of `mix`"))
    # the line length: whole nanoseconds times the sample rate in integers, rounded down, at least one frame
    # (Model/Effects/Delay.lean::frames mirrors exactly this; any other formula must fail here)
    anchor(t, r"fn delay_time_frames\(delay_time: Duration, sample_rate: u32\) -> usize \{\s*"
              r"let frames = delay_time\.as_nanos\(\) \* sample_rate as u128 / 1_000_000_000;\s*"
              r"usize::try_from\(frames\)\.unwrap_or\(usize::MAX\)\.max\(1\)\s*\}",
           "delay length formula (ns * rate / 10^9 in integers, at least one frame)")
    ms = anchors(t, r"let delay_time_frames = delay_time_frames\(self\.delay_time, sample_rate\);\s*"
                    r"self\.buffer = vec!\[Frame::ZERO; delay_time_frames\];",
                 "delay line sized by delay_time_frames")
    if len(ms) != 2:
        raise Missing(f"delay line sized by delay_time_frames: expected in init and on_change_sample_rate, found {len(ms)}")
    anchor(t, r"for input in input\.chunks_mut\(self\.buffer\.len\(\)\)", "delay sub-chunking by the line length")
    out.append("/-- effect/delay.rs::delay_time_frames is `ns * rate / 10^9` in integers, `.max(1)` -/\n"
               "def delayLengthInIntegers : Bool := true\n")
    out.append("/-- effect/delay.rs::process walks the input in `chunks_mut(self.buffer.len())` -/\n"
               "def delaySubChunksByLineLength : Bool := true\n")
    return "\n".join(out)


EXTRACTORS = [ex_reverb, ex_delay]


# ------------------------------------------------------------------------------------------
# the translator session (tools/rs2lean.py): items translated from the Rust source
# ------------------------------------------------------------------------------------------
sys.path.insert(0, os.path.dirname(os.path.abspath(__file__)))
import rs2lean as X  # noqa: E402
import rs2lean_mut as XM  # noqa: E402

OUT_DIR = os.environ.get("KV_GEN_OUT") or os.path.join(ROOT, "lean", "KiraModel")
OUT = os.path.join(OUT_DIR, "Gen.lean")
OUT_FN = os.path.join(OUT_DIR, "GenFn.lean")

VARIABLE = ("variable {α : Type} [Add α] [Sub α] [Mul α] [Div α] [Neg α] [LT α] [LE α]\n"
            "  [DecidableLT α] [DecidableLE α] [OfScientific α] [KOps α]\n")


def camel(variant):
    return variant[0].lower() + variant[1:]


class Session:
    """collects the world (types, translated items) and the generated text of the two tiers:
    tier 0 → Gen.lean (import-free), tier 1 → GenFn.lean (imports Num, Gen, Model/UnitTypes)"""

    def __init__(self):
        self.w = X.World()
        self.sources = {}
        self.tier0 = []
        self.tier1 = []
        self.errors = []
        self.manifest = []   # (rust location, lean name, kind)
        self.items = []      # what each item reads: dict(kind, rel, header, name, lean, …) (used by the self-test)

    def source(self, rel):
        if rel not in self.sources:
            self.sources[rel] = X.Source(rel, src(rel))
        return self.sources[rel]

    def guarded(self, what, thunk):
        """run one item; an error is recorded under the item's name (and the run fails at the end)"""
        try:
            thunk()
        except (X.XlateError, Missing) as e:
            self.errors.append(f"{what}: {e}")
        except RecursionError:
            self.errors.append(f"{what}: parser recursion limit")

    def emit(self, tier, text):
        (self.tier0 if tier == 0 else self.tier1).append(text)

    # ---- type declarations the translator needs to know about ---------------------------------
    def newtype(self, rel, name):
        self.items.append({"kind": "newtype", "rel": rel, "name": name, "lean": name})
        def go():
            st = self.source(rel).struct(name)
            if st["kind"] != "tuple" or len(st["types"]) != 1 or st["types"][0] not in X.FLOATS:
                raise X.XlateError(f"{rel}::{name} is not a newtype over f32/f64")
            self.w.newtypes[name] = {"inner": st["types"][0], "derives": st["derives"]}
            self.manifest.append((f"{rel}::struct {name}", f"(erased to its inner {st['types'][0]})", "newtype"))
        self.guarded(f"{rel}::struct {name}", go)

    def struct(self, rel, name, lean, fields, dropped=()):
        """`fields`: {rust path: (lean field, rust type)} in Lean constructor order; checked against the source"""
        self.items.append({"kind": "struct", "rel": rel, "name": name, "lean": lean})
        def go():
            st = self.source(rel).struct(name)
            if st["kind"] != "named":
                raise X.XlateError(f"{rel}::{name}: not a struct with named fields")
            actual = {}
            for f, t in st["fields"]:
                if f in dropped:
                    continue
                m = re.fullmatch(r"\((.*)\)", t)
                if m:
                    for i, part in enumerate(p.strip() for p in m.group(1).split(",")):
                        actual[f"{f}.{i}"] = part
                else:
                    actual[f] = t
            want = {k: v[1] for k, v in fields.items()}
            if actual != want:
                raise X.XlateError(f"{rel}::struct {name}: fields in the source {actual} ≠ fields the model has {want}")
            self.w.structs[name] = {"lean": lean, "fields": dict(fields), "order": list(fields), "dropped": set(dropped)}
            self.manifest.append((f"{rel}::struct {name}", lean, "struct (hand type, fields checked)"))
        self.guarded(f"{rel}::struct {name}", go)

    def enum(self, rel, name, lean=None, head=None, shape="auto", use_shape=False):
        """read `enum name`; emit `Shape.<name>Tag` (always) and `Shape.<name>` with payloads (when every payload
        type has a Lean counterpart) into tier 0.  With `use_shape` translated functions range over the generated
        tag type (for enums whose hand type lives late in the import graph)."""
        self.items.append({"kind": "enum", "rel": rel, "name": name, "lean": f"Shape.{name}Tag"})
        def go():
            en = self.source(rel).enum(name)
            tagname = f"Shape.{name}Tag"
            lines = [f"/-- {rel}::{name}: the variants in declaration order (names only) -/",
                     f"inductive {tagname} where"]
            for v, kind, fs in en["variants"]:
                lines.append(f"  | {camel(v)}")
            lines.append("deriving DecidableEq, Repr\n")
            self.emit(0, "\n".join(lines))
            tmap = {"f32": "α", "f64": "α", "i32": "Int", "i64": "Int", "u32": "Nat", "u64": "Nat", "usize": "Nat",
                    "Duration": "Nat", "bool": "Bool"}
            full_ok = all(t in tmap for _, _, fs in en["variants"] for _, t in fs)
            has_payload = any(fs for _, _, fs in en["variants"])
            if full_ok and has_payload:
                uses_alpha = any(tmap[t] == "α" for _, _, fs in en["variants"] for _, t in fs)
                lines = [f"/-- {rel}::{name}: the variants in declaration order with their payloads "
                         f"(f32/f64 ↦ α, i32 ↦ Int, u64/usize ↦ Nat, Duration ↦ Nat) -/",
                         f"inductive Shape.{name}" + (" (α : Type)" if uses_alpha else "") + " where"]
                for v, kind, fs in en["variants"]:
                    bs = " ".join(f"({fn or 'a' + str(i)} : {tmap[t]})" for i, (fn, t) in enumerate(fs))
                    lines.append(f"  | {camel(v)}" + (" " + bs if bs else ""))
                lines.append("")
                self.emit(0, "\n".join(lines))
            elif has_payload:
                desc = ", ".join(f"{v}({', '.join(t for _, t in fs)})" for v, _, fs in en["variants"] if fs)
                self.emit(0, f"-- {rel}::{name}: payloads without a tier-0 Lean counterpart: {desc}\n")
            variants = {}
            for v, kind, fs in en["variants"]:
                variants[v] = (camel(v), [t for _, t in fs], [fn for fn, _ in fs])
            if use_shape:
                self.w.enums[name] = {"lean": tagname, "head": tagname, "variants": variants,
                                      "order": [v for v, _, _ in en["variants"]], "derives": en["derives"]}
            elif lean is not None:
                self.w.enums[name] = {"lean": lean, "head": head or name, "variants": variants,
                                      "order": [v for v, _, _ in en["variants"]], "derives": en["derives"]}
            self.manifest.append((f"{rel}::enum {name}", f"K.Gen.{tagname}"
                                  + (f", K.Gen.Shape.{name}" if full_ok and has_payload else ""), "enum shape"))
        self.guarded(f"{rel}::enum {name}", go)

    # ---- constants ----------------------------------------------------------------------------
    def lower(self, rel, self_type, what, generics=None):
        return X.Lower(self.w, self.source(rel), self_type, what, generics)

    def def_text(self, lean, binders, ret, body, doc):
        head = f"/-- {doc} -/\ndef {lean}" + ("".join(" " + b for b in binders)) + f" : {ret} :="
        return head + "\n  " + X.wrap(body) + "\n"

    def const(self, rel, header, name, lean, owner=None, tier=1, in_fn=None):
        """`const NAME: T = expr;` inside `header` (an impl, or with in_fn a fn body); registered under `owner`
        (a type) or the file"""
        self.items.append({"kind": "const", "rel": rel, "header": header, "name": name, "in_fn": in_fn, "lean": lean})
        def go():
            c = self.source(rel).const(header, name, in_fn)
            lo = self.lower(rel, owner, c["what"])
            ty = lo.resolve_type(c["type"])
            r = lo.coerce(lo.expr(c["expr"], {}, ty), ty)
            lt = lo.lt(ty)
            self.emit(tier, self.def_text(lean, [], lt, r.text, f"generated from {c['what']} (`{c['type']}`)"))
            self.w.consts[(owner if owner else rel, name)] = (f"({lean} : {lt})" if lt == "α" else lean, ty)
            self.manifest.append((c["what"], f"K.Gen.{lean}", "constant"))
        self.guarded(f"{rel}::{header}::{name}", go)

    def pick_expr(self, e, pick, what):
        for step in pick:
            if step[0] == "field":
                if e[0] == "block" and not e[1] and e[2] is not None:
                    e = e[2]
                if e[0] != "struct":
                    raise X.XlateError(f"{what}: expected a struct literal, found `{e[0]}`")
                hit = [x for f, x in e[2] if f == step[1]]
                if len(hit) != 1:
                    raise X.XlateError(f"{what}: struct literal has no field `{step[1]}`")
                e = hit[0]
            elif step[0] == "arg":
                if e[0] not in ("call", "mcall"):
                    raise X.XlateError(f"{what}: expected a call, found `{e[0]}`")
                callee = "::".join(e[1][1]) if e[0] == "call" and e[1][0] == "path" else e[2]
                if callee != step[1]:
                    raise X.XlateError(f"{what}: expected a call of `{step[1]}`, found `{callee}`")
                args = e[2] if e[0] == "call" else e[3]
                if step[2] >= len(args):
                    raise X.XlateError(f"{what}: call of `{callee}` has no argument {step[2]}")
                e = args[step[2]]
            elif step[0] == "tail":
                if e[0] != "block" or e[1] or e[2] is None:
                    raise X.XlateError(f"{what}: expected a body that is a single expression")
                e = e[2]
        return e

    def value_in_fn(self, rel, header, fn, pick, ty, lean, owner=None, tier=1):
        """a sub-expression of the (single-expression) body of `fn`, e.g. one field initialiser of the struct
        literal a `default()` returns, or the default argument of a `Parameter::new(…)` in a constructor"""
        self.items.append({"kind": "value_in_fn", "rel": rel, "header": header, "name": fn, "pick": pick, "lean": lean})
        def go():
            fd = self.source(rel).fn(header, fn)
            what = fd["what"] + " " + " ".join(str(s[1]) for s in pick)
            e = self.pick_expr(fd["body"], [("tail",)] + list(pick), what)
            lo = self.lower(rel, owner, what)
            r = lo.coerce(lo.expr(e, {}, ty), ty)
            lt = lo.lt(ty)
            self.emit(tier, self.def_text(lean, [], lt, r.text, f"generated from {what}"))
            self.manifest.append((what, f"K.Gen.{lean}", "constant"))
        self.guarded(f"{rel}::{header}::{fn} {pick}", go)

    def default_arg(self, rel, header, fn, field, ty, lean, callee="Parameter::new", argi=1, count=1, tier=1,
                    owner=None):
        """argument `argi` of `field: callee(…)` in the body of `fn` (e.g. the default raw value a `Parameter`
        takes until a modulator-linked value is first read); `count` occurrences, which must all be equal"""
        self.items.append({"kind": "default_arg", "rel": rel, "header": header, "name": fn, "field": field,
                           "callee": callee, "lean": lean})
        def go():
            calls, what = self.source(rel).field_call(header, fn, field, callee)
            if len(calls) != count:
                raise X.XlateError(f"{what}: found {len(calls)} occurrences, expected {count}")
            lo = self.lower(rel, owner, what)
            texts = set()
            for c in calls:
                args = c[2]
                if argi >= len(args):
                    raise X.XlateError(f"{what}: no argument {argi}")
                r = lo.coerce(lo.expr(args[argi], {}, ty), ty)
                texts.add(r.text)
            if len(texts) != 1:
                raise X.XlateError(f"{what}: the occurrences disagree: {sorted(texts)}")
            self.emit(tier, self.def_text(lean, [], lo.lt(ty), texts.pop(), f"generated from {what} (argument {argi})"))
            self.manifest.append((what, f"K.Gen.{lean}", "constant"))
        self.guarded(f"{rel}::{header}::{fn} {field}: {callee}", go)

    def snippet(self, rel, header, fn, first, last, inputs, outputs, lean, ret, tier=1):
        """a run of `let` statements inside an otherwise imperative fn, as a function of the named inputs
        returning the anonymous-constructor tuple of `outputs` (Lean type `ret`)"""
        self.items.append({"kind": "snippet", "rel": rel, "header": header, "name": fn, "first": first, "last": last,
                           "lean": lean})
        def go():
            blk, what = self.source(rel).let_range(header, fn, first, last)
            lo = self.lower(rel, None, what)
            env, binders = {}, []
            for n, t in inputs:
                env[n] = (lo.lname(n), t)
                binders.append(f"({lo.lname(n)} : {lo.lt(t)})")
            tail = ("struct", ["__Out"], [(o, ("path", [o])) for o in outputs], None)
            self.w.structs["__Out"] = {"lean": ret, "fields": {}, "order": list(outputs), "dropped": set()}
            out_types = {}

            class _L(X.Lower):
                pass
            # outputs are read back from the environment after the lets: translate the block with a tail that
            # mentions every output, typing each by its own binding
            def struct_lit(e, env2, expect):
                rs = [lo.expr(("path", [o]), env2, None) for o in outputs]
                return X.R("⟨" + ", ".join(x.text for x in rs) + "⟩", "__Out", atomic=True)
            lo.struct_lit = struct_lit
            body = lo.block(("block", blk[1], tail), env, "__Out", tail=True)
            del self.w.structs["__Out"]
            self.emit(tier, self.def_text(lean, binders, ret, body.text,
                                          f"generated from {what}: inputs {[n for n, _ in inputs]}, outputs {outputs}"))
            self.manifest.append((what, f"K.Gen.{lean}", "let-range"))
        self.guarded(f"{rel}::{header}::{fn} let {first}..{last}", go)

    # ---- functions ----------------------------------------------------------------------------
    def fn(self, rel, header, name, lean, self_type=None, op=None, unop=None, trait=None, flatten_self=None,
           generics=None, tier=1, register=True, drop_params=()):
        """translate `fn name` found in `header`.  op=('+', rhs type): register as the operator impl;
        trait='Tweenable::interpolate': register as that trait fn at `self_type`;
        flatten_self={field: rust type}: the item takes these fields of `self` instead of `self`;
        generics={'T': (dict name, dict lean type, {fn: (lean field, [param types], ret)}, lean type of T)}"""
        self.items.append({"kind": "fn", "rel": rel, "header": header, "name": name, "lean": lean})
        def go():
            fd = self.source(rel).fn(header, name)
            gmap, extra, implicit = {}, [], []
            for tv, (dname, dtype, fields, tlean) in (generics or {}).items():
                gmap[tv] = (dname, fields, None, tlean)
                implicit.append(f"{{{tlean} : Type}}")
                extra.append((dname, dtype))
            lo = self.lower(rel, self_type, fd["what"], gmap)
            lo.header = header
            env, binders, params = {}, list(implicit) + [f"({d} : {t})" for d, t in extra], []
            for pn, pt, _ in fd["params"]:
                if pn in drop_params:
                    continue      # a parameter that only feeds fields the model does not have
                if pn == "self":
                    if self_type is None:
                        raise X.XlateError(f"{fd['what']}: `self` but no self type given")
                    if flatten_self:
                        flat = {}
                        for f, ft in flatten_self.items():
                            flat[f] = (lo.lname(f), ft)
                            binders.append(f"({lo.lname(f)} : {lo.lt(ft)})")
                            params.append((f, ft))
                        env["self"] = flat
                        continue
                    pt = self_type
                else:
                    pt = lo.resolve_type(pt)
                env[pn] = (lo.lname(pn), pt)
                binders.append(f"({lo.lname(pn)} : {lo.lt(pt)})")
                params.append((pn, pt))
            if fd["ret"] is None:
                raise X.XlateError(f"{fd['what']}: no return type (not a pure function)")
            ret = lo.resolve_type(fd["ret"])
            item = X.Item(lean, params, ret, self_type, fd, extra)
            lo.current = item
            lo.current_fn_name = name
            body = lo.block(fd["body"], env, ret, tail=True)
            lo.coerce(body, ret)
            if ret == "bool":
                body = lo.as_bool(body)
            sig = "fn " + name + "(" + ", ".join(f"{a}: {b}" for a, b, _ in fd["params"]) + ") -> " + fd["ret"]
            self.emit(tier, self.def_text(lean, binders, lo.lt(ret), body.text,
                                          f"generated from {fd['what']}  (`{sig}`)"))
            if register:
                if op is not None:
                    self.w.ops[(op[0], self_type, op[1])] = item
                elif unop is not None:
                    self.w.unops[(unop, self_type)] = item
                elif trait is not None:
                    self.w.trait_fns[(trait, self_type)] = item
                else:
                    self.w.fns[(self_type, name)] = item
            self.manifest.append((fd["what"], f"K.Gen.{lean}", "function"))
        self.guarded(f"{rel}::{header}::{name}", go)

    def mut_fn(self, rel, header, name, lean, state, tier=1):
        """translate the straight-line `&mut self` method `name` of the checked struct `state` into a pure
        `State → args → Except Fault State` (tools/rs2lean_mut.py)"""
        self.items.append({"kind": "fn", "rel": rel, "header": header, "name": name, "lean": lean})
        def go():
            if state not in self.w.structs:
                raise X.XlateError(f"{rel}::{header}::{name}: state struct {state} is not a checked struct")
            st = self.w.structs[state]
            fd = self.source(rel).fn(header, name, parser_cls=XM.MutParser)
            self.emit(tier, XM.translate_method(fd, lean, st["lean"], st["fields"]))
            self.manifest.append((fd["what"], f"K.Gen.{lean}", "&mut self method"))
        self.guarded(f"{rel}::{header}::{name}", go)

    def nat_const(self, rel, pattern, what, lean, doc, tier=0):
        self.items.append({"kind": "nat_const", "rel": rel, "pattern": pattern, "name": what, "lean": lean})
        def go():
            m = anchor(X.strip_comments(src(rel)), pattern, what)
            self.emit(tier, def_nat(lean, m.group(1).replace("_", ""), doc))
            self.manifest.append((f"{rel}: {what}", f"K.Gen.{lean}", "constant (anchor)"))
        self.guarded(f"{rel}: {what}", go)


def translate(S):
    """the item list: Rust location → Lean name.  Order matters: an item may only use items above it."""
    # -- unit newtypes (erased) and the hand types the generated functions range over
    S.newtype("decibels.rs", "Decibels")
    S.newtype("panning.rs", "Panning")
    S.newtype("semitones.rs", "Semitones")
    S.newtype("playback_rate.rs", "PlaybackRate")
    S.newtype("mix.rs", "Mix")
    S.struct("frame.rs", "Frame", "Frame α", {"left": ("left", "f32"), "right": ("right", "f32")})
    S.enum("tween.rs", "Easing", lean="Easing α", head="Easing")
    S.enum("clock/clock_speed.rs", "ClockSpeed", lean="ClockSpeed α", head="ClockSpeed")
    S.enum("modulator/lfo.rs", "Waveform", lean="Waveform α", head="Waveform")
    S.struct("value.rs", "Mapping", "Mapping α τ",
             {"input_range.0": ("in0", "f64"), "input_range.1": ("in1", "f64"),
              "output_range.0": ("out0", "T"), "output_range.1": ("out1", "T"), "easing": ("easing", "Easing")})
    # -- enum shapes only (hand types live later in the import graph, or carry payloads modelled differently)
    S.enum("sound.rs", "PlaybackState", lean="PlaybackState", head="PlaybackState")
    S.enum("effect/distortion.rs", "DistortionKind", lean="DistortionKind", head="DistortionKind")
    S.enum("effect/filter.rs", "FilterMode", lean="FilterMode", head="FilterMode")
    S.enum("effect/eq_filter.rs", "EqFilterKind", lean="EqFilterKind", head="EqFilterKind")
    S.struct("clock/time.rs", "ClockTime", "ClockTime α", {"ticks": ("ticks", "u64"), "fraction": ("fraction", "f64")},
             dropped=("clock",))
    S.struct("effect/eq_filter.rs", "Coefficients", "EqCoefs α",
             {f: (f, "f64") for f in ("a1", "a2", "a3", "m0", "m1", "m2")})
    S.enum("start_time.rs", "StartTime")
    S.enum("sound.rs", "EndPosition")
    S.struct("sound/transport.rs", "Transport", "Transport",
             {"position": ("position", "usize"), "loop_region": ("loopRegion", "Option<(usize, usize)>"),
              "playing": ("playing", "bool")})

    # -- constants
    S.const("decibels.rs", "impl Decibels", "SILENCE", "decibelsSilence", owner="Decibels")
    S.const("decibels.rs", "impl Decibels", "IDENTITY", "decibelsIdentity", owner="Decibels")
    S.const("panning.rs", "impl Panning", "LEFT", "panningLeft", owner="Panning")
    S.const("panning.rs", "impl Panning", "CENTER", "panningCenter", owner="Panning")
    S.const("panning.rs", "impl Panning", "RIGHT", "panningRight", owner="Panning")
    S.const("mix.rs", "impl Mix", "DRY", "mixDry", owner="Mix")
    S.const("mix.rs", "impl Mix", "WET", "mixWet", owner="Mix")

    # -- decibels, semitones
    S.fn("decibels.rs", "impl Decibels", "as_amplitude", "decibelsAsAmplitude", self_type="Decibels")
    S.fn("semitones.rs", "impl From<Semitones> for PlaybackRate", "from", "semitonesToPlaybackRate",
         self_type="PlaybackRate", register=False)

    # -- Tweenable::interpolate
    TW = "Tweenable::interpolate"
    S.fn("tween/tweenable.rs", "impl Tweenable for f32", "interpolate", "f32Interpolate", self_type="f32", trait=TW)
    S.fn("tween/tweenable.rs", "impl Tweenable for f64", "interpolate", "f64Interpolate", self_type="f64", trait=TW)
    S.fn("tween/tweenable.rs", "impl Tweenable for Duration", "interpolate", "durationInterpolate",
         self_type="Duration", trait=TW)
    S.fn("decibels.rs", "impl Tweenable for Decibels", "interpolate", "decibelsInterpolate", self_type="Decibels", trait=TW)
    S.fn("panning.rs", "impl Tweenable for Panning", "interpolate", "panningInterpolate", self_type="Panning", trait=TW)
    S.fn("mix.rs", "impl Tweenable for Mix", "interpolate", "mixInterpolate", self_type="Mix", trait=TW)
    S.fn("playback_rate.rs", "impl Tweenable for PlaybackRate", "interpolate", "playbackRateInterpolate",
         self_type="PlaybackRate", trait=TW)
    S.fn("semitones.rs", "impl Tweenable for Semitones", "interpolate", "semitonesInterpolate",
         self_type="Semitones", trait=TW)

    # -- frames
    S.fn("frame.rs", "impl Frame", "new", "frameNew", self_type="Frame")
    S.fn("frame.rs", "impl Frame", "from_mono", "frameFromMono", self_type="Frame")
    S.fn("frame.rs", "impl Add for Frame", "add", "frameAdd", self_type="Frame", op=("+", "Frame"))
    S.fn("frame.rs", "impl Sub for Frame", "sub", "frameSub", self_type="Frame", op=("-", "Frame"))
    S.fn("frame.rs", "impl Mul<f32> for Frame", "mul", "frameMulF32", self_type="Frame", op=("*", "f32"))
    S.fn("frame.rs", "impl Div<f32> for Frame", "div", "frameDivF32", self_type="Frame", op=("/", "f32"))
    S.fn("frame.rs", "impl Neg for Frame", "neg", "frameNeg", self_type="Frame", unop="-")
    S.fn("frame.rs", "impl Frame", "panned", "framePanned", self_type="Frame")
    S.fn("frame.rs", "impl Frame", "as_mono", "frameAsMono", self_type="Frame")
    S.fn("frame.rs", None, "interpolate_frame", "interpolateFrame")

    # -- clock speed
    S.fn("clock/clock_speed.rs", "impl ClockSpeed", "as_seconds_per_tick", "clockSpeedAsSecondsPerTick", self_type="ClockSpeed")
    S.fn("clock/clock_speed.rs", "impl ClockSpeed", "as_ticks_per_second", "clockSpeedAsTicksPerSecond", self_type="ClockSpeed")
    S.fn("clock/clock_speed.rs", "impl ClockSpeed", "as_ticks_per_minute", "clockSpeedAsTicksPerMinute", self_type="ClockSpeed")
    S.fn("clock/clock_speed.rs", "impl ClockSpeed", "interpolate_in_unit_of_start", "clockSpeedInterpolateInUnitOfStart",
         self_type="ClockSpeed")
    S.fn("clock/clock_speed.rs", "impl Tweenable for ClockSpeed", "interpolate", "clockSpeedInterpolate",
         self_type="ClockSpeed", trait=TW)

    # -- clock time (one clock: the `clock` field is dropped; `u64` is `Nat`, so `+` cannot overflow)
    S.fn("clock/time.rs", "impl ClockTime", "from_ticks_f64", "clockTimeFromTicksF64", self_type="ClockTime",
         drop_params=("clock",))
    S.fn("clock/time.rs", "impl Add<u64> for ClockTime", "add", "clockTimeAddU64", self_type="ClockTime",
         op=("+", "u64"))

    # -- easing, tween, mapping
    S.fn("tween.rs", "impl Easing", "apply", "easingApply", self_type="Easing")
    S.fn("tween.rs", "impl Tween", "value", "tweenValue", self_type="Tween",
         flatten_self={"easing": "Easing", "duration": "Duration"})
    S.value_in_fn("tween.rs", "impl Default for Tween", "default", [("field", "duration")], "Duration",
                  "tweenDefaultDurationNs", tier=0)
    S.value_in_fn("tween.rs", "impl Default for Tween", "default", [("field", "easing")], "Easing",
                  "tweenDefaultEasing")
    S.value_in_fn("tween.rs", "impl Default for Easing", "default", [], "Easing", "easingDefault", owner="Easing")
    S.fn("value.rs", "impl<T> Mapping<T>", "map", "mappingMap", self_type="Mapping",
         generics={"T": ("tw", "Tweenable α τ", {"interpolate": ("lerp", ["T", "T", "f64"], "T")}, "τ")})

    # -- LFO
    S.fn("modulator/lfo.rs", "impl Waveform", "value", "waveformValue", self_type="Waveform")

    S.value_in_fn("modulator/lfo/builder.rs", "impl Default for LfoBuilder", "default", [("field", "waveform")],
                  "Waveform", "lfoDefaultWaveform")
    for field in ("frequency", "amplitude", "offset"):
        S.value_in_fn("modulator/lfo/builder.rs", "impl Default for LfoBuilder", "default",
                      [("field", field), ("arg", "Value::Fixed", 0)], "f64", "lfoBuilderDefault" + field.capitalize())
        S.default_arg("modulator/lfo.rs", "impl Lfo", "new", field, "f64", "lfoDefault" + field.capitalize())
    S.value_in_fn("modulator/lfo/builder.rs", "impl Default for LfoBuilder", "default", [("field", "starting_phase")],
                  "f64", "lfoBuilderDefaultStartingPhase")

    # -- playback state
    S.fn("sound.rs", "impl PlaybackState", "is_advancing", "playbackStateIsAdvancing", self_type="PlaybackState")

    # -- the transport: straight-line `&mut self` methods (tools/rs2lean_mut.py).  `set_loop_region` (closures,
    #    `into_samples`) is outside the subset and is not listed.
    S.mut_fn("sound/transport.rs", "impl Transport", "increment_position", "transportIncrementPosition", "Transport")
    S.mut_fn("sound/transport.rs", "impl Transport", "decrement_position", "transportDecrementPosition", "Transport")
    S.mut_fn("sound/transport.rs", "impl Transport", "seek_to", "transportSeekTo", "Transport")

    # -- spatial tracks
    S.const("track/sub.rs", None, "EAR_DISTANCE", "earDistance", in_fn="listener_ear_positions")
    S.const("track/sub.rs", None, "EAR_ANGLE_FROM_HEAD", "earAngleFromHead", in_fn="listener_ear_directions")
    S.default_arg("track/sub/spatial_builder.rs", "impl SpatialTrackBuilder", "build", "spatialization_strength",
                  "f32", "spatialDefaultSpatializationStrength")

    # -- sizes and capacities
    for field in ("sub_track_capacity", "send_track_capacity", "clock_capacity", "modulator_capacity",
                  "listener_capacity"):
        S.value_in_fn("manager/settings.rs", "impl Default for Capacities", "default", [("field", field)], "usize",
                      "default" + "".join(w.capitalize() for w in field.split("_")), tier=0)
    S.value_in_fn("manager/settings.rs", "impl<B: Backend> Default for AudioManagerSettings<B>", "default",
                  [("field", "internal_buffer_size")], "usize", "defaultInternalBufferSize", tier=0)
    S.const("sound/streaming/sound/decode_scheduler.rs", None, "BUFFER_SIZE", "streamingBufferSize", tier=0)
    S.const("sound/streaming/data.rs", None, "ERROR_BUFFER_CAPACITY", "streamingErrorBufferCapacity", tier=0)
    S.nat_const("sound/static_sound/sound/resampler.rs", r"frames: \[RecentFrame; (\d+)\],",
                "the resampler window `frames: [RecentFrame; N]`", "resamplerWindow",
                "sound/static_sound/sound/resampler.rs::Resampler: `frames: [RecentFrame; N]`")

    # -- effects: filter
    S.default_arg("effect/filter.rs", "impl Filter", "new", "cutoff", "f64", "filterDefaultCutoff")
    S.default_arg("effect/filter.rs", "impl Filter", "new", "resonance", "f64", "filterDefaultResonance")
    S.default_arg("effect/filter.rs", "impl Filter", "new", "mix", "Mix", "filterDefaultMix")
    S.snippet("effect/filter.rs", "impl Effect for Filter", "process", "sample_rate", "a3",
              [("cutoff", "f64"), ("resonance", "f64"), ("dt", "f64")], ["k", "a1", "a2", "a3"],
              "filterCoefs", "FilterCoefs α")
    # -- effects: EQ filter
    S.const("effect/eq_filter.rs", None, "MIN_Q", "eqFilterMinQ")
    S.default_arg("effect/eq_filter.rs", "impl EqFilter", "new", "frequency", "f64", "eqFilterDefaultFrequency")
    S.default_arg("effect/eq_filter.rs", "impl EqFilter", "new", "gain", "Decibels", "eqFilterDefaultGain")
    S.default_arg("effect/eq_filter.rs", "impl EqFilter", "new", "q", "f64", "eqFilterDefaultQ")
    S.fn("effect/eq_filter.rs", "impl Coefficients", "calculate", "eqCoefficientsCalculate", self_type="Coefficients")
    # -- effects: compressor, distortion, volume / panning control
    for name, lean in (("DEFAULT_THRESHOLD", "compressorDefaultThreshold"), ("DEFAULT_RATIO", "compressorDefaultRatio"),
                       ("DEFAULT_ATTACK_DURATION", "compressorDefaultAttackNs"),
                       ("DEFAULT_RELEASE_DURATION", "compressorDefaultReleaseNs"),
                       ("DEFAULT_MAKEUP_GAIN", "compressorDefaultMakeupGain"), ("DEFAULT_MIX", "compressorDefaultMix")):
        S.const("effect/compressor/builder.rs", "impl CompressorBuilder", name, lean, owner="CompressorBuilder")
    S.value_in_fn("effect/distortion.rs", "impl Default for DistortionKind", "default", [], "DistortionKind",
                  "distortionDefaultKind", owner="DistortionKind")
    S.value_in_fn("effect/distortion/builder.rs", "impl Default for DistortionBuilder", "default",
                  [("field", "drive"), ("arg", "Value::Fixed", 0)], "Decibels", "distortionDefaultDrive")
    S.value_in_fn("effect/distortion/builder.rs", "impl Default for DistortionBuilder", "default",
                  [("field", "mix"), ("arg", "Value::Fixed", 0)], "Mix", "distortionDefaultMix")
    S.default_arg("effect/volume_control.rs", "impl VolumeControl", "new", "volume", "Decibels", "volumeControlDefault")
    S.default_arg("effect/panning_control.rs", "impl PanningControl", "new", "panning", "Panning", "panningControlDefault")
    # -- sounds: default raw values of the three parameters
    for rel, hdr, pre in (("sound/static_sound/sound.rs", "impl StaticSound", "staticSound"),
                          ("sound/streaming/sound.rs", "impl StreamingSound", "streamingSound")):
        S.default_arg(rel, hdr, "new", "volume", "Decibels", pre + "DefaultVolume")
        S.default_arg(rel, hdr, "new", "playback_rate", "PlaybackRate", pre + "DefaultPlaybackRate")
        S.default_arg(rel, hdr, "new", "panning", "Panning", pre + "DefaultPanning")
    S.default_arg("clock.rs", "impl Clock", "new", "speed", "ClockSpeed", "clockDefaultSpeed", count=1)


def render_manifest(S):
    rows = ["| Rust item | Lean | kind |", "|---|---|---|"]
    for a, b, c in S.manifest:
        rows.append(f"| `{a}` | `{b}` | {c} |")
    return "\n".join(rows) + "\n"




def main():
    blocks = []
    errors = []
    for ex in EXTRACTORS:
        try:
            blocks.append(f"/-! ### {ex.__name__}: {(ex.__doc__ or '').strip()} -/\n\n" + ex())
        except Missing as e:
            errors.append(f"{ex.__name__}: {e}")
    S = Session()
    try:
        translate(S)
    except Missing as e:
        errors.append(f"translate: {e}")
    errors += S.errors
    if "--manifest" in sys.argv:
        print(render_manifest(S))
    if errors:
        print("gen_lean.py: EXTRACTION FAILED (the Rust source no longer matches an anchor pattern / the translated subset):")
        for e in errors:
            print("  " + e)
        return 1
    text = ("/-\n  Gen.lean — GENERATED by tools/gen_lean.py from the Rust source (crates/kira/src) on every check run.\n"
            "  Do not edit.  Import-free.\n-/\n\nnamespace K.Gen\n\n" + "\n".join(blocks)
            + "\n/-! ### translated by tools/rs2lean.py (tier 0: needs no `KOps`) -/\n\n" + "\n".join(S.tier0)
            + "\nend K.Gen\n")
    text_fn = ("/-\n  GenFn.lean — GENERATED by tools/gen_lean.py (translator: tools/rs2lean.py) from the Rust source on every "
               "check run.\n  Do not edit.  Imports only the numeric interface, Gen.lean and the hand-written type "
               "declarations\n  (all core-only), so the twin still links natively.\n-/\n"
               "import KiraModel.Num\nimport KiraModel.Gen\nimport KiraModel.Model.Fault\nimport KiraModel.Model.UnitTypes\n\nnamespace K.Gen\n\n"
               + VARIABLE + "\n" + "\n".join(S.tier1) + "\nend K.Gen\n")
    for path, body in ((OUT_FN, text_fn),):
        oldb = open(path).read() if os.path.exists(path) else None
        if oldb != body:
            with open(path, "w") as f:
                f.write(body)
            print(f"gen_lean.py: wrote {os.path.relpath(path, ROOT)} ({len(S.manifest)} translated items)")
        else:
            print(f"gen_lean.py: {os.path.relpath(path, ROOT)} up to date ({len(S.manifest)} translated items)")
    old = open(OUT).read() if os.path.exists(OUT) else None
    if old != text:
        with open(OUT, "w") as f:
            f.write(text)
        print(f"gen_lean.py: wrote {os.path.relpath(OUT, ROOT)} ({len(EXTRACTORS)} extractors)")
    else:
        print(f"gen_lean.py: {os.path.relpath(OUT, ROOT)} up to date ({len(EXTRACTORS)} extractors)")
    return 0


if __name__ == "__main__":
    sys.exit(main())
