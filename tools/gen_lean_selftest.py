#!/usr/bin/env python3
"""
tools/gen_lean_selftest.py — mutation self-test of the Rust→Lean translator (tools/gen_lean.py + tools/rs2lean.py).

For every translated item it applies a few small TEXTUAL mutations to a scratch COPY of the Rust file the item
is read from (never to /repo): swap an operator, change a literal, swap two match arms / call arguments /
enum variants, rename or add an enum variant.  After each mutation the generator is re-run against the scratch
tree (KV_REPO, KV_GEN_OUT) and the outcome must be one of

    loud      gen_lean.py exits 1 naming the item (the mutated text left the translated subset), or
    changed   the generated Lean text (Gen.lean / GenFn.lean) differs from the unmutated run.

A mutant with exit 0 and unchanged output is SILENT: the translator ignored a change inside an item it
claims to translate — the self-test fails.  For a sample of the `changed` mutants (`--build N`, default 8,
spread over the items) the mutated generated files are put in place and
`lake build KiraModel.Proofs.GenAgree…` must FAIL (the pinned readings no longer agree); the original
generated files are restored afterwards.

usage: tools/gen_lean_selftest.py [--build N] [--only <substring of the Lean name>] [-v]
Scratch directory: /var/tmp/kv-xlate-selftest.<pid> (removed at exit).
"""
import os
import re
import shutil
import subprocess
import sys

HERE = os.path.dirname(os.path.abspath(__file__))
ROOT = os.path.dirname(HERE)
sys.path.insert(0, HERE)
import gen_lean as G   # noqa: E402
import rs2lean as X    # noqa: E402

AGREE = ["KiraModel.Proofs.GenAgree", "KiraModel.Proofs.GenAgreeMod", "KiraModel.Proofs.GenAgreeFx",
         "KiraModel.Proofs.GenAgreeSound", "KiraModel.Proofs.GenAgreeSpatial", "KiraModel.Proofs.GenAgreeTransport"]
FLOAT_LIT = re.compile(r"(?<![A-Za-z0-9_.])(\d[\d_]*)\.(\d+)(?![A-Za-z0-9_]*\()")
INT_LIT = re.compile(r"(?<![A-Za-z0-9_.])(\d[\d_]*)(?![A-Za-z0-9_.])")


def region_of(item, source):
    """(lo, hi) in source.text of the text an item is translated from"""
    k = item["kind"]
    if k == "fn":
        return source.fn_body_region(item["header"], item["name"])
    if k == "value_in_fn":
        lo, hi = source.fn_body_region(item["header"], item["name"])
        fields = [s[1] for s in item["pick"] if s[0] == "field"]
        if not fields:
            return lo, hi
        m = re.search(r"(?<![A-Za-z0-9_])" + re.escape(fields[0]) + r"\s*:", source.text[lo:hi])
        a = lo + m.end()
        depth, i = 0, a
        while True:
            c = source.text[i]
            if c in "([{":
                depth += 1
            elif c in ")]}":
                if depth == 0:
                    break
                depth -= 1
            elif c == "," and depth == 0:
                break
            i += 1
        return a, i
    if k == "default_arg":
        lo, hi = source.fn_body_region(item["header"], item["name"])
        m = re.search(r"(?<![A-Za-z0-9_])" + re.escape(item["field"]) + r"\s*:\s*" + re.escape(item["callee"]) + r"\s*\(",
                      source.text[lo:hi])
        a = lo + m.start()
        depth, i = 0, lo + m.end() - 1
        while True:
            c = source.text[i]
            depth += (c == "(") - (c == ")")
            if depth == 0:
                break
            i += 1
        return a, i + 1
    if k == "const":
        lo, hi = (source.fn_body_region(item["header"], item["in_fn"]) if item.get("in_fn")
                  else source.region(item["header"]))
        m = re.search(r"(?<![A-Za-z0-9_])const\s+" + re.escape(item["name"]) + r"\s*:", source.text[lo:hi])
        a = lo + m.start()
        return a, source.text.index(";", a) + 1
    if k == "snippet":
        lo, hi = source.fn_body_region(item["header"], item["name"])
        a = re.search(r"let\s+(?:mut\s+)?" + re.escape(item["first"]) + r"\s*[:=]", source.text[lo:hi])
        b = re.search(r"let\s+(?:mut\s+)?" + re.escape(item["last"]) + r"\s*[:=]", source.text[lo:hi])
        return lo + a.start(), source.text.index(";", lo + b.end()) + 1
    if k == "enum":
        m = re.search(r"(?<![A-Za-z0-9_])enum\s+" + re.escape(item["name"]) + r"(?![A-Za-z0-9_])", source.text)
        o = source.text.index("{", m.end())
        return o, source._match_brace(o) + 1
    if k in ("newtype", "struct"):
        m = re.search(r"(?<![A-Za-z0-9_])struct\s+" + re.escape(item["name"]) + r"(?![A-Za-z0-9_])", source.text)
        e1 = source.text.find(";", m.end())
        o = source.text.find("{", m.end())
        if o < 0 or (0 <= e1 < o):
            return m.start(), e1 + 1
        return m.start(), source._match_brace(o) + 1
    if k == "nat_const":
        m = re.search(item["pattern"], source.text, re.S)
        return m.start(), m.end()
    raise KeyError(k)


def mutations(item, text):
    """[(label, mutated region text)] — up to ~4 per item"""
    out = []
    k = item["kind"]

    def sub_first(pattern, repl, label, count=1):
        m = re.search(pattern, text)
        if m:
            out.append((label, text[:m.start()] + m.expand(repl) + text[m.end():]))
            return True
        return False

    # 1. operator swap
    for a, b in ((r" \+ ", " - "), (r" - ", " + "), (r" \* ", " / "), (r" / ", " * "), (r" < ", " <= "),
                 (r" <= ", " < "), (r" == ", " != "), (r" > ", " >= ")):
        if sub_first(a, b, f"operator `{a.strip().replace(chr(92), '')}` → `{b.strip()}`"):
            break
    # 2. literal change
    m = FLOAT_LIT.search(text)
    if m:
        frac = m.group(2)
        new = frac[:-1] + str((int(frac[-1]) + 1) % 10)
        out.append((f"literal {m.group(0)} → {m.group(1)}.{new}", text[:m.start(2)] + new + text[m.end(2):]))
    elif k in ("const", "value_in_fn", "default_arg", "nat_const"):
        for m in INT_LIT.finditer(text):
            if k == "nat_const" or not re.match(r"\s*[;:]", text[m.end():m.end() + 2]) or True:
                digits = m.group(1)
                new = digits[:-1] + str((int(digits[-1]) + 1) % 10)
                out.append((f"literal {digits} → {new}", text[:m.start(1)] + new + text[m.end(1):]))
                break
    # 3. swap two match arms' bodies / bool results / call arguments
    arms = list(re.finditer(r"=>\s*([^,{}\n]+),", text))
    if len(arms) >= 2 and arms[0].group(1).strip() != arms[1].group(1).strip():
        a, b = arms[0], arms[1]
        out.append(("swap the first two match arms' bodies",
                    text[:a.start(1)] + b.group(1) + text[a.end(1):b.start(1)] + a.group(1) + text[b.end(1):]))
    else:
        call = re.search(r"\(([a-z_][a-z0-9_.]*), ([a-z_][a-z0-9_.]*)[,)]", text)
        if call and call.group(1) != call.group(2):
            out.append((f"swap arguments `{call.group(1)}`, `{call.group(2)}`",
                        text[:call.start(1)] + call.group(2) + ", " + call.group(1) + text[call.end(2):]))
    # 4. method swap
    for a, b in ((r"\.powf\(", ".powi("), (r"\.sqrt\(\)", ".abs()"), (r"\.sin\(\)", ".cos()"), (r"\.max\(", ".min("),
                 (r"\.fract\(\)", ".trunc()"), (r" as f32", " as f64"), (r"\.clamp\(", ".max(")):
        if sub_first(a, b, f"method `{a}` → `{b}`".replace("\\", "")):
            break
    # 5. swap a named constant / variant for a sibling, flip a bool, drop a unary minus
    for a, b in (("IDENTITY", "SILENCE"), ("CENTER", "LEFT"), ("WET", "DRY"), ("Linear", "InPowi(2)"), ("Sine", "Saw"),
                 ("HardClip", "SoftClip"), ("FRAC_PI_8", "FRAC_PI_4"), ("LowPass", "HighPass")):
        if sub_first(r"(?<![A-Za-z0-9_])" + a + r"(?![A-Za-z0-9_(])", b, f"`{a}` → `{b}`"):
            break
    sub_first(r"=> true", "=> false", "flip the first `true` arm")
    sub_first(r"a\.as_seconds_per_tick\(\)", "a.as_ticks_per_second()", "convert the start with the wrong unit")
    sub_first(r"\{ left, right \}", "{ left, right: left }", "initialise `right` from `left`")
    sub_first(r"\(([a-z_]+), \1\)", r"(\1, -\1)", "negate the second (equal) argument")
    sub_first(r"\(-self\.", "(self.", "drop a unary minus")
    if k == "enum":
        out = []
        names = re.findall(r"(?m)^\s*([A-Z][A-Za-z0-9]*)\b", text)
        if len(names) >= 2:
            a, b = names[0], names[1]
            t = re.sub(r"\b" + a + r"\b", "\0", text, count=1)
            t = re.sub(r"\b" + b + r"\b", a, t, count=1)
            out.append((f"swap variants {a}, {b}", t.replace("\0", b)))
            out.append((f"rename variant {a} → {a}X", re.sub(r"\b" + a + r"\b", a + "X", text, count=1)))
        out.append(("add a variant", text[:text.rindex("}")] + "\tZzzNew,\n}"))
    if k in ("newtype", "struct"):
        out = []
        if k == "newtype":
            if "f32" in text:
                out.append(("inner f32 → f64", text.replace("f32", "f64", 1)))
            else:
                out.append(("inner f64 → f32", text.replace("f64", "f32", 1)))
        else:
            m = re.search(r"(?m)^(\s*(?:pub )?)([a-z_0-9]+)(\s*:)", text)
            if m:
                out.append((f"rename field {m.group(2)}", text[:m.start(2)] + m.group(2) + "_x" + text[m.end(2):]))
    return out


def run_gen(repo, out_dir):
    env = dict(os.environ, KV_REPO=repo, KV_GEN_OUT=out_dir)
    p = subprocess.run([sys.executable, os.path.join(HERE, "gen_lean.py")], env=env, stdout=subprocess.PIPE,
                       stderr=subprocess.STDOUT, text=True)
    texts = ""
    for f in ("Gen.lean", "GenFn.lean"):
        fp = os.path.join(out_dir, f)
        texts += open(fp).read() if os.path.exists(fp) else ""
    return p.returncode, p.stdout, texts


def main():
    args = sys.argv[1:]
    n_build = int(args[args.index("--build") + 1]) if "--build" in args else 8
    only = args[args.index("--only") + 1] if "--only" in args else None
    verbose = "-v" in args
    scratch = f"/var/tmp/kv-xlate-selftest.{os.getpid()}"
    repo = os.path.join(scratch, "repo")
    src_dst = os.path.join(repo, "crates", "kira", "src")
    lean_dir = os.path.join(ROOT, "lean", "KiraModel")
    backups = {}
    failures = []
    try:
        shutil.copytree(G.KIRA, src_dst)
        base_out = os.path.join(scratch, "base")
        os.makedirs(base_out)
        rc, log, base = run_gen(repo, base_out)
        if rc != 0:
            print("self-test: the generator fails on the UNMUTATED tree:\n" + log)
            return 2
        S = G.Session()
        G.translate(S)
        items = [i for i in S.items if only is None or only in i["lean"]]
        results = []   # (item, label, verdict, generated text)
        for it in items:
            rel = it["rel"]
            source = X.Source(rel, open(os.path.join(G.KIRA, rel)).read())
            try:
                lo, hi = region_of(it, source)
            except Exception as e:   # noqa: BLE001
                failures.append(f"{it['lean']}: cannot locate the item's text ({e})")
                continue
            muts = mutations(it, source.text[lo:hi])
            if not muts:
                results.append((it, "(no applicable mutation)", "skipped", None))
                continue
            for label, new_region in muts:
                mutated = source.text[:lo] + new_region + source.text[hi:]
                path = os.path.join(src_dst, rel)
                with open(path, "w") as f:
                    f.write(mutated)
                out_dir = os.path.join(scratch, "out")
                shutil.rmtree(out_dir, ignore_errors=True)
                os.makedirs(out_dir)
                # the generator only rewrites changed files: start from the baseline files
                for fn in ("Gen.lean", "GenFn.lean"):
                    shutil.copy(os.path.join(base_out, fn), os.path.join(out_dir, fn))
                rc, log, texts = run_gen(repo, out_dir)
                shutil.copy(os.path.join(G.KIRA, rel), path)
                if rc != 0:
                    verdict = "loud"
                elif texts != base:
                    verdict = "changed"
                else:
                    verdict = "SILENT"
                    failures.append(f"{it['lean']} ({rel}): mutation `{label}` was ignored by the translator")
                keep = None
                if verdict == "changed":
                    keep = {fn: open(os.path.join(out_dir, fn)).read() for fn in ("Gen.lean", "GenFn.lean")}
                results.append((it, label, verdict, keep))
                if verbose:
                    print(f"  {it['lean']:<40} {label:<55} {verdict}")
        counts = {}
        for _, _, v, _ in results:
            counts[v] = counts.get(v, 0) + 1
        for it, label, v, _ in results:
            if v == "skipped":
                print(f"  no applicable mutation for {it['lean']} ({it['rel']})")
        print(f"self-test: {len(items)} items, {len(results)} mutants: " +
              ", ".join(f"{v} {k}" for k, v in sorted(counts.items())))
        per_item = {}
        for it, label, v, _ in results:
            per_item.setdefault(it["lean"], []).append(v)
        # build step on a sample of `changed` mutants, spread over the items
        changed = [(it, label, keep) for it, label, v, keep in results if v == "changed"]
        sample = []
        if n_build > 0 and changed:
            step = max(1, len(changed) // n_build)
            sample = changed[::step][:n_build]
        for fn in ("Gen.lean", "GenFn.lean"):
            backups[fn] = open(os.path.join(lean_dir, fn)).read()
        for it, label, keep in sample:
            for fn, body in keep.items():
                with open(os.path.join(lean_dir, fn), "w") as f:
                    f.write(body)
            p = subprocess.run(["lake", "build"] + AGREE, cwd=os.path.join(ROOT, "lean"), stdout=subprocess.PIPE,
                               stderr=subprocess.STDOUT, text=True)
            ok = p.returncode != 0
            which = sorted(set(re.findall(r"- (KiraModel\.[A-Za-z.]+)", p.stdout)))
            print(f"  build with `{it['lean']}` mutated ({label}): " +
                  ("GenAgree build FAILS as it must " + str(which) if ok else "GenAgree STILL BUILDS"))
            if not ok:
                failures.append(f"{it['lean']}: mutation `{label}` changed the generated text but GenAgree still builds")
    finally:
        for fn, body in backups.items():
            with open(os.path.join(lean_dir, fn), "w") as f:
                f.write(body)
        shutil.rmtree(scratch, ignore_errors=True)
    if failures:
        print("self-test: FAILED")
        for f in failures:
            print("  " + f)
        return 1
    print("self-test: OK (every mutant was either rejected loudly or changed the generated definitions"
          + (f"; {len(sample)} sampled mutants broke the GenAgree build" if sample else "") + ")")
    return 0


if __name__ == "__main__":
    sys.exit(main())
