#!/bin/sh
# tools/try_mutant.sh <patch.diff> <ID> [<ID>...] — apply a seeded change to a scratch worktree of /repo,
# run the given checks against it (KV_REPO), print their verdict lines, remove the worktree.
# /repo itself is never touched (other work builds against it).
# KV_MUT_BASE=<kira checkout>: start from that checkout's HEAD instead of /repo's (e.g. a fix branch that is
# not merged into /repo yet, so that the seeded change is judged on top of the repaired tree).
P=$(readlink -f "$1"); shift
W=/var/tmp/kv-mut.$$
BASE=${KV_MUT_BASE:-/repo}
git -C $BASE worktree add -q --detach $W HEAD || exit 2
if ! git -C $W apply "$P"; then echo "PATCH-DOES-NOT-APPLY"; git -C /repo worktree remove --force $W; exit 2; fi
cd "$(dirname "$0")/.."
for ID in "$@"; do
  echo "=== $ID on $(basename $(dirname $P))"
  KV_REPO=$W ./check $ID 2>&1 | grep -E "VIOLATION|KNOWN-FINDING|OK|INFRA|proof obligations" | cut -c1-300
done
git -C /repo worktree remove --force $W
rm -rf /var/tmp/kv-alt/$(printf "%s" "$W" | sha1sum | cut -c1-10)
