#!/bin/sh
# tools/try_mutant.sh <patch.diff> <ID> [<ID>...] — apply a seeded change to a scratch worktree of /repo,
# run the given checks against it (KV_REPO), print their verdict lines, remove the worktree.
# /repo itself is never touched (other work builds against it).
P=$(readlink -f "$1"); shift
W=/var/tmp/kv-mut.$$
git -C /repo worktree add -q --detach $W HEAD || exit 2
if ! git -C $W apply "$P"; then echo "PATCH-DOES-NOT-APPLY"; git -C /repo worktree remove --force $W; exit 2; fi
cd "$(dirname "$0")/.."
for ID in "$@"; do
  echo "=== $ID on $(basename $(dirname $P))"
  KV_REPO=$W ./check $ID 2>&1 | grep -E "VIOLATION|KNOWN-FINDING|OK|INFRA|proof obligations" | cut -c1-300
done
git -C /repo worktree remove --force $W
rm -rf /var/tmp/kv-alt/$(printf "%s" "$W" | sha1sum | cut -c1-10)
