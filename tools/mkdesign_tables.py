#!/usr/bin/env python3
"""Rewrite the generated tables of DESIGN.md (§0.6 findings / fixes, §0.7 seeded changes) from
known_findings.json and seeded/results.json."""
import json, os, re
ROOT = os.path.dirname(os.path.dirname(os.path.abspath(__file__)))
k = json.load(open(os.path.join(ROOT, "known_findings.json")))
res_p = os.path.join(ROOT, "seeded", "results.json")
res = json.load(open(res_p)) if os.path.exists(res_p) else {}
def esc(s): return s.replace("|", "\\|").replace("\n", " ")
f = ["| property | id | what fails (specific input / history) |", "|---|---|---|"]
for x in sorted(k["findings"], key=lambda x: (x["property"], x["id"])):
    f.append(f"| {x['property']} | `{x['id']}` | {esc(x['what'])} |")
fx = ["| entry |", "|---|"] + [f"| {esc(x)} |" for x in k["fixed"]]
s = ["| seeded change | property | what was changed | verdict of `./check <property>` |", "|---|---|---|---|"]
for mid in sorted(res):
    r = res[mid]
    s.append(f"| `{mid}` | {r['property']} | {esc(r.get('what',''))[:200]} | {r['verdict']} |")
blocks = {"findings": "\n".join(f), "fixed": "\n".join(fx), "seeded": "\n".join(s)}
p = os.path.join(ROOT, "DESIGN.md")
t = open(p).read()
for name, body in blocks.items():
    t = re.sub(r"(<!-- BEGIN:%s -->).*?(<!-- END:%s -->)" % (name, name), lambda m: m.group(1) + "\n" + body + "\n" + m.group(2), t, flags=re.S)
open(p, "w").write(t)
print("DESIGN.md tables:", {n: b.count("\n") - 1 for n, b in blocks.items()})
