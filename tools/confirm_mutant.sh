#!/bin/sh
# tools/confirm_mutant.sh <OUT/mK dir> <seeded-id> — confirm a seeded change in a scratch worktree:
#   existing tests pass with it; the demonstration fails with it and passes without it.
# On success copies patch.diff, the demo and meta.json to /verif/seeded/<seeded-id>/ and appends what was run to meta.json.
M=$(readlink -f "$1"); ID=$2
W=/var/tmp/kv-confirm.$$
LOG=$(mktemp /var/tmp/kv-confirm-log.XXXXXX)
git -C /repo worktree add -q --detach $W HEAD || exit 2
cd $W
ok=1
git apply "$M/patch.diff" || { echo "patch does not apply"; ok=0; }
if [ $ok = 1 ]; then
  cargo test -p kira --offline > $LOG 2>&1; rc=$?
  echo "existing tests with change: rc=$rc  $(grep -c '^test result: ok' $LOG) ok-suites, failed=$(grep -E '^test result' $LOG | grep -vc ' 0 failed')"
  [ $rc = 0 ] || ok=0
  if [ -f "$M/demo.rs" ]; then cp "$M/demo.rs" crates/kira/tests/demo.rs; DEMOCMD="cargo test -p kira --offline --test demo";
  elif [ -f "$M/demo.diff" ]; then git apply "$M/demo.diff"; DEMOCMD="cargo test -p kira --offline --lib demo"; fi
  $DEMOCMD > $LOG 2>&1; rc1=$?
  echo "demo with change: rc=$rc1 (want non-zero)  $(grep -E '^test result' $LOG | head -2 | tr '\n' ' ')"
  git apply -R "$M/patch.diff"
  $DEMOCMD > $LOG 2>&1; rc2=$?
  echo "demo without change: rc=$rc2 (want 0)  $(grep -E '^test result' $LOG | head -2 | tr '\n' ' ')"
  [ $rc1 != 0 ] && [ $rc2 = 0 ] || ok=0
fi
cd /
git -C /repo worktree remove --force $W
rm -f $LOG
if [ $ok = 1 ]; then
  D=/verif/seeded/$ID; mkdir -p $D
  cp "$M/patch.diff" $D/; [ -f "$M/demo.rs" ] && cp "$M/demo.rs" $D/; [ -f "$M/demo.diff" ] && cp "$M/demo.diff" $D/
  python3 - "$M/meta.json" "$D/meta.json" <<'PY'
import json,sys
m=json.load(open(sys.argv[1]))
m["confirmed_by_coordinator"]=["scratch worktree of /repo HEAD: patch applies; `cargo test -p kira --offline` passes with the change; demonstration fails with the change and passes without it (tools/confirm_mutant.sh)"]
json.dump(m,open(sys.argv[2],"w"),indent=1)
PY
  echo "CONFIRMED -> $D"
else
  echo "NOT CONFIRMED"
fi
