#!/usr/bin/env python3
"""
tools/rs2lean_mut.py — straight-line `&mut self` methods over integer / bool fields → a pure Lean function
`State → args → Except Fault State` (notes/translator.md, "The `&mut self` subset").

The method body is lowered in continuation-passing style: every statement is followed by "the rest of the
method", so an `if` without `else`, an early `return;` and an assignment in one branch need no join points (the
rest is duplicated into both branches).  The state is the variable `s`, rebound by `let s := { s with f := … }`.
`usize` arithmetic that panics in Rust is NOT totalised: `a - b` is preceded by `if a < b then .error .overflow`,
`a % b` by `if b = 0 then .error .panic`, in Rust's evaluation order.  Anything else raises XlateError (exit 1).
"""
import rs2lean as X


class MutParser(X.Parser):
    """the expression parser of rs2lean plus `if let Some((a, b)) = e { … } [else { … }]`"""

    def if_(self):
        if not self.at("let", 1):
            return X.Parser.if_(self)
        self.expect("if")
        self.expect("let")
        self.expect("Some")
        self.expect("(")
        self.expect("(")
        a = self.ident()
        self.expect(",")
        b = self.ident()
        self.expect(")")
        self.expect(")")
        self.expect("=")
        scrut = self.expr(no_struct=True)
        th = self.block()
        el = None
        if self.eat("else"):
            el = ("block", [], self.if_()) if self.at("if") else self.block()
        return ("iflet", (a, b), scrut, th, el)


def camel(n):
    parts = n.split("_")
    out = parts[0] + "".join(p.capitalize() for p in parts[1:])
    if out in X.LEAN_KEYWORDS or out in ("s", "self"):
        out += "_"
    return out


TYPES = {"usize": "nat", "u64": "nat", "u32": "nat", "bool": "bool",
         "Option<(usize, usize)>": "optpair", "Option<(usize,usize)>": "optpair"}
LEAN_T = {"nat": "Nat", "bool": "Bool", "optpair": "Option (Nat × Nat)"}


class MutLower:
    def __init__(self, what, fields):
        self.what = what
        self.fields = fields          # rust field → (lean field, kind)

    def fail(self, msg):
        raise X.XlateError(f"{self.what}: {msg}")

    # ---- expressions: returns (text, kind, checks) ; checks = [(condition text, fault)] in evaluation order
    def expr(self, e, env):
        k = e[0]
        if k == "lit":
            v = e[1].replace("_", "")
            for suf in ("usize", "u64", "u32"):
                if v.endswith(suf):
                    v = v[:-len(suf)]
            if not v.isdigit():
                self.fail(f"literal `{e[1]}` is not an unsigned integer")
            return v, "nat", []
        if k == "bool":
            return ("true" if e[1] else "false"), "bool", []
        if k == "paren":
            t, ty, ch = self.expr(e[1], env)
            return t, ty, ch
        if k == "path":
            if len(e[1]) != 1 or e[1][0] not in env:
                self.fail(f"unknown name `{'::'.join(e[1])}`")
            return env[e[1][0]][0], env[e[1][0]][1], []
        if k == "field":
            if e[1] != ("path", ["self"]) or e[2] not in self.fields:
                self.fail(f"field access other than `self.<modelled field>`: {e}")
            lf, ty = self.fields[e[2]]
            return f"s.{lf}", ty, []
        if k == "un":
            if e[1] != "!":
                self.fail(f"unary `{e[1]}` is outside the `&mut self` subset")
            t, ty, ch = self.expr(e[2], env)
            if ty == "bool":
                return f"!{self.atom(t)}", "bool", ch
            if ty == "prop":
                return f"¬ {self.atom(t)}", "prop", ch
            self.fail("`!` on a non-boolean")
        if k == "bin":
            op = e[1]
            a, ta, ca = self.expr(e[2], env)
            b, tb, cb = self.expr(e[3], env)
            if op in ("&&", "||"):
                if cb:
                    self.fail(f"`{op}` whose right operand can panic (short-circuit not modelled)")
                pa, pb = self.as_prop(a, ta), self.as_prop(b, tb)
                return f"{self.atom(pa)} {'∧' if op == '&&' else '∨'} {self.atom(pb)}", "prop", ca
            if ta != "nat" or tb != "nat":
                self.fail(f"`{op}` on operands that are not unsigned integers")
            A, B = self.atom(a), self.atom(b)
            if op in ("+", "*"):
                return f"{A} {op} {B}", "nat", ca + cb
            if op == "-":
                return f"{A} - {B}", "nat", ca + cb + [(f"{A} < {B}", "overflow")]
            if op == "%":
                return f"{A} % {B}", "nat", ca + cb + [(f"{B} = 0", "panic")]
            cmp = {"==": f"{A} = {B}", "!=": f"{A} ≠ {B}", "<": f"{A} < {B}", "<=": f"{A} ≤ {B}",
                   ">": f"{B} < {A}", ">=": f"{B} ≤ {A}"}
            if op in cmp:
                return cmp[op], "prop", ca + cb
            self.fail(f"operator `{op}` is outside the `&mut self` subset")
        if k == "mcall":
            if e[2] in ("saturating_add", "saturating_sub") and len(e[3]) == 1:
                a, ta, ca = self.expr(e[1], env)
                b, tb, cb = self.expr(e[3][0], env)
                if ta != "nat" or tb != "nat":
                    self.fail(f"`{e[2]}` on operands that are not unsigned integers")
                op = "+" if e[2] == "saturating_add" else "-"
                return f"{self.atom(a)} {op} {self.atom(b)}", "nat", ca + cb
            self.fail(f"method `{e[2]}` is outside the `&mut self` subset")
        self.fail(f"expression form `{k}` is outside the `&mut self` subset")

    @staticmethod
    def atom(t):
        simple = t.replace(".", "").replace("_", "").isalnum()
        return t if simple or (t.startswith("(") and t.endswith(")") and t.count("(") == 1) else f"({t})"

    def as_prop(self, t, ty):
        if ty == "prop":
            return t
        if ty == "bool":
            return f"{self.atom(t)} = true"
        self.fail("a condition that is not boolean")

    def cond(self, e, env):
        t, ty, ch = self.expr(e, env)
        if ty not in ("bool", "prop"):
            self.fail("a condition that is not boolean")
        return t, ch

    def value(self, e, env, want):
        t, ty, ch = self.expr(e, env)
        if ty == "prop" and want == "bool":
            t, ty = f"decide ({t})", "bool"
        if ty != want:
            self.fail(f"a value of kind {ty} where {want} is expected")
        return t, ch

    @staticmethod
    def guard(checks, ind):
        return [f"{ind}if {c} then .error .{f} else" for c, f in checks]

    # ---- statements (continuation-passing) ----------------------------------------------------------
    def block_stmts(self, b):
        stmts = list(b[1])
        if b[2] is not None:
            if b[2][0] not in ("if", "iflet"):
                self.fail("a block with a value")
            stmts.append(("expr", b[2]))
        return stmts

    def seq(self, stmts, i, env, k, ind, nested):
        if i == len(stmts):
            return k(env, ind)
        st = stmts[i]
        rest = lambda env2, ind2: self.seq(stmts, i + 1, env2, k, ind2, nested)
        if st[0] == "return":
            if st[1] is not None:
                self.fail("`return` with a value in a `&mut self` method")
            return [f"{ind}.ok s"]
        if st[0] == "let":
            if st[1] in env and nested:
                self.fail(f"`let {st[1]}` shadows an outer name inside a nested block")
            t, ty, ch = self.expr(st[4], env)
            if ty == "prop":
                t, ty = f"decide ({t})", "bool"
            env2 = dict(env)
            env2[st[1]] = (camel(st[1]), ty, st[2])
            return self.guard(ch, ind) + [f"{ind}let {camel(st[1])} := {t}"] + rest(env2, ind)
        if st[0] == "assign":
            tgt, op, rhs = st[1], st[2], st[3]
            if tgt[0] == "field" and tgt[1] == ("path", ["self"]) and tgt[2] in self.fields:
                lf, ty = self.fields[tgt[2]]
                cur = f"s.{lf}"
                bind = lambda v: f"let s := {{ s with {lf} := {v} }}"
            elif tgt[0] == "path" and len(tgt[1]) == 1 and tgt[1][0] in env:
                cur, ty, is_mut = env[tgt[1][0]]
                if not is_mut:
                    self.fail(f"assignment to `{tgt[1][0]}`, which is not `mut`")
                bind = lambda v: f"let {cur} := {v}"
            else:
                self.fail(f"assignment to something that is not `self.<field>` or a `mut` local: {tgt}")
            if op == "=":
                v, ch = self.value(rhs, env, ty)
            elif op in ("+=", "-="):
                if ty != "nat":
                    self.fail(f"`{op}` on a non-integer")
                r, ch = self.value(rhs, env, "nat")
                v = f"{cur} {op[0]} {self.atom(r)}"
                if op == "-=":
                    ch = ch + [(f"{cur} < {self.atom(r)}", "overflow")]
            else:
                self.fail(f"`{op}` is outside the `&mut self` subset")
            return self.guard(ch, ind) + [ind + bind(v)] + rest(env, ind)
        if st[0] == "expr" and st[1][0] == "if":
            _, c, th, el = st[1]
            ct, ch = self.cond(c, env)
            out = self.guard(ch, ind) + [f"{ind}if {ct} then"]
            out += self.seq(self.block_stmts(th), 0, env, lambda e2, i2: rest(env_keep(env, e2), i2), ind + "  ", True)
            out += [f"{ind}else"]
            if el is None:
                out += rest(env, ind + "  ")
            else:
                out += self.seq(self.block_stmts(el), 0, env, lambda e2, i2: rest(env_keep(env, e2), i2), ind + "  ", True)
            return out
        if st[0] == "expr" and st[1][0] == "iflet":
            _, (a, b), scrut, th, el = st[1]
            t, ty, ch = self.expr(scrut, env)
            if ty != "optpair":
                self.fail("`if let Some((a, b))` on something that is not an Option<(usize, usize)>")
            for n in (a, b):
                if n in env or n in ("s", "self"):
                    self.fail(f"pattern variable `{n}` shadows an outer name")
            env2 = dict(env)
            env2[a] = (camel(a), "nat", False)
            env2[b] = (camel(b), "nat", False)
            out = self.guard(ch, ind) + [f"{ind}match {t} with", f"{ind}| some ({camel(a)}, {camel(b)}) =>"]
            out += self.seq(self.block_stmts(th), 0, env2, lambda e2, i2: rest(env_keep(env, e2), i2), ind + "  ", True)
            out += [f"{ind}| none =>"]
            if el is None:
                out += rest(env, ind + "  ")
            else:
                out += self.seq(self.block_stmts(el), 0, env, lambda e2, i2: rest(env_keep(env, e2), i2), ind + "  ", True)
            return out
        self.fail(f"statement form `{st[0]}{'/' + st[1][0] if st[0] == 'expr' else ''}` is outside the `&mut self` subset")


def env_keep(outer, inner):
    """after a nested block: only the names of the outer scope stay visible (their Lean names are unchanged;
    rebinding inside the block shadowed the same Lean name, which is what the continuation must see)"""
    return {n: inner[n] for n in outer}


def translate_method(fd, lean, state_lean, fields):
    """fd: Source.fn(…, parser_cls=MutParser) result; fields: rust field → (lean field, rust type)"""
    what = fd["what"]
    fk = {}
    for f, (lf, rt) in fields.items():
        if rt not in TYPES:
            raise X.XlateError(f"{what}: field `{f}: {rt}` is outside the `&mut self` subset")
        fk[f] = (lf, TYPES[rt])
    lo = MutLower(what, fk)
    if fd["ret"] is not None:
        lo.fail("a `&mut self` method with a return value")
    if not fd["params"] or fd["params"][0][:2] != ("self", "&Self"):
        lo.fail("not a `&mut self` method")
    env, binders = {}, [f"(s : {state_lean})"]
    for pn, pt, is_mut in fd["params"][1:]:
        if pt not in TYPES or TYPES[pt] == "optpair":
            lo.fail(f"parameter `{pn}: {pt}` is outside the `&mut self` subset")
        env[pn] = (camel(pn), TYPES[pt], is_mut)
        binders.append(f"({camel(pn)} : {LEAN_T[TYPES[pt]]})")
    lines = lo.seq(lo.block_stmts(fd["body"]), 0, env, lambda e, ind: [f"{ind}.ok s"], "  ", False)
    sig = "fn " + fd["what"].split("::")[-1] + "(" + ", ".join(
        ("&mut self" if a == "self" else f"{'mut ' if m else ''}{a}: {b}") for a, b, m in fd["params"]) + ")"
    return (f"/-- generated from {what}  (`{sig}`) -/\ndef {lean} " + " ".join(binders)
            + f" : Except Fault {state_lean} :=\n" + "\n".join(lines) + "\n")
