#!/bin/sh
# tools/cmp.sh <suite> [seed] [n] [tier] — quick manual correspondence run: prints mismatches and oracle failures
S=$1; SEED=${2:-1}; N=${3:-200}; TIER=${4:-quick}
D=$(mktemp -d /var/tmp/kvcmp.XXXXXX)
R=$(cd "$(dirname "$0")/.." && pwd)
# KV_HBIN=<path> uses another harness binary (e.g. the one ./check builds for KV_REPO under /var/tmp/kv-alt)
H=${KV_HBIN:-$R/harness/target/debug/kv-harness}
T=$R/lean/.lake/build/bin/kira_twin
$H gen $S $SEED $N $TIER | grep -v '^#' > $D/ops.txt
# the twin runs first; `twin_first` suites read its trace through KV_TWIN_TRACE (others ignore it)
$T $S < $D/ops.txt > $D/model.txt
KV_TWIN_TRACE=$D/model.txt $H run $S < $D/ops.txt > $D/impl_all.txt
grep -v '^!' $D/impl_all.txt > $D/impl.txt
wc -l $D/ops.txt $D/impl.txt $D/model.txt | head -3
paste -d'|' $D/ops.txt $D/impl.txt $D/model.txt | awk -F'|' '$2!=$3' > $D/diff.txt
echo "mismatches: $(wc -l < $D/diff.txt)   oracle failures: $(grep -c '^!oracle' $D/impl_all.txt)   faults: $(grep -c '^fault' $D/impl.txt)"
head -${5:-10} $D/diff.txt
grep '^!oracle' $D/impl_all.txt | awk '{print $2}' | sort | uniq -c
echo "dir: $D"
