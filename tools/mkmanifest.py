#!/usr/bin/env python3
"""Regenerate /verif/MANIFEST.json from props.py (claimed checks) and the property list."""
import json, os, sys
ROOT = os.path.dirname(os.path.dirname(os.path.abspath(__file__)))
sys.path.insert(0, ROOT)
import props as REG

ids = [json.loads(l)["id"] for l in open(os.path.join(ROOT, "properties.jsonl")) if l.strip()]
checks = []
for pid in ids:
    if pid not in REG.PROPS:
        continue
    sp = REG.PROPS[pid]
    checks.append({
        "property_id": pid,
        "quick_cmd": f"./check {pid} --tier quick",
        "thorough_cmd": f"./check {pid} --tier thorough",
        "evidence_file": f"/verif/evidence/{pid}.json",
        "replay_cmd_template": f"./check {pid} --replay {{path}}",
        "engine": "lean4-proof+twin",
        "level_claimed": {
            "category": "proof",
            "text": sp["level_text"],
            "design_ref": sp.get("design_ref", f"DESIGN.md §5 {pid}"),
        },
        "level_note": sp["level_note"],
        "technique": sp.get("technique", "Lean 4 theorems about a hand-written model (over the reals) + bit-exact correspondence of the model's Float twin with kira"),
    })
na = [{"property_id": pid, "reason": REG.NOT_YET.get(pid, "not yet claimed: model and theorems under construction")}
      for pid in ids if pid not in REG.PROPS]
man = {
    "version": 1,
    "setup_cmd": "./setup.sh",
    "hooks": {
        "guard": "--cfg kira_verif",
        "enable": "harness/.cargo/config.toml sets rustflags = [\"--cfg\", \"kira_verif\"]; kira gains `pub mod verif_hooks` (crates/kira/src/verif_hooks.rs)",
        "baseline_off_cmd": "cd /repo && cargo test --workspace --no-fail-fast --offline",
        "source_commits": REG.HOOK_COMMITS,
        "add_only": True,
    },
    "engines": [
        {"name": "lean4-proof+twin", "path": "/verif/lean", "serves_properties": [c["property_id"] for c in checks],
         "kind_free_text": "Lean 4 model (generic over the number type) with theorems over ℝ; the same definitions compiled at Float as an executable twin; Rust harness (/verif/harness) diffs kira against the twin bit-for-bit; Python runner /verif/check"},
    ],
    "checks": checks,
    "not_applicable": na,
    "notes": "Every claimed property is decided by machine-checked Lean 4 theorems about a model tied to /repo by a correspondence check that runs on every invocation. See DESIGN.md.",
}
json.dump(man, open(os.path.join(ROOT, "MANIFEST.json"), "w"), indent=1)
print(f"MANIFEST.json: {len(checks)} checks, {len(na)} not yet claimed")
