#!/usr/bin/env python3
"""Run every seeded change under /verif/seeded against the check of the property it breaks
(in a scratch worktree, never in /repo) and write seeded/RESULTS.md.
usage: tools/run_all_mutants.py [seeded-id ...]"""
import json, os, subprocess, sys, re
ROOT = os.path.dirname(os.path.dirname(os.path.abspath(__file__)))
sys.path.insert(0, ROOT)
import props as REG
sd = os.path.join(ROOT, "seeded")
ids = sys.argv[1:] or sorted(d for d in os.listdir(sd) if os.path.isdir(os.path.join(sd, d)) and not d.startswith("_"))
res_path = os.path.join(sd, "results.json")
results = json.load(open(res_path)) if os.path.exists(res_path) else {}
for mid in ids:
    meta = json.load(open(os.path.join(sd, mid, "meta.json")))
    pid = meta["property"]
    if pid not in REG.PROPS:
        results[mid] = {"property": pid, "verdict": "check not built yet", "lines": []}
        continue
    p = subprocess.run([os.path.join(ROOT, "tools", "try_mutant.sh"), os.path.join(sd, mid, "patch.diff"), pid],
                       stdout=subprocess.PIPE, stderr=subprocess.STDOUT, text=True)
    lines = [l for l in p.stdout.split("\n") if "VIOLATION" in l or "OK" in l or "KNOWN" in l or "PATCH" in l]
    viol = [l for l in lines if l.startswith("VIOLATION")]
    with_input = [l for l in viol if "no-failing-input-found" not in l]
    verdict = ("PATCH DOES NOT APPLY to the current tree" if "PATCH-DOES-NOT-APPLY" in p.stdout or "patch does not apply" in p.stdout else
               "detected, failing input replayed" if with_input else
               "detected (proof/correspondence broken, no failing input found)" if viol else "MISSED")
    results[mid] = {"property": pid, "verdict": verdict,
                    "lines": [re.sub(r"replay=\S*/", "replay=", l) for l in viol], "what": meta.get("what", "")}
    print(mid, "→", verdict, flush=True)
json.dump(results, open(res_path, "w"), indent=1)
with open(os.path.join(sd, "RESULTS.md"), "w") as f:
    f.write("# Seeded changes and which check catches them\n\n"
            "Each directory holds `patch.diff` (the change), a demonstration that fails with it and passes without it, and\n"
            "`meta.json`. Every change compiles and passes kira's existing tests. Written by independent sub-agents that saw only\n"
            "the property text. Results below are produced by `tools/run_all_mutants.py` (scratch worktree + `KV_REPO`).\n\n"
            "| seeded change | property | what | verdict of `./check <property>` |\n|---|---|---|---|\n")
    for mid in sorted(results):
        r = results[mid]
        f.write(f"| {mid} | {r['property']} | {r.get('what','')[:160]} | {r['verdict']} |\n")
