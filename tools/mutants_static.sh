#!/bin/bash
# tools/mutants_static.sh — self-validation of the C03 / C04 checks (DESIGN Appendix C): applies one-line mutants to a
# *scratch copy* of /repo (never to /repo), rebuilds a scratch copy of the harness against it and reports, per suite,
# the number of ops on which kira and the Lean twin disagree and which implementation-side oracles fire.
# Expected: baseline 0 / none; every mutant > 0 mismatches and at least one oracle.  Needs built harness + twin.
ROOT=$(cd "$(dirname "$0")/.." && pwd)
R=$ROOT/out/mut
mkdir -p $R && rm -rf $R/repo $R/harness && mkdir $R/repo $R/harness
(cd /repo && tar cf - --exclude=target --exclude=.git .) | (cd $R/repo && tar xf -)
(cd $ROOT/harness && tar cf - --exclude=target .) | (cd $R/harness && tar xf -)
sed -i "s#path = \"/repo/crates/kira\"#path = \"$R/repo/crates/kira\"#" $R/harness/Cargo.toml
K=$R/repo/crates/kira/src
H=$R/target/debug/kv-harness
T=$ROOT/lean/.lake/build/bin/kira_twin
export CARGO_TARGET_DIR=$R/target
(cd $R/harness && cargo build --offline 2>&1 | tail -1)
run_suites() {
  for S in transport psm static; do
    $H gen $S 1 1500 quick | grep -v '^#' > $R/ops.txt
    $H run $S < $R/ops.txt > $R/impl_all.txt 2>/dev/null
    grep -v '^!' $R/impl_all.txt > $R/impl.txt
    $T $S < $R/ops.txt > $R/model.txt
    MM=$(paste -d'|' $R/impl.txt $R/model.txt | awk -F'|' '$1!=$2' | wc -l)
    OR=$(grep '^!oracle' $R/impl_all.txt | grep -v 'shape=\(loop_empty\|loop_inverted\|reverse_start\)' | awk '{print $2}' | sort | uniq -c | sort -rn | awk '{printf "%s:%s ", $2, $1}')
    echo "   $S: mismatching ops=$MM oracles: ${OR:-none}"
  done
}
mutant() { # name file sed-expression
  echo "== $1"
  cp $K/$2 $R/orig.rs
  sed -i "$3" $K/$2
  if cmp -s $K/$2 $R/orig.rs; then echo "   (sed did not change the file)"; else
    (cd $R/harness && cargo build --offline 2>&1 | grep -E "^error" | head -3)
    run_suites
  fi
  cp $R/orig.rs $K/$2
}
mutant "baseline (no change)" sound/transport.rs 's/XXXXXXXX/Y/'
echo "   (baseline)"; run_suites
mutant "M1 forward wrap: position >= loop_end -> >" sound/transport.rs 's/while self.position >= loop_end/while self.position > loop_end/'
mutant "M2 end detection: position >= num_frames -> >" sound/transport.rs '0,/if self.position >= num_frames/s//if self.position > num_frames/'
mutant "M3 backward wrap: position <= loop_start -> <" sound/transport.rs 's/while self.position <= loop_start/while self.position < loop_start/'
mutant "M4 prime the resampler with 2 frames instead of 3" sound/static_sound/sound.rs 's/for _ in 0..3 {/for _ in 0..2 {/'
mutant "M5 reported position from window slot 2" sound/static_sound/sound/resampler.rs 's/self.frames\[1\].frame_index/self.frames[2].frame_index/'
mutant "M6 reverse flag ignored" sound/static_sound/sound.rs 's/is_playing_backwards = !is_playing_backwards/is_playing_backwards = is_playing_backwards/'
mutant "M7 pause() no longer ignored in Stopped" playback_state_manager.rs '0,/if let State::Stopped = &self.state {/s//if false {/'
mutant "M8 no silence when not advancing" sound/static_sound/sound.rs 's/if !self.playback_state_manager.playback_state().is_advancing() {/if false {/'
mutant "M9 Hermite coefficient 2.5 -> 2.0" frame.rs 's/current \* 2.5/current * 2.0/'
mutant "M10 slice start ignored in frame_at_index" sound/static_sound/data.rs 's/Some(frames\[index + start\])/Some(frames[index])/'
mutant "M11 window drains in 3 instead of 4" sound/static_sound/sound/resampler.rs 's/self.time_until_empty = 4;/self.time_until_empty = 3;/'
mutant "M12 Stopping finishes in Paused" playback_state_manager.rs '/State::Stopping => {/,/}/s/self.state = State::Stopped;/self.state = State::Paused;/'
mutant "M13 playback rate sign not stripped in position accumulation" sound/static_sound/sound.rs 's/playback_rate.0.abs() \* dt/playback_rate.0 * dt/'
mutant "M14 seek_to rounds instead of truncating" sound/static_sound/sound.rs '/fn seek_to(&mut self, position: f64)/,/}/s/(position \* self.sample_rate as f64) as usize/(position * self.sample_rate as f64).round() as usize/'
mutant "M15 mark_as_stopped without waiting for the window to drain" sound/static_sound/sound.rs 's/if !self.transport.playing \&\& self.resampler.empty() {/if !self.transport.playing {/'
mutant "M16 WaitingToResume never resumes (start time not updated)" playback_state_manager.rs 's/let will_never_start = start_time.update(dt, info);/let will_never_start = false;/'
(cd $R/harness && cargo build --offline 2>&1 | grep -E "^error" | head -3)
