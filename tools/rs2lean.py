#!/usr/bin/env python3
"""
tools/rs2lean.py — a small, honest Rust-subset → Lean translator (used by tools/gen_lean.py).

It translates *pure* items of kira (constants, unit conversions, easing curves, interpolation kernels,
operator impls of `Frame`, …) into Lean definitions written against the model's numeric interface
(`class KOps α`, lean/KiraModel/Num.lean) with the SAME conventions as the hand-written model:

  * one number type `α`; every value kira holds in an `f32` is re-rounded with `KOps.r32` after each f32
    `+ - * /` and after `sqrt`/`recip`/a cast `as f32`; f64 arithmetic is written plainly;
  * float literals are `(0.5 : α)`; an f32 literal that is not exactly representable in binary32 is
    `KOps.r32 (0.1 : α)` (the hand model's `lit32`);
  * `==` on floats is `feq`, `<`/`<=` are the core `<`/`≤` (`a > b` is written `b < a`);
  * `powf` → `KOps.pow` (f64) / `KOps.pow32` (f32), `powi` → `powi`, `clamp/min/max/fract/trunc` → the
    helpers of Num.lean, unit newtypes (`Decibels`, `Panning`, `Semitones`, `PlaybackRate`, `Mix`) are erased
    to their inner float, `Duration` is whole nanoseconds (`Nat`), `u64/usize` are `Nat`, `i32` is `Int`.

Anything the parser or the typer does not understand raises `XlateError` (gen_lean.py turns that into
exit status 1 naming the item).  Nothing is skipped or approximated silently.

The pipeline per item:  locate (file + impl header + fn name)  →  tokenise  →  recursive-descent parse
(`Parser`)  →  type-directed lowering to Lean text (`Lower`)  →  printed definition.
See notes/translator.md for the grammar and the list of conventions (that list is the trusted part).
"""
import re
from fractions import Fraction
import struct


class XlateError(Exception):
    pass


# ======================================================================================
# 1. lexer
# ======================================================================================

INT_SUFFIXES = ("u8", "u16", "u32", "u64", "u128", "usize", "i8", "i16", "i32", "i64", "i128", "isize")
FLOAT_SUFFIXES = ("f32", "f64")
NUM_RE = re.compile(
    r"\d[\d_]*(?:\.\d[\d_]*)?(?:[eE][+-]?\d[\d_]*)?(?:_?(?:f32|f64|u8|u16|u32|u64|u128|usize|i8|i16|i32|i64|i128|isize))?")
ID_RE = re.compile(r"[A-Za-z_][A-Za-z0-9_]*")
PUNCT3 = ("..=", "<<=", ">>=")
PUNCT2 = ("::", "->", "=>", "==", "!=", "<=", ">=", "&&", "||", "+=", "-=", "*=", "/=", "%=", "..", "<<", ">>")


def strip_comments(text):
    """remove // and (nested) /* */ comments, keeping newlines (so positions stay meaningful); strings kept"""
    out = []
    i, n = 0, len(text)
    while i < n:
        c = text[i]
        if text.startswith("//", i):
            j = text.find("\n", i)
            if j < 0:
                j = n
            i = j
        elif text.startswith("/*", i):
            depth, i = 1, i + 2
            while i < n and depth:
                if text.startswith("/*", i):
                    depth, i = depth + 1, i + 2
                elif text.startswith("*/", i):
                    depth, i = depth - 1, i + 2
                else:
                    if text[i] == "\n":
                        out.append("\n")
                    i += 1
        elif c == '"':
            j = i + 1
            while j < n and text[j] != '"':
                j += 2 if text[j] == "\\" else 1
            out.append(text[i:j + 1])
            i = j + 1
        else:
            out.append(c)
            i += 1
    return "".join(out)


def tokenize(text):
    """tokens: (kind, text) with kind in id, num, str, life, punct"""
    toks = []
    i, n = 0, len(text)
    while i < n:
        c = text[i]
        if c.isspace():
            i += 1
            continue
        if c == '"':
            j = i + 1
            while j < n and text[j] != '"':
                j += 2 if text[j] == "\\" else 1
            toks.append(("str", text[i:j + 1]))
            i = j + 1
            continue
        if c == "'":
            m = re.match(r"'[A-Za-z_][A-Za-z0-9_]*(?!')", text[i:])
            if m:
                toks.append(("life", m.group(0)))
                i += m.end()
                continue
            m = re.match(r"'(\\.|[^\\'])'", text[i:])
            if m:
                toks.append(("str", m.group(0)))
                i += m.end()
                continue
            raise XlateError(f"lexer: stray quote at offset {i}")
        if c.isdigit():
            m = NUM_RE.match(text, i)
            toks.append(("num", m.group(0)))
            i = m.end()
            continue
        m = ID_RE.match(text, i)
        if m:
            toks.append(("id", m.group(0)))
            i = m.end()
            continue
        for group in (PUNCT3, PUNCT2):
            hit = next((p for p in group if text.startswith(p, i)), None)
            if hit:
                toks.append(("punct", hit))
                i += len(hit)
                break
        else:
            toks.append(("punct", c))
            i += 1
    return toks


# ======================================================================================
# 2. parser (recursive descent over the token list)
# ======================================================================================
#
# Expressions are tuples:
#   ('lit', text)                    numeric literal, with its suffix if any
#   ('bool', True|False)
#   ('path', [seg, ...])             `x`, `Self::SILENCE`, `std::f64::consts::PI`
#   ('call', fn_expr, [args])
#   ('mcall', recv, name, [args])
#   ('field', recv, name)            name may be '0', '1', …
#   ('un', op, e)                    op in - ! * &
#   ('bin', op, a, b)
#   ('cast', e, type)
#   ('if', cond, block, else_block | None)
#   ('match', scrutinee, [(pat, guard|None, expr)])
#   ('block', [stmts], tail | None)
#   ('struct', path, [(field, expr)], base | None)
#   ('tuple', [es])   ('paren', e)   ('macro', name)
# Statements:
#   ('let', name, is_mut, type|None, expr)   ('assign', target, op, expr)   ('expr', e)
#   ('return', e|None)   ('const', name, type, expr)
# Patterns:
#   ('pwild',) ('pbind', name) ('ppath', segs) ('pctor', segs, [pats]) ('pstruct', segs, [(field, pat)], rest)
# Types are strings (`f32`, `Frame`, `Value<Decibels>`, `&Self`, `(f64, f64)`, …).

BIN_PREC = [
    ("||",), ("&&",), ("==", "!=", "<", "<=", ">", ">="), ("|",), ("^",), ("&",), ("<<", ">>"),
    ("+", "-"), ("*", "/", "%"),
]
ASSIGN_OPS = ("=", "+=", "-=", "*=", "/=", "%=")


class Parser:
    def __init__(self, toks, what):
        self.t = toks
        self.i = 0
        self.what = what

    # -- helpers
    def fail(self, msg):
        ctx = " ".join(t[1] for t in self.t[max(0, self.i - 6):self.i + 8])
        raise XlateError(f"{self.what}: parse error: {msg}   near: … {ctx} …")

    def peek(self, k=0):
        j = self.i + k
        return self.t[j] if j < len(self.t) else ("eof", "")

    def at(self, text, k=0):
        return self.peek(k)[1] == text and self.peek(k)[0] in ("punct", "id")

    def eat(self, text):
        if self.at(text):
            self.i += 1
            return True
        return False

    def expect(self, text):
        if not self.eat(text):
            self.fail(f"expected `{text}`")

    def ident(self):
        k, v = self.peek()
        if k != "id":
            self.fail("expected an identifier")
        self.i += 1
        return v

    def skip_attrs(self):
        while self.at("#"):
            self.i += 1
            self.eat("!")
            if not self.at("["):
                self.fail("malformed attribute")
            self.skip_balanced("[", "]")

    def skip_balanced(self, op, cl):
        self.expect(op)
        depth = 1
        while depth:
            k, v = self.peek()
            if k == "eof":
                self.fail(f"unbalanced {op}")
            if k == "punct" and v == op:
                depth += 1
            elif k == "punct" and v == cl:
                depth -= 1
            self.i += 1

    # -- types
    def type_(self):
        if self.eat("&"):
            if self.peek()[0] == "life":
                self.i += 1
            self.eat("mut")
            return "&" + self.type_()
        if self.eat("("):
            parts = []
            while not self.at(")"):
                parts.append(self.type_())
                if not self.eat(","):
                    break
            self.expect(")")
            return "(" + ", ".join(parts) + ")"
        if self.eat("["):
            inner = self.type_()
            if self.eat(";"):
                n = self.expr()
                self.expect("]")
                return f"[{inner}; {n}]"
            self.expect("]")
            return f"[{inner}]"
        if self.at("impl") or self.at("dyn"):
            kw = self.ident()
            return kw + " " + self.type_()
        segs = [self.ident()]
        while True:
            if self.at("<"):
                segs[-1] += self.generic_args()
            if self.eat("::"):
                segs.append(self.ident())
            else:
                break
        return "::".join(segs)

    def generic_args(self):
        self.expect("<")
        parts = []
        while not self.at(">"):
            if self.peek()[0] == "life":
                parts.append(self.peek()[1])
                self.i += 1
            else:
                t = self.type_()
                if self.eat("="):
                    t += " = " + self.type_()
                parts.append(t)
            if not self.eat(","):
                break
        self.expect(">")
        return "<" + ", ".join(parts) + ">"

    # -- patterns
    def pattern(self):
        if self.eat("&"):
            self.eat("mut")
            return self.pattern()
        if self.at("_"):
            self.i += 1
            return ("pwild",)
        if self.eat("("):
            self.fail("tuple patterns are outside the subset")
        if self.peek()[0] == "num" or self.at("-"):
            self.fail("literal patterns are outside the subset")
        self.eat("ref")
        self.eat("mut")
        segs = [self.ident()]
        while self.eat("::"):
            segs.append(self.ident())
        if self.eat("("):
            pats = []
            while not self.at(")"):
                pats.append(self.pattern())
                if not self.eat(","):
                    break
            self.expect(")")
            return ("pctor", segs, pats)
        if self.at("{"):
            self.i += 1
            fields, rest = [], False
            while not self.at("}"):
                if self.eat(".."):
                    rest = True
                    break
                f = self.ident()
                p = self.pattern() if self.eat(":") else ("pbind", f)
                fields.append((f, p))
                if not self.eat(","):
                    break
            self.expect("}")
            return ("pstruct", segs, fields, rest)
        if len(segs) == 1 and segs[0][0].islower():
            if self.at("@"):
                self.fail("`@` patterns are outside the subset")
            return ("pbind", segs[0])
        return ("ppath", segs)

    # -- expressions
    def expr(self, no_struct=False):
        return self.binary(0, no_struct)

    def binary(self, level, no_struct):
        if level == len(BIN_PREC):
            return self.cast(no_struct)
        a = self.binary(level + 1, no_struct)
        while True:
            k, v = self.peek()
            if k == "punct" and v in BIN_PREC[level]:
                # `a < b` is a comparison here: generic arguments only occur after `::` in expressions
                self.i += 1
                b = self.binary(level + 1, no_struct)
                if level == 2 and self.peek()[1] in BIN_PREC[2] and self.peek()[0] == "punct":
                    self.fail("chained comparison")
                a = ("bin", v, a, b)
            else:
                return a

    def cast(self, no_struct):
        e = self.unary(no_struct)
        while self.at("as"):
            self.i += 1
            e = ("cast", e, self.type_())
        return e

    def unary(self, no_struct):
        for op in ("-", "!", "*", "&"):
            if self.at(op):
                self.i += 1
                if op == "&":
                    self.eat("mut")
                return ("un", op, self.unary(no_struct))
        if self.at("&&"):
            self.i += 1
            return ("un", "&", ("un", "&", self.unary(no_struct)))
        return self.postfix(no_struct)

    def args(self):
        self.expect("(")
        out = []
        while not self.at(")"):
            out.append(self.expr())
            if not self.eat(","):
                break
        self.expect(")")
        return out

    def postfix(self, no_struct):
        e = self.primary(no_struct)
        while True:
            if self.at("."):
                k, v = self.peek(1)
                if k == "num":
                    if not v.isdigit():
                        self.fail(f"nested tuple index `{v}`")
                    self.i += 2
                    e = ("field", e, v)
                elif k == "id":
                    self.i += 2
                    if self.at("::"):
                        self.fail("turbofish method call")
                    if self.at("("):
                        e = ("mcall", e, v, self.args())
                    else:
                        e = ("field", e, v)
                else:
                    self.fail("expected a field or method after `.`")
            elif self.at("("):
                e = ("call", e, self.args())
            elif self.at("?"):
                self.fail("`?` is outside the subset")
            elif self.at("["):
                self.fail("indexing is outside the subset")
            else:
                return e

    def primary(self, no_struct):
        k, v = self.peek()
        if k == "num":
            self.i += 1
            return ("lit", v)
        if k == "str":
            self.fail("string/char literal")
        if k == "punct" and v == "(":
            self.i += 1
            if self.eat(")"):
                return ("tuple", [])
            e = self.expr()
            if self.eat(")"):
                return ("paren", e)
            es = [e]
            while self.eat(","):
                if self.at(")"):
                    break
                es.append(self.expr())
            self.expect(")")
            return ("tuple", es)
        if k == "punct" and v == "{":
            return self.block()
        if k == "punct" and v == "|":
            self.fail("closures are outside the subset")
        if k != "id":
            self.fail(f"unexpected token `{v}`")
        if v in ("true", "false"):
            self.i += 1
            return ("bool", v == "true")
        if v == "if":
            return self.if_()
        if v == "match":
            return self.match_()
        if v in ("loop", "while", "for", "unsafe", "move", "async"):
            self.fail(f"`{v}` is outside the subset")
        if v == "return":
            self.fail("`return` in expression position")
        segs = [self.ident()]
        while self.at("::"):
            self.i += 1
            if self.at("<"):
                self.fail("turbofish")
            segs.append(self.ident())
        if self.at("!"):
            if self.peek(1)[1] in ("(", "[", "{") and self.peek(1)[0] == "punct" and not (
                    self.peek(1)[1] == "(" and False):
                # a macro call `name!(…)`; `x != y` never reaches here (`!=` is one token)
                self.i += 1
                op = self.peek()[1]
                self.skip_balanced(op, {"(": ")", "[": "]", "{": "}"}[op])
                return ("macro", "::".join(segs))
        if self.at("{") and not no_struct and (segs[-1][0].isupper()):
            return self.struct_lit(segs)
        return ("path", segs)

    def struct_lit(self, segs):
        self.expect("{")
        fields, base = [], None
        while not self.at("}"):
            if self.eat(".."):
                base = self.expr()
                break
            f = self.ident()
            e = self.expr() if self.eat(":") else ("path", [f])
            fields.append((f, e))
            if not self.eat(","):
                break
        self.expect("}")
        return ("struct", segs, fields, base)

    def if_(self):
        self.expect("if")
        if self.at("let"):
            self.fail("`if let` is outside the subset")
        c = self.expr(no_struct=True)
        th = self.block()
        el = None
        if self.eat("else"):
            if self.at("if"):
                inner = self.if_()
                el = ("block", [], inner)
            else:
                el = self.block()
        return ("if", c, th, el)

    def match_(self):
        self.expect("match")
        s = self.expr(no_struct=True)
        self.expect("{")
        arms = []
        while not self.at("}"):
            self.skip_attrs()
            p = self.pattern()
            if self.at("|"):
                self.fail("or-patterns are outside the subset")
            g = None
            if self.eat("if"):
                g = self.expr()
            self.expect("=>")
            e = self.expr()
            arms.append((p, g, e))
            if not self.eat(","):
                if e[0] not in ("block", "if", "match"):
                    break
        self.expect("}")
        return ("match", s, arms)

    def block(self):
        self.expect("{")
        stmts, tail = [], None
        while not self.at("}"):
            self.skip_attrs()
            if self.eat(";"):
                continue
            if self.at("let"):
                self.i += 1
                is_mut = self.eat("mut")
                if self.peek()[0] != "id" or self.peek(1)[1] not in (":", "=", ";"):
                    self.fail("only `let [mut] name [: type] = expr;` is inside the subset")
                name = self.ident()
                ty = self.type_() if self.eat(":") else None
                self.expect("=")
                e = self.expr()
                if self.at("else"):
                    self.fail("let-else")
                self.expect(";")
                stmts.append(("let", name, is_mut, ty, e))
                continue
            if self.at("const"):
                self.i += 1
                name = self.ident()
                self.expect(":")
                ty = self.type_()
                self.expect("=")
                e = self.expr()
                self.expect(";")
                stmts.append(("const", name, ty, e))
                continue
            if self.at("return"):
                self.i += 1
                e = None if self.at(";") or self.at("}") else self.expr()
                self.eat(";")
                stmts.append(("return", e))
                continue
            for kw in ("fn", "struct", "enum", "impl", "use", "static", "type", "trait", "mod"):
                if self.at(kw):
                    self.fail(f"nested item `{kw}`")
            e = self.expr()
            k, v = self.peek()
            if k == "punct" and v in ASSIGN_OPS:
                self.i += 1
                rhs = self.expr()
                self.expect(";")
                stmts.append(("assign", e, v, rhs))
                continue
            if self.eat(";"):
                stmts.append(("expr", e))
                continue
            if self.at("}"):
                tail = e
                break
            if e[0] in ("if", "match", "block", "iflet"):   # `iflet`: only produced by rs2lean_mut.MutParser
                stmts.append(("expr", e))
                continue
            self.fail("expected `;` or `}` after an expression")
        self.expect("}")
        return ("block", stmts, tail)


# ======================================================================================
# 3. locating items in a source file
# ======================================================================================

class Source:
    """one Rust file: comment-stripped text + brace-aware item lookup"""

    def __init__(self, rel, raw):
        self.rel = rel
        self.raw = raw
        self.text = strip_comments(raw)

    def _match_brace(self, open_pos):
        assert self.text[open_pos] == "{"
        depth, i, n = 0, open_pos, len(self.text)
        while i < n:
            c = self.text[i]
            if c == '"':
                j = i + 1
                while j < n and self.text[j] != '"':
                    j += 2 if self.text[j] == "\\" else 1
                i = j
            elif c == "{":
                depth += 1
            elif c == "}":
                depth -= 1
                if depth == 0:
                    return i
            i += 1
        raise XlateError(f"{self.rel}: unbalanced braces")

    def region(self, header):
        """(start, end) of the `{…}` body following `header` (whitespace-insensitive, exact otherwise);
        header None = the whole file"""
        if header is None:
            return 0, len(self.text)
        pat = r"(?<![A-Za-z0-9_])" + r"\s+".join(re.escape(w) for w in header.split()) + r"\s*(?:where[^{]*)?\{"
        ms = list(re.finditer(pat, self.text))
        if not ms:
            raise XlateError(f"{self.rel}: `{header} {{` not found")
        if len(ms) > 1:
            raise XlateError(f"{self.rel}: `{header} {{` is ambiguous ({len(ms)} matches)")
        o = ms[0].end() - 1
        return o + 1, self._match_brace(o)

    def _depth_at(self, lo, pos):
        depth = 0
        for c in self.text[lo:pos]:
            if c == "{":
                depth += 1
            elif c == "}":
                depth -= 1
        return depth

    def fn(self, header, name, parser_cls=None):
        """parse `fn name(params) -> ret { body }` found directly inside `header`'s braces.
        returns dict(params=[(name, type, is_mut)], ret=type|None, body=block, generics=str)"""
        lo, hi = self.region(header)
        what = f"{self.rel}::{(header + '::') if header else ''}{name}"
        cands = [m for m in re.finditer(r"(?<![A-Za-z0-9_])fn\s+" + re.escape(name) + r"\s*[<(]", self.text[lo:hi])
                 if self._depth_at(lo, lo + m.start()) == 0]
        if not cands:
            raise XlateError(f"{what}: fn not found")
        if len(cands) > 1:
            raise XlateError(f"{what}: fn is ambiguous")
        start = lo + cands[0].start()
        o = self.text.index("{", start)
        semi = self.text.find(";", start)
        if 0 <= semi < o:
            raise XlateError(f"{what}: fn has no body")
        end = self._match_brace(o)
        p = (parser_cls or Parser)(tokenize(self.text[start:end + 1]), what)
        p.expect("fn")
        p.ident()
        generics = p.generic_args() if p.at("<") else ""
        p.expect("(")
        params = []
        while not p.at(")"):
            p.skip_attrs()
            if p.at("&") and (p.peek(1)[1] == "self" or p.peek(2)[1] == "self" or p.peek(3)[1] == "self"):
                p.i += 1
                if p.peek()[0] == "life":
                    p.i += 1
                p.eat("mut")
                p.expect("self")
                params.append(("self", "&Self", False))
            else:
                is_mut = p.eat("mut")
                pname = p.ident()
                if pname == "self":
                    params.append(("self", "Self", is_mut))
                else:
                    p.expect(":")
                    params.append((pname, p.type_(), is_mut))
            if not p.eat(","):
                break
        p.expect(")")
        ret = p.type_() if p.eat("->") else None
        where = ""
        if p.at("where"):
            while not p.at("{"):
                where += p.peek()[1] + " "
                p.i += 1
        body = p.block()
        if p.peek()[0] != "eof":
            p.fail("trailing tokens after the fn body")
        return {"params": params, "ret": ret, "body": body, "generics": generics, "where": where, "what": what}

    def assoc_type(self, header, name):
        """`type NAME = T;` directly inside header's braces"""
        lo, hi = self.region(header)
        ms = list(re.finditer(r"(?<![A-Za-z0-9_])type\s+" + re.escape(name) + r"\s*=\s*([^;]+);", self.text[lo:hi]))
        if len(ms) != 1:
            raise XlateError(f"{self.rel}::{header}: associated type `{name}` not found (or ambiguous)")
        return ms[0].group(1).strip()

    def fn_body_region(self, header, name):
        """(start, end) of the body of `fn name` inside `header`"""
        lo, hi = self.region(header)
        cands = [m for m in re.finditer(r"(?<![A-Za-z0-9_])fn\s+" + re.escape(name) + r"\s*[<(]", self.text[lo:hi])
                 if self._depth_at(lo, lo + m.start()) == 0]
        if len(cands) != 1:
            raise XlateError(f"{self.rel}::{header or ''}::{name}: fn not found (or ambiguous)")
        o = self.text.index("{", lo + cands[0].start())
        return o + 1, self._match_brace(o)

    def const(self, header, name, in_fn=None):
        """`const NAME: type = expr;` inside header's braces, or inside the body of `in_fn` found there"""
        lo, hi = self.fn_body_region(header, in_fn) if in_fn else self.region(header)
        what = f"{self.rel}::{(header + '::') if header else ''}{(in_fn + '::') if in_fn else ''}{name}"
        ms = list(re.finditer(r"(?<![A-Za-z0-9_])const\s+" + re.escape(name) + r"\s*:", self.text[lo:hi]))
        if not ms:
            raise XlateError(f"{what}: const not found")
        if len(ms) > 1:
            raise XlateError(f"{what}: const is ambiguous")
        start = lo + ms[0].start()
        end = self.text.index(";", start)
        # the initialiser may contain braces (`Frame { left: 0.0, .. }`): extend to the `;` at depth 0
        while self.text.count("{", start, end) != self.text.count("}", start, end):
            end = self.text.index(";", end + 1)
        p = Parser(tokenize(self.text[start:end + 1]), what)
        p.expect("const")
        p.ident()
        p.expect(":")
        ty = p.type_()
        p.expect("=")
        e = p.expr()
        p.expect(";")
        return {"type": ty, "expr": e, "what": what}

    def let_range(self, header, fn, first, last):
        """the statements from `let first = …;` to `let last = …;` (inclusive) in the body of `fn`, as a block AST"""
        lo, hi = self.fn_body_region(header, fn)
        what = f"{self.rel}::{(header + '::') if header else ''}{fn} [let {first} … let {last}]"
        body = self.text[lo:hi]
        a = list(re.finditer(r"(?<![A-Za-z0-9_])let\s+(?:mut\s+)?" + re.escape(first) + r"\s*[:=]", body))
        b = list(re.finditer(r"(?<![A-Za-z0-9_])let\s+(?:mut\s+)?" + re.escape(last) + r"\s*[:=]", body))
        if len(a) != 1 or len(b) != 1:
            raise XlateError(f"{what}: the delimiting `let`s are not unique ({len(a)}, {len(b)})")
        if b[0].start() < a[0].start():
            raise XlateError(f"{what}: `let {last}` comes before `let {first}`")
        end = body.index(";", b[0].end())
        while body.count("(", b[0].start(), end) != body.count(")", b[0].start(), end):
            end = body.index(";", end + 1)
        text = body[a[0].start():end + 1]
        p = Parser(tokenize("{" + text + "}"), what)
        blk = p.block()
        if blk[2] is not None or any(st[0] != "let" for st in blk[1]):
            raise XlateError(f"{what}: the range is not a sequence of `let` statements")
        return blk, what

    def field_call(self, header, fn, field, callee):
        """every `field: callee(…)` inside the body of `fn`: the parsed call expressions"""
        lo, hi = self.fn_body_region(header, fn)
        what = f"{self.rel}::{(header + '::') if header else ''}{fn} {field}: {callee}(…)"
        body = self.text[lo:hi]
        out = []
        for m in re.finditer(r"(?<![A-Za-z0-9_])" + re.escape(field) + r"\s*:\s*" + re.escape(callee) + r"\s*\(", body):
            o = m.end() - 1
            depth, i = 0, o
            while True:
                if body[i] == "(":
                    depth += 1
                elif body[i] == ")":
                    depth -= 1
                    if depth == 0:
                        break
                i += 1
            start = body.index(callee, m.start())
            p = Parser(tokenize(body[start:i + 1]), what)
            e = p.expr()
            if p.peek()[0] != "eof":
                p.fail("trailing tokens")
            out.append(e)
        if not out:
            raise XlateError(f"{what}: not found")
        return out, what

    def _item_with_attrs(self, kw, name):
        m = list(re.finditer(r"(?<![A-Za-z0-9_])" + kw + r"\s+" + re.escape(name) + r"(?![A-Za-z0-9_])", self.text))
        what = f"{self.rel}::{kw} {name}"
        if not m:
            raise XlateError(f"{what}: not found")
        if len(m) > 1:
            raise XlateError(f"{what}: ambiguous")
        # derive list: the attributes directly above
        head = self.text[:m[0].start()]
        derives = []
        lines = head.rstrip().split("\n")
        k = len(lines) - 1
        # walk back over `pub`, attributes
        while k >= 0 and (lines[k].strip().startswith("#[") or lines[k].strip() in ("", "pub", "pub(crate)")
                          or lines[k].strip().endswith(")]")):
            dm = re.search(r"#\[derive\(([^)]*)\)\]", lines[k])
            if dm:
                derives += [d.strip() for d in dm.group(1).split(",") if d.strip()]
            k -= 1
        return m[0], derives, what

    def enum(self, name):
        """variants in order: [(Variant, kind, [(field_name|None, type)])], kind in unit/tuple/struct"""
        m, derives, what = self._item_with_attrs("enum", name)
        o = self.text.index("{", m.end())
        end = self._match_brace(o)
        p = Parser(tokenize(self.text[o:end + 1]), what)
        p.expect("{")
        variants = []
        while not p.at("}"):
            p.skip_attrs()
            v = p.ident()
            if p.eat("("):
                fs = []
                while not p.at(")"):
                    p.skip_attrs()
                    fs.append((None, p.type_()))
                    if not p.eat(","):
                        break
                p.expect(")")
                variants.append((v, "tuple", fs))
            elif p.eat("{"):
                fs = []
                while not p.at("}"):
                    p.skip_attrs()
                    p.eat("pub")
                    f = p.ident()
                    p.expect(":")
                    fs.append((f, p.type_()))
                    if not p.eat(","):
                        break
                p.expect("}")
                variants.append((v, "struct", fs))
            else:
                if p.eat("="):
                    p.fail("explicit discriminants are outside the subset")
                variants.append((v, "unit", []))
            if not p.eat(","):
                break
        p.expect("}")
        return {"variants": variants, "derives": derives, "what": what}

    def struct(self, name):
        """('tuple', [types]) or ('named', [(field, type)]) + derives"""
        m, derives, what = self._item_with_attrs("struct", name)
        rest = self.text[m.end():]
        s = rest.lstrip()
        if s.startswith("<"):
            close = rest.index(">")
            rest = rest[close + 1:]
            s = rest.lstrip()
        if s.startswith("("):
            endp = rest.index(";")
            p = Parser(tokenize(rest[:endp + 1]), what)
            p.expect("(")
            tys = []
            while not p.at(")"):
                p.skip_attrs()
                if p.eat("pub"):
                    if p.at("("):
                        p.skip_balanced("(", ")")
                tys.append(p.type_())
                if not p.eat(","):
                    break
            p.expect(")")
            return {"kind": "tuple", "types": tys, "derives": derives, "what": what}
        o = self.text.index("{", m.end())
        if self.text[m.end():o].strip() and not re.fullmatch(r"\s*<[^<>]*>\s*", self.text[m.end():o]):
            raise XlateError(f"{what}: unexpected text between the name and the fields")
        end = self._match_brace(o)
        p = Parser(tokenize(self.text[o:end + 1]), what)
        p.expect("{")
        fs = []
        while not p.at("}"):
            p.skip_attrs()
            if p.eat("pub"):
                if p.at("("):
                    p.skip_balanced("(", ")")
            f = p.ident()
            p.expect(":")
            fs.append((f, p.type_()))
            if not p.eat(","):
                break
        p.expect("}")
        return {"kind": "named", "fields": fs, "derives": derives, "what": what}

    def float_const_module(self, name):
        """which of std::f32::consts / std::f64::consts a bare constant `name` was imported from"""
        hits = set()
        for m in re.finditer(r"f(32|64)::consts::(\{[^}]*\}|[A-Z0-9_]+)", self.text):
            names = re.findall(r"[A-Z][A-Z0-9_]*", m.group(2))
            if name in names:
                hits.add("f" + m.group(1))
        if len(hits) != 1:
            raise XlateError(f"{self.rel}: cannot tell which std::f*::consts `{name}` comes from ({sorted(hits)})")
        return hits.pop()


# ======================================================================================
# 4. the world: what the translator knows about kira's types and already-translated items
# ======================================================================================

FLOATS = ("f32", "f64")
NAT_TYPES = ("u8", "u16", "u32", "u64", "u128", "usize")
INT_TYPES = ("i8", "i16", "i32", "i64", "isize")
LEAN_KEYWORDS = {"at", "from", "end", "fun", "show", "open", "in", "then", "else", "match", "with", "do", "have",
                 "let", "if", "by", "def", "where", "then", "instance", "class", "structure", "namespace",
                 "section", "variable", "theorem", "example", "import", "export", "prefix", "infix", "notation",
                 "local", "universe", "Type", "Prop", "Sort", "deriving", "mutual", "using", "calc", "suffices",
                 "obtain", "forall", "exists", "macro", "syntax", "elab", "abbrev", "opaque", "axiom", "return"}


class World:
    def __init__(self):
        self.newtypes = {}   # Rust name -> dict(inner=f32|f64, derives=[…])
        self.structs = {}    # Rust name -> dict(lean=<type text>, fields={path: (lean_field, type)}, order=[paths],
        #                                       dropped=set())
        self.enums = {}      # Rust name -> dict(lean=<type text>, head=<ctor namespace>, variants={V: (ctor, [types], [names])},
        #                                       order=[V…])
        self.fns = {}        # (SelfType|None, fn name) -> Item
        self.ops = {}        # (op, lhs type, rhs type) -> Item
        self.unops = {}      # (op, type) -> Item
        self.trait_fns = {}  # (Trait::fn, Self type) -> Item
        self.consts = {}     # (SelfType|None(file-level: rel path), NAME) -> (lean term, type)

    def rep(self, t):
        """the representation type of `t` (newtypes erased)"""
        t = t.lstrip("&")
        return self.newtypes[t]["inner"] if t in self.newtypes else t

    def lean_type(self, t, what):
        t = t.lstrip("&")
        r = self.rep(t)
        if r in FLOATS:
            return "α"
        if r in NAT_TYPES or r == "Duration":
            return "Nat"
        if r in INT_TYPES:
            return "Int"
        if r == "bool":
            return "Bool"
        if r in self.structs:
            return self.structs[r]["lean"]
        if r in self.enums:
            return self.enums[r]["lean"]
        raise XlateError(f"{what}: no Lean type for Rust type `{t}`")


class Item:
    def __init__(self, lean, params, ret, self_type=None, fndef=None, extra=None):
        self.lean = lean            # Lean name (inside K.Gen)
        self.params = params        # [(name, type)] (including self)
        self.ret = ret
        self.self_type = self_type
        self.fndef = fndef          # parsed fn (for self-inlining)
        self.extra = extra or []    # leading dictionary parameters [(lean name, lean type)]


# ======================================================================================
# 5. lowering: typed translation of the AST into Lean text
# ======================================================================================

class R:
    """a lowered expression: Lean text, Rust type, atomic? (no parentheses needed as an argument),
    kind: for type bool, 'prop' (a decidable Prop) or 'bool'"""

    def __init__(self, text, ty, atomic=False, kind=None, ctor=None):
        self.text = text
        self.ty = ty
        self.atomic = atomic
        self.kind = kind
        self.ctor = ctor   # (enum, Variant, [R args]) when the expression is literally an enum constructor

    def p(self):
        return self.text if self.atomic else f"({self.text})"


class Untyped(XlateError):
    """a float literal whose type cannot be told yet"""


class Pending:
    """a `let x = <untyped literal>;` whose float type is fixed by a later use"""

    def __init__(self, expr):
        self.expr = expr
        self.ty = None


def lit_parts(text):
    t = text.replace("_", "")
    for s in FLOAT_SUFFIXES + INT_SUFFIXES:
        if t.endswith(s):
            return t[:-len(s)], s
    return t, None


def exact_in_f32(dec):
    """is the decimal `dec` exactly a binary32 value; and does rounding via binary64 agree with direct rounding"""
    q = Fraction(dec)
    d = float(q)                                   # correctly rounded to binary64
    f = struct.unpack("f", struct.pack("f", d))[0]  # binary64 -> binary32 (the twin's r32)
    exact = Fraction(f) == q
    if not exact:
        # direct decimal -> binary32 (what rustc does): check the two neighbours of f
        import math
        lo = math.nextafter(f, -math.inf)
        hi = math.nextafter(f, math.inf)
        lo32 = struct.unpack("f", struct.pack("f", lo))[0]
        hi32 = struct.unpack("f", struct.pack("f", hi))[0]
        # candidates are f and the adjacent binary32 values
        def ulp_neighbours(x):
            b = struct.unpack("I", struct.pack("f", x))[0]
            out = []
            for nb in (b - 1, b + 1):
                out.append(struct.unpack("f", struct.pack("I", nb & 0xFFFFFFFF))[0])
            return out
        best = min([f] + ulp_neighbours(f), key=lambda x: abs(Fraction(x) - q))
        if best != f:
            raise XlateError(f"f32 literal {dec}: rounding through binary64 differs from direct rounding")
    return exact


class Lower:
    def __init__(self, world, source, self_type, what, generics=None):
        self.w = world
        self.src = source
        self.self_type = self_type
        self.what = what
        self.generics = generics or {}    # type variable -> (dict lean name, {trait fn: field})
        self.header = None                # the impl header (to resolve `Self::Output`)
        self.current = None               # the Item being translated (for self-inlining)
        self.inline_depth = 0

    def fail(self, msg):
        raise XlateError(f"{self.what}: {msg}")

    def lt(self, t):
        t = self.resolve_type(t)
        if t in self.generics:
            return self.generics[t][3]
        return self.w.lean_type(t, self.what)

    # ---- names
    @staticmethod
    def lname(n):
        if n == "self":
            return "self_"
        if n in LEAN_KEYWORDS:
            return n + "_"
        return n

    def resolve_type(self, t):
        t = t.lstrip("&").strip()
        if t == "Self":
            if self.self_type is None:
                self.fail("`Self` outside an impl")
            return self.self_type
        if t.startswith("Self::"):
            if self.header is None:
                self.fail(f"associated type `{t}`")
            return self.resolve_type(self.src.assoc_type(self.header, t[len("Self::"):]))
        return t

    # ---- literals
    def literal(self, text, expect):
        body, suffix = lit_parts(text)
        is_float_form = ("." in body) or ("e" in body.lower())
        ty = suffix
        if ty is None:
            if expect is None:
                raise Untyped(f"{self.what}: cannot type the literal `{text}` here")
            ty = self.w.rep(expect)
            nominal = expect
        else:
            nominal = suffix
        if ty in FLOATS:
            if not is_float_form and suffix is None:
                self.fail(f"integer literal `{text}` where a float is expected")
            if not is_float_form:
                body += ".0"
            if body.endswith("."):
                body += "0"
            lean = f"({body} : α)"
            if ty == "f32" and not exact_in_f32(body):
                return R(f"KOps.r32 {lean}", nominal)
            return R(lean, nominal, atomic=True)
        if ty in NAT_TYPES or ty in INT_TYPES:
            if is_float_form:
                self.fail(f"float literal `{text}` where `{ty}` is expected")
            return R(str(int(body)), nominal, atomic=True)
        self.fail(f"literal `{text}` where `{expect}` is expected")

    @staticmethod
    def is_untyped_lit(e):
        if e[0] == "lit":
            return lit_parts(e[1])[1] is None
        if e[0] == "paren":
            return Lower.is_untyped_lit(e[1])
        if e[0] == "un" and e[1] == "-":
            return Lower.is_untyped_lit(e[2])
        return False

    # ---- bool helpers
    def as_bool(self, r):
        if self.w.rep(r.ty) != "bool":
            self.fail(f"expected a bool, found `{r.ty}`: {r.text}")
        if r.kind == "prop":
            return R(f"decide {r.p()}", "bool", kind="bool")
        return r

    # ---- expressions
    def expr(self, e, env, expect=None):
        k = e[0]
        if k == "paren":
            r = self.expr(e[1], env, expect)
            return R(r.text, r.ty, r.atomic, r.kind, r.ctor)
        if k == "lit":
            return self.literal(e[1], expect)
        if k == "bool":
            return R("true" if e[1] else "false", "bool", atomic=True, kind="bool")
        if k == "path":
            return self.path(e[1], env, expect)
        if k == "un":
            return self.unary(e, env, expect)
        if k == "bin":
            return self.binary(e, env, expect)
        if k == "cast":
            return self.cast(e, env)
        if k == "field":
            return self.field(e, env)
        if k == "call":
            return self.call(e, env, expect)
        if k == "mcall":
            return self.mcall(e, env, expect)
        if k == "if":
            return self.if_(e, env, expect, tail=False)
        if k == "match":
            return self.match_(e, env, expect, tail=False)
        if k == "block":
            return self.block(e, env, expect, tail=False)
        if k == "struct":
            return self.struct_lit(e, env, expect)
        if k == "macro":
            self.fail(f"macro `{e[1]}!` is outside the subset")
        if k == "tuple":
            self.fail("tuple expressions are outside the subset")
        self.fail(f"unsupported expression node `{k}`")

    def var(self, name, env, expect):
        v = env[name]
        if isinstance(v, dict):
            self.fail("`self` used as a whole where the item is only given some of its fields")
        if isinstance(v, Pending):
            if v.ty is None:
                if expect is None or self.w.rep(expect) not in FLOATS:
                    raise Untyped(f"{self.what}: the type of `{name}` (bound to a bare literal) is not known at its first use")
                v.ty = expect
            return R(self.lname(name), v.ty, atomic=True)
        if isinstance(v, R):
            return v
        lean, ty = v
        return R(lean, ty, atomic=True, kind="bool" if ty == "bool" else None)

    def path(self, segs, env, expect):
        if len(segs) == 1:
            n = segs[0]
            if n in env:
                return self.var(n, env, expect)
            if (self.src.rel, n) in self.w.consts:
                lean, ty = self.w.consts[(self.src.rel, n)]
                return R(lean, ty, atomic=True)
            if n.isupper() or re.fullmatch(r"[A-Z][A-Z0-9_]*", n):
                return self.std_const(self.src.float_const_module(n), n)
            self.fail(f"unknown name `{n}`")
        # std constants by full path
        m = re.fullmatch(r"(?:std::|core::)?(f32|f64)::consts::([A-Z0-9_]+)", "::".join(segs))
        if m:
            return self.std_const(m.group(1), m.group(2))
        head = self.resolve_type(segs[0]) if len(segs) == 2 else None
        if head is not None:
            if (head, segs[1]) in self.w.consts:
                lean, ty = self.w.consts[(head, segs[1])]
                return R(lean, ty, atomic=True)
            if head in self.w.enums and segs[1] in self.w.enums[head]["variants"]:
                ctor, tys, _ = self.w.enums[head]["variants"][segs[1]]
                if tys:
                    self.fail(f"variant `{head}::{segs[1]}` used without its payload")
                en = self.w.enums[head]
                return R(f"{en['head']}.{ctor}", head, atomic=True, ctor=(head, segs[1], []))
        self.fail(f"unknown path `{'::'.join(segs)}` (not a translated constant or a known variant)")

    def std_const(self, mod, name):
        table = {
            ("f64", "PI"): "KOps.pi",
            ("f64", "TAU"): "(tau : α)",
            ("f64", "FRAC_PI_2"): "(KOps.pi / (2.0 : α))",
            ("f64", "FRAC_PI_4"): "(KOps.pi / (4.0 : α))",
            ("f64", "FRAC_PI_8"): "(KOps.pi / (8.0 : α))",
            ("f32", "PI"): "(KOps.r32 KOps.pi)",
            ("f32", "SQRT_2"): "KOps.sqrt2_32",
            ("f32", "FRAC_PI_2"): "(KOps.r32 (KOps.r32 KOps.pi / (2.0 : α)))",
            ("f32", "FRAC_PI_4"): "(KOps.r32 (KOps.r32 KOps.pi / (4.0 : α)))",
            ("f32", "FRAC_PI_8"): "(KOps.r32 (KOps.r32 KOps.pi / (8.0 : α)))",
        }
        if (mod, name) not in table:
            self.fail(f"std::{mod}::consts::{name} has no counterpart in `class KOps` (Num.lean)")
        return R(table[(mod, name)], mod, atomic=True)

    def unary(self, e, env, expect):
        op, a = e[1], e[2]
        if op in ("*", "&"):
            return self.expr(a, env, expect)
        if op == "-":
            r = self.expr(a, env, expect)
            rep = self.w.rep(r.ty)
            if rep in FLOATS and r.ty == rep:
                return R(f"-{r.p()}", r.ty)
            if ("-", r.ty) in self.w.unops:
                it = self.w.unops[("-", r.ty)]
                return R(f"{it.lean} {r.p()}", it.ret)
            self.fail(f"unary `-` on `{r.ty}`")
        if op == "!":
            r = self.as_bool(self.expr(a, env, "bool"))
            return R(f"!{r.p()}", "bool", kind="bool")
        self.fail(f"unary `{op}`")

    def binary(self, e, env, expect):
        op, a, b = e[1], e[2], e[3]
        if op in ("&&", "||"):
            ra = self.as_bool(self.expr(a, env, "bool"))
            rb = self.as_bool(self.expr(b, env, "bool"))
            return R(f"{ra.p()} {op} {rb.p()}", "bool", kind="bool")
        cmp_ = op in ("==", "!=", "<", "<=", ">", ">=")
        # operands: the one that is not a bare literal fixes the type of the other
        inner_expect = None if cmp_ else expect
        try:
            ra = self.expr(a, env, inner_expect)
        except Untyped:
            rb = self.expr(b, env, None)
            ra = self.expr(a, env, self.operand_type(op, None, rb.ty))
        else:
            rb = None
        if rb is None:
            rb = self.expr(b, env, self.operand_type(op, ra.ty, None))
        ta, tb = ra.ty, rb.ty
        if cmp_:
            return self.compare(op, ra, rb)
        if (op, ta, tb) in self.w.ops:
            it = self.w.ops[(op, ta, tb)]
            return R(f"{it.lean} {ra.p()} {rb.p()}", it.ret)
        if ta != tb:
            self.fail(f"`{op}` on `{ta}` and `{tb}`: no translated operator impl")
        if ta in FLOATS:
            if op not in ("+", "-", "*", "/"):
                self.fail(f"`{op}` on floats is outside the subset")
            core = f"{ra.p()} {op} {rb.p()}"
            return R(core, ta) if ta == "f64" else R(f"KOps.r32 ({core})", ta)
        if ta in NAT_TYPES:
            if op in ("+", "*"):
                return R(f"{ra.p()} {op} {rb.p()}", ta)
            self.fail(f"`{op}` on `{ta}` can underflow / truncate: not translated")
        self.fail(f"`{op}` on `{ta}`: no translated operator impl")

    def operand_type(self, op, lhs, rhs):
        """expected type of the other operand"""
        known = lhs if lhs is not None else rhs
        if self.w.rep(known) in FLOATS and known in FLOATS:
            return known
        side = 1 if lhs is not None else 2
        cands = {k[3 - side] for k in self.w.ops if k[0] == op and k[side] == known}
        if len(cands) == 1:
            return cands.pop()
        return known

    def compare(self, op, ra, rb):
        if ra.ty != rb.ty:
            self.fail(f"comparison `{op}` between `{ra.ty}` and `{rb.ty}`")
        t = ra.ty
        rep = self.w.rep(t)
        if t in self.w.newtypes:
            need = "PartialEq" if op in ("==", "!=") else "PartialOrd"
            if need not in self.w.newtypes[t]["derives"]:
                self.fail(f"`{op}` on `{t}`, which does not derive {need}")
        if rep in FLOATS:
            if op == "==":
                return R(f"feq {ra.p()} {rb.p()}", "bool", kind="bool")
            if op == "!=":
                return R(f"!(feq {ra.p()} {rb.p()})", "bool", kind="bool")
            text = {"<": f"{ra.p()} < {rb.p()}", "<=": f"{ra.p()} ≤ {rb.p()}",
                    ">": f"{rb.p()} < {ra.p()}", ">=": f"{rb.p()} ≤ {ra.p()}"}[op]
            return R(text, "bool", kind="prop")
        if rep in NAT_TYPES or rep in INT_TYPES:
            text = {"==": f"{ra.p()} = {rb.p()}", "!=": f"{ra.p()} ≠ {rb.p()}", "<": f"{ra.p()} < {rb.p()}",
                    "<=": f"{ra.p()} ≤ {rb.p()}", ">": f"{rb.p()} < {ra.p()}", ">=": f"{rb.p()} ≤ {ra.p()}"}[op]
            return R(text, "bool", kind="prop")
        self.fail(f"comparison `{op}` on `{t}`")

    def cast(self, e, env):
        to = self.resolve_type(e[2])
        try:
            r = self.expr(e[1], env, None)
        except Untyped:
            r = self.expr(e[1], env, to)
        frm = r.ty
        if frm == to:
            return r
        if frm == "f64" and to == "f32":
            return R(f"KOps.r32 {r.p()}", "f32")
        if frm == "f32" and to == "f64":
            return R(r.text, "f64", r.atomic)
        if frm in NAT_TYPES and to in FLOATS:
            if to == "f32":
                return R(f"KOps.r32 (KOps.ofNat {r.p()} : α)", to)
            return R(f"(KOps.ofNat {r.p()} : α)", to, atomic=True)
        if frm in FLOATS and to in ("u64", "usize"):
            return R(f"KOps.toNatSat {r.p()}", to)
        self.fail(f"cast `{frm} as {to}` is outside the subset")

    def field(self, e, env):
        recv, name = e[1], e[2]
        # composite paths such as `self.input_range.0`
        if recv[0] == "field" and not (recv[1][0] == "path" and recv[1][1] == ["self"]
                                       and isinstance(env.get("self"), dict)):
            inner = self.expr(recv[1], env)
            t = inner.ty
            if t in self.w.structs and f"{recv[2]}.{name}" in self.w.structs[t]["fields"]:
                lf, ft = self.w.structs[t]["fields"][f"{recv[2]}.{name}"]
                return R(f"{inner.p()}.{lf}", self.generic_subst(ft, inner), atomic=True)
        if recv[0] == "path" and recv[1] == ["self"] and isinstance(env.get("self"), dict):
            flat = env["self"]
            if name not in flat:
                self.fail(f"`self.{name}` is not one of the fields this item is given ({sorted(flat)})")
            return R(flat[name][0], flat[name][1], atomic=True)
        r = self.expr(recv, env)
        t = r.ty
        if t in self.w.newtypes:
            if name != "0":
                self.fail(f"field `.{name}` of newtype `{t}`")
            return R(r.text, self.w.newtypes[t]["inner"], r.atomic)
        if t in self.w.structs:
            st = self.w.structs[t]
            if name in st["fields"]:
                lf, ft = st["fields"][name]
                return R(f"{r.p()}.{lf}", self.generic_subst(ft, r), atomic=True)
            if name in st.get("dropped", ()):
                self.fail(f"field `{t}.{name}` is not part of the model")
        self.fail(f"field `.{name}` of `{t}`")

    def generic_subst(self, ft, recv):
        return ft

    # ---- calls
    def call_item(self, it, args_r, extra_first=True):
        parts = [it.lean] + [x for x, _ in it.extra] + [a.p() for a in args_r]
        return R(" ".join(parts), it.ret)

    def args_for(self, it, args, env, skip_self=0):
        ps = it.params[skip_self:]
        if len(ps) != len(args):
            self.fail(f"call of `{it.lean}`: {len(args)} arguments for {len(ps)} parameters")
        return [self.coerce(self.expr(a, env, pt), pt) for a, (_, pt) in zip(args, ps)]

    def coerce(self, r, want):
        if r.ty != want:
            self.fail(f"type mismatch: expected `{want}`, found `{r.ty}` in `{r.text}`")
        return r

    def call(self, e, env, expect):
        f, args = e[1], e[2]
        if f[0] != "path":
            self.fail("call of a non-path expression")
        segs = f[1]
        name = "::".join(segs)
        # newtype constructor
        head = self.resolve_type(segs[0]) if len(segs) == 1 else None
        if head is not None and head in self.w.newtypes:
            if len(args) != 1:
                self.fail(f"`{head}(…)` takes one argument")
            inner = self.w.newtypes[head]["inner"]
            r = self.coerce(self.expr(args[0], env, inner), inner)
            return R(r.text, head, r.atomic)
        if len(segs) == 2:
            ty = self.resolve_type(segs[0]) if (segs[0] == "Self" or segs[0] in self.w.enums or segs[0] in self.w.structs
                                                or segs[0] in self.w.newtypes or segs[0] in self.generics) else segs[0]
            # enum constructor
            if ty in self.w.enums and segs[1] in self.w.enums[ty]["variants"]:
                en = self.w.enums[ty]
                ctor, tys, _ = en["variants"][segs[1]]
                if len(tys) != len(args):
                    self.fail(f"`{name}`: {len(args)} arguments for {len(tys)} payload fields")
                rs = [self.coerce(self.expr(a, env, t), t) for a, t in zip(args, tys)]
                return R(" ".join([f"{en['head']}.{ctor}"] + [x.p() for x in rs]), ty, ctor=(ty, segs[1], rs))
            # generic `T::interpolate(..)` through a dictionary
            if ty in self.generics:
                dict_name, fields, elem, _lt = self.generics[ty]
                if segs[1] not in fields:
                    self.fail(f"`{name}`: the dictionary for `{ty}` has no `{segs[1]}`")
                lean_field, ptypes, ret = fields[segs[1]]
                if len(ptypes) != len(args):
                    self.fail(f"`{name}`: wrong number of arguments")
                rs = [self.coerce(self.expr(a, env, t), t) for a, t in zip(args, ptypes)]
                return R(" ".join([f"{dict_name}.{lean_field}"] + [x.p() for x in rs]), ret)
            # associated fn of a translated type
            if (ty, segs[1]) in self.w.fns:
                it = self.w.fns[(ty, segs[1])]
                return self.call_item(it, self.args_for(it, args, env))
            # trait static call: the impl is chosen by the type of the first argument
            if any(k[0] == name for k in self.w.trait_fns):
                try:
                    r0 = self.expr(args[0], env, None)
                except Untyped:
                    if expect is None:
                        raise
                    r0 = self.expr(args[0], env, expect)
                key = (name, r0.ty)
                if key not in self.w.trait_fns:
                    self.fail(f"`{name}` at type `{r0.ty}`: that impl is not translated")
                it = self.w.trait_fns[key]
                return self.call_item(it, self.args_for(it, args, env))
            if name == "Duration::from_secs_f64":
                r = self.coerce(self.expr(args[0], env, "f64"), "f64")
                return R(f"KOps.durFromSecs {r.p()}", "Duration")
            if name in ("Duration::from_millis", "Duration::from_secs", "Duration::from_micros", "Duration::from_nanos"):
                if args[0][0] != "lit":
                    self.fail(f"`{name}` of a non-literal")
                body, suf = lit_parts(args[0][1])
                if not body.isdigit():
                    self.fail(f"`{name}` of a non-integer literal")
                mul = {"from_millis": 10 ** 6, "from_secs": 10 ** 9, "from_micros": 10 ** 3, "from_nanos": 1}[segs[1]]
                return R(str(int(body) * mul), "Duration", atomic=True)
        self.fail(f"call of `{name}`: not a translated item, constructor or known std function")

    FLOAT_METHODS_0 = {
        # name: (f64 template, f32 template)   {x} is the parenthesised receiver
        "sqrt": ("KOps.sqrt {x}", "KOps.r32 (KOps.sqrt {x})"),
        "sin": ("KOps.sin {x}", "KOps.sin32 {x}"),
        "cos": (None, "KOps.cos32 {x}"),
        "tan": ("KOps.tan {x}", None),
        "exp": ("KOps.exp {x}", "KOps.exp32 {x}"),
        "log10": (None, "KOps.log10_32 {x}"),
        "abs": ("KOps.abs {x}", "KOps.abs {x}"),
        "floor": ("KOps.floor {x}", "KOps.floor {x}"),
        "ceil": ("KOps.ceil {x}", "KOps.ceil {x}"),
        "fract": ("fract {x}", None),
        "trunc": ("trunc {x}", "trunc {x}"),
        "recip": ("(1.0 : α) / {x}", "KOps.r32 ((1.0 : α) / {x})"),
    }

    def mcall(self, e, env, expect):
        recv, name, args = e[1], e[2], e[3]
        # self-recursion on a literal constructor: inline the arm (β-reduction of `match` on a known variant)
        if self.current is not None and name == self.current_fn_name:
            try:
                r0 = self.expr(recv, env, None)
            except Untyped:
                r0 = None
            if r0 is not None and r0.ty == self.self_type:
                if r0.ctor is None:
                    self.fail(f"recursive call `.{name}` on a receiver that is not a literal constructor")
                return self.inline_self(r0, args, env)
        try:
            r = self.expr(recv, env, None)
        except Untyped:
            if expect is None:
                raise
            r = self.expr(recv, env, expect)
        t = r.ty
        rep = self.w.rep(t)
        if name in ("clone", "to_owned") and not args:
            return r
        if (t, name) in self.w.fns:
            it = self.w.fns[(t, name)]
            rs = self.args_for(it, args, env, skip_self=1)
            return self.call_item(it, [r] + rs)
        if t in FLOATS:
            if name in self.FLOAT_METHODS_0:
                if args:
                    self.fail(f"`.{name}` takes no arguments")
                tpl = self.FLOAT_METHODS_0[name][0 if t == "f64" else 1]
                if tpl is None:
                    self.fail(f"`{t}::{name}` has no counterpart in `class KOps` (Num.lean)")
                return R(tpl.format(x=r.p()), t)
            if name == "powf":
                y = self.coerce(self.expr(args[0], env, t), t)
                return R(f"KOps.pow {r.p()} {y.p()}" if t == "f64" else f"KOps.pow32 {r.p()} {y.p()}", t)
            if name == "powi":
                if t != "f64":
                    self.fail("`f32::powi` has no counterpart in the model")
                y = self.coerce(self.expr(args[0], env, "i32"), "i32")
                return R(f"powi {r.p()} {y.p()}", t)
            if name == "clamp":
                lo = self.coerce(self.expr(args[0], env, t), t)
                hi = self.coerce(self.expr(args[1], env, t), t)
                self.check_clamp_bounds(args[0], args[1])
                return R(f"clamp {r.p()} {lo.p()} {hi.p()}", t)
            if name in ("min", "max"):
                y = self.coerce(self.expr(args[0], env, t), t)
                return R(f"{'fmin' if name == 'min' else 'fmax'} {r.p()} {y.p()}", t)
            if name == "is_nan":
                return R(f"KOps.isNaN {r.p()}", "bool", kind="bool")
            if name == "is_finite":
                return R(f"KOps.isFinite {r.p()}", "bool", kind="bool")
            self.fail(f"method `{t}::{name}` is outside the subset (mul_add, rem_euclid, round, … have no agreed KOps form)")
        if rep == "Duration" and name == "as_secs_f64" and not args:
            return R(f"(durToSecs {r.p()} : α)", "f64", atomic=True)
        self.fail(f"method `.{name}` on `{t}`: not a translated item")

    def check_clamp_bounds(self, lo, hi):
        """Rust's `clamp` panics when min > max; the model's `clamp` does not: only literal, ordered bounds"""
        def val(x):
            if x[0] == "paren":
                return val(x[1])
            if x[0] == "un" and x[1] == "-":
                v = val(x[2])
                return None if v is None else -v
            if x[0] == "lit":
                return Fraction(lit_parts(x[1])[0])
            return None
        a, b = val(lo), val(hi)
        if a is None or b is None:
            self.fail("`clamp` with non-literal bounds can panic (min > max): not translated")
        if a > b:
            self.fail("`clamp` with min > max always panics")

    def inline_self(self, r0, args, env):
        it = self.current
        if self.inline_depth > 4:
            self.fail("self-inlining deeper than 4")
        fd = it.fndef
        params = [p for p in fd["params"] if p[0] != "self"]
        if len(params) != len(args):
            self.fail("recursive call: wrong number of arguments")
        env2 = {"self": r0}
        lets = []
        for (pn, pt, _), a in zip(params, args):
            pt = self.resolve_type(pt)
            ra = self.coerce(self.expr(a, env, pt), pt)
            if ra.text != self.lname(pn):       # `let x := x` would be a no-op
                lets.append(f"let {self.lname(pn)} := {ra.text}")
            env2[pn] = (self.lname(pn), pt)
        self.inline_depth += 1
        body = self.block(fd["body"], env2, self.resolve_type(fd["ret"]), tail=True)
        self.inline_depth -= 1
        return R("; ".join(lets + [body.text]), body.ty)

    # ---- control
    @staticmethod
    def br(r):
        """text of a branch / arm body: parenthesised when it contains binders or nested control"""
        if r.atomic:
            return r.text
        if re.search(r"(^|[ (])(let|match|if|fun) ", r.text):
            return f"({r.text})"
        return r.text

    def cond(self, c, env):
        r = self.expr(c, env, "bool")
        if self.w.rep(r.ty) != "bool":
            self.fail(f"condition of type `{r.ty}`")
        return r

    def if_(self, e, env, expect, tail):
        c, th, el = e[1], e[2], e[3]
        if el is None:
            self.fail("`if` without `else` used as a value")
        rc = self.cond(c, env)
        try:
            rt = self.block(th, dict(env), expect, tail)
            re_ = self.block(el, dict(env), rt.ty, tail)
        except Untyped:
            re_ = self.block(el, dict(env), expect, tail)
            rt = self.block(th, dict(env), re_.ty, tail)
        if rt.ty != re_.ty:
            self.fail(f"`if` branches of types `{rt.ty}` and `{re_.ty}`")
        kind = None
        if rt.ty == "bool":
            rt, re_ = self.as_bool(rt), self.as_bool(re_)
            kind = "bool"
        return R(f"if {rc.text} then {self.br(rt)} else {self.br(re_)}", rt.ty, kind=kind)

    def match_(self, e, env, expect, tail):
        scrut, arms = e[1], e[2]
        rs = self.expr(scrut, env, None)
        t = rs.ty
        if t not in self.w.enums:
            self.fail(f"`match` on `{t}` (only matches over translated enums are inside the subset)")
        en = self.w.enums[t]
        # a known constructor: choose the arm now
        if rs.ctor is not None:
            return self.match_known(rs, arms, env, expect, tail)
        out, ty = [], None
        seen = set()
        pend = []
        for pat, guard, body in arms:
            if guard is not None:
                self.fail("match guards are outside the subset")
            env2 = dict(env)
            ptxt = self.pattern(pat, t, env2, seen)
            pend.append((ptxt, body, env2))
        if "_" not in seen and seen != set(en["order"]):
            self.fail(f"`match` on `{t}` does not cover {sorted(set(en['order']) - seen)}")
        # type the arms: an arm made only of bare literals takes the type of the others
        results = [None] * len(pend)
        for rnd in (0, 1):
            for i, (ptxt, body, env2) in enumerate(pend):
                if results[i] is not None:
                    continue
                try:
                    results[i] = self.arm(body, env2, expect if ty is None else ty, tail)
                    ty = results[i].ty
                except Untyped:
                    if rnd == 1:
                        raise
        for r in results:
            if r.ty != ty:
                self.fail(f"match arms of types `{ty}` and `{r.ty}`")
        if ty == "bool":
            results = [self.as_bool(r) for r in results]
        lines = [f"| {ptxt} => {self.br(r)}" for (ptxt, _, _), r in zip(pend, results)]
        return R(f"match {rs.text} with " + " ".join(lines), ty, kind="bool" if ty == "bool" else None)

    def arm(self, body, env, expect, tail):
        if body[0] == "block":
            return self.block(body, env, expect, tail)
        if body[0] == "if":
            return self.if_(body, env, expect, tail)
        if body[0] == "match":
            return self.match_(body, env, expect, tail)
        return self.expr(body, env, expect)

    def pattern(self, pat, t, env, seen):
        en = self.w.enums[t]
        k = pat[0]
        if k == "pwild":
            seen.add("_")
            return "_"
        if k == "pbind":
            self.fail(f"catch-all binding pattern `{pat[1]}` is outside the subset")
        segs = pat[1]
        if len(segs) != 2 or self.resolve_type(segs[0]) != t:
            self.fail(f"pattern `{'::'.join(segs)}` does not name a variant of `{t}`")
        v = segs[1]
        if v not in en["variants"]:
            self.fail(f"`{t}` has no variant `{v}`")
        if v in seen:
            self.fail(f"variant `{v}` matched twice")
        seen.add(v)
        ctor, tys, names = en["variants"][v]
        if k == "ppath":
            subs = []
        elif k == "pctor":
            subs = pat[2]
        else:  # pstruct: order the sub-patterns by the declaration
            given = dict(pat[2])
            for f in given:
                if f not in names:
                    self.fail(f"variant `{v}` has no field `{f}`")
            if not pat[3] and set(given) != set(names):
                self.fail(f"pattern for `{v}` does not mention all fields")
            subs = [given.get(f, ("pwild",)) for f in names]
        if len(subs) != len(tys):
            self.fail(f"pattern for `{v}`: {len(subs)} sub-patterns for {len(tys)} fields")
        binders = []
        for sp, ft in zip(subs, tys):
            if sp[0] == "pwild":
                binders.append("_")
            elif sp[0] == "pbind":
                env[sp[1]] = (self.lname(sp[1]), ft)
                binders.append(self.lname(sp[1]))
            else:
                self.fail("nested patterns are outside the subset")
        return " ".join([f".{ctor}"] + binders)

    def match_known(self, rs, arms, env, expect, tail):
        t, v, argrs = rs.ctor
        en = self.w.enums[t]
        for pat, guard, body in arms:
            if guard is not None:
                self.fail("match guards are outside the subset")
            if pat[0] == "pwild":
                return self.arm(body, dict(env), expect, tail)
            if pat[0] == "pbind":
                self.fail("catch-all binding pattern")
            segs = pat[1]
            if len(segs) != 2 or self.resolve_type(segs[0]) != t:
                self.fail(f"pattern `{'::'.join(segs)}` does not name a variant of `{t}`")
            if segs[1] != v:
                continue
            ctor, tys, names = en["variants"][v]
            if pat[0] == "ppath":
                subs = []
            elif pat[0] == "pctor":
                subs = pat[2]
            else:
                given = dict(pat[2])
                subs = [given.get(f, ("pwild",)) for f in names]
            if len(subs) != len(argrs):
                self.fail(f"pattern for `{v}`: arity")
            env2 = dict(env)
            for sp, ar in zip(subs, argrs):
                if sp[0] == "pbind":
                    env2[sp[1]] = ar
                elif sp[0] != "pwild":
                    self.fail("nested patterns are outside the subset")
            return self.arm(body, env2, expect, tail)
        self.fail(f"no arm for the known variant `{v}`")

    def struct_lit(self, e, env, expect):
        segs, fields, base = e[1], e[2], e[3]
        if base is not None:
            self.fail("struct update syntax `..base` is outside the subset")
        if len(segs) == 2:
            # struct-like enum variant
            t = self.resolve_type(segs[0])
            if t in self.w.enums and segs[1] in self.w.enums[t]["variants"]:
                en = self.w.enums[t]
                ctor, tys, names = en["variants"][segs[1]]
                given = dict(fields)
                if set(given) != set(names):
                    self.fail(f"`{t}::{segs[1]} {{..}}`: fields {sorted(given)} ≠ {sorted(names)}")
                rs = [self.coerce(self.expr(given[f], env, ft), ft) for f, ft in zip(names, tys)]
                return R(" ".join([f"{en['head']}.{ctor}"] + [x.p() for x in rs]), t, ctor=(t, segs[1], rs))
        if len(segs) != 1:
            self.fail(f"struct literal `{'::'.join(segs)}`")
        t = self.resolve_type(segs[0])
        if t not in self.w.structs:
            self.fail(f"struct literal of `{t}`, which is not a translated struct")
        st = self.w.structs[t]
        given = dict(fields)
        for d in st.get("dropped", ()):
            given.pop(d, None)
        if set(given) != set(st["order"]):
            self.fail(f"`{t} {{..}}`: fields {sorted(given)} ≠ {sorted(st['order'])}")
        rs = []
        for f in st["order"]:
            ft = st["fields"][f][1]
            rs.append(self.coerce(self.expr(given[f], env, ft), ft))
        return R("⟨" + ", ".join(x.text for x in rs) + "⟩", t, atomic=True)

    # ---- blocks and statements
    def block(self, b, env, expect, tail):
        if b[0] != "block":
            return self.arm(b, env, expect, tail)
        stmts, tl = b[1], b[2]
        env = dict(env)
        local = set()
        return self.stmts(list(stmts), tl, env, expect, tail, local)

    def always_returns(self, b):
        return b[0] == "block" and b[1] and b[1][-1][0] == "return" and b[2] is None

    def stmts(self, stmts, tl, env, expect, tail, local):
        if not stmts:
            if tl is None:
                self.fail("block without a value")
            if tl[0] == "if":
                return self.if_(tl, env, expect, tail)
            if tl[0] == "match":
                return self.match_(tl, env, expect, tail)
            if tl[0] == "block":
                return self.block(tl, env, expect, tail)
            return self.expr(tl, env, expect)
        s, rest = stmts[0], stmts[1:]
        k = s[0]
        if k == "let":
            _, name, is_mut, ty, init = s
            if ty is not None:
                ty = self.resolve_type(ty)
            if ty is None and self.is_untyped_lit(init):
                cell = Pending(init)
                env[name] = cell
                local.add(name)
                r = self.stmts(rest, tl, env, expect, tail, local)
                if cell.ty is None:
                    self.fail(f"`let {name} = <literal>` is never used at a known float type")
                ri = self.expr(init, {}, cell.ty)
                return R(f"let {self.lname(name)} := {self.br(ri)}; {r.text}", r.ty, kind=r.kind)
            ri = self.expr(init, env, ty) if init[0] not in ("if", "match", "block") else \
                self.arm(init, dict(env), ty, False)
            if ty is not None:
                self.coerce(ri, ty)
            if ri.ty == "bool":
                ri = self.as_bool(ri)
            env[name] = (self.lname(name), ri.ty)
            local.add(name)
            r = self.stmts(rest, tl, env, expect, tail, local)
            return R(f"let {self.lname(name)} := {self.br(ri)}; {r.text}", r.ty, kind=r.kind)
        if k == "const":
            _, name, ty, init = s
            ty = self.resolve_type(ty)
            ri = self.coerce(self.expr(init, env, ty), ty)
            env[name] = (self.lname(name), ri.ty)
            local.add(name)
            r = self.stmts(rest, tl, env, expect, tail, local)
            return R(f"let {self.lname(name)} := {self.br(ri)}; {r.text}", r.ty, kind=r.kind)
        if k == "assign":
            _, target, op, rhs = s
            if target[0] != "path" or len(target[1]) != 1 or target[1][0] not in env:
                self.fail("assignment to something that is not a local variable (`&mut` state is outside the subset)")
            name = target[1][0]
            if name not in local and not tail:
                self.fail(f"assignment to `{name}` from a block whose value is used further on (no join points)")
            cur = self.var(name, env, None)
            if op == "=":
                ri = self.coerce(self.expr(rhs, env, cur.ty), cur.ty)
            else:
                ri = self.coerce(self.binary(("bin", op[:-1], target, rhs), env, cur.ty), cur.ty)
            env[name] = (self.lname(name), cur.ty)
            r = self.stmts(rest, tl, env, expect, tail, local)
            return R(f"let {self.lname(name)} := {self.br(ri)}; {r.text}", r.ty, kind=r.kind)
        if k == "return":
            if rest or tl is not None:
                self.fail("code after `return`")
            if not tail:
                self.fail("`return` from a block that is not in tail position")
            if s[1] is None:
                self.fail("`return;` without a value")
            return self.expr(s[1], env, expect)
        if k == "expr":
            e = s[1]
            # `if c { …; return X; }` followed by the rest: if c then X else rest
            if e[0] == "if" and e[3] is None and self.always_returns(e[2]):
                if not tail:
                    self.fail("early `return` inside a block that is not in tail position")
                rc = self.cond(e[1], env)
                try:
                    rt = self.block(e[2], dict(env), expect, True)
                    rr = self.stmts(rest, tl, env, rt.ty, tail, local)
                except Untyped:
                    rr = self.stmts(rest, tl, env, expect, tail, local)
                    rt = self.block(e[2], dict(env), rr.ty, True)
                if rt.ty != rr.ty:
                    self.fail(f"early return of type `{rt.ty}` in a function returning `{rr.ty}`")
                if rt.ty == "bool":
                    rt, rr = self.as_bool(rt), self.as_bool(rr)
                return R(f"if {rc.text} then {self.br(rt)} else {self.br(rr)}", rt.ty, kind=rr.kind)
            if not rest and tl is None and e[0] in ("if", "match", "block"):
                return self.stmts([], e, env, expect, tail, local)
            if e[0] == "macro":
                self.fail(f"macro `{e[1]}!` (assertions are not modelled; the item cannot be translated faithfully)")
            self.fail("expression statement with no effect in a pure function (or `&mut` state)")
        self.fail(f"statement `{k}`")


# ======================================================================================
# 6. printing definitions
# ======================================================================================

def wrap(text, indent=2):
    """cosmetic only: break the one-line Lean term at top-level `; ` (lets) and before top-level match arms"""
    chunks, cur, depth = [], "", 0
    n = len(text)
    i = 0
    while i < n:
        ch = text[i]
        if ch in "([⟨":
            depth += 1
        elif ch in ")]⟩":
            depth -= 1
        if depth == 0 and text.startswith("; ", i):
            chunks.append(cur)
            cur = ""
            i += 2
            continue
        if depth == 0 and text.startswith(" | ", i) and i + 3 < n and text[i + 3] in "._":
            chunks.append(cur)
            cur = "| "
            i += 3
            continue
        cur += ch
        i += 1
    chunks.append(cur)
    pad = " " * indent
    return ("\n" + pad).join(chunks)
