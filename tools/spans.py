#!/usr/bin/env python3
"""
Span fingerprints: every model definition carries `mirrors: <file>.rs::<Item>[::<method>]` in its doc comment.
This tool hashes the whitespace-normalised body of each mirrored Rust item in the tree under verification and
compares it with the hash recorded when the model was last validated against that source (lean/spans.json).

  tools/spans.py --record        rewrite lean/spans.json from $KV_REPO (default /repo)   [run after validating a model]
  tools/spans.py --diff          print JSON {"changed": [...], "missing": [...], "total": n}

A changed span is NOT an alarm: it means "the code this model definition mirrors was edited since the model was
validated" — the runner escalates the correspondence volume for the properties anchored in that file, so that a
generator that rarely reaches the changed branch gets more chances to reach it.
"""
import hashlib, json, os, re, sys

ROOT = os.path.dirname(os.path.dirname(os.path.abspath(__file__)))
REPO = os.path.abspath(os.environ.get("KV_REPO", "/repo"))
SRC = os.path.join(REPO, "crates", "kira", "src")
SPANS = os.path.join(ROOT, "lean", "spans.json")
TAG = re.compile(r"mirrors:\s*([^\n]*)")
ITEM = re.compile(r"([\w/]+\.rs)(?:::([A-Za-z_][\w]*(?:::[A-Za-z_][\w]*)*))?")


def model_tags():
    tags = set()
    base = os.path.join(ROOT, "lean", "KiraModel", "Model")
    for d, _, files in os.walk(base):
        for f in files:
            if f.endswith(".lean"):
                for m in TAG.finditer(open(os.path.join(d, f)).read()):
                    for it in ITEM.finditer(m.group(1)):
                        tags.add((it.group(1), it.group(2) or ""))
    return sorted(tags)


def find_file(rel):
    p = os.path.join(SRC, rel)
    if os.path.exists(p):
        return p
    base = os.path.basename(rel)
    hits = []
    for d, _, files in os.walk(SRC):
        if base in files:
            hits.append(os.path.join(d, base))
    # prefer the path whose tail matches rel
    for h in hits:
        if h.endswith(rel):
            return h
    return hits[0] if len(hits) == 1 else (sorted(hits, key=len)[0] if hits else None)


def strip_comments(src):
    src = re.sub(r"/\*.*?\*/", "", src, flags=re.S)
    return re.sub(r"//[^\n]*", "", src)


def body_from(src, start):
    """text from `start` to the matching close of the first `{` after it (or to `;`)"""
    i = start
    n = len(src)
    while i < n and src[i] not in "{;":
        i += 1
    if i >= n or src[i] == ";":
        return src[start:i + 1]
    depth = 0
    j = i
    while j < n:
        if src[j] == "{":
            depth += 1
        elif src[j] == "}":
            depth -= 1
            if depth == 0:
                return src[start:j + 1]
        j += 1
    return src[start:]


def span_text(path, item):
    src = strip_comments(open(path).read())
    if not item:
        return src
    segs = item.split("::")
    last = segs[-1]
    scope_start, scope_end = 0, len(src)
    # narrow to `impl … <Type>` / `struct` / `enum` when a type is named
    if len(segs) >= 2:
        ty = segs[-2]
        for m in re.finditer(r"(?m)^[ \t]*impl\b[^{;]*\b" + re.escape(ty) + r"\b[^{;]*\{", src):
            b = body_from(src, m.start())
            if re.search(r"\b(?:fn|const)\s+" + re.escape(last) + r"\b", b):
                scope_start, scope_end = m.start(), m.start() + len(b)
                break
    scope = src[scope_start:scope_end]
    pats = [r"\bfn\s+" + re.escape(last) + r"\b",
            r"\b(?:struct|enum|trait)\s+" + re.escape(last) + r"\b",
            r"(?m)^[ \t]*impl\b[^{;]*\b" + re.escape(last) + r"\b[^{;]*\{",
            r"\bconst\s+" + re.escape(last) + r"\b"]
    texts = []
    for pat in pats:
        ms = list(re.finditer(pat, scope))
        if ms:
            # all matches (e.g. several impl blocks for a type)
            for m in ms:
                texts.append(body_from(scope, m.start()))
            break
    if not texts:
        return None
    return "\n".join(texts)


def fingerprint():
    out = {}
    for rel, item in model_tags():
        key = rel + ("::" + item if item else "")
        p = find_file(rel)
        if not p:
            out[key] = None
            continue
        t = span_text(p, item)
        if t is None:
            out[key] = None
            continue
        norm = re.sub(r"\s+", " ", t).strip()
        out[key] = hashlib.sha1(norm.encode()).hexdigest()[:16]
    return out


def main():
    fp = fingerprint()
    if "--record" in sys.argv:
        json.dump(fp, open(SPANS, "w"), indent=1, sort_keys=True)
        print(f"recorded {len(fp)} spans ({sum(1 for v in fp.values() if v is None)} not located)")
        return 0
    rec = json.load(open(SPANS)) if os.path.exists(SPANS) else {}
    changed = sorted(k for k, v in fp.items() if k in rec and rec[k] is not None and v != rec[k])
    missing = sorted(k for k, v in fp.items() if v is None and rec.get(k) is not None)
    print(json.dumps({"changed": changed, "missing": missing, "total": len(fp)}))
    return 0


if __name__ == "__main__":
    sys.exit(main())
