#!/usr/bin/env python3
"""Run the seeded changes against their checks in N parallel copies of /verif (each a git worktree of the
committed HEAD with its own Lean build and harness cache, under /var/tmp/kvpar/<i>; removed afterwards), then
merge the verdicts into seeded/results.json and seeded/RESULTS.md.
usage: tools/par_mutants.py [-j N] [seeded-id ...]      (default: all, N = 4)
Nothing is run in /verif itself (its evidence files stay untouched) and nothing in /repo."""
import json, os, shutil, subprocess, sys
ROOT = os.path.dirname(os.path.dirname(os.path.abspath(__file__)))
args = sys.argv[1:]
N = 4
if args[:1] == ["-j"]:
    N = int(args[1]); args = args[2:]
sd = os.path.join(ROOT, "seeded")
ids = args or sorted(d for d in os.listdir(sd) if os.path.isdir(os.path.join(sd, d)) and not d.startswith("_"))
base = "/var/tmp/kvpar"
os.makedirs(base, exist_ok=True)
procs = []
for i in range(N):
    part = ids[i::N]
    if not part:
        continue
    w = os.path.join(base, str(i))
    subprocess.run(["git", "-C", ROOT, "worktree", "remove", "--force", w], stderr=subprocess.DEVNULL)
    shutil.rmtree(w, ignore_errors=True)
    subprocess.run(["git", "-C", ROOT, "worktree", "add", "-q", "--detach", w, "HEAD"], check=True)
    for rel in ("lean/.lake", "harness/target"):
        src = os.path.join(ROOT, rel)
        if os.path.isdir(src):
            subprocess.run(["cp", "-a", src, os.path.join(w, rel)], check=True)
    rp = os.path.join(w, "seeded", "results.json")
    if os.path.exists(rp):
        os.remove(rp)
    log = open(os.path.join(base, f"log{i}.txt"), "w")
    procs.append((w, subprocess.Popen([sys.executable, os.path.join(w, "tools", "run_all_mutants.py")] + part,
                                      stdout=log, stderr=subprocess.STDOUT, cwd=w)))
for w, p in procs:
    p.wait()
res_path = os.path.join(sd, "results.json")
results = json.load(open(res_path)) if os.path.exists(res_path) else {}
for w, _ in procs:
    rp = os.path.join(w, "seeded", "results.json")
    if os.path.exists(rp):
        results.update(json.load(open(rp)))
    subprocess.run(["git", "-C", ROOT, "worktree", "remove", "--force", w])
results = {k: v for k, v in results.items() if os.path.isdir(os.path.join(sd, k))}
json.dump(results, open(res_path, "w"), indent=1)
with open(os.path.join(sd, "RESULTS.md"), "w") as f:
    f.write("# Seeded changes and which check catches them\n\n"
            "Each directory holds `patch.diff` (the change), a demonstration that fails with it and passes without it, and\n"
            "`meta.json`. Every change compiles and passes kira's existing tests. Written by independent sub-agents that saw only\n"
            "the property text. Results below are produced by `tools/run_all_mutants.py` / `tools/par_mutants.py` (scratch worktree + `KV_REPO`).\n\n"
            "| seeded change | property | what | verdict of `./check <property>` |\n|---|---|---|---|\n")
    for mid in sorted(results):
        r = results[mid]
        f.write(f"| {mid} | {r['property']} | {r.get('what','')[:160]} | {r['verdict']} |\n")
from collections import Counter
print(Counter(r["verdict"] for r in results.values()))
for k, r in sorted(results.items()):
    if r["verdict"] == "MISSED" or "NOT APPLY" in r["verdict"]:
        print(k, "→", r["verdict"])
