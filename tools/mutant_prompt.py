#!/usr/bin/env python3
"""print the prompt for a fresh mutant-writing sub-agent: tools/mutant_prompt.py <ID> <worktree> [n]"""
import json, sys
pid, wt = sys.argv[1], sys.argv[2]
n = int(sys.argv[3]) if len(sys.argv) > 3 else 2
p = next(json.loads(l) for l in open('/verif/properties.jsonl') if json.loads(l)['id'] == pid)
print(f"""You are helping to evaluate a verification effort for the open-source Rust game-audio library kira (tesselode/kira). I need realistic *seeded defects*: small source changes that break one stated property of the library while the code still compiles and the library's existing test suite still passes.

You have your own scratch git worktree of the repository at {wt} (detached HEAD; the crate is in crates/kira). Work ONLY inside {wt}. There is no network; build with `cargo ... --offline`. Do not look at or use anything under /verif or /repo (you may not read them): work only from the property text below and the source in your worktree. (The tree contains a module `verif_hooks` and some lines marked `#[cfg(kira_verif)]`: ignore them, do not touch them, and do not rely on them.)

THE PROPERTY ({pid}: {p['title']}):
{p['statement']}
It is meant to hold {p['quantifier']['text']}.

TASK: produce {n} different changes to the library source (crates/kira/src/**), each of which
 (a) makes the library violate the property above for some inputs / histories / schedules,
 (b) still compiles (`cargo build -p kira --offline`, also with `--no-default-features --features wav`) and still passes the existing tests unchanged (`cargo test -p kira --offline` — all must pass; do not edit or add to the existing tests),
 (c) is *realistic*: the kind of slip a maintainer could make in a refactor or an optimisation (an off-by-one, a swapped order of two updates, a dropped reset, a wrong comparison at a boundary, a stale cached value, two sites that each look fine alone but no longer agree, …) — not a deliberately absurd edit, not a panic!()/todo!(), not something touching only comments, docs, tests, benches or examples,
 (d) needs something *specific* to manifest — a particular multi-step sequence of operations, an unusual but legal input (boundary value, zero duration, particular buffer size, value exactly at a threshold), a particular interleaving, or two cooperating sites — so that ordinary casual use would not expose it at once,
 (e) is small (a few lines) and touches only what it needs.
The {n} changes should differ in kind and location (do not submit two variants of the same slip).

For each change k = 1..{n} deliver, in {wt}/OUT/m<k>/ (create the directories):
 * patch.diff — `git diff` of the change against the worktree's HEAD (source files only);
 * a demonstration that FAILS with the change and PASSES without it: a self-contained Rust integration test file demo.rs that uses only kira's PUBLIC API (it will be copied to crates/kira/tests/demo.rs and run with `cargo test -p kira --offline --test demo`). If the property concerns a crate-private item you cannot reach through the public API, put the demonstration in a `#[cfg(test)] mod` appended to the relevant source file instead and deliver it as demo.diff (a separate git diff containing ONLY the demonstration), and say how to run it;
 * meta.json — {{"property": "{pid}", "what": "<one sentence: what was changed>", "breaks": "<which clause of the property fails and how>", "needs": "<what specific input/sequence/interleaving is needed to see it>", "files": ["..."], "ran": ["<commands you ran and their outcome: existing tests pass with the change; demo fails with it; demo passes without it>"]}}.

Procedure for each change: make the edit; run the existing tests (must all pass); write the demo; confirm it fails with the change; save patch.diff; `git stash` / `git checkout -- crates` to remove the change (keep OUT/ and the demo); confirm the demo passes on the unchanged source; restore nothing further — the worktree must end with the source unchanged (`git status` shows only OUT/ untracked) . Keep the build output inside the worktree (do not set a shared target dir).

Finish with a short report (≤ 15 lines): for each change one line saying what it is and which commands confirmed (b) and the fail/pass of the demo. If you cannot produce {n}, deliver as many as you can and say why.""")
