#!/bin/sh
# tools/try_mutant_suite.sh <patch.diff> <suite> [seed] [n] — apply a seeded change to a scratch worktree of /repo, build the
# harness against it and run ONE correspondence suite (generated ops → mutated kira vs the Lean twin): prints the number of
# mismatching trace lines, oracle failures and faults.  /repo is never touched.  (tools/try_mutant.sh runs whole checks.)
P=$(readlink -f "$1"); S=$2; SEED=${3:-1}; N=${4:-1500}
R=$(cd "$(dirname "$0")/.." && pwd)
W=/var/tmp/kv-mut.$$
git -C /repo worktree add -q --detach $W HEAD || exit 2
if ! git -C $W apply "$P"; then echo "PATCH-DOES-NOT-APPLY"; git -C /repo worktree remove --force $W; exit 2; fi
ALT=/var/tmp/kv-alt/$(printf "%s" "$W" | sha1sum | cut -c1-10)
mkdir -p $ALT/.cargo
sed -e "s#path = \"/repo/crates/kira\"#path = \"$W/crates/kira\"#" \
    -e "s#^\[workspace\]#[[bin]]\nname = \"kv-harness\"\npath = \"$R/harness/src/main.rs\"\n\n[workspace]#" $R/harness/Cargo.toml > $ALT/Cargo.toml
cp $R/harness/.cargo/config.toml $ALT/.cargo/config.toml
cp $R/harness/Cargo.lock $ALT/Cargo.lock
if ! (cd $ALT && cargo build --offline >/dev/null 2>$ALT/build.err); then echo "BUILD-FAILED"; tail -5 $ALT/build.err; else
  D=$(mktemp -d /var/tmp/kvmut.XXXXXX)
  $R/harness/target/debug/kv-harness gen $S $SEED $N quick | grep -v '^#' > $D/ops.txt
  $R/lean/.lake/build/bin/kira_twin $S < $D/ops.txt > $D/model.txt
  KV_TWIN_TRACE=$D/model.txt $ALT/target/debug/kv-harness run $S < $D/ops.txt > $D/impl_all.txt
  grep -v '^!' $D/impl_all.txt > $D/impl.txt
  paste -d'|' $D/ops.txt $D/impl.txt $D/model.txt | awk -F'|' '$2!=$3' > $D/diff.txt
  echo "$(basename $(dirname $P)) $S: mismatches=$(wc -l < $D/diff.txt) oracle=$(grep -c '^!oracle' $D/impl_all.txt) faults=$(grep -c '^fault' $D/impl.txt) oracles=[$(grep '^!oracle' $D/impl_all.txt | awk '{print $2}' | sort | uniq -c | tr '\n' ' ')] first=$(head -1 $D/diff.txt | cut -c1-60)"
  rm -rf $D
fi
git -C /repo worktree remove --force $W
rm -rf $ALT
