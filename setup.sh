#!/bin/sh
# Build the framework from files on disk only (offline). Run once after a fresh restore.
set -e
cd "$(dirname "$0")"
export CARGO_NET_OFFLINE=true
[ -f harness/Cargo.lock ] || cp /repo/Cargo.lock harness/Cargo.lock
(cd harness && cargo build --offline 2>&1 | tail -3)
[ -f tools/gen_lean.py ] && python3 tools/gen_lean.py
(cd lean && lake build KiraModel kira_twin 2>&1 | tail -3)
echo "setup done"
